(* Lemmas for C18: the static walk of Graph/Graph.v visits every position from which the engine model
   (Engine/Engine.v) can take a transition.

   Part 1  positions: tok_jumps / tok_choices list the jump tokens and the block choices at the positions
           the RENDERER can return something from; render_tok_positions (induction on token trees with
           token_ind') shows that whatever jump spec or DChoice directive the renderer returns sits there.
   Part 2  the walk: every such position contributes an edge to tok_edges (for any `isref` test).
   Part 3  passages: render_passage; the offered choices and the reported jump are edges of the graph.
   Part 4  navigation: every hop of a goto chain is a jump edge (ghost log: EvEnter events), hooks and
           "-> @join" choices enter no passage by navigation; the invariant "every offered choice is a
           choice the walk visits" holds in every reachable engine state; choose performs only hops
           that are edges.
   Part 5  missing = referenced and not defined; "@join" is never referenced. *)
From Coq Require Import String Ascii List Bool ZArith Arith Lia.
From Bardic Require Import PyStr Value Compiled Engine EngineBase EngineNav Graph.
Import ListNotations.
Local Open Scope string_scope.
Local Open Scope list_scope.

(* ---------------------------------------------------------------------------------------- *)
(* monad inversion helpers *)
Lemma bind_inv {A B} (m : M A) (f : A -> M B) s s' r :
  bind m f s = (s', r) ->
  (exists s1 a, m s = (s1, Ok a) /\ f a s1 = (s', r)) \/ (exists e, m s = (s', Exc e) /\ r = Exc e).
Proof.
  unfold bind. destruct (m s) as [s1 [a|e]]; intros H.
  - left. eauto.
  - right. inversion H; subst. eauto.
Qed.

Lemma bind_ok {A B} (m : M A) (f : A -> M B) s s' b :
  bind m f s = (s', Ok b) -> exists s1 a, m s = (s1, Ok a) /\ f a s1 = (s', Ok b).
Proof. intros H. apply bind_inv in H. destruct H as [H|[e [_ H]]]; [exact H|discriminate]. Qed.

Lemma catch_ok {A} (m : M A) (h : exn -> M A) s s' a :
  catch m h s = (s', Ok a) ->
  m s = (s', Ok a) \/ exists s1 e, m s = (s1, Exc e) /\ h e s1 = (s', Ok a).
Proof.
  unfold catch. destruct (m s) as [s1 [x|e]]; intros H.
  - left. exact H.
  - right. eauto.
Qed.

Lemma ret_ok {A} (a b : A) s s' : ret a s = (s', Ok b) -> s' = s /\ b = a.
Proof. unfold ret. intros H. inversion H; auto. Qed.

(* ---------------------------------------------------------------------------------------- *)
(* Part 1: positions *)
Definition flatl {A} (f : token -> list A) : list token -> list A :=
  fix go (l : list token) : list A := match l with [] => [] | t :: r => f t ++ go r end.

Definition br_jumps (f : token -> list (string * string)) : list branch -> list (string * string) :=
  fix go (l : list branch) := match l with [] => [] | Branch _ cont _ :: r => flatl f cont ++ go r end.

Definition br_choices (f : token -> list (choice * ekind)) : list branch -> list (choice * ekind) :=
  fix go (l : list branch) :=
    match l with
    | [] => []
    | Branch _ cont chs :: r => map (fun c => (c, KCond)) chs ++ flatl f cont ++ go r
    end.

(* (target, args) of the jump tokens at positions the renderer can return a jump from *)
Fixpoint tok_jumps (t : token) {struct t} : list (string * string) :=
  match t with
  | TJump tg a => [(tg, a)]
  | TCond brs => br_jumps tok_jumps brs
  | TLoop _ _ cont _ => flatl tok_jumps cont
  | _ => []
  end.

(* the block choices at positions the renderer can return a DChoice directive from *)
Fixpoint tok_choices (t : token) {struct t} : list (choice * ekind) :=
  match t with
  | TCond brs => br_choices tok_choices brs
  | TLoop _ _ cont chs => map (fun c => (c, KLoop)) chs ++ flatl tok_choices cont
  | _ => []
  end.

Definition content_jumps : list token -> list (string * string) := flatl tok_jumps.
Definition content_choices : list token -> list (choice * ekind) := flatl tok_choices.

Lemma flatl_in {A} (f : token -> list A) l x : In x (flatl f l) <-> exists t, In t l /\ In x (f t).
Proof.
  induction l as [|t l IH]; simpl.
  - split; [tauto|]. intros [t [[] _]].
  - rewrite in_app_iff, IH. split.
    + intros [H|[t' [H1 H2]]]; eauto.
    + intros [t' [[->|H1] H2]]; eauto.
Qed.

(* what a token renderer may return: jumps from J, choice directives from C *)
Definition ResOK (J : list (string * string)) (C : list (choice * ekind)) (m : M tok_out) : Prop :=
  forall s s' txt c ds, m s = (s', Ok (txt, c, ds)) ->
    (forall spec, c = CJump spec -> exists tg a, In (tg, a) J /\ spec = jump_spec tg a) /\
    (forall ch r, In (DChoice ch r) ds -> exists k, In (ch, k) C).

Definition SeqOK (J : list (string * string)) (C : list (choice * ekind)) (m : M seq_out) : Prop :=
  forall s s' txt j ds, m s = (s', Ok (txt, j, ds)) ->
    (forall spec, j = Some spec -> exists tg a, In (tg, a) J /\ spec = jump_spec tg a) /\
    (forall ch r, In (DChoice ch r) ds -> exists k, In (ch, k) C).

Lemma ResOK_mono J C J' C' m : incl J J' -> incl C C' -> ResOK J C m -> ResOK J' C' m.
Proof.
  intros HJ HC H s s' txt c ds E. destruct (H _ _ _ _ _ E) as [A B]. split.
  - intros spec Hc. destruct (A _ Hc) as (tg & a & Hin & Hs). eauto.
  - intros ch r Hin. destruct (B _ _ Hin) as [k Hk]. eauto.
Qed.

Lemma SeqOK_mono J C J' C' m : incl J J' -> incl C C' -> SeqOK J C m -> SeqOK J' C' m.
Proof.
  intros HJ HC H s s' txt c ds E. destruct (H _ _ _ _ _ E) as [A B]. split.
  - intros spec Hc. destruct (A _ Hc) as (tg & a & Hin & Hs). eauto.
  - intros ch r Hin. destruct (B _ _ Hin) as [k Hk]. eauto.
Qed.

(* a renderer that returns (_, CNext | CBreak, no choice directive) *)
Lemma ResOK_simple J C (m : M tok_out) :
  (forall s s' txt c ds, m s = (s', Ok (txt, c, ds)) ->
     (c = CNext \/ c = CBreak) /\ forall ch r, ~ In (DChoice ch r) ds) ->
  ResOK J C m.
Proof.
  intros H s s' txt c ds E. destruct (H _ _ _ _ _ E) as [Hc Hd]. split.
  - intros spec ->. destruct Hc; discriminate.
  - intros ch r Hin. exfalso. exact (Hd _ _ Hin).
Qed.

Section Render.
Variable orc : pyorc.
Variable ctxkeys : list string.

Lemma seqr_ok (f : token -> M tok_out) l :
  Forall (fun t => ResOK (tok_jumps t) (tok_choices t) (f t)) l ->
  SeqOK (flatl tok_jumps l) (flatl tok_choices l) (seqr f l).
Proof.
  induction 1 as [|t l Ht Hl IH]; simpl.
  - intros s s' txt j ds E. apply ret_ok in E. destruct E as [_ E]. inversion E; subst. split.
    + intros spec X; discriminate.
    + intros ch r [].
  - intros s s' txt j ds E. apply bind_ok in E. destruct E as (s1 & [[txt1 c1] ds1] & E1 & E2).
    destruct (Ht _ _ _ _ _ E1) as [A B]. destruct c1.
    + apply bind_ok in E2. destruct E2 as (s2 & [[txt2 j2] ds2] & E2 & E3).
      apply ret_ok in E3. destruct E3 as [_ E3]. inversion E3; subst.
      destruct (IH _ _ _ _ _ E2) as [A2 B2]. split.
      * intros spec Hs. destruct (A2 _ Hs) as (tg & a & Hin & Hsp). exists tg, a. split; [|exact Hsp].
        apply in_or_app. right. exact Hin.
      * intros ch r Hin. apply in_app_or in Hin. destruct Hin as [Hin|Hin].
        -- destruct (B _ _ Hin) as [k Hk]. exists k. apply in_or_app. left. exact Hk.
        -- destruct (B2 _ _ Hin) as [k Hk]. exists k. apply in_or_app. right. exact Hk.
    + apply ret_ok in E2. destruct E2 as [_ E2]. inversion E2; subst. split.
      * intros sp Hs. inversion Hs; subst. destruct (A _ eq_refl) as (tg & a & Hin & Hsp).
        exists tg, a. split; [apply in_or_app; left; exact Hin|exact Hsp].
      * intros ch r Hin. destruct (B _ _ Hin) as [k Hk]. exists k. apply in_or_app. left. exact Hk.
    + apply ret_ok in E2. destruct E2 as [_ E2]. inversion E2; subst. split.
      * intros sp Hs. discriminate.
      * intros ch r Hin. destruct (B _ _ Hin) as [k Hk]. exists k. apply in_or_app. left. exact Hk.
Qed.

Definition BrOK (f : token -> M tok_out) (b : branch) : Prop :=
  match b with Branch _ cont _ => Forall (fun t => ResOK (tok_jumps t) (tok_choices t) (f t)) cont end.

Lemma render_branches_ok f ctx brs :
  Forall (BrOK f) brs ->
  ResOK (br_jumps tok_jumps brs) (br_choices tok_choices brs) (render_branches orc f ctx brs).
Proof.
  induction 1 as [|b l Hb Hl IH]; simpl.
  - intros s s' txt c ds E. apply ret_ok in E. destruct E as [_ E]. inversion E; subst. split.
    + intros sp X; discriminate.
    + intros ch r [].
  - destruct b as [cond cont chs]. simpl in Hb.
    assert (Hrest : ResOK (flatl tok_jumps cont ++ br_jumps tok_jumps l)
                          (map (fun c => (c, KCond)) chs ++ flatl tok_choices cont ++ br_choices tok_choices l)
                          (render_branches orc f ctx l)).
    { eapply ResOK_mono; [| |exact IH].
      - apply incl_appr, incl_refl.
      - apply incl_appr, incl_appr, incl_refl. }
    destruct (o_eval orc ctx cond) as [v|e]; [|exact Hrest].
    destruct (truthy v); [|exact Hrest].
    intros s s' txt c ds E. apply bind_ok in E. destruct E as (s1 & [[txt1 j1] ds1] & E1 & E2).
    apply ret_ok in E2. destruct E2 as [_ E2]. inversion E2; subst.
    destruct (seqr_ok f cont Hb _ _ _ _ _ E1) as [A B]. split.
    + intros sp Hs. destruct j1 as [sp1|]; [|discriminate]. inversion Hs; subst.
      destruct (A _ eq_refl) as (tg & a & Hin & Hsp). exists tg, a. split; [|exact Hsp].
      apply in_or_app. left. exact Hin.
    + intros ch r Hin. apply in_app_or in Hin. destruct Hin as [Hin|Hin].
      * destruct (B _ _ Hin) as [k Hk]. exists k. apply in_or_app. right. apply in_or_app. left. exact Hk.
      * apply in_map_iff in Hin. destruct Hin as (c0 & Hc0 & Hin). inversion Hc0; subst.
        exists KCond. apply in_or_app. left. apply in_map_iff. eauto.
Qed.

Lemma render_loop_choices_in f chs s s' rs :
  render_loop_choices f chs s = (s', Ok rs) ->
  forall ch r, In (DChoice ch r) rs -> In ch chs.
Proof.
  revert s s' rs. induction chs as [|c l IH]; simpl; intros s s' rs E ch r Hin.
  - apply ret_ok in E. destruct E as [_ ->]. destruct Hin.
  - apply bind_ok in E. destruct E as (s1 & [[t j] d] & E1 & E2).
    apply bind_ok in E2. destruct E2 as (s2 & rs2 & E2 & E3).
    apply ret_ok in E3. destruct E3 as [_ ->]. destruct Hin as [Hin|Hin].
    + inversion Hin; subst. left. reflexivity.
    + right. eapply IH; eauto.
Qed.

Lemma render_loop_items_ok f vs cont chs items :
  Forall (fun t => ResOK (tok_jumps t) (tok_choices t) (f t)) cont ->
  ResOK (flatl tok_jumps cont) (map (fun c => (c, KLoop)) chs ++ flatl tok_choices cont)
        (render_loop_items f vs cont chs items).
Proof.
  intros Hc. induction items as [|it rest IH]; simpl.
  - intros s s' txt c ds E. apply ret_ok in E. destruct E as [_ E]. inversion E; subst. split.
    + intros sp X; discriminate.
    + intros ch r [].
  - intros s s' txt c ds E.
    apply bind_ok in E. destruct E as (s0 & st0 & E0 & E).
    destruct (loop_bind vs it (vars (nc st0))) as [v1 orig].
    apply bind_ok in E. destruct E as (s1 & [] & _ & E).
    apply bind_ok in E. destruct E as (s2 & [[txt1 j1] ds1] & E1 & E).
    apply bind_ok in E. destruct E as (s3 & chds & E2 & E).
    apply bind_ok in E. destruct E as (s4 & st4 & _ & E).
    apply bind_ok in E. destruct E as (s5 & [] & _ & E).
    destruct (seqr_ok f cont Hc _ _ _ _ _ E1) as [A B].
    assert (Hchds : forall ch r, In (DChoice ch r) chds ->
                      exists k, In (ch, k) (map (fun c => (c, KLoop)) chs ++ flatl tok_choices cont)).
    { intros ch r Hin. exists KLoop. apply in_or_app. left. apply in_map_iff. exists ch. split; [reflexivity|].
      eapply render_loop_choices_in; eauto. }
    assert (Hds1 : forall ch r, In (DChoice ch r) ds1 ->
                     exists k, In (ch, k) (map (fun c => (c, KLoop)) chs ++ flatl tok_choices cont)).
    { intros ch r Hin. destruct (B _ _ Hin) as [k Hk]. exists k. apply in_or_app. right. exact Hk. }
    destruct j1 as [sp1|].
    + apply ret_ok in E. destruct E as [_ E]. inversion E; subst. split.
      * intros sp Hs. inversion Hs; subst. exact (A _ eq_refl).
      * intros ch r Hin. apply in_app_or in Hin. destruct Hin; eauto.
    + apply bind_ok in E. destruct E as (s6 & [[txt2 c2] ds2] & E3 & E).
      apply ret_ok in E. destruct E as [_ E]. inversion E; subst.
      destruct (IH _ _ _ _ _ E3) as [A2 B2]. split.
      * exact A2.
      * intros ch r Hin. apply in_app_or in Hin. destruct Hin as [Hin|Hin]; [eauto|].
        apply in_app_or in Hin. destruct Hin; eauto.
Qed.

Lemma no_dchoice_nil : forall ch r, ~ In (DChoice ch r) [].
Proof. intros ch r []. Qed.

(* the core statement: induction on token trees *)
Lemma render_tok_positions t :
  ResOK (tok_jumps t) (tok_choices t) (render_tok orc ctxkeys t).
Proof.
  induction t using token_ind'; simpl.
  - (* text *) apply ResOK_simple. intros s s' txt c ds E. apply ret_ok in E. destruct E as [_ E].
    inversion E; subst. split; [left; reflexivity|apply no_dchoice_nil].
  - (* expression *) apply ResOK_simple. intros s s' txt c0 ds E.
    apply bind_ok in E. destruct E as (s1 & ctx & _ & E). apply ret_ok in E. destruct E as [_ E].
    inversion E; subst. split; [left; reflexivity|apply no_dchoice_nil].
  - (* inline conditional: the jump and the directives of its pieces are dropped *)
    apply ResOK_simple. intros s s' txt c0 ds E.
    apply bind_ok in E. destruct E as (s1 & ctx & _ & E).
    destruct (o_eval orc ctx c) as [b|e].
    + apply catch_ok in E. destruct E as [E|(s2 & e & _ & E)].
      * apply bind_ok in E. destruct E as (s2 & [[txt1 j1] ds1] & _ & E).
        apply ret_ok in E. destruct E as [_ E]. inversion E; subst.
        split; [left; reflexivity|apply no_dchoice_nil].
      * apply ret_ok in E. destruct E as [_ E]. inversion E; subst.
        split; [left; reflexivity|apply no_dchoice_nil].
    + apply ret_ok in E. destruct E as [_ E]. inversion E; subst.
      split; [left; reflexivity|apply no_dchoice_nil].
  - (* conditional *)
    intros s s' txt c ds E. apply bind_ok in E. destruct E as (s1 & ctx & Ec & E).
    assert (s1 = s) by (unfold ctx_now in Ec; inversion Ec; reflexivity). subst s1.
    eapply render_branches_ok; [|exact E].
    eapply Forall_impl; [|exact H]. intros [cond cont chs] [Hc _]. exact Hc.
  - (* loop *)
    destruct (String.eqb v "" || String.eqb c "").
    + apply ResOK_simple. intros s s' txt c0 ds E. apply ret_ok in E. destruct E as [_ E].
      inversion E; subst. split; [left; reflexivity|apply no_dchoice_nil].
    + intros s s' txt c0 ds E.
      apply bind_ok in E. destruct E as (s1 & ctx & _ & E).
      destruct (match o_eval orc ctx c with Ok c1 => py_iter c1 | Exc e => Exc e end) as [items|e].
      * eapply render_loop_items_ok; [|exact E]. exact H.
      * apply ret_ok in E. destruct E as [_ E]. inversion E; subst. split.
        -- intros sp X; discriminate.
        -- intros ch r [].
  - (* jump *)
    intros s s' txt c ds E. apply ret_ok in E. destruct E as [_ E]. inversion E; subst. split.
    + intros sp Hs. inversion Hs; subst. exists t, a. split; [left; reflexivity|reflexivity].
    + apply no_dchoice_nil || (intros ch r []).
  - (* statement *) apply ResOK_simple. intros s s' txt c0 ds E.
    apply bind_ok in E. destruct E as (s1 & [] & _ & E). apply ret_ok in E. destruct E as [_ E].
    inversion E; subst. split; [left; reflexivity|apply no_dchoice_nil].
  - (* block *) apply ResOK_simple. intros s s' txt c0 ds E.
    apply bind_ok in E. destruct E as (s1 & [] & _ & E). apply ret_ok in E. destruct E as [_ E].
    inversion E; subst. split; [left; reflexivity|apply no_dchoice_nil].
  - (* hook *) apply ResOK_simple. intros s s' txt c0 ds E.
    apply bind_ok in E. destruct E as (s1 & [] & _ & E). apply ret_ok in E. destruct E as [_ E].
    inversion E; subst. split; [left; reflexivity|apply no_dchoice_nil].
  - (* render directive *) apply ResOK_simple. intros s s' txt c0 ds E.
    apply bind_ok in E. destruct E as (s1 & ctx & _ & E). apply ret_ok in E. destruct E as [_ E].
    inversion E; subst. split; [left; reflexivity|]. intros ch r [X|[]]. discriminate.
  - (* input *) apply ResOK_simple. intros s s' txt c0 ds E. apply ret_ok in E. destruct E as [_ E].
    inversion E; subst. split; [left; reflexivity|]. intros ch r [X|[]]. discriminate.
  - (* join marker *) apply ResOK_simple. intros s s' txt c0 ds E. apply ret_ok in E. destruct E as [_ E].
    inversion E; subst. split; [right; reflexivity|apply no_dchoice_nil].
Qed.

Lemma render_content_positions l :
  SeqOK (content_jumps l) (content_choices l) (render_content orc ctxkeys l).
Proof.
  unfold render_content. apply seqr_ok. apply Forall_forall. intros t _. apply render_tok_positions.
Qed.

End Render.

(* ---------------------------------------------------------------------------------------- *)
(* Part 2: the walk visits exactly those positions (for any `isref` test) *)
Lemma flat_in f l x : In x (flat f l) <-> exists t, In t l /\ In x (f t).
Proof.
  induction l as [|t l IH]; simpl.
  - split; [tauto|]. intros [t [[] _]].
  - rewrite in_app_iff, IH. split.
    + intros [H|[t' [H1 H2]]]; eauto.
    + intros [t' [[->|H1] H2]]; eauto.
Qed.

Lemma br_jumps_in f brs x :
  In x (br_jumps f brs) <-> exists cond cont chs, In (Branch cond cont chs) brs /\ In x (flatl f cont).
Proof.
  induction brs as [|[cond cont chs] l IH]; simpl.
  - split; [tauto|]. intros (? & ? & ? & [] & _).
  - rewrite in_app_iff, IH. split.
    + intros [H|(c1 & c2 & c3 & H1 & H2)]; [exists cond, cont, chs; auto|exists c1, c2, c3; auto].
    + intros (c1 & c2 & c3 & [E|H1] & H2); [inversion E; subst; auto|right; exists c1, c2, c3; auto].
Qed.

Lemma br_choices_in f brs x :
  In x (br_choices f brs) <->
  exists cond cont chs, In (Branch cond cont chs) brs /\
    (In x (map (fun c => (c, KCond)) chs) \/ In x (flatl f cont)).
Proof.
  induction brs as [|[cond cont chs] l IH]; simpl.
  - split; [tauto|]. intros (? & ? & ? & [] & _).
  - rewrite !in_app_iff, IH. split.
    + intros [H|[H|(c1 & c2 & c3 & H1 & H2)]].
      * exists cond, cont, chs. auto.
      * exists cond, cont, chs. auto.
      * exists c1, c2, c3. auto.
    + intros (c1 & c2 & c3 & [E|H1] & H2).
      * inversion E; subst. tauto.
      * right. right. exists c1, c2, c3. auto.
Qed.

Section WalkLemmas.
Variable isref : string -> bool.

Lemma choice_edges_in k chs e :
  In e (choice_edges isref k chs) <->
  exists c, In c chs /\ e = (ch_target c, k) /\ isref (ch_target c) = true.
Proof.
  induction chs as [|c l IH]; simpl.
  - split; [tauto|]. intros (c & [] & _).
  - destruct (isref (ch_target c)) eqn:R; simpl; rewrite IH; split.
    + intros [<-|(c0 & H1 & H2 & H3)]; [exists c; auto|exists c0; auto].
    + intros (c0 & [->|H1] & H2 & H3); [left; auto|right; eauto].
    + intros (c0 & H1 & H2 & H3). exists c0; auto.
    + intros (c0 & [->|H1] & H2 & H3); [congruence|eauto].
Qed.

Lemma branch_edges_in f brs x :
  In x (branch_edges isref f brs) <->
  exists cond cont chs, In (Branch cond cont chs) brs /\ (In x (choice_edges isref KCond chs) \/ In x (flat f cont)).
Proof.
  induction brs as [|[cond cont chs] l IH]; simpl.
  - split; [tauto|]. intros (? & ? & ? & [] & _).
  - rewrite !in_app_iff, IH. split.
    + intros [H|[H|(c1 & c2 & c3 & H1 & H2)]].
      * exists cond, cont, chs. auto.
      * exists cond, cont, chs. auto.
      * exists c1, c2, c3. auto.
    + intros (c1 & c2 & c3 & [E|H1] & H2).
      * inversion E; subst. tauto.
      * right. right. exists c1, c2, c3. auto.
Qed.

(* e is an edge contributed by the positions (J, C) *)
Definition pos_edge (J : list (string * string)) (C : list (choice * ekind)) (e : string * ekind) : Prop :=
  isref (fst e) = true /\
  ((snd e = KJump /\ exists a, In (fst e, a) J) \/ (exists c, In (c, snd e) C /\ ch_target c = fst e)).

Lemma tok_edges_spec t : forall xe, In xe (tok_edges isref t) <-> pos_edge (tok_jumps t) (tok_choices t) xe.
Proof.
  induction t using token_ind'; intros xe; simpl;
    try (split; [tauto|]; intros (_ & [(_ & a0 & [])|(c0 & [] & _)])).
  - (* conditional *)
    rewrite branch_edges_in. unfold pos_edge. split.
    + intros (cond & cont & chs & Hb & [Hc|Hf]).
      * apply choice_edges_in in Hc. destruct Hc as (c & Hc & -> & R). simpl. split; [exact R|].
        right. exists c. split; [|reflexivity]. apply br_choices_in. exists cond, cont, chs. split; [exact Hb|].
        left. apply in_map_iff. eauto.
      * apply flat_in in Hf. destruct Hf as (t & Ht & He).
        rewrite Forall_forall in H. specialize (H _ Hb). simpl in H. destruct H as [Hcont _].
        unfold PL in Hcont. rewrite Forall_forall in Hcont. apply (Hcont _ Ht) in He.
        destruct He as (R & [(Hk & a & Ha)|(c & Hc & Htg)]); split; auto.
        -- left. split; [exact Hk|]. exists a. apply br_jumps_in. exists cond, cont, chs. split; [exact Hb|].
           apply flatl_in. eauto.
        -- right. exists c. split; [|exact Htg]. apply br_choices_in. exists cond, cont, chs. split; [exact Hb|].
           right. apply flatl_in. eauto.
    + intros (R & [(Hk & a & Ha)|(c & Hc & Htg)]).
      * apply br_jumps_in in Ha. destruct Ha as (cond & cont & chs & Hb & Ha).
        exists cond, cont, chs. split; [exact Hb|]. right. apply flatl_in in Ha. destruct Ha as (t & Ht & Ha).
        apply flat_in. exists t. split; [exact Ht|].
        rewrite Forall_forall in H. specialize (H _ Hb). simpl in H. destruct H as [Hcont _].
        unfold PL in Hcont. rewrite Forall_forall in Hcont. apply (Hcont _ Ht).
        split; [exact R|]. left. split; [exact Hk|]. eauto.
      * apply br_choices_in in Hc. destruct Hc as (cond & cont & chs & Hb & [Hc|Hc]).
        -- exists cond, cont, chs. split; [exact Hb|]. left. apply in_map_iff in Hc.
           destruct Hc as (c1 & E & Hc1). destruct xe as [tg0 k0]; simpl in *. inversion E; subst.
           apply choice_edges_in. exists c. auto.
        -- exists cond, cont, chs. split; [exact Hb|]. right. apply flatl_in in Hc. destruct Hc as (t & Ht & Hc).
           apply flat_in. exists t. split; [exact Ht|].
           rewrite Forall_forall in H. specialize (H _ Hb). simpl in H. destruct H as [Hcont _].
           unfold PL in Hcont. rewrite Forall_forall in Hcont. apply (Hcont _ Ht).
           split; [exact R|]. right. eauto.
  - (* loop *)
    rewrite in_app_iff. unfold pos_edge. unfold PL in H. rewrite Forall_forall in H. split.
    + intros [Hc|Hf].
      * apply choice_edges_in in Hc. destruct Hc as (c1 & Hc & -> & R). simpl. split; [exact R|].
        right. exists c1. split; [|reflexivity]. apply in_or_app. left. apply in_map_iff. eauto.
      * apply flat_in in Hf. destruct Hf as (t & Ht & He). apply (H _ Ht) in He.
        destruct He as (R & [(Hk & a & Ha)|(c1 & Hc & Htg)]); split; auto.
        -- left. split; [exact Hk|]. exists a. apply flatl_in. eauto.
        -- right. exists c1. split; [|exact Htg]. apply in_or_app. right. apply flatl_in. eauto.
    + intros (R & [(Hk & a & Ha)|(c1 & Hc & Htg)]).
      * right. apply flatl_in in Ha. destruct Ha as (t & Ht & Ha). apply flat_in. exists t. split; [exact Ht|].
        apply (H _ Ht). split; [exact R|]. left. split; [exact Hk|]. eauto.
      * apply in_app_or in Hc. destruct Hc as [Hc|Hc].
        -- left. apply in_map_iff in Hc. destruct Hc as (c2 & E & Hc2). destruct xe as [tg0 k0]; simpl in *.
           inversion E; subst. apply choice_edges_in. exists c1. auto.
        -- right. apply flatl_in in Hc. destruct Hc as (t & Ht & Hc). apply flat_in. exists t. split; [exact Ht|].
           apply (H _ Ht). split; [exact R|]. right. eauto.
  - (* jump *)
    unfold pos_edge. destruct (isref t) eqn:R; simpl; split.
    + intros [<-|[]]. simpl. split; [exact R|]. left. split; [reflexivity|]. exists a. left. reflexivity.
    + intros (R' & [(Hk & a' & [E|[]])|(c & [] & _)]). inversion E. left. destruct xe; simpl in *. congruence.
    + tauto.
    + intros (R' & [(Hk & a' & [E|[]])|(c & [] & _)]). inversion E. congruence.
Qed.

Lemma content_edges_spec l e :
  In e (content_edges isref l) <-> pos_edge (content_jumps l) (content_choices l) e.
Proof.
  unfold content_edges, content_jumps, content_choices. rewrite flat_in. unfold pos_edge. split.
  - intros (t & Ht & He). apply tok_edges_spec in He. destruct He as (R & [(Hk & a & Ha)|(c & Hc & Htg)]); split; auto.
    + left. split; [exact Hk|]. exists a. apply flatl_in. eauto.
    + right. exists c. split; [|exact Htg]. apply flatl_in. eauto.
  - intros (R & [(Hk & a & Ha)|(c & Hc & Htg)]).
    + apply flatl_in in Ha. destruct Ha as (t & Ht & Ha). exists t. split; [exact Ht|].
      apply tok_edges_spec. split; [exact R|]. left. eauto.
    + apply flatl_in in Hc. destruct Hc as (t & Ht & Hc). exists t. split; [exact Ht|].
      apply tok_edges_spec. split; [exact R|]. right. eauto.
Qed.

(* the choices of a passage the walk visits: its own, and those in branches / loops of its content *)
Definition passage_choice (p : passage) (c : choice) (k : ekind) : Prop :=
  (In c (choices p) /\ k = KChoice) \/ In (c, k) (content_choices (content p)).
Definition passage_jump (p : passage) (tg a : string) : Prop := In (tg, a) (content_jumps (content p)).

Lemma passage_edges_spec p e :
  In e (passage_edges isref p) <->
  isref (fst e) = true /\
  ((snd e = KJump /\ exists a, passage_jump p (fst e) a) \/
   (exists c, passage_choice p c (snd e) /\ ch_target c = fst e)).
Proof.
  unfold passage_edges, passage_choice, passage_jump. rewrite in_app_iff, choice_edges_in, content_edges_spec.
  unfold pos_edge. split.
  - intros [(c & Hc & -> & R)|(R & [HJ|(c & Hc & Htg)])]; simpl.
    + split; [exact R|]. right. exists c. auto.
    + split; [exact R|]. left. exact HJ.
    + split; [exact R|]. right. exists c. auto.
  - intros (R & [HJ|(c & [[Hc Hk]|Hc] & Htg)]).
    + right. split; [exact R|]. left. exact HJ.
    + left. exists c. destruct e; simpl in *. subst. auto.
    + right. split; [exact R|]. right. eauto.
Qed.

End WalkLemmas.

Lemma tok_choices_not_jump t : forall c k, In (c, k) (tok_choices t) -> is_jump k = false.
Proof.
  induction t using token_ind'; simpl; intros c0 k Hin; try contradiction.
  - apply br_choices_in in Hin. destruct Hin as (cond & cont & chs & Hb & [Hc|Hc]).
    + apply in_map_iff in Hc. destruct Hc as (c1 & E & _). inversion E. reflexivity.
    + apply flatl_in in Hc. destruct Hc as (t & Ht & Hc).
      rewrite Forall_forall in H. specialize (H _ Hb). simpl in H. destruct H as [Hcont _].
      unfold PL in Hcont. rewrite Forall_forall in Hcont. eapply Hcont; eauto.
  - apply in_app_or in Hin. destruct Hin as [Hc|Hc].
    + apply in_map_iff in Hc. destruct Hc as (c1 & E & _). inversion E. reflexivity.
    + apply flatl_in in Hc. destruct Hc as (t & Ht & Hc).
      unfold PL in H. rewrite Forall_forall in H. eapply H; eauto.
Qed.

Lemma passage_choice_not_jump p c k : passage_choice p c k -> is_jump k = false.
Proof.
  intros [[_ ->]|H]; [reflexivity|].
  unfold content_choices in H. apply flatl_in in H. destruct H as (t & _ & H).
  eapply tok_choices_not_jump; eauto.
Qed.


(* ---------------------------------------------------------------------------------------- *)
(* Part 3: passages and the edges of a story *)
Lemma lookup_in {A} k (l : list (string * A)) v : lookup k l = Some v -> In (k, v) l.
Proof.
  induction l as [|[k' v'] l IH]; simpl; [discriminate|].
  destruct (String.eqb k k') eqn:E.
  - apply String.eqb_eq in E. subst. intros H; inversion H; subst. left. reflexivity.
  - intros H. right. apply IH. exact H.
Qed.

Lemma get_passage_in st pid p : get_passage st pid = Some p -> In (pid, p) (passages st).
Proof. apply lookup_in. Qed.

Lemma edges_with_in isref st src tg k :
  In (src, tg, k) (edges_of (connections_with isref st)) <->
  exists p, In (src, p) (passages st) /\ In (tg, k) (passage_edges isref p).
Proof.
  unfold edges_of, connections_with. rewrite in_flat_map. split.
  - intros ([pid es] & Hin & Hx). apply in_map_iff in Hin. destruct Hin as ([pid' p] & E & Hin).
    simpl in *. inversion E; subst. apply in_map_iff in Hx. destruct Hx as ([tg' k'] & E' & Hx).
    simpl in *. inversion E'; subst. eauto.
  - intros (p & Hin & Hx). exists (src, passage_edges isref p). split.
    + apply in_map_iff. exists (src, p). auto.
    + simpl. apply in_map_iff. exists (tg, k). auto.
Qed.

Lemma edges_in st src tg k :
  In (src, tg, k) (edges st) <-> exists p, In (src, p) (passages st) /\ In (tg, k) (passage_edges is_ref p).
Proof. apply edges_with_in. Qed.

Lemma referenced_of_in conns t :
  In t (referenced_of conns) <-> exists src k, In (src, t, k) (edges_of conns).
Proof.
  unfold referenced_of, edges_of. rewrite in_flat_map. split.
  - intros ([pid es] & Hin & Hx). simpl in Hx. apply in_map_iff in Hx. destruct Hx as ([tg k] & E & Hx).
    simpl in E. subst. exists pid, k. apply in_flat_map. exists (pid, es). split; [exact Hin|].
    simpl. apply in_map_iff. exists (t, k). auto.
  - intros (src & k & H). apply in_flat_map in H. destruct H as ([pid es] & Hin & Hx). simpl in Hx.
    apply in_map_iff in Hx. destruct Hx as ([tg' k'] & E & Hx). simpl in E. inversion E; subst.
    exists (src, es). split; [exact Hin|]. simpl. apply in_map_iff. exists (t, k). auto.
Qed.

Lemma str_in_In x l : str_in x l = true <-> In x l.
Proof.
  induction l as [|y l IH]; simpl; [split; [discriminate|tauto]|].
  rewrite orb_true_iff, IH, String.eqb_eq. split; intros [H|H]; auto.
Qed.

Lemma missing_of_in refd defd t : In t (missing_of refd defd) <-> In t refd /\ ~ In t defd.
Proof.
  unfold missing_of. rewrite filter_In, negb_true_iff. split; intros [A B]; split; auto.
  - intros H. apply str_in_In in H. congruence.
  - destruct (str_in t defd) eqn:E; [|reflexivity]. apply str_in_In in E. contradiction.
Qed.

Lemma split_dirs_in ds : forall cds ins rds c t,
  split_dirs ds = (cds, ins, rds) -> In (c, t) cds -> In (DChoice c t) ds.
Proof.
  induction ds as [|d r IH]; simpl; intros cds ins rds c t E Hin.
  - inversion E; subst. destruct Hin.
  - destruct (split_dirs r) as [[cs0 ins0] rs0] eqn:Er. destruct d; inversion E; subst.
    + destruct Hin as [Hin|Hin]; [inversion Hin; subst; left; reflexivity|right; eapply IH; eauto].
    + right. eapply IH; eauto.
    + right. eapply IH; eauto.
Qed.

Section Passage.
Variable orc : pyorc.
Variable ctxkeys : list string.
Variable st : story.

Lemma filter_choices_in cands sec : forall s s' rs,
  filter_choices orc ctxkeys cands sec s = (s', Ok rs) ->
  forall rc, In rc rs -> exists dt fd, In (rc_choice rc, dt, fd) cands.
Proof.
  induction cands as [|[[c dt] fd] r IH]; simpl; intros s s' rs E rc Hin.
  - apply ret_ok in E. destruct E as [_ ->]. destruct Hin.
  - apply bind_ok in E. destruct E as (s1 & av & _ & E).
    destruct (av && Nat.eqb (dir_section c fd) sec).
    + apply bind_ok in E. destruct E as (s2 & t & _ & E).
      apply bind_ok in E. destruct E as (s3 & rs' & E1 & E).
      apply ret_ok in E. destruct E as [_ ->]. destruct Hin as [<-|Hin].
      * simpl. exists dt, fd. left. reflexivity.
      * destruct (IH _ _ _ E1 _ Hin) as (dt' & fd' & H). exists dt', fd'. right. exact H.
    + destruct (IH _ _ _ E _ Hin) as (dt' & fd' & H). exists dt', fd'. right. exact H.
Qed.

(* whatever render_passage reports sits at a position of the passage the walk visits *)
Lemma render_passage_positions pid s s' o :
  render_passage orc ctxkeys st pid s = (s', Ok o) ->
  exists p, get_passage st pid = Some p /\ o_pid o = pid /\
    (forall spec, o_jump o = Some spec -> exists tg a, passage_jump p tg a /\ spec = jump_spec tg a) /\
    (forall rc, In rc (o_choices o) -> exists k, passage_choice p (rc_choice rc) k).
Proof.
  unfold render_passage. destruct (get_passage st pid) as [p|]; [|discriminate].
  intros E. exists p. split; [reflexivity|].
  apply bind_ok in E. destruct E as (s1 & [] & _ & E).
  apply bind_ok in E. destruct E as (s2 & [[txt j] ds] & Er & E).
  destruct (split_dirs ds) as [[cds ins] rds] eqn:Es.
  apply bind_ok in E. destruct E as (s3 & s3' & _ & E).
  apply bind_ok in E. destruct E as (s4 & chs & Ef & E).
  apply ret_ok in E. destruct E as [_ ->]. simpl.
  destruct (render_content_positions orc ctxkeys (content p) _ _ _ _ _ Er) as [A B].
  split; [reflexivity|]. split.
  - intros spec ->. destruct (A _ eq_refl) as (tg & a & Hin & Hs). exists tg, a. split; assumption.
  - intros rc Hin. destruct (filter_choices_in _ _ _ _ _ Ef _ Hin) as (dt & fd & Hc).
    apply in_app_or in Hc. destruct Hc as [Hc|Hc].
    + apply in_map_iff in Hc. destruct Hc as (c & E & Hc). inversion E; subst.
      exists KChoice. left. auto.
    + apply in_map_iff in Hc. destruct Hc as ([c t] & E & Hc). simpl in E. inversion E; subst.
      apply (split_dirs_in _ _ _ _ _ _ Es) in Hc. destruct (B _ _ Hc) as [k Hk].
      exists k. right. exact Hk.
Qed.

(* ... hence is an edge of the graph *)
Lemma passage_jump_edge p pid tg a :
  get_passage st pid = Some p -> passage_jump p tg a -> is_ref tg = true -> In (pid, tg, KJump) (edges st).
Proof.
  intros Hp Hj R. apply edges_in. exists p. split; [apply get_passage_in; exact Hp|].
  apply passage_edges_spec. simpl. split; [exact R|]. left. split; [reflexivity|]. exists a. exact Hj.
Qed.

Lemma passage_choice_edge p pid c k :
  get_passage st pid = Some p -> passage_choice p c k -> is_ref (ch_target c) = true ->
  In (pid, ch_target c, k) (edges st) /\ is_jump k = false.
Proof.
  intros Hp Hc R. split; [|eapply passage_choice_not_jump; eauto].
  apply edges_in. exists p. split; [apply get_passage_in; exact Hp|].
  apply passage_edges_spec. simpl. split; [exact R|]. right. exists c. split; [exact Hc|reflexivity].
Qed.

Lemma render_passage_covered pid s s' o :
  render_passage orc ctxkeys st pid s = (s', Ok o) ->
  (forall spec, o_jump o = Some spec ->
     exists tg a, spec = jump_spec tg a /\ (is_ref tg = true -> In (pid, tg, KJump) (edges st))) /\
  (forall rc, In rc (o_choices o) -> is_ref (ch_target (rc_choice rc)) = true ->
     exists k, is_jump k = false /\ In (pid, ch_target (rc_choice rc), k) (edges st)).
Proof.
  intros E. destruct (render_passage_positions _ _ _ _ E) as (p & Hp & _ & A & B). split.
  - intros spec Hs. destruct (A _ Hs) as (tg & a & Hj & ->). exists tg, a. split; [reflexivity|].
    intros R. eapply passage_jump_edge; eauto.
  - intros rc Hin R. destruct (B _ Hin) as [k Hk]. exists k.
    destruct (passage_choice_edge _ _ _ _ Hp Hk R). auto.
Qed.

End Passage.

(* ---------------------------------------------------------------------------------------- *)
(* Part 4: navigation *)

(* the passage a spec "Name(args)" names: the text before the first "(" *)
Definition spec_name (spec : string) : string :=
  match find_char spec "("%char with None => spec | Some i => take i spec end.

Lemma parse_spec_name spec pid args : parse_spec spec = Ok (pid, args) -> pid = spec_name spec.
Proof.
  unfold parse_spec, spec_name. destruct (find_char spec "(") as [i|].
  - destruct (match_paren (drop (S i) spec) 0 ""); intros H; inversion H; reflexivity.
  - intros H; inversion H; reflexivity.
Qed.

Lemma find_char_from_app tg c r : forall i,
  find_char_from tg c i = None -> find_char_from (tg ++ String c r) c i = Some (i + String.length tg).
Proof.
  induction tg as [|a tg IH]; simpl; intros i H.
  - unfold ascii_eqb. rewrite Ascii.eqb_refl. f_equal. lia.
  - destruct (ascii_eqb a c); [discriminate|]. rewrite IH by exact H. f_equal. lia.
Qed.

Lemma take_app tg r : take (String.length tg) (tg ++ r) = tg.
Proof. induction tg as [|a tg IH]; simpl; [reflexivity|]. rewrite IH. reflexivity. Qed.

Lemma spec_name_jump_spec tg a : plain tg = true -> spec_name (jump_spec tg a) = tg.
Proof.
  unfold plain, jump_spec, spec_name, find_char. intros H.
  destruct (find_char_from tg "(" 0) eqn:E; [discriminate|].
  destruct (String.eqb a "").
  - unfold find_char. rewrite E. reflexivity.
  - change (tg ++ "(" ++ a ++ ")")%string with (tg ++ String "("%char (a ++ ")"))%string.
    rewrite (find_char_from_app _ _ _ _ E). simpl. apply take_app.
Qed.

Lemma not_ref_plain t : is_ref t = false -> plain t = true.
Proof.
  unfold is_ref. intros H. apply andb_false_iff in H. destruct H as [H|H]; apply negb_false_iff in H;
    apply String.eqb_eq in H; subst; reflexivity.
Qed.

Lemma wf_defined st q p : wf_graphb st = true -> get_passage st q = Some p -> is_ref q = true.
Proof.
  unfold wf_graphb. intros H Hp. apply andb_true_iff in H. destruct H as [_ H].
  rewrite forallb_forall in H. apply H. unfold defined. apply in_map_iff. exists (q, p).
  split; [reflexivity|]. apply get_passage_in. exact Hp.
Qed.

Lemma wf_edge_plain st src t k : wf_graphb st = true -> In (src, t, k) (edges st) -> plain t = true.
Proof.
  unfold wf_graphb. intros H Hin. apply andb_true_iff in H. destruct H as [H _].
  rewrite forallb_forall in H. apply H. unfold referenced. apply referenced_of_in. eauto.
Qed.

Lemma wf_jump_plain st pid p tg a :
  wf_graphb st = true -> get_passage st pid = Some p -> passage_jump p tg a -> plain tg = true.
Proof.
  intros W Hp Hj. destruct (is_ref tg) eqn:R; [|apply not_ref_plain; exact R].
  eapply wf_edge_plain; [exact W|]. eapply passage_jump_edge; eauto.
Qed.

Lemma wf_choice_plain st pid p c k :
  wf_graphb st = true -> get_passage st pid = Some p -> passage_choice p c k -> plain (ch_target c) = true.
Proof.
  intros W Hp Hc. destruct (is_ref (ch_target c)) eqn:R; [|apply not_ref_plain; exact R].
  eapply wf_edge_plain; [exact W|]. eapply passage_choice_edge; eauto.
Qed.

(* ---- the ghost log ---- *)
Definition entered (l : list event) : list string :=
  flat_map (fun e => match e with EvEnter p => [p] | _ => [] end) l.

Definition not_hookrun (e : event) : Prop := match e with EvHookRun _ => False | _ => True end.

(* passages entered by navigation: the EvEnter events before the first hook run (hooks run after the
   navigation of a turn has completed) *)
Fixpoint nav_entered (l : list event) : list string :=
  match l with
  | [] => []
  | EvHookRun _ :: _ => []
  | EvEnter p :: r => p :: nav_entered r
  | _ :: r => nav_entered r
  end.

Definition hook_log (l : list event) : Prop := l = [] \/ exists h r, l = EvHookRun h :: r.

Lemma entered_app l1 l2 : entered (l1 ++ l2) = entered l1 ++ entered l2.
Proof. unfold entered. apply flat_map_app. Qed.

Lemma entered_low l : Forall low_event l -> entered l = [].
Proof. induction 1 as [|e l He Hl IH]; simpl; [reflexivity|]. destruct e; simpl in *; auto; contradiction. Qed.

Lemma low_not_hookrun l : Forall low_event l -> Forall not_hookrun l.
Proof. apply Forall_impl. intros e; destruct e; simpl; auto. Qed.

Lemma nav_entered_app l1 l2 : Forall not_hookrun l1 -> nav_entered (l1 ++ l2) = entered l1 ++ nav_entered l2.
Proof.
  induction 1 as [|e l He Hl IH]; simpl; [reflexivity|].
  destruct e; simpl in *; try exact IH; [f_equal; exact IH|contradiction].
Qed.

Lemma nav_entered_hook_log l : hook_log l -> nav_entered l = [].
Proof. intros [->|(h & r & ->)]; reflexivity. Qed.

(* ---- paths in the graph ---- *)
Fixpoint jump_path (st : story) (p : string) (l : list string) : Prop :=
  match l with
  | [] => True
  | q :: r => In (p, q, KJump) (edges st) /\ jump_path st q r
  end.

(* the passages entered by one goto: nothing (it failed before entering), or the named passage followed
   by a chain in which every hop is a jump edge *)
Definition path_from (st : story) (name : string) (ents : list string) : Prop :=
  ents = [] \/ exists rest, ents = name :: rest /\ (exists p, get_passage st name = Some p) /\ jump_path st name rest.

(* the passages entered by one choose: nothing (a "-> @join" choice, or a failure before entering), or the
   choice's target reached by a choice edge followed by a chain of jump edges *)
Definition choose_path (st : story) (src tgt : string) (ents : list string) : Prop :=
  ents = [] \/ exists rest k, ents = tgt :: rest /\ is_jump k = false /\ In (src, tgt, k) (edges st) /\
                              jump_path st tgt rest.

(* every offered choice is a choice of the shown passage that the walk visits *)
Definition offered_ok (st : story) (o : output) : Prop :=
  forall rc, In rc (o_choices o) ->
    exists p k, get_passage st (o_pid o) = Some p /\ passage_choice p (rc_choice rc) k.

Definition core_ok (st : story) (c : core) : Prop := forall o, out c = Some o -> offered_ok st o.
Definition OutOK (st : story) (s : nstate) : Prop := core_ok st (nc s).

(* ---- "the cached output is not touched" ---- *)
Definition KeepOut {A} (m : M A) : Prop := forall s s' r, m s = (s', r) -> out (nc s') = out (nc s).

Lemma KeepOut_ret {A} (a : A) : KeepOut (ret a).
Proof. intros s s' r H. inversion H; reflexivity. Qed.
Lemma KeepOut_raise {A} e : KeepOut (@raise A e).
Proof. intros s s' r H. inversion H; reflexivity. Qed.
Lemma KeepOut_get : KeepOut get.
Proof. intros s s' r H. inversion H; reflexivity. Qed.
Lemma KeepOut_emit e : KeepOut (emit e).
Proof. intros s s' r H. inversion H; reflexivity. Qed.
Lemma KeepOut_bind {A B} (m : M A) (f : A -> M B) : KeepOut m -> (forall a, KeepOut (f a)) -> KeepOut (bind m f).
Proof.
  intros Hm Hf s s' r H. apply bind_inv in H. destruct H as [(s1 & a & E1 & E2)|(e & E1 & _)].
  - rewrite (Hf _ _ _ _ E2). eapply Hm; eauto.
  - eapply Hm; eauto.
Qed.
Lemma FrameM_KeepOut {A} (m : M A) : FrameM m -> KeepOut m.
Proof. intros H s s' r E. apply H in E. destruct E. assumption. Qed.

Section Nav.
Variable orc : pyorc.
Variable ctxkeys : list string.
Variable st : story.
Hypothesis W : wf_graphb st = true.

Lemma execute_passage_spec pid s s' r :
  execute_passage orc ctxkeys st pid s = (s', r) ->
  out (nc s') = out (nc s) /\
  ((get_passage st pid = None /\ log s' = log s) \/
   (exists p l, get_passage st pid = Some p /\ log s' = log s ++ EvEnter pid :: l /\ Forall low_event l)).
Proof.
  unfold execute_passage. destruct (get_passage st pid) as [p|].
  - intros H. unfold bind, emit in H.
    destruct (exec_commands orc ctxkeys (execute p) _) as [s1 r1] eqn:E. inversion H; subst.
    apply FrameM_exec_commands in E. destruct E as [_ _ _ _ Ho _ [l [Hl Hlow]]]. simpl in *.
    split; [exact Ho|]. right. exists p, l. split; [reflexivity|]. split; [|exact Hlow].
    rewrite Hl, <- app_assoc. reflexivity.
  - intros H. inversion H; subst. split; [reflexivity|]. left. auto.
Qed.

Lemma render_passage_spec pid s s' r :
  render_passage orc ctxkeys st pid s = (s', r) ->
  out (nc s') = out (nc s) /\ exists l, log s' = log s ++ l /\ Forall low_event l.
Proof.
  intros H. apply FrameM_render_passage in H. destruct H as [_ _ _ _ Ho _ Hl]. auto.
Qed.

Lemma render_passage_offered pid s s' o :
  render_passage orc ctxkeys st pid s = (s', Ok o) -> offered_ok st o.
Proof.
  intros H. destruct (render_passage_positions _ _ _ _ _ _ _ H) as (p & Hp & Hpid & _ & B).
  intros rc Hin. destruct (B _ Hin) as [k Hk]. exists p, k. rewrite Hpid. auto.
Qed.

Definition GotoPost (spec : string) (s s' : nstate) (r : res output) : Prop :=
  OutOK st s' /\ (forall o, r = Ok o -> offered_ok st o) /\
  exists l, log s' = log s ++ l /\ Forall not_hookrun l /\ path_from st (spec_name spec) (entered l).

Lemma post_intro spec s s' r l :
  OutOK st s' -> (forall o, r = Ok o -> offered_ok st o) -> log s' = log s ++ l ->
  Forall not_hookrun l -> path_from st (spec_name spec) (entered l) -> GotoPost spec s s' r.
Proof. intros A B C D E. split; [exact A|]. split; [exact B|]. exists l. auto. Qed.

Lemma OutOK_same s s' : out (nc s') = out (nc s) -> OutOK st s -> OutOK st s'.
Proof. unfold OutOK, core_ok. intros E H o Ho. apply H. congruence. Qed.

Lemma offered_chain o jo : offered_ok st jo -> offered_ok st (chain_output o jo).
Proof. intros H rc Hin. simpl in *. apply H. exact Hin. Qed.

Lemma goto_rec_spec fuel : forall spec visited s s' r,
  goto_rec orc ctxkeys st fuel spec visited s = (s', r) -> OutOK st s -> GotoPost spec s s' r.
Proof.
  induction fuel as [|f IH]; intros spec visited s s' r H Hok; simpl in H.
  - inversion H; subst. apply (post_intro _ _ _ _ []); auto.
    + discriminate.
    + now rewrite app_nil_r.
    + left; reflexivity.
  - apply bind_inv in H. destruct H as [(s0 & [pid args] & E0 & H)|(e & E0 & ->)].
    2:{ unfold lift_res in E0. inversion E0; subst. apply (post_intro _ _ _ _ []); auto.
        - discriminate.
        - now rewrite app_nil_r.
        - left; reflexivity. }
    unfold lift_res in E0. injection E0 as E0a Hspec. subst s0.
    apply parse_spec_name in Hspec. subst pid.
    destruct (get_passage st (spec_name spec)) as [p|] eqn:Hp.
    2:{ inversion H; subst. apply (post_intro _ _ _ _ []); auto.
        - discriminate.
        - now rewrite app_nil_r.
        - left; reflexivity. }
    set (pid := spec_name spec) in *.
    unfold with_scope in H. apply bind_inv in H. destruct H as [(s1 & [] & E1 & H)|(e & E1 & ->)].
    2:{ apply enter_scope_spec in E1. destruct E1 as (Enc & Elog & _).
        apply (post_intro _ _ _ _ []); auto.
        - unfold OutOK. rewrite Enc. exact Hok.
        - discriminate.
        - now rewrite app_nil_r.
        - left; reflexivity. }
    apply enter_scope_spec in E1. destruct E1 as (Enc & Elog & _).
    unfold finally in H.
    match type of H with (let (s1, r) := ?body s1 in _) = _ => destruct (body s1) as [s2 r2] eqn:Eb end.
    assert (Hs' : nc s' = nc s2 /\ log s' = log s2 /\ r = r2).
    { destruct (has_scope p args); inversion H; subst; simpl; auto. }
    destruct Hs' as (N1 & N2 & ->). clear H.
    assert (Hok1 : OutOK st s1) by (unfold OutOK; rewrite Enc; exact Hok).
    cut (GotoPost spec s1 s2 r2).
    { intros (A & B & l & C & D & E). apply (post_intro _ _ _ _ l); auto.
      - unfold OutOK. rewrite N1. exact A.
      - rewrite N2, C, Elog. reflexivity. }
    clear N1 N2 s'.
    destruct (str_in pid visited).
    { inversion Eb; subst. apply (post_intro _ _ _ _ []); auto.
      - discriminate.
      - now rewrite app_nil_r.
      - left; reflexivity. }
    (* set_cur, get, set_joinidx *)
    unfold bind at 1 in Eb. unfold set_cur at 1 in Eb.
    unfold bind at 1 in Eb. unfold get at 1 in Eb.
    unfold bind at 1 in Eb. unfold set_joinidx at 1 in Eb. simpl in Eb.
    match type of Eb with bind _ _ ?sx = _ => set (s1b := sx) in * end.
    assert (Hb : out (nc s1b) = out (nc s1) /\ log s1b = log s1) by (subst s1b; simpl; auto).
    destruct Hb as [Hbo Hbl]. clearbody s1b.
    assert (Hokb : OutOK st s1b) by (eapply OutOK_same; eauto).
    apply bind_inv in Eb. destruct Eb as [(s3 & [] & E3 & Eb)|(e & E3 & ->)].
    2:{ apply execute_passage_spec in E3. destruct E3 as [Ho [[Hn _]|(p' & l1 & _ & Hl1 & Hlow1)]]; [congruence|].
        apply (post_intro _ _ _ _ (EvEnter pid :: l1)).
        - eapply OutOK_same; eauto.
        - discriminate.
        - rewrite Hl1, Hbl. reflexivity.
        - constructor; [exact I|apply low_not_hookrun; exact Hlow1].
        - right. exists []. simpl. rewrite (entered_low _ Hlow1). split; [reflexivity|]. split; [eauto|exact I]. }
    apply execute_passage_spec in E3. destruct E3 as [Ho3 [[Hn _]|(p' & l1 & _ & Hl1 & Hlow1)]]; [congruence|].
    assert (Hok3 : OutOK st s3) by (eapply OutOK_same; eauto).
    apply bind_inv in Eb. destruct Eb as [(s4 & o & E4 & Eb)|(e & E4 & ->)].
    2:{ apply render_passage_spec in E4. destruct E4 as [Ho4 (l2 & Hl2 & Hlow2)].
        apply (post_intro _ _ _ _ (EvEnter pid :: l1 ++ l2)).
        - eapply OutOK_same; eauto.
        - discriminate.
        - rewrite Hl2, Hl1, Hbl, <- app_assoc. reflexivity.
        - constructor; [exact I|]. apply Forall_app. split; apply low_not_hookrun; assumption.
        - right. exists []. simpl. rewrite entered_app, (entered_low _ Hlow1), (entered_low _ Hlow2).
          split; [reflexivity|]. split; [eauto|exact I]. }
    pose proof (render_passage_offered _ _ _ _ E4) as Hoff.
    destruct (render_passage_positions _ _ _ _ _ _ _ E4) as (p2 & Hp2 & Hopid & HJ & _).
    rewrite Hp in Hp2. inversion Hp2; subst p2. clear Hp2.
    apply render_passage_spec in E4. destruct E4 as [Ho4 (l2 & Hl2 & Hlow2)].
    assert (Hok4 : OutOK st s4) by (eapply OutOK_same; eauto).
    assert (Hlog4 : log s4 = log s1 ++ EvEnter pid :: l1 ++ l2).
    { rewrite Hl2, Hl1, Hbl, <- app_assoc. reflexivity. }
    assert (Hnh : Forall not_hookrun (EvEnter pid :: l1 ++ l2)).
    { constructor; [exact I|]. apply Forall_app. split; apply low_not_hookrun; assumption. }
    assert (Hent : entered (EvEnter pid :: l1 ++ l2) = [pid]).
    { simpl. rewrite entered_app, (entered_low _ Hlow1), (entered_low _ Hlow2). reflexivity. }
    destruct (o_jump o) as [target|] eqn:Hj.
    + (* the passage ends in a jump: follow it *)
      apply bind_inv in Eb. destruct Eb as [(s5 & o' & E5 & Eb)|(e & E5 & ->)].
      * apply bind_inv in E5. destruct E5 as [(s6 & jo & E6 & E5)|(e & E6 & X)]; [|discriminate].
        apply ret_ok in E5. destruct E5 as [-> ->].
        destruct (IH _ _ _ _ _ E6 Hok4) as (A & B & l3 & C & D & E).
        unfold bind, set_out, ret in Eb. inversion Eb; subst s2 r2. clear Eb.
        destruct (HJ _ eq_refl) as (tg & a & Hpj & ->).
        rewrite (spec_name_jump_spec tg a (wf_jump_plain _ _ _ _ _ W Hp Hpj)) in E.
        apply (post_intro _ _ _ _ ((EvEnter pid :: l1 ++ l2) ++ l3)).
        -- unfold OutOK, core_ok. simpl. intros o0 Ho0. inversion Ho0; subst. apply offered_chain. apply B. reflexivity.
        -- intros o0 Ho0. inversion Ho0; subst. apply offered_chain. apply B. reflexivity.
        -- simpl log. rewrite C, Hlog4, <- app_assoc. reflexivity.
        -- apply Forall_app. split; assumption.
        -- rewrite entered_app, Hent. right. exists (entered l3). split; [reflexivity|]. split; [eauto|].
           destruct E as [->|(rest & -> & (p3 & Hp3) & Hpath)]; [exact I|]. simpl. split; [|exact Hpath].
           eapply passage_jump_edge; eauto. eapply wf_defined; eauto.
      * apply bind_inv in E5. destruct E5 as [(s6 & jo & E6 & E5)|(e' & E6 & _)]; [unfold ret in E5; inversion E5|].
        destruct (IH _ _ _ _ _ E6 Hok4) as (A & B & l3 & C & D & E).
        destruct (HJ _ eq_refl) as (tg & a & Hpj & ->).
        rewrite (spec_name_jump_spec tg a (wf_jump_plain _ _ _ _ _ W Hp Hpj)) in E.
        apply (post_intro _ _ _ _ ((EvEnter pid :: l1 ++ l2) ++ l3)).
        -- exact A.
        -- discriminate.
        -- rewrite C, Hlog4, <- app_assoc. reflexivity.
        -- apply Forall_app. split; assumption.
        -- rewrite entered_app, Hent. right. exists (entered l3). split; [reflexivity|]. split; [eauto|].
           destruct E as [->|(rest & -> & (p3 & Hp3) & Hpath)]; [exact I|]. simpl. split; [|exact Hpath].
           eapply passage_jump_edge; eauto. eapply wf_defined; eauto.
    + unfold bind, set_out, ret in Eb. inversion Eb; subst s2 r2. clear Eb.
      apply (post_intro _ _ _ _ (EvEnter pid :: l1 ++ l2)).
      * unfold OutOK, core_ok. simpl. intros o0 Ho0. inversion Ho0; subst. exact Hoff.
      * intros o0 Ho0. inversion Ho0; subst. exact Hoff.
      * simpl log. exact Hlog4.
      * exact Hnh.
      * rewrite Hent. right. exists []. split; [reflexivity|]. split; [eauto|exact I].
Qed.

(* ---- hooks: run after the navigation, never touch the cached output, and their log starts with EvHookRun ---- *)
Lemma KeepOut_execute_passage pid : KeepOut (execute_passage orc ctxkeys st pid).
Proof. intros s s' r H. apply execute_passage_spec in H. tauto. Qed.

Lemma KeepOut_render_passage pid : KeepOut (render_passage orc ctxkeys st pid).
Proof. apply FrameM_KeepOut, FrameM_render_passage. Qed.

Lemma KeepOut_run_hooks l : KeepOut (run_hooks orc ctxkeys st l).
Proof.
  induction l as [|p r IH]; simpl; [apply KeepOut_ret|].
  destruct (get_passage st p); [|exact IH].
  apply KeepOut_bind; [apply KeepOut_emit|]. intros _.
  apply KeepOut_bind; [apply KeepOut_execute_passage|]. intros _.
  apply KeepOut_bind; [apply KeepOut_render_passage|]. intros o.
  apply KeepOut_bind; [exact IH|]. intros rest. apply KeepOut_ret.
Qed.

Lemma run_hooks_log l : forall s s' r,
  run_hooks orc ctxkeys st l s = (s', r) -> exists lg, log s' = log s ++ lg /\ hook_log lg.
Proof.
  induction l as [|p rest IH]; simpl; intros s s' r H.
  - inversion H; subst. exists []. split; [now rewrite app_nil_r|left; reflexivity].
  - destruct (get_passage st p) eqn:Hp; [|eapply IH; eauto].
    unfold bind at 1 in H. unfold emit at 1 in H.
    match type of H with ?m ?sx = _ => assert (Hn : NFrameM m) end.
    { apply NFrameM_bind; [apply NFrameM_execute_passage|]. intros _.
      apply NFrameM_bind; [apply NFrameM_render_passage|]. intros o.
      apply NFrameM_bind; [apply NFrameM_run_hooks|]. intros ?. apply NFrameM_ret. }
    apply Hn in H. destruct H as [_ _ _ [lg Hlg]]. simpl in Hlg.
    exists (EvHookRun p :: lg). split; [rewrite Hlg, <- app_assoc; reflexivity|]. right. eauto.
Qed.

Lemma trigger_event_spec ev s s' r :
  trigger_event orc ctxkeys st ev s = (s', r) ->
  out (nc s') = out (nc s) /\ exists lg, log s' = log s ++ lg /\ hook_log lg.
Proof.
  unfold trigger_event. unfold bind at 1. unfold get at 1.
  destruct (lookup ev (hooks (nc s))) as [active|].
  - intros H. apply bind_inv in H. destruct H as [(s1 & outs & E1 & H)|(e & E1 & _)].
    + unfold ret in H. injection H as <- _. split; [eapply KeepOut_run_hooks; eauto|eapply run_hooks_log; eauto].
    + split; [eapply KeepOut_run_hooks; eauto|eapply run_hooks_log; eauto].
  - intros H. inversion H; subst. split; [reflexivity|]. exists []. split; [now rewrite app_nil_r|left; reflexivity].
Qed.

Lemma offered_with_hook o h : offered_ok st o -> offered_ok st (with_hook_output o h).
Proof. unfold with_hook_output. destruct (String.eqb h ""); [auto|]. intros H rc Hin. simpl in *. auto. Qed.

Lemma after_hooks_spec o s s' r :
  after_hooks orc ctxkeys st o s = (s', r) -> OutOK st s -> offered_ok st o ->
  OutOK st s' /\ exists lg, log s' = log s ++ lg /\ hook_log lg.
Proof.
  unfold after_hooks. intros H Hok Hoff. apply bind_inv in H. destruct H as [(s1 & h & E1 & H)|(e & E1 & _)].
  - apply trigger_event_spec in E1. destruct E1 as [Ho Hl].
    destruct (String.eqb h "").
    + inversion H; subst. split; [eapply OutOK_same; eauto|exact Hl].
    + unfold bind, set_out, ret in H. inversion H; subst. split.
      * unfold OutOK, core_ok. simpl. intros o0 Ho0. inversion Ho0; subst. apply offered_with_hook. exact Hoff.
      * exact Hl.
  - apply trigger_event_spec in E1. destruct E1 as [Ho Hl]. split; [eapply OutOK_same; eauto|exact Hl].
Qed.

(* ---- "-> @join" choices: no passage is entered; what is offered afterwards are the passage's own choices ---- *)
Lemma FrameM_render_from_join_marker pid idx : FrameM (render_from_join_marker orc ctxkeys st pid idx).
Proof.
  unfold render_from_join_marker. destruct (get_passage st pid) as [p|]; [|apply FrameM_raise].
  apply FrameM_bind.
  - destruct (after_nth_marker (content p) idx); [apply FrameM_ret|].
    destruct idx; [apply FrameM_ret|apply FrameM_raise].
  - intros toks. apply FrameM_bind; [apply FrameM_render_content|].
    intros [[txt j] ds]. destruct (split_dirs ds) as [[? ?] ?].
    apply FrameM_bind; [apply FrameM_filter_choices|]. intros; apply FrameM_ret.
Qed.

(* the tokens between two markers are tokens of the content, so their positions are positions of the passage *)
Lemma until_marker_incl l : incl (until_marker l) l.
Proof.
  induction l as [|t r IH]; [apply incl_refl|].
  destruct t; simpl; try (apply incl_cons; [left; reflexivity|apply incl_tl; exact IH]).
  intros x [].
Qed.

Lemma after_nth_marker_incl l : forall n r, after_nth_marker l n = Some r -> incl r l.
Proof.
  induction l as [|t rest IH]; intros n r H; simpl in H; [discriminate|].
  destruct t; try (apply incl_tl; eapply IH; exact H).
  destruct n; [inversion H; subst; apply incl_tl, incl_refl|apply incl_tl; eapply IH; exact H].
Qed.

Lemma content_choices_incl l l' x : incl l l' -> In x (content_choices l) -> In x (content_choices l').
Proof.
  unfold content_choices. intros Hi Hx. apply flatl_in in Hx. destruct Hx as (t & Ht & Hx).
  apply flatl_in. exists t. split; [apply Hi; exact Ht|exact Hx].
Qed.

(* every choice offered after a join choice sits at a position of the passage that the walk visits: a passage-level
   choice, or a choice in a branch / loop of the section text (which is part of the content) *)
Lemma render_from_join_marker_offered pid idx s s' post :
  render_from_join_marker orc ctxkeys st pid idx s = (s', Ok post) ->
  o_pid post = pid /\ offered_ok st post.
Proof.
  unfold render_from_join_marker. destruct (get_passage st pid) as [p|] eqn:Hp; [|discriminate].
  intros H. apply bind_ok in H. destruct H as (s1 & toks & Ht & H).
  assert (Hincl : incl toks (content p)).
  { destruct (after_nth_marker (content p) idx) as [r|] eqn:Ea.
    - apply ret_ok in Ht. destruct Ht as [_ ->].
      eapply incl_tran; [apply until_marker_incl|eapply after_nth_marker_incl; exact Ea].
    - destruct idx; [|discriminate]. apply ret_ok in Ht. destruct Ht as [_ ->]. apply until_marker_incl. }
  apply bind_ok in H. destruct H as (s2 & [[txt j] ds] & Er & H).
  destruct (split_dirs ds) as [[cds ins] rds] eqn:Es.
  apply bind_ok in H. destruct H as (s3 & chs & Ef & H).
  apply ret_ok in H. destruct H as [_ ->]. simpl. split; [reflexivity|].
  destruct (render_content_positions orc ctxkeys toks _ _ _ _ _ Er) as [_ B].
  intros rc Hin. simpl in *. destruct (filter_choices_in _ _ _ _ _ _ _ Ef _ Hin) as (dt & fd & Hc).
  apply in_app_or in Hc. destruct Hc as [Hc|Hc].
  - apply in_map_iff in Hc. destruct Hc as (c & E & Hc). inversion E; subst.
    apply filter_In in Hc. destruct Hc as [Hc _].
    exists p, KChoice. split; [exact Hp|]. left. auto.
  - apply in_map_iff in Hc. destruct Hc as ([c t] & E & Hc). simpl in E. inversion E; subst.
    apply (split_dirs_in _ _ _ _ _ _ Es) in Hc. destruct (B _ _ Hc) as [k Hk].
    exists p, k. split; [exact Hp|]. right. eapply content_choices_incl; eauto.
Qed.

Lemma nav_entered_low l : Forall low_event l -> nav_entered l = [].
Proof.
  intros H. rewrite <- (app_nil_r l), nav_entered_app by (apply low_not_hookrun; exact H).
  rewrite (entered_low _ H). reflexivity.
Qed.

Lemma execute_join_choice_spec c s s' r :
  execute_join_choice orc ctxkeys st c s = (s', r) -> OutOK st s ->
  OutOK st s' /\ exists lg, log s' = log s ++ lg /\ nav_entered lg = [].
Proof.
  unfold execute_join_choice. unfold bind at 1. unfold get at 1. intros H Hok.
  set (pid := match cur (nc s) with Some p => p | None => "" end) in *.
  match type of H with bind ?m _ _ = _ => assert (Hblk : FrameM m) end.
  { destruct (ch_block (rc_choice c)); [apply FrameM_ret|].
    apply FrameM_bind; [apply FrameM_render_content|]. intros [[? ?] ?]. apply FrameM_ret. }
  apply bind_inv in H. destruct H as [(s1 & [btxt bds] & E1 & H)|(e & E1 & _)].
  2:{ apply Hblk in E1. destruct E1 as [_ _ _ _ Ho _ (l1 & Hl1 & Hlow1)].
      split; [eapply OutOK_same; eauto|]. exists l1. split; [exact Hl1|apply nav_entered_low; exact Hlow1]. }
  apply Hblk in E1. destruct E1 as [_ _ _ _ Ho1 _ (l1 & Hl1 & Hlow1)].
  unfold bind at 1 in H. unfold get at 1 in H.
  apply bind_inv in H. destruct H as [(s2 & post & E2 & H)|(e & E2 & _)].
  2:{ apply FrameM_render_from_join_marker in E2. destruct E2 as [_ _ _ _ Ho2 _ (l2 & Hl2 & Hlow2)].
      split; [eapply OutOK_same; [|exact Hok]; congruence|].
      exists (l1 ++ l2). split; [rewrite Hl2, Hl1, app_assoc; reflexivity|].
      apply nav_entered_low. apply Forall_app. auto. }
  destruct (render_from_join_marker_offered _ _ _ _ _ E2) as [Hpid Hoff].
  apply FrameM_render_from_join_marker in E2. destruct E2 as [_ _ _ _ Ho2 _ (l2 & Hl2 & Hlow2)].
  unfold bind at 1 in H. unfold get at 1 in H.
  unfold bind at 1 in H. unfold set_joinidx at 1 in H.
  unfold bind at 1 in H. unfold set_out at 1 in H. simpl in H.
  match type of H with after_hooks _ _ _ ?res ?sx = _ =>
    assert (Hres : offered_ok st res); [|assert (Hsx : OutOK st sx /\ log sx = log s2)] end.
  { intros rc Hin. simpl in *. rewrite <- Hpid. apply Hoff. exact Hin. }
  { split; [|reflexivity]. unfold OutOK, core_ok. simpl. intros o0 Ho0. inversion Ho0; subst. exact Hres. }
  destruct Hsx as [Hoksx Hlsx].
  destruct (after_hooks_spec _ _ _ _ H Hoksx Hres) as [Hok' (lg & Hlg & Hh)].
  split; [exact Hok'|]. exists ((l1 ++ l2) ++ lg). split.
  - rewrite Hlg, Hlsx, Hl2, Hl1, !app_assoc. reflexivity.
  - rewrite nav_entered_app by (apply low_not_hookrun, Forall_app; auto).
    rewrite entered_low by (apply Forall_app; auto). simpl. apply nav_entered_hook_log. exact Hh.
Qed.

(* ---- one choice ---- *)
Lemma choose_nav_spec ch o s s' r :
  choose_nav orc ctxkeys st ch o s = (s', r) -> OutOK st s ->
  (exists p k, get_passage st (o_pid o) = Some p /\ passage_choice p (rc_choice ch) k) ->
  OutOK st s' /\
  exists lg, log s' = log s ++ lg /\ choose_path st (o_pid o) (ch_target (rc_choice ch)) (nav_entered lg).
Proof.
  unfold choose_nav. intros H Hok (p & k & Hp & Hc).
  apply bind_inv in H. destruct H as [(s1 & [] & E1 & H)|(e & E1 & _)].
  2:{ destruct (ch_sticky (rc_choice ch)); [inversion E1|]. unfold set_used in E1. inversion E1. }
  assert (Hs1 : out (nc s1) = out (nc s) /\ log s1 = log s).
  { destruct (ch_sticky (rc_choice ch)); [inversion E1; auto|]. unfold set_used in E1. inversion E1; subst. simpl. auto. }
  destruct Hs1 as [Ho1 Hl1]. assert (Hok1 : OutOK st s1) by (eapply OutOK_same; eauto).
  destruct (String.eqb (ch_target (rc_choice ch)) "@join").
  - destruct (execute_join_choice_spec _ _ _ _ H Hok1) as [Hok' (lg & Hlg & Hn)].
    split; [exact Hok'|]. exists lg. split; [rewrite Hlg, Hl1; reflexivity|]. rewrite Hn. left. reflexivity.
  - assert (Hname : spec_name (jump_spec (ch_target (rc_choice ch)) (ch_args (rc_choice ch))) = ch_target (rc_choice ch)).
    { apply spec_name_jump_spec. eapply wf_choice_plain; eauto. }
    assert (Hcp : forall ents, path_from st (ch_target (rc_choice ch)) ents ->
                   choose_path st (o_pid o) (ch_target (rc_choice ch)) ents).
    { intros ents [->|(rest & -> & (p3 & Hp3) & Hpath)]; [left; reflexivity|].
      right. exists rest, k. split; [reflexivity|].
      destruct (passage_choice_edge st _ _ _ _ Hp Hc (wf_defined _ _ _ W Hp3)) as [He Hk]. auto. }
    apply bind_inv in H. destruct H as [(s2 & r1 & E2 & H)|(e & E2 & _)].
    + apply goto_rec_spec in E2; [|exact Hok1]. destruct E2 as (A & B & l1 & C & D & E).
      destruct (after_hooks_spec _ _ _ _ H A (B _ eq_refl)) as [Hok' (lg & Hlg & Hh)].
      split; [exact Hok'|]. exists (l1 ++ lg). split; [rewrite Hlg, C, Hl1, app_assoc; reflexivity|].
      rewrite nav_entered_app by exact D. rewrite (nav_entered_hook_log _ Hh), app_nil_r.
      apply Hcp. rewrite <- Hname. exact E.
    + apply goto_rec_spec in E2; [|exact Hok1]. destruct E2 as (A & B & l1 & C & D & E).
      split; [exact A|]. exists l1. split; [rewrite C, Hl1; reflexivity|].
      rewrite <- (app_nil_r l1), nav_entered_app by exact D. simpl. rewrite app_nil_r.
      apply Hcp. rewrite <- Hname. exact E.
Qed.


(* ---- whole engine states: the invariant, and every operation ---- *)
Definition inv (e : estate) : Prop :=
  core_ok st (ec e) /\ Forall (core_ok st) (undo_stack e) /\ Forall (core_ok st) (redo_stack e).

Lemma Forall_firstn {A} (P : A -> Prop) n : forall l, Forall P l -> Forall P (firstn n l).
Proof.
  induction n as [|n IH]; intros l H; simpl; [constructor|].
  destruct H; constructor; auto.
Qed.

Lemma current_out_offered e : core_ok st (ec e) -> offered_ok st (current_out e).
Proof.
  unfold current_out, core_ok. intros H. destruct (out (ec e)) as [o|]; [apply H; reflexivity|].
  intros rc [].
Qed.

Lemma choose_spec e i e' r :
  choose orc ctxkeys st e i = (e', r) -> inv e ->
  inv e' /\
  exists lg, elog e' = elog e ++ lg /\
    match nth_error (o_choices (current_out e)) (Z.to_nat i) with
    | Some ch => choose_path st (o_pid (current_out e)) (ch_target (rc_choice ch)) (nav_entered lg)
    | None => lg = []
    end.
Proof.
  unfold choose. intros H (I1 & I2 & I3).
  destruct ((i <? 0)%Z || (Z.of_nat (List.length (o_choices (current_out e))) <=? i)%Z).
  { inversion H; subst. split; [split; auto|]. exists []. split; [now rewrite app_nil_r|].
    destruct (nth_error _ _); [left; reflexivity|reflexivity]. }
  destruct (nth_error (o_choices (current_out e)) (Z.to_nat i)) as [ch|] eqn:Hn.
  2:{ inversion H; subst. split; [split; auto|]. exists []. split; [now rewrite app_nil_r|reflexivity]. }
  unfold run_nav in H. simpl in H.
  destruct (choose_nav orc ctxkeys st ch (current_out e) _) as [s' r'] eqn:E.
  inversion H; subst. clear H. simpl.
  apply choose_nav_spec in E.
  - destruct E as [Hok (lg & Hlg & Hp)]. simpl in Hlg. split.
    + split; [exact Hok|]. split; [|constructor]. unfold push50. apply Forall_firstn. constructor; assumption.
    + exists lg. split; [exact Hlg|exact Hp].
  - exact I1.
  - apply (current_out_offered e I1). eapply nth_error_In; eauto.
Qed.

Lemma goto_op_spec e spec e' r :
  goto_op orc ctxkeys st e spec = (e', r) -> inv e ->
  inv e' /\ exists lg, elog e' = elog e ++ lg /\ path_from st (spec_name spec) (nav_entered lg).
Proof.
  unfold goto_op, run_nav, goto. intros H (I1 & I2 & I3).
  destruct (goto_rec orc ctxkeys st _ spec [] _) as [s' r'] eqn:E. inversion H; subst. clear H.
  apply goto_rec_spec in E; [|exact I1]. destruct E as (A & B & l & C & D & F). simpl in *.
  split; [split; auto|]. exists l. split; [exact C|].
  rewrite <- (app_nil_r l), nav_entered_app by exact D. simpl. rewrite app_nil_r. exact F.
Qed.

Lemma undo_inv e : inv e -> inv (fst (undo e)).
Proof.
  unfold undo. intros (I1 & I2 & I3). destruct (undo_stack e) as [|prev rest] eqn:Eu; simpl.
  - split; [exact I1|]. split; [rewrite Eu; constructor|exact I3].
  - inversion I2; subst. split; [assumption|]. split; [assumption|]. constructor; assumption.
Qed.

Lemma redo_inv e : inv e -> inv (fst (redo e)).
Proof.
  unfold redo. intros (I1 & I2 & I3). destruct (redo_stack e) as [|nxt rest] eqn:Er; simpl.
  - split; [exact I1|]. split; [exact I2|rewrite Er; constructor].
  - inversion I3; subst. split; [assumption|]. split; [|assumption].
    unfold push50. apply Forall_firstn. constructor; assumption.
Qed.

Lemma reset_inv e : inv e -> inv (reset_one_time e).
Proof. unfold reset_one_time, inv, core_ok. simpl. auto. Qed.

Lemma init_inv v0 : inv (fst (init orc ctxkeys st v0)).
Proof.
  unfold init.
  set (e0 := mkES (empty_core (set_key "_inputs" (VDict []) v0)) [] [] [] []).
  assert (I0 : inv e0).
  { split; [|split; constructor]. intros o Ho. discriminate. }
  destruct (get_passage st (initial st)); [|exact I0].
  destruct (goto_op orc ctxkeys st e0 (initial st)) as [e' r] eqn:E.
  apply goto_op_spec in E; [|exact I0]. simpl. tauto.
Qed.

(* the states an engine can be in *)
Inductive reachable : estate -> Prop :=
| R_init v0 : reachable (fst (init orc ctxkeys st v0))
| R_choose e i : reachable e -> reachable (fst (choose orc ctxkeys st e i))
| R_undo e : reachable e -> reachable (fst (undo e))
| R_redo e : reachable e -> reachable (fst (redo e))
| R_goto e spec : reachable e -> reachable (fst (goto_op orc ctxkeys st e spec))
| R_reset e : reachable e -> reachable (reset_one_time e).

Lemma reach_inv e : reachable e -> inv e.
Proof.
  induction 1.
  - apply init_inv.
  - destruct (choose orc ctxkeys st e i) as [e' r] eqn:E. apply choose_spec in E; [|exact IHreachable]. simpl. tauto.
  - apply undo_inv; assumption.
  - apply redo_inv; assumption.
  - destruct (goto_op orc ctxkeys st e spec) as [e' r] eqn:E. apply goto_op_spec in E; [|exact IHreachable]. simpl. tauto.
  - apply reset_inv; assumption.
Qed.

(* every choice offered in a reachable state is an edge from the shown passage *)
Lemma reach_offered_edges e rc :
  reachable e -> In rc (o_choices (current_out e)) -> is_ref (ch_target (rc_choice rc)) = true ->
  exists k, is_jump k = false /\ In (o_pid (current_out e), ch_target (rc_choice rc), k) (edges st).
Proof.
  intros Hr Hin R. apply reach_inv in Hr. destruct Hr as [I1 _].
  destruct (current_out_offered e I1 _ Hin) as (p & k & Hp & Hc).
  exists k. destruct (passage_choice_edge st _ _ _ _ Hp Hc R). auto.
Qed.

(* every passage entered by a choice made in a reachable state is reached along edges of the graph *)
Lemma reach_choose_path e i :
  reachable e ->
  exists lg, elog (fst (choose orc ctxkeys st e i)) = elog e ++ lg /\
    match nth_error (o_choices (current_out e)) (Z.to_nat i) with
    | Some ch => choose_path st (o_pid (current_out e)) (ch_target (rc_choice ch)) (nav_entered lg)
    | None => lg = []
    end.
Proof.
  intros Hr. apply reach_inv in Hr. destruct (choose orc ctxkeys st e i) as [e' r] eqn:E.
  apply choose_spec in E; [|exact Hr]. simpl. tauto.
Qed.

End Nav.

(* ---------------------------------------------------------------------------------------- *)
(* Part 5: referenced / missing *)

(* t is the target of a choice or of a jump token at a position the walk visits, in some passage *)
Definition raw_target (st : story) (t : string) : Prop :=
  exists pid p, In (pid, p) (passages st) /\
    ((exists a, passage_jump p t a) \/ (exists c k, passage_choice p c k /\ ch_target c = t)).

Lemma is_ref_spec t : is_ref t = true <-> t <> "" /\ t <> JOIN_TARGET.
Proof.
  unfold is_ref. rewrite andb_true_iff, !negb_true_iff, !String.eqb_neq. tauto.
Qed.

Lemma referenced_with_exact isref st t :
  In t (referenced_of (connections_with isref st)) <-> isref t = true /\ raw_target st t.
Proof.
  rewrite referenced_of_in. split.
  - intros (src & k & H). apply edges_with_in in H. destruct H as (p & Hp & H).
    apply passage_edges_spec in H. simpl in H. destruct H as (R & [(Hk & a & Hj)|(c & Hc & Htg)]).
    + split; [exact R|]. exists src, p. split; [exact Hp|]. left. eauto.
    + split; [exact R|]. exists src, p. split; [exact Hp|]. right. eauto.
  - intros (R & pid & p & Hp & [(a & Hj)|(c & k & Hc & Htg)]).
    + exists pid, KJump. apply edges_with_in. exists p. split; [exact Hp|].
      apply passage_edges_spec. simpl. split; [exact R|]. left. eauto.
    + exists pid, k. apply edges_with_in. exists p. split; [exact Hp|].
      apply passage_edges_spec. simpl. split; [exact R|]. right. eauto.
Qed.

Lemma referenced_exact st t : In t (referenced st) <-> is_ref t = true /\ raw_target st t.
Proof. apply referenced_with_exact. Qed.

Lemma missing_exact_lemma st t :
  In t (missing st) <-> raw_target st t /\ t <> "" /\ t <> JOIN_TARGET /\ ~ In t (defined st).
Proof.
  unfold missing. rewrite missing_of_in, referenced_exact, is_ref_spec. tauto.
Qed.

Lemma join_never_referenced st : ~ In JOIN_TARGET (referenced st).
Proof. rewrite referenced_exact. intros [H _]. discriminate. Qed.

Lemma join_never_missing_lemma st : ~ In JOIN_TARGET (missing st).
Proof. unfold missing. rewrite missing_of_in. intros [H _]. exact (join_never_referenced st H). Qed.

Lemma join_never_edge st src k : ~ In (src, JOIN_TARGET, k) (edges st).
Proof.
  intros H. apply (join_never_referenced st). unfold referenced. apply referenced_of_in. eauto.
Qed.

(* before F18a: every non-empty raw target is referenced, "@join" included *)
Lemma referenced_unpatched_exact st t :
  In t (referenced_unpatched st) <-> t <> "" /\ raw_target st t.
Proof.
  unfold referenced_unpatched, extract_connections_unpatched. rewrite referenced_with_exact.
  unfold is_ref_unpatched. rewrite negb_true_iff, String.eqb_neq. tauto.
Qed.

(* ---------------------------------------------------------------------------------------- *)
(* statements in the form quoted by Props/C18.v *)
Lemma walk_visits_positions p e :
  In e (passage_edges is_ref p) <->
  is_ref (fst e) = true /\
  ((snd e = KJump /\ exists a, passage_jump p (fst e) a) \/
   (exists c, passage_choice p c (snd e) /\ ch_target c = fst e)).
Proof. apply passage_edges_spec. Qed.

Lemma goto_chain_edges orc ctxkeys st :
  wf_graphb st = true ->
  forall fuel spec visited s s' r,
  goto_rec orc ctxkeys st fuel spec visited s = (s', r) -> OutOK st s ->
  exists l, log s' = log s ++ l /\ Forall not_hookrun l /\ path_from st (spec_name spec) (entered l).
Proof.
  intros W fuel spec visited s s' r H Hok.
  destruct (goto_rec_spec orc ctxkeys st W _ _ _ _ _ _ H Hok) as (_ & _ & X). exact X.
Qed.

Lemma reach_goto_path orc ctxkeys st :
  wf_graphb st = true ->
  forall e spec, reachable orc ctxkeys st e ->
  exists lg, elog (fst (goto_op orc ctxkeys st e spec)) = elog e ++ lg /\
             path_from st (spec_name spec) (nav_entered lg).
Proof.
  intros W e spec Hr. apply (reach_inv _ _ _ W) in Hr.
  destruct (goto_op orc ctxkeys st e spec) as [e' r] eqn:E.
  apply (goto_op_spec _ _ _ W) in E; [|exact Hr]. simpl. tauto.
Qed.

Lemma missing_is_referenced_not_defined st t :
  In t (missing st) <-> In t (referenced st) /\ ~ In t (defined st).
Proof. apply missing_of_in. Qed.

Lemma join_not_a_reference_lemma st src k :
  ~ In (src, JOIN_TARGET, k) (edges st) /\ ~ In JOIN_TARGET (referenced st) /\ ~ In JOIN_TARGET (missing st).
Proof.
  split; [apply join_never_edge|]. split; [apply join_never_referenced|apply join_never_missing_lemma].
Qed.
