(* Lemmas about Compiler/Include.v (property C13).  All statements are for an arbitrary file system `fs`
   and an arbitrary path resolution `rel`. *)
From Coq Require Import String Ascii List Bool Arith Lia.
From Bardic Require Import PyStr.
From Bardic Require Import Include.
Import ListNotations.
Local Open Scope string_scope.

Local Arguments classify : simpl never.
Local Arguments is_include : simpl never.
Local Arguments include_arg : simpl never.

(* ---------------------------------------------------------------------------------------------- *)
(* small facts                                                                                      *)
(* ---------------------------------------------------------------------------------------------- *)

Lemma str_in_In : forall x l, str_in x l = true <-> In x l.
Proof.
  induction l as [|y r IH]; simpl.
  - split; [discriminate | tauto].
  - rewrite orb_true_iff, IH, String.eqb_eq. split; intros [H|H]; auto.
Qed.

Lemma str_in_false : forall x l, str_in x l = false <-> ~ In x l.
Proof.
  intros x l. rewrite <- str_in_In. destruct (str_in x l); split; congruence.
Qed.

Lemma classify_plain : forall l, classify l = Plain <-> is_include l = false.
Proof.
  intros l. unfold classify. destruct (is_include l).
  - destruct (String.eqb (include_arg l) ""); [split; discriminate|].
    destruct (str_contains (strip (include_arg l)) " "); split; discriminate.
  - tauto.
Qed.

Lemma classify_inc : forall l a, classify l = Inc a -> is_include l = true /\ a = include_arg l.
Proof.
  intros l a. unfold classify. destruct (is_include l); [|discriminate].
  destruct (String.eqb (include_arg l) ""); [discriminate|].
  destruct (str_contains (strip (include_arg l)) " "); [discriminate|].
  intros H; inversion H; auto.
Qed.

Lemma classify_bad : forall l k, classify l = Bad k -> is_include l = true.
Proof.
  intros l k. unfold classify. destruct (is_include l); [auto|discriminate].
Qed.

Lemma Forall2_nth_both : forall (A B : Type) (R : A -> B -> Prop) la lb da db,
  Forall2 R la lb ->
  length lb = length la /\ forall i, i < length la -> R (nth i la da) (nth i lb db).
Proof.
  induction 1 as [|a b la lb Hab H IH]; simpl.
  - split; [reflexivity | intros; lia].
  - destruct IH as [L N]. split; [congruence|].
    intros [|i] Hi; [assumption | apply N; lia].
Qed.

(* ---------------------------------------------------------------------------------------------- *)
Section Proofs.
  Variable fs : string -> option (list string).
  Variable rel : string -> string -> string.

  Notation loop := (Include.loop fs rel).
  Notation resolve := (Include.resolve fs rel).
  Notation resolve_file := (Include.resolve_file fs rel).

  (* ---- unfolding equations ---- *)
  Lemma resolve_S : forall f seen p ls,
    resolve (S f) seen p ls =
    if str_in p seen then Cycle p else loop (resolve f (p :: seen)) p 0 ls.
  Proof. reflexivity. Qed.

  Lemma resolve_0 : forall seen p ls,
    resolve 0 seen p ls = if str_in p seen then Cycle p else OutOfFuel.
  Proof. reflexivity. Qed.

  Lemma resolve_seen : forall f seen p ls, In p seen -> resolve f seen p ls = Cycle p.
  Proof.
    intros f seen p ls H. apply str_in_In in H. destruct f; [rewrite resolve_0 | rewrite resolve_S]; rewrite H; reflexivity.
  Qed.

  Lemma resolve_ok_not_seen : forall f seen p ls o m, resolve f seen p ls = Ok o m -> ~ In p seen.
  Proof.
    intros f seen p ls o m H Hin. rewrite (resolve_seen f seen p ls Hin) in H. discriminate.
  Qed.

  Lemma loop_cons : forall rec p idx l r,
    loop rec p idx (l :: r) =
    match classify l with
    | Bad k => BadDirective k idx p
    | Inc a =>
        match fs (rel p a) with
        | None => Missing (rel p a)
        | Some included =>
            match rec (rel p a) included with
            | Ok o1 m1 => match loop rec p (S idx) r with
                          | Ok o2 m2 => Ok (o1 ++ o2) (m1 ++ m2)
                          | e => e
                          end
            | Missing _ => Missing (rel p a)
            | e => e
            end
        end
    | Plain => match loop rec p (S idx) r with
               | Ok o2 m2 => Ok (l :: o2) ((p, idx) :: m2)
               | e => e
               end
    end.
  Proof. reflexivity. Qed.

  (* the loop over a concatenation: the second part is processed with the same `rec` (the same seen set)
     and with line indices continuing after the first part *)
  Lemma loop_app : forall rec p a b idx,
    loop rec p idx (a ++ b) =
    match loop rec p idx a with
    | Ok o1 m1 => match loop rec p (idx + length a) b with
                  | Ok o2 m2 => Ok (o1 ++ o2) (m1 ++ m2)
                  | e => e
                  end
    | e => e
    end.
  Proof.
    intros rec p a b. induction a as [|l a IH]; intros idx.
    - simpl app. simpl length. rewrite Nat.add_0_r. simpl. destruct (loop rec p idx b); reflexivity.
    - simpl app. rewrite !loop_cons. simpl length. rewrite IH.
      replace (S idx + length a) with (idx + S (length a)) by lia.
      destruct (classify l) as [|arg|k]; try reflexivity.
      + destruct (loop rec p (S idx) a); try reflexivity.
        destruct (loop rec p (idx + S (length a)) b); reflexivity.
      + destruct (fs (rel p arg)); try reflexivity.
        destruct (rec (rel p arg) l0); try reflexivity.
        destruct (loop rec p (S idx) a); try reflexivity.
        destruct (loop rec p (idx + S (length a)) b); try reflexivity.
        rewrite !app_assoc. reflexivity.
  Qed.

  (* what a successful loop says about each of its lines *)
  Lemma loop_ok_lines : forall rec p ls idx o m,
    loop rec p idx ls = Ok o m ->
    forall l, In l ls ->
      match classify l with
      | Bad _ => False
      | Inc a => exists ils o' m', fs (rel p a) = Some ils /\ rec (rel p a) ils = Ok o' m'
      | Plain => True
      end.
  Proof.
    intros rec p ls. induction ls as [|x r IH]; intros idx o m H l Hin.
    - destruct Hin.
    - rewrite loop_cons in H. destruct Hin as [<-|Hin].
      + destruct (classify x) as [|a|k]; auto; try discriminate.
        destruct (fs (rel p a)) as [ils|]; [|discriminate].
        destruct (rec (rel p a) ils) eqn:R; try discriminate.
        eauto.
      + destruct (classify x) as [|a|k]; try discriminate.
        * destruct (loop rec p (S idx) r) eqn:L; try discriminate. eapply IH; eauto.
        * destruct (fs (rel p a)) as [ils|]; [|discriminate].
          destruct (rec (rel p a) ils); try discriminate.
          destruct (loop rec p (S idx) r) eqn:L; try discriminate. eapply IH; eauto.
  Qed.

  (* -------------------------------------------------------------------------------------------- *)
  (* Specification: textual substitution                                                          *)
  (* -------------------------------------------------------------------------------------------- *)

  (* Subst p ls out: `out` is the text `ls` of file `p` in which every include line is replaced by the
     (recursively substituted) lines of the file it names.  No seen set, no fuel, no error cases. *)
  Inductive Subst : string -> list string -> list string -> Prop :=
  | Subst_nil : forall p, Subst p [] []
  | Subst_line : forall p l r out,
      is_include l = false -> Subst p r out -> Subst p (l :: r) (l :: out)
  | Subst_inc : forall p l r ils o1 o2,
      is_include l = true ->
      fs (rel p (include_arg l)) = Some ils ->
      Subst (rel p (include_arg l)) ils o1 ->
      Subst p r o2 ->
      Subst p (l :: r) (o1 ++ o2).

  Lemma Subst_functional : forall p ls o1, Subst p ls o1 -> forall o2, Subst p ls o2 -> o1 = o2.
  Proof.
    induction 1 as [p | p l r out Hl _ IH | p l r ils o1 o2 Hl Hfs _ IH1 _ IH2]; intros o' H'.
    - inversion H'; reflexivity.
    - inversion H'; subst; [|congruence]. f_equal. apply IH; assumption.
    - inversion H'; subst; [congruence|].
      match goal with
      | [ A : fs _ = Some ils, B : fs _ = Some ?ils' |- _ ] => rewrite A in B; inversion B; subst
      end.
      f_equal; [apply IH1 | apply IH2]; assumption.
  Qed.

  Lemma loop_subst : forall rec p,
    (forall q ils o m, rec q ils = Ok o m -> Subst q ils o) ->
    forall ls idx o m, loop rec p idx ls = Ok o m -> Subst p ls o.
  Proof.
    intros rec p Hrec. induction ls as [|l r IH]; intros idx o m H.
    - simpl in H. inversion H. constructor.
    - rewrite loop_cons in H. destruct (classify l) as [|a|k] eqn:C; try discriminate.
      + destruct (loop rec p (S idx) r) eqn:L; try discriminate. inversion H; subst.
        apply Subst_line; [apply classify_plain; assumption | eapply IH; eauto].
      + apply classify_inc in C. destruct C as [Ci ->].
        destruct (fs (rel p (include_arg l))) as [ils|] eqn:F; [|discriminate].
        destruct (rec (rel p (include_arg l)) ils) eqn:R; try discriminate.
        destruct (loop rec p (S idx) r) eqn:L; try discriminate. inversion H; subst.
        eapply Subst_inc; eauto.
  Qed.

  Lemma resolve_subst : forall fuel seen p ls o m,
    resolve fuel seen p ls = Ok o m -> Subst p ls o.
  Proof.
    induction fuel as [|f IH]; intros seen p ls o m H.
    - rewrite resolve_0 in H. destruct (str_in p seen); discriminate.
    - rewrite resolve_S in H. destruct (str_in p seen); [discriminate|].
      eapply loop_subst; [|exact H]. intros; eapply IH; eauto.
  Qed.

  Lemma resolve_file_subst : forall fuel entry o m,
    resolve_file fuel entry = Ok o m ->
    exists ls, fs entry = Some ls /\ Subst entry ls o /\ forall o', Subst entry ls o' -> o' = o.
  Proof.
    unfold Include.resolve_file. intros fuel entry o m H.
    destruct (fs entry) as [ls|]; [|discriminate].
    exists ls. split; [reflexivity|]. pose proof (resolve_subst _ _ _ _ _ _ H) as S.
    split; [exact S|]. intros o' S'. eapply Subst_functional; eauto.
  Qed.

  (* -------------------------------------------------------------------------------------------- *)
  (* Provenance                                                                                    *)
  (* -------------------------------------------------------------------------------------------- *)

  (* the line is line number (snd lc) of file (fst lc) in the file system, and is not a directive *)
  Definition FsOrigin (line : string) (lc : loc) : Prop :=
    is_include line = false /\
    exists ls', fs (fst lc) = Some ls' /\ nth_error ls' (snd lc) = Some line.

  (* same, where the text of the file being resolved is given by the caller rather than read from fs *)
  Definition Origin (p : string) (ls : list string) (line : string) (lc : loc) : Prop :=
    is_include line = false /\
    ((fst lc = p /\ nth_error ls (snd lc) = Some line) \/
     exists ls', fs (fst lc) = Some ls' /\ nth_error ls' (snd lc) = Some line).

  Lemma Forall2_impl_local : forall (A B : Type) (P Q : A -> B -> Prop) la lb,
    (forall a b, P a b -> Q a b) -> Forall2 P la lb -> Forall2 Q la lb.
  Proof. intros A B P Q la lb H F. induction F; constructor; auto. Qed.

  Lemma loop_prov : forall rec p full,
    (forall q ils o m, fs q = Some ils -> rec q ils = Ok o m -> Forall2 FsOrigin o m) ->
    forall ls idx o m,
      (forall j l, nth_error ls j = Some l -> nth_error full (idx + j) = Some l) ->
      loop rec p idx ls = Ok o m -> Forall2 (Origin p full) o m.
  Proof.
    intros rec p full Hrec. induction ls as [|l r IH]; intros idx o m Hsuf H.
    - simpl in H. inversion H. constructor.
    - rewrite loop_cons in H.
      assert (Hsuf' : forall j x, nth_error r j = Some x -> nth_error full (S idx + j) = Some x).
      { intros j x Hj. replace (S idx + j) with (idx + S j) by lia. apply Hsuf. exact Hj. }
      destruct (classify l) as [|a|k] eqn:C; try discriminate.
      + destruct (loop rec p (S idx) r) eqn:L; try discriminate. inversion H; subst.
        constructor; [|eapply IH; eauto].
        split; [apply classify_plain; assumption|]. left. simpl. split; [reflexivity|].
        replace idx with (idx + 0) by lia. apply Hsuf. reflexivity.
      + destruct (fs (rel p a)) as [ils|] eqn:F; [|discriminate].
        destruct (rec (rel p a) ils) eqn:R; try discriminate.
        destruct (loop rec p (S idx) r) eqn:L; try discriminate. inversion H; subst.
        apply Forall2_app; [|eapply IH; eauto].
        pose proof (Hrec _ _ _ _ F R) as P.
        eapply Forall2_impl_local; [|exact P]. intros x y [A B]. split; [exact A | right; exact B].
  Qed.

  Lemma resolve_prov : forall fuel seen p ls o m,
    resolve fuel seen p ls = Ok o m -> Forall2 (Origin p ls) o m.
  Proof.
    induction fuel as [|f IH]; intros seen p ls o m H.
    - rewrite resolve_0 in H. destruct (str_in p seen); discriminate.
    - rewrite resolve_S in H. destruct (str_in p seen); [discriminate|].
      eapply loop_prov; [| |exact H].
      + intros q ils o' m' F R. apply IH in R.
        eapply Forall2_impl_local; [|exact R]. intros x y [A [[E N]|B]].
        * split; [exact A|]. exists ils. rewrite E. auto.
        * split; [exact A | exact B].
      + intros j l Hj. exact Hj.
  Qed.

  Lemma resolve_file_prov : forall fuel entry o m,
    resolve_file fuel entry = Ok o m -> Forall2 FsOrigin o m.
  Proof.
    unfold Include.resolve_file. intros fuel entry o m H.
    destruct (fs entry) as [ls|] eqn:F; [|discriminate].
    apply resolve_prov in H. eapply Forall2_impl_local; [|exact H].
    intros x y [A [[E N]|B]]; split; auto. exists ls. rewrite E. auto.
  Qed.

  Lemma resolve_file_prov_nth : forall fuel entry o m,
    resolve_file fuel entry = Ok o m ->
    length m = length o /\
    forall i, i < length o ->
      let line := nth i o "" in
      let file := fst (nth i m ("", 0)) in
      let idx := snd (nth i m ("", 0)) in
      is_include line = false /\
      exists ls', fs file = Some ls' /\ nth_error ls' idx = Some line.
  Proof.
    intros fuel entry o m H. apply resolve_file_prov in H.
    destruct (Forall2_nth_both _ _ _ _ _ "" ("", 0) H) as [L N].
    split; [exact L|]. intros i Hi. exact (N i Hi).
  Qed.

  (* -------------------------------------------------------------------------------------------- *)
  (* Termination: the fuel is never exhausted                                                      *)
  (* -------------------------------------------------------------------------------------------- *)

  Definition fresh (seen univ : list string) : list string :=
    filter (fun p => negb (str_in p seen)) univ.

  Lemma fresh_le : forall p seen univ, length (fresh (p :: seen) univ) <= length (fresh seen univ).
  Proof.
    intros p seen. induction univ as [|x r IH]; simpl; [lia|].
    destruct (String.eqb x p); simpl.
    - destruct (str_in x seen); simpl; lia.
    - destruct (str_in x seen); simpl; lia.
  Qed.

  Lemma fresh_lt : forall p seen univ,
    In p univ -> str_in p seen = false ->
    length (fresh (p :: seen) univ) < length (fresh seen univ).
  Proof.
    intros p seen. induction univ as [|x r IH]; intros Hin Hs; [destruct Hin|].
    simpl. destruct (String.eqb x p) eqn:E.
    - apply String.eqb_eq in E. subst x. rewrite Hs. simpl.
      pose proof (fresh_le p seen r). unfold fresh in *. lia.
    - destruct Hin as [->|Hin]; [rewrite String.eqb_refl in E; discriminate|].
      specialize (IH Hin Hs). simpl. destruct (str_in x seen); simpl; unfold fresh in *; lia.
  Qed.

  (* univ contains every existing file that an include directive of one of its files names *)
  Definition closed (univ : list string) : Prop :=
    forall p ls l a, In p univ -> fs p = Some ls -> In l ls -> classify l = Inc a ->
                     fs (rel p a) <> None -> In (rel p a) univ.

  Lemma loop_fuel : forall rec p (univ : list string),
    (forall q ils, In q univ -> fs q = Some ils -> rec q ils <> OutOfFuel) ->
    forall ls idx,
      (forall l a, In l ls -> classify l = Inc a -> fs (rel p a) <> None -> In (rel p a) univ) ->
      loop rec p idx ls <> OutOfFuel.
  Proof.
    intros rec p univ Hrec. induction ls as [|l r IH]; intros idx Hc.
    - simpl. discriminate.
    - rewrite loop_cons.
      assert (IH' : loop rec p (S idx) r <> OutOfFuel).
      { apply IH. intros; eapply Hc; eauto. right; assumption. }
      destruct (classify l) as [|a|k] eqn:C; try discriminate.
      + destruct (loop rec p (S idx) r); congruence.
      + destruct (fs (rel p a)) as [ils|] eqn:F; [|discriminate].
        assert (R : rec (rel p a) ils <> OutOfFuel).
        { apply Hrec; [|exact F]. eapply Hc; [left; reflexivity | exact C | congruence]. }
        destruct (rec (rel p a) ils); try discriminate; try congruence.
        destruct (loop rec p (S idx) r); congruence.
  Qed.

  Lemma resolve_fuel : forall univ, closed univ ->
    forall fuel seen p ls,
      In p univ -> fs p = Some ls -> length (fresh seen univ) <= fuel ->
      resolve fuel seen p ls <> OutOfFuel.
  Proof.
    intros univ Hcl. induction fuel as [|f IH]; intros seen p ls Hp F Hlen.
    - rewrite resolve_0. destruct (str_in p seen) eqn:S; [discriminate|].
      pose proof (fresh_lt p seen univ Hp S). lia.
    - rewrite resolve_S. destruct (str_in p seen) eqn:S; [discriminate|].
      eapply loop_fuel with (univ := univ).
      + intros q ils Hq Fq. apply IH; auto.
        pose proof (fresh_lt p seen univ Hp S). lia.
      + intros l a Hl C N. eapply Hcl; eauto.
  Qed.

  Lemma filter_length_le : forall (A : Type) (f : A -> bool) l, length (filter f l) <= length l.
  Proof. induction l; simpl; [lia|]. destruct (f a); simpl; lia. Qed.

  Lemma resolve_file_fuel : forall univ fuel entry,
    closed univ -> (fs entry <> None -> In entry univ) -> length univ <= fuel ->
    resolve_file fuel entry <> OutOfFuel.
  Proof.
    intros univ fuel entry Hcl He Hlen. unfold Include.resolve_file.
    destruct (fs entry) as [ls|] eqn:F; [|discriminate].
    apply resolve_fuel with (univ := univ); auto.
    - apply He. congruence.
    - pose proof (filter_length_le _ (fun p => negb (str_in p [])) univ). unfold fresh. lia.
  Qed.

  (* the same with the number of *distinct* paths in univ *)
  Lemma closed_nodup : forall univ, closed univ -> closed (nodup string_dec univ).
  Proof.
    intros univ H p ls l a Hp. rewrite nodup_In in Hp. intros. rewrite nodup_In. eapply H; eauto.
  Qed.

  Lemma resolve_file_fuel_distinct : forall univ fuel entry,
    closed univ -> (fs entry <> None -> In entry univ) ->
    length (nodup string_dec univ) < fuel ->
    resolve_file fuel entry <> OutOfFuel.
  Proof.
    intros univ fuel entry Hcl He Hlen.
    apply resolve_file_fuel with (univ := nodup string_dec univ).
    - apply closed_nodup; assumption.
    - intros N. rewrite nodup_In. auto.
    - lia.
  Qed.

  (* more fuel never changes a result that was reached *)
  Lemma loop_mono : forall (rec rec' : string -> list string -> outcome) p,
    (forall q ils, rec q ils <> OutOfFuel -> rec' q ils = rec q ils) ->
    forall ls idx, loop rec p idx ls <> OutOfFuel -> loop rec' p idx ls = loop rec p idx ls.
  Proof.
    intros rec rec' p Hrec. induction ls as [|l r IH]; intros idx H; [reflexivity|].
    rewrite !loop_cons. rewrite loop_cons in H. destruct (classify l) as [|a|k]; try reflexivity.
    - assert (N : loop rec p (S idx) r <> OutOfFuel) by (intro X; rewrite X in H; congruence).
      rewrite (IH _ N). reflexivity.
    - destruct (fs (rel p a)) as [ils|]; [|reflexivity].
      assert (R : rec (rel p a) ils <> OutOfFuel) by (intro X; rewrite X in H; congruence).
      rewrite (Hrec _ _ R). destruct (rec (rel p a) ils); try reflexivity.
      assert (N : loop rec p (S idx) r <> OutOfFuel) by (intro X; rewrite X in H; congruence).
      rewrite (IH _ N). reflexivity.
  Qed.

  Lemma resolve_mono : forall f seen p ls,
    resolve f seen p ls <> OutOfFuel -> forall f', f <= f' -> resolve f' seen p ls = resolve f seen p ls.
  Proof.
    induction f as [|f IH]; intros seen p ls H f' Hle.
    - rewrite resolve_0 in *. destruct (str_in p seen) eqn:S; [|congruence].
      apply resolve_seen. apply str_in_In. exact S.
    - destruct f' as [|f']; [lia|]. rewrite !resolve_S. rewrite resolve_S in H.
      destruct (str_in p seen); [reflexivity|].
      apply loop_mono; [|exact H]. intros q ils N. apply IH; [exact N | lia].
  Qed.

  (* -------------------------------------------------------------------------------------------- *)
  (* The include graph                                                                             *)
  (* -------------------------------------------------------------------------------------------- *)

  (* file p has a well-formed include directive naming q *)
  Definition edge (p q : string) : Prop :=
    exists ls l a, fs p = Some ls /\ In l ls /\ classify l = Inc a /\ q = rel p a.

  Inductive plus : string -> string -> Prop :=
  | plus_one : forall p q, edge p q -> plus p q
  | plus_step : forall p q r, edge p q -> plus q r -> plus p r.

  Definition reach (p q : string) : Prop := p = q \/ plus p q.

  Lemma plus_snoc : forall p q, plus p q -> forall r, edge q r -> plus p r.
  Proof.
    induction 1 as [p q E | p q r E _ IH]; intros x Ex.
    - eapply plus_step; [exact E | apply plus_one; exact Ex].
    - eapply plus_step; [exact E | apply IH; exact Ex].
  Qed.

  Lemma plus_trans : forall p q, plus p q -> forall r, plus q r -> plus p r.
  Proof.
    induction 1 as [p q E | p q r E _ IH]; intros x Px.
    - eapply plus_step; eauto.
    - eapply plus_step; [exact E | apply IH; exact Px].
  Qed.

  Lemma reach_plus : forall p q r, reach p q -> plus q r -> plus p r.
  Proof. intros p q r [->|P] Q; [exact Q | eapply plus_trans; eauto]. Qed.

  Lemma edge_reach : forall p q r, edge p q -> reach q r -> reach p r.
  Proof.
    intros p q r E [<-|P]; right; [apply plus_one; exact E | eapply plus_step; eauto].
  Qed.

  (* ---- success propagates down the tree ---- *)

  (* file q (with its text from fs) resolves successfully under the seen set `seen` *)
  Definition OkAt (seen : list string) (q : string) : Prop :=
    exists f ils o m, fs q = Some ils /\ resolve f seen q ils = Ok o m.

  Lemma OkAt_not_seen : forall seen q, OkAt seen q -> ~ In q seen.
  Proof. intros seen q (f & ils & o & m & _ & R). eapply resolve_ok_not_seen; eauto. Qed.

  Lemma OkAt_step : forall seen p q, OkAt seen p -> edge p q -> OkAt (p :: seen) q.
  Proof.
    intros seen p q (f & ils & o & m & F & R) (ls & l & a & F' & Hin & C & ->).
    rewrite F in F'. inversion F'; subst ls. destruct f as [|f].
    - rewrite resolve_0 in R. destruct (str_in p seen); discriminate.
    - rewrite resolve_S in R. destruct (str_in p seen); [discriminate|].
      pose proof (loop_ok_lines _ _ _ _ _ _ R l Hin) as L. rewrite C in L.
      destruct L as (ils' & o' & m' & Fq & Rq). exists f, ils', o', m'. auto.
  Qed.

  Lemma OkAt_plus : forall p q, plus p q ->
    forall seen, OkAt seen p -> exists seen', OkAt seen' q /\ incl (p :: seen) seen'.
  Proof.
    induction 1 as [p q E | p q r E _ IH]; intros seen H.
    - exists (p :: seen). split; [eapply OkAt_step; eauto | apply incl_refl].
    - destruct (IH (p :: seen) (OkAt_step _ _ _ H E)) as (seen' & H' & I).
      exists seen'. split; [exact H'|]. intros x Hx. apply I. right. exact Hx.
  Qed.

  Lemma OkAt_reach : forall p q seen, reach p q -> OkAt seen p -> exists seen', OkAt seen' q.
  Proof.
    intros p q seen [<-|P] H; [eauto|]. destruct (OkAt_plus _ _ P _ H) as (s & H' & _). eauto.
  Qed.

  Lemma OkAt_no_cycle : forall seen p, OkAt seen p -> ~ plus p p.
  Proof.
    intros seen p H P. destruct (OkAt_plus _ _ P _ H) as (seen' & H' & I).
    apply (OkAt_not_seen _ _ H'). apply I. left. reflexivity.
  Qed.

  Lemma resolve_file_OkAt : forall fuel entry o m,
    resolve_file fuel entry = Ok o m -> OkAt [] entry.
  Proof.
    unfold Include.resolve_file. intros fuel entry o m H.
    destruct (fs entry) as [ls|] eqn:F; [|discriminate]. exists fuel, ls, o, m. auto.
  Qed.

  (* a reachable cycle: never Ok *)
  Lemma cycle_never_ok : forall entry p, reach entry p -> plus p p ->
    forall fuel o m, resolve_file fuel entry <> Ok o m.
  Proof.
    intros entry p R P fuel o m H. apply resolve_file_OkAt in H.
    destruct (OkAt_reach _ _ _ R H) as (s & H'). exact (OkAt_no_cycle _ _ H' P).
  Qed.

  (* a reachable include of a file that does not exist: never Ok *)
  Definition has_missing (p : string) : Prop :=
    exists ls l a, fs p = Some ls /\ In l ls /\ classify l = Inc a /\ fs (rel p a) = None.

  (* a reachable malformed directive *)
  Definition has_bad (p : string) : Prop :=
    exists ls l k, fs p = Some ls /\ In l ls /\ classify l = Bad k.

  Lemma OkAt_lines : forall seen p, OkAt seen p -> ~ has_missing p /\ ~ has_bad p.
  Proof.
    intros seen p (f & ils & o & m & F & R). destruct f as [|f].
    { rewrite resolve_0 in R. destruct (str_in p seen); discriminate. }
    rewrite resolve_S in R. destruct (str_in p seen); [discriminate|].
    pose proof (loop_ok_lines _ _ _ _ _ _ R) as L. split.
    - intros (ls & l & a & F' & Hin & C & N). rewrite F in F'. inversion F'; subst ls.
      specialize (L l Hin). rewrite C in L. destruct L as (x & _ & _ & Fx & _). congruence.
    - intros (ls & l & k & F' & Hin & C). rewrite F in F'. inversion F'; subst ls.
      specialize (L l Hin). rewrite C in L. exact L.
  Qed.

  Lemma missing_never_ok : forall entry p, reach entry p -> has_missing p ->
    forall fuel o m, resolve_file fuel entry <> Ok o m.
  Proof.
    intros entry p R M fuel o m H. apply resolve_file_OkAt in H.
    destruct (OkAt_reach _ _ _ R H) as (s & H'). exact (proj1 (OkAt_lines _ _ H') M).
  Qed.

  Lemma bad_never_ok : forall entry p, reach entry p -> has_bad p ->
    forall fuel o m, resolve_file fuel entry <> Ok o m.
  Proof.
    intros entry p R M fuel o m H. apply resolve_file_OkAt in H.
    destruct (OkAt_reach _ _ _ R H) as (s & H'). exact (proj2 (OkAt_lines _ _ H') M).
  Qed.

  (* ---- every reported error is real ---- *)

  Definition Sound (p : string) (r : outcome) : Prop :=
    match r with
    | Cycle q => reach p q /\ plus q q
    | Missing _ => exists p', reach p p' /\ has_missing p'
    | BadDirective k i f =>
        reach p f /\ exists ls l, fs f = Some ls /\ nth_error ls i = Some l /\ classify l = Bad k
    | Ok _ _ => True
    | OutOfFuel => True
    end.

  Lemma Sound_lift : forall p q r, edge p q -> Sound q r -> Sound p r.
  Proof.
    intros p q r E. destruct r; simpl; auto.
    - intros [R P]. split; [eapply edge_reach; eauto | exact P].
    - intros (p' & R & M). exists p'. split; [eapply edge_reach; eauto | exact M].
    - intros [R X]. split; [eapply edge_reach; eauto | exact X].
  Qed.

  Lemma loop_sound : forall rec p full, fs p = Some full ->
    (forall l a ils, In l full -> classify l = Inc a -> fs (rel p a) = Some ils ->
                     Sound (rel p a) (rec (rel p a) ils)) ->
    forall ls idx,
      (forall j l, nth_error ls j = Some l -> nth_error full (idx + j) = Some l) ->
      Sound p (loop rec p idx ls).
  Proof.
    intros rec p full F Hrec. induction ls as [|l r IH]; intros idx Hsuf; [exact I|].
    rewrite loop_cons.
    assert (Hl : nth_error full idx = Some l).
    { replace idx with (idx + 0) by lia. apply Hsuf. reflexivity. }
    assert (Hin : In l full) by (eapply nth_error_In; eauto).
    assert (IH' : Sound p (loop rec p (S idx) r)).
    { apply IH. intros j x Hj. replace (S idx + j) with (idx + S j) by lia. apply Hsuf. exact Hj. }
    destruct (classify l) as [|a|k] eqn:C.
    - destruct (loop rec p (S idx) r); simpl in *; auto.
    - destruct (fs (rel p a)) as [ils|] eqn:Fa.
      + assert (E : edge p (rel p a)) by (exists full, l, a; auto).
        pose proof (Sound_lift _ _ _ E (Hrec l a ils Hin C Fa)) as HS.
        destruct (rec (rel p a) ils); simpl in *; auto.
        destruct (loop rec p (S idx) r); simpl in *; auto.
      + simpl. exists p. split; [left; reflexivity|]. exists full, l, a. auto.
    - simpl. split; [left; reflexivity|]. exists full, l. auto.
  Qed.

  Lemma resolve_sound : forall fuel seen p ls, fs p = Some ls ->
    (forall s, In s seen -> plus s p) -> Sound p (resolve fuel seen p ls).
  Proof.
    induction fuel as [|f IH]; intros seen p ls F Hs.
    - rewrite resolve_0. destruct (str_in p seen) eqn:S; [|exact I].
      simpl. split; [left; reflexivity | apply Hs, str_in_In, S].
    - rewrite resolve_S. destruct (str_in p seen) eqn:S.
      + simpl. split; [left; reflexivity | apply Hs, str_in_In, S].
      + eapply loop_sound; [exact F | | intros j l Hj; exact Hj].
        intros l a ils Hin C Fa. apply IH; [exact Fa|].
        assert (E : edge p (rel p a)) by (exists ls, l, a; auto).
        intros s [<-|Hin']; [apply plus_one; exact E | eapply plus_snoc; eauto].
  Qed.

  Lemma resolve_file_sound : forall fuel entry, fs entry <> None -> Sound entry (resolve_file fuel entry).
  Proof.
    intros fuel entry N. unfold Include.resolve_file. destruct (fs entry) as [ls|] eqn:F; [|congruence].
    apply resolve_sound; [exact F | intros s []].
  Qed.

  (* a Cycle outcome names a file that really includes itself (transitively): two branches reaching the
     same file are never reported *)
  Lemma cycle_only_if_cycle : forall fuel entry q,
    resolve_file fuel entry = Cycle q -> reach entry q /\ plus q q.
  Proof.
    intros fuel entry q H. unfold Include.resolve_file in H.
    destruct (fs entry) as [ls|] eqn:F; [|discriminate].
    pose proof (resolve_sound fuel [] entry ls F (fun s (X : In s []) => match X with end)) as S.
    rewrite H in S. exact S.
  Qed.

  (* an include graph without cycles, missing files and malformed directives resolves *)
  Lemma dag_ok : forall univ fuel entry,
    closed univ -> In entry univ -> fs entry <> None -> length univ <= fuel ->
    (forall q, reach entry q -> ~ plus q q) ->
    (forall q, reach entry q -> ~ has_missing q) ->
    (forall q, reach entry q -> ~ has_bad q) ->
    exists o m, resolve_file fuel entry = Ok o m.
  Proof.
    intros univ fuel entry Hcl He N Hlen Hc Hm Hb.
    pose proof (resolve_file_sound fuel entry N) as S.
    pose proof (resolve_file_fuel univ fuel entry Hcl (fun _ => He) Hlen) as Fu.
    destruct (resolve_file fuel entry) as [o m|q|q|k i f|]; simpl in S.
    - eauto.
    - destruct S as [R P]. exfalso. exact (Hc q R P).
    - destruct S as (p' & R & M). exfalso. exact (Hm p' R M).
    - destruct S as [R (ls & l & F & Nth & C)]. exfalso. apply (Hb f R).
      exists ls, l, k. split; [exact F|]. split; [eapply nth_error_In; eauto | exact C].
    - congruence.
  Qed.

  (* a reachable cycle in a graph without missing files and malformed directives: the outcome is Cycle *)
  Lemma cycle_reported : forall univ fuel entry p,
    closed univ -> In entry univ -> length univ <= fuel ->
    reach entry p -> plus p p ->
    (forall q, reach entry q -> ~ has_missing q) ->
    (forall q, reach entry q -> ~ has_bad q) ->
    exists q, resolve_file fuel entry = Cycle q /\ reach entry q /\ plus q q.
  Proof.
    intros univ fuel entry p Hcl He Hlen R P Hm Hb.
    assert (N : fs entry <> None).
    { destruct R as [->|R].
      - inversion P as [? ? (ls & _ & _ & F & _) | ? ? ? (ls & _ & _ & F & _)]; congruence.
      - inversion R as [? ? (ls & _ & _ & F & _) | ? ? ? (ls & _ & _ & F & _)]; congruence. }
    pose proof (resolve_file_sound fuel entry N) as S.
    pose proof (resolve_file_fuel univ fuel entry Hcl (fun _ => He) Hlen) as Fu.
    pose proof (cycle_never_ok entry p R P fuel) as NOk.
    destruct (resolve_file fuel entry) as [o m|q|q|k i f|] eqn:E; simpl in S.
    - exfalso. eapply NOk. reflexivity.
    - exists q. auto.
    - destruct S as (p' & R' & M). exfalso. exact (Hm p' R' M).
    - destruct S as [R' (ls & l & F & Nth & C)]. exfalso. apply (Hb f R').
      exists ls, l, k. split; [exact F|]. split; [eapply nth_error_In; eauto | exact C].
    - congruence.
  Qed.

  (* -------------------------------------------------------------------------------------------- *)
  (* Direct statements about one directive after a prefix that resolves                            *)
  (* -------------------------------------------------------------------------------------------- *)

  Lemma resolve_after_prefix : forall f seen p pre rest o1 m1,
    resolve (S f) seen p pre = Ok o1 m1 ->
    resolve (S f) seen p (pre ++ rest) =
    match loop (resolve f (p :: seen)) p (length pre) rest with
    | Ok o2 m2 => Ok (o1 ++ o2) (m1 ++ m2)
    | e => e
    end.
  Proof.
    intros f seen p pre rest o1 m1 H. rewrite resolve_S in *.
    destruct (str_in p seen); [discriminate|]. rewrite loop_app, H. reflexivity.
  Qed.

  (* the seen set handed to an included file is base_path :: seen whatever its earlier siblings included *)
  Lemma sibling_seen_unchanged : forall f seen p pre l a ils o1 m1,
    resolve (S f) seen p pre = Ok o1 m1 ->
    classify l = Inc a -> fs (rel p a) = Some ils ->
    resolve (S f) seen p (pre ++ [l]) =
    match resolve f (p :: seen) (rel p a) ils with
    | Ok o2 m2 => Ok (o1 ++ o2) (m1 ++ m2)
    | Missing _ => Missing (rel p a)
    | e => e
    end.
  Proof.
    intros f seen p pre l a ils o1 m1 H C F.
    rewrite (resolve_after_prefix _ _ _ _ _ _ _ H), loop_cons, C, F.
    destruct (resolve f (p :: seen) (rel p a) ils); try reflexivity.
    simpl. rewrite !app_nil_r. reflexivity.
  Qed.

  Lemma missing_direct : forall f seen p pre l post a o1 m1,
    resolve (S f) seen p pre = Ok o1 m1 ->
    classify l = Inc a -> fs (rel p a) = None ->
    resolve (S f) seen p (pre ++ l :: post) = Missing (rel p a).
  Proof.
    intros f seen p pre l post a o1 m1 H C F.
    rewrite (resolve_after_prefix _ _ _ _ _ _ _ H), loop_cons, C, F. reflexivity.
  Qed.

  (* FileNotFoundError from deeper down is re-raised naming the directive of this file *)
  Lemma missing_wrapped : forall f seen p pre l post a ils x o1 m1,
    resolve (S f) seen p pre = Ok o1 m1 ->
    classify l = Inc a -> fs (rel p a) = Some ils ->
    resolve f (p :: seen) (rel p a) ils = Missing x ->
    resolve (S f) seen p (pre ++ l :: post) = Missing (rel p a).
  Proof.
    intros f seen p pre l post a ils x o1 m1 H C F R.
    rewrite (resolve_after_prefix _ _ _ _ _ _ _ H), loop_cons, C, F, R. reflexivity.
  Qed.

  Lemma self_include_cycle : forall f seen p pre l post a o1 m1,
    resolve (S f) seen p pre = Ok o1 m1 ->
    classify l = Inc a -> rel p a = p -> fs p <> None ->
    resolve (S f) seen p (pre ++ l :: post) = Cycle p.
  Proof.
    intros f seen p pre l post a o1 m1 H C E N.
    rewrite (resolve_after_prefix _ _ _ _ _ _ _ H), loop_cons, C, E.
    destruct (fs p) as [ils|]; [|congruence].
    rewrite resolve_seen; [reflexivity | left; reflexivity].
  Qed.

  Lemma bad_direct : forall f seen p pre l post k o1 m1,
    resolve (S f) seen p pre = Ok o1 m1 ->
    classify l = Bad k ->
    resolve (S f) seen p (pre ++ l :: post) = BadDirective k (length pre) p.
  Proof.
    intros f seen p pre l post k o1 m1 H C.
    rewrite (resolve_after_prefix _ _ _ _ _ _ _ H), loop_cons, C. reflexivity.
  Qed.

End Proofs.

(* ---------------------------------------------------------------------------------------------- *)
(* finite file systems: S (number of files) is always enough fuel                                   *)
(* ---------------------------------------------------------------------------------------------- *)

Lemma fs_of_In : forall files p, fs_of files p <> None -> In p (map fst files).
Proof.
  induction files as [|[q ls] r IH]; simpl; intros p H; [congruence|].
  destruct (String.eqb p q) eqn:E.
  - left. apply String.eqb_eq in E. auto.
  - right. apply IH. exact H.
Qed.

Lemma closed_fs_of : forall files rel, closed (fs_of files) rel (map fst files).
Proof. intros files rel p ls l a _ _ _ _ N. apply fs_of_In. exact N. Qed.

Lemma resolve_includes_terminates : forall files rel entry,
  resolve_includes files rel entry <> OutOfFuel.
Proof.
  intros files rel entry. unfold resolve_includes.
  apply resolve_file_fuel with (univ := map fst files).
  - apply closed_fs_of.
  - apply fs_of_In.
  - rewrite map_length. lia.
Qed.

(* and more fuel than that gives the same result *)
Lemma resolve_includes_fuel_irrelevant : forall files rel entry fuel,
  S (length files) <= fuel ->
  resolve_file (fs_of files) rel fuel entry = resolve_includes files rel entry.
Proof.
  intros files rel entry fuel H. pose proof (resolve_includes_terminates files rel entry) as T.
  unfold resolve_includes, resolve_file in *. destruct (fs_of files entry); [|reflexivity].
  apply resolve_mono; assumption.
Qed.
