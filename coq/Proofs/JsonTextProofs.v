(* Proofs about the JSON text codec (Codec/JsonText.v): json.loads inverts json.dumps and
   json.dumps(indent=2) on every JSON tree, the fuel `length of the text` is always enough, and the
   bridge to Codec.json_rt. *)
From Coq Require Import String Ascii List Bool NArith ZArith Arith Lia.
From Bardic Require Import PyStr Value Codec JsonText CodecProofs.
Import ListNotations.
Local Open Scope list_scope.
Local Open Scope string_scope.

(* ---------------------------------------------------------------------------------------- *)
(* strings *)

Lemma slen_app a b : String.length (a ++ b) = String.length a + String.length b.
Proof. induction a as [|c a IH]; simpl; [reflexivity|]. rewrite IH. reflexivity. Qed.

Lemma sapp_assoc (a b c : string) : (a ++ b) ++ c = a ++ (b ++ c).
Proof. induction a as [|x a IH]; simpl; [reflexivity|]. rewrite IH. reflexivity. Qed.

(* the string scanner undoes the escaping of one character (all 256 of them) *)
Lemma pstring_esc_char c k : pstring (esc_char c k) = cons_res c (pstring k).
Proof. destruct c as [[] [] [] [] [] [] [] []]; reflexivity. Qed.

Lemma pstring_esc_str s k : pstring (esc_str s (String """" k)) = Some (s, k).
Proof.
  induction s as [|c r IH].
  - reflexivity.
  - cbn [esc_str]. rewrite pstring_esc_char, IH. reflexivity.
Qed.

Lemma esc_char_len c k : String.length k < String.length (esc_char c k).
Proof.
  unfold esc_char.
  repeat match goal with |- context [if ?b then _ else _] => destruct b end; cbn [String.length]; lia.
Qed.

Lemma esc_str_len s k : String.length k <= String.length (esc_str s k).
Proof.
  induction s as [|c r IH]; cbn [esc_str]; [lia|].
  pose proof (esc_char_len c (esc_str r k)). lia.
Qed.

(* ---------------------------------------------------------------------------------------- *)
(* character classes (by enumeration of the 256 characters) *)

Definition nodigit (k : string) : Prop :=
  match k with EmptyString => True | String c _ => is_digit c = false end.

(* the first character of the text of a value: not white space, not a closing bracket *)
Definition vhead (s : string) : Prop :=
  match s with
  | EmptyString => False
  | String c _ => is_ws c = false /\ Ascii.eqb c "]" = false /\ Ascii.eqb c "}" = false
  end.

Fixpoint all_ws (s : string) : bool :=
  match s with EmptyString => true | String c r => is_ws c && all_ws r end.

Lemma digit_not_special c :
  is_digit c = true ->
  is_ws c = false /\ Ascii.eqb c "]" = false /\ Ascii.eqb c "}" = false.
Proof. destruct c as [[] [] [] [] [] [] [] []]; intros H; try discriminate H; repeat split. Qed.

Lemma ws_not_digit c : is_ws c = true -> is_digit c = false.
Proof. destruct c as [[] [] [] [] [] [] [] []]; intros H; try discriminate H; reflexivity. Qed.

Lemma pvalue_digit c r n :
  is_digit c = true -> pvalue (S n) (String c r) = tag_res JInt (pnat (String c r)).
Proof. destruct c as [[] [] [] [] [] [] [] []]; intros H; try discriminate H; reflexivity. Qed.

Lemma skip_ws_app w s : all_ws w = true -> skip_ws (w ++ s) = skip_ws s.
Proof.
  induction w as [|c w IH]; intros H; [reflexivity|].
  cbn [all_ws] in H. apply andb_prop in H. destruct H as [Hc Hw].
  cbn [append skip_ws]. rewrite Hc. auto.
Qed.

Lemma vhead_skip s : vhead s -> skip_ws s = s.
Proof. destruct s as [|c r]; [intros []|]. intros [H _]. cbn [skip_ws]. rewrite H. reflexivity. Qed.

Lemma nodigit_ws_app w c k : all_ws w = true -> is_digit c = false -> nodigit (w ++ String c k).
Proof.
  destruct w as [|a w]; intros Hw Hc; [exact Hc|].
  cbn [all_ws] in Hw. apply andb_prop in Hw. cbn [append nodigit]. apply ws_not_digit. tauto.
Qed.

Lemma all_ws_spaces n : all_ws (repeat_char " " n) = true.
Proof. induction n as [|n IH]; [reflexivity|]. cbn [repeat_char all_ws]. rewrite IH. reflexivity. Qed.

Lemma all_ws_nl_indent n : all_ws (nl_indent n) = true.
Proof. unfold nl_indent. cbn [all_ws]. rewrite all_ws_spaces. reflexivity. Qed.

(* ---------------------------------------------------------------------------------------- *)
(* integers: the number scanner undoes str(int) *)

Lemma pdf_unfold f n acc :
  pos_digits_fuel (S f) n acc =
  if (n / 10 =? 0)%N then String (digit_char (N.to_nat (n mod 10))) acc
  else pos_digits_fuel f (n / 10) (String (digit_char (N.to_nat (n mod 10))) acc).
Proof. reflexivity. Qed.

Lemma pdf_app f : forall n acc k, pos_digits_fuel f n acc ++ k = pos_digits_fuel f n (acc ++ k).
Proof.
  induction f as [|f IH]; intros n acc k; [reflexivity|].
  rewrite !pdf_unfold. destruct (n / 10 =? 0)%N; [reflexivity|]. rewrite IH. reflexivity.
Qed.

Lemma small_cases (d : N) : (d < 10)%N ->
  d = 0%N \/ d = 1%N \/ d = 2%N \/ d = 3%N \/ d = 4%N \/ d = 5%N \/ d = 6%N \/ d = 7%N \/ d = 8%N \/ d = 9%N.
Proof. lia. Qed.

Lemma digit_char_ok (d : N) : (d < 10)%N ->
  is_digit (digit_char (N.to_nat d)) = true /\
  N.of_nat (nat_of_ascii (digit_char (N.to_nat d)) - 48) = d.
Proof.
  intros H. apply small_cases in H.
  repeat (destruct H as [H|H]; [subst d; split; reflexivity|]). subst d; split; reflexivity.
Qed.

Lemma digit_char_nonzero (d : N) : (0 < d < 10)%N -> Ascii.eqb (digit_char (N.to_nat d)) "0" = false.
Proof.
  intros [H0 H]. apply small_cases in H.
  destruct H as [H|H]; [lia|].
  repeat (destruct H as [H|H]; [subst d; reflexivity|]). subst d; reflexivity.
Qed.

Lemma pow2_succ f : (2 ^ N.of_nat (S f) = 2 * 2 ^ N.of_nat f)%N.
Proof. rewrite Nat2N.inj_succ, N.pow_succ_r'. reflexivity. Qed.

Lemma div10_bound n f : (n < 2 ^ N.of_nat (S f))%N -> (n / 10 < 2 ^ N.of_nat f)%N.
Proof.
  rewrite pow2_succ. intros H. apply N.div_lt_upper_bound; lia.
Qed.

Lemma div10_zero n : (n / 10 =? 0)%N = true -> (n mod 10 = n /\ n < 10)%N.
Proof.
  intros H. apply N.eqb_eq in H.
  pose proof (N.div_mod n 10 ltac:(lia)) as E. pose proof (N.mod_lt n 10 ltac:(lia)). rewrite H in E. lia.
Qed.

Lemma digits_val_nodigit k n : nodigit k -> digits_val k n = (n, k).
Proof. destruct k as [|c r]; [reflexivity|]. intros H. cbn [nodigit] in H. cbn [digits_val]. rewrite H. reflexivity. Qed.

(* reading the digits that were printed in front of acc: the accumulator holds n when acc is reached *)
Lemma pdf_digits_val f : forall n acc,
  (n < 2 ^ N.of_nat f)%N -> digits_val (pos_digits_fuel f n acc) 0%N = digits_val acc n.
Proof.
  induction f as [|f IH]; intros n acc Hn.
  - cbn in Hn. assert (n = 0%N) by lia. subst n. reflexivity.
  - rewrite pdf_unfold.
    pose proof (N.mod_lt n 10 ltac:(lia)) as Hm.
    destruct (digit_char_ok (n mod 10) Hm) as [Hd Hv].
    destruct (n / 10 =? 0)%N eqn:Eq.
    + apply div10_zero in Eq. destruct Eq as [Em _].
      cbn [digits_val]. rewrite Hd, Hv. f_equal. lia.
    + rewrite IH by (apply div10_bound; exact Hn).
      cbn [digits_val]. rewrite Hd, Hv. f_equal.
      pose proof (N.div_mod n 10 ltac:(lia)). lia.
Qed.

Lemma pdf_head f : forall n acc,
  (0 < n)%N -> (n < 2 ^ N.of_nat f)%N ->
  exists c r, pos_digits_fuel f n acc = String c r /\ is_digit c = true /\ Ascii.eqb c "0" = false.
Proof.
  induction f as [|f IH]; intros n acc H0 Hn.
  - cbn in Hn. lia.
  - rewrite pdf_unfold.
    destruct (n / 10 =? 0)%N eqn:Eq.
    + apply div10_zero in Eq. destruct Eq as [Em Hlt]. rewrite Em.
      exists (digit_char (N.to_nat n)), acc. split; [reflexivity|]. split.
      * apply digit_char_ok. exact Hlt.
      * apply digit_char_nonzero. lia.
    + apply IH; [|apply div10_bound; exact Hn]. apply N.eqb_neq in Eq. apply N.neq_0_lt_0. exact Eq.
Qed.

Lemma str_of_N_fuel n : (n < 2 ^ N.of_nat (S (N.to_nat (N.log2 n))))%N.
Proof.
  rewrite Nat2N.inj_succ, N2Nat.id.
  destruct n as [|p]; [reflexivity|]. apply N.log2_spec. reflexivity.
Qed.

Lemma str_of_N_head p k :
  exists c r, str_of_N (Npos p) ++ k = String c r /\ is_digit c = true /\ Ascii.eqb c "0" = false.
Proof.
  unfold str_of_N. rewrite pdf_app. apply pdf_head; [reflexivity|apply str_of_N_fuel].
Qed.

Lemma pnat_str_of_N p k : nodigit k -> pnat (str_of_N (Npos p) ++ k) = Some (Zpos p, k).
Proof.
  intros Hk. destruct (str_of_N_head p k) as [c [r [E [Hd Hz]]]].
  rewrite E. unfold pnat. rewrite Hz, Hd. rewrite <- E.
  unfold str_of_N. rewrite pdf_app, pdf_digits_val by apply str_of_N_fuel.
  cbn [append]. rewrite digits_val_nodigit by exact Hk. reflexivity.
Qed.

Lemma pvalue_int z k n : nodigit k -> pvalue (S n) (str_of_Z z ++ k) = Some (JInt z, k).
Proof.
  intros Hk. destruct z as [|p|p]; cbn [str_of_Z].
  - reflexivity.
  - destruct (str_of_N_head p k) as [c [r [E [Hd Hz]]]].
    rewrite E, (pvalue_digit _ _ _ Hd), <- E, pnat_str_of_N by exact Hk. reflexivity.
  - cbn [append].
    change (pvalue (S n) (String "-" (str_of_N (N.pos p) ++ k)))
      with (tag_res (fun z => JInt (- z)) (pnat (str_of_N (N.pos p) ++ k))).
    rewrite pnat_str_of_N by exact Hk. reflexivity.
Qed.

Lemma str_of_Z_head z k : vhead (str_of_Z z ++ k).
Proof.
  destruct z as [|p|p]; cbn [str_of_Z].
  - cbn. repeat split.
  - destruct (str_of_N_head p k) as [c [r [E [Hd _]]]]. rewrite E. cbn [vhead].
    apply digit_not_special. exact Hd.
  - cbn. repeat split.
Qed.

(* ---------------------------------------------------------------------------------------- *)
(* unfolding equations of the parser (by computation) *)

Lemma pvalue_list n r :
  pvalue (S n) (String "[" r) =
  match skip_ws r with
  | EmptyString => None
  | String c2 r2 => if Ascii.eqb c2 "]" then Some (JList [], r2)
                    else tag_res JList (pelems (pvalue n) n (String c2 r2))
  end.
Proof. reflexivity. Qed.

Lemma pvalue_obj n r :
  pvalue (S n) (String "{" r) =
  match skip_ws r with
  | EmptyString => None
  | String c2 r2 => if Ascii.eqb c2 "}" then Some (JObj [], r2)
                    else tag_res JObj (pmembers (pvalue n) n (String c2 r2))
  end.
Proof. reflexivity. Qed.

Lemma pvalue_str n r : pvalue (S n) (String """" r) = tag_res JStr (pstring r).
Proof. reflexivity. Qed.

(* ---------------------------------------------------------------------------------------- *)
(* the loops *)

Section LoopsOk.
Variable pv : string -> option (json * string).
Variable prv : json -> string -> string.

(* the item parser undoes the item printer on y, and the text of y begins like a value *)
Definition good (y : json) : Prop :=
  (forall tail, nodigit tail -> pv (prv y tail) = Some (y, tail)) /\
  (forall tail, vhead (prv y tail)).

Lemma pelems_ok : forall l, Forall good l -> forall x, good x ->
  forall kf w wc k, all_ws w = true -> all_ws wc = true -> length l < kf ->
  pelems pv kf (prv x (pr_elems prv (String "," w) l (wc ++ String "]" k))) = Some (x :: l, k).
Proof.
  induction 1 as [|y l Hy Hl IH]; intros x Hx kf w wc k Hw Hwc Hkf.
  - destruct kf as [|kf]; [cbn in Hkf; lia|].
    cbn [pelems pr_elems]. rewrite (proj1 Hx) by (apply nodigit_ws_app; [exact Hwc|reflexivity]).
    rewrite skip_ws_app by exact Hwc. reflexivity.
  - destruct kf as [|kf]; [cbn in Hkf; lia|].
    cbn [pelems pr_elems append]. rewrite (proj1 Hx) by reflexivity.
    cbn [skip_ws]. change (is_ws ",") with false. cbv iota.
    change (Ascii.eqb "," ",") with true. cbv iota.
    rewrite skip_ws_app by exact Hw. rewrite vhead_skip by apply Hy.
    rewrite IH; [reflexivity|exact Hy|exact Hw|exact Hwc|cbn in Hkf; lia].
Qed.

Lemma pmembers_ok : forall o, Forall (fun kv => good (snd kv)) o -> forall key x, good x ->
  forall kf w wc wk k, all_ws w = true -> all_ws wc = true -> all_ws wk = true -> length o < kf ->
  pmembers pv kf
    (pr_member (String ":" wk) key
       (prv x (pr_members prv (String "," w) (String ":" wk) o (wc ++ String "}" k))))
  = Some ((key, x) :: o, k).
Proof.
  induction 1 as [|[key' y] o Hy Ho IH]; intros key x Hx kf w wc wk k Hw Hwc Hwk Hkf.
  - destruct kf as [|kf]; [cbn in Hkf; lia|].
    unfold pr_member, pr_str. cbn [pmembers pr_members].
    change (Ascii.eqb """" """") with true. cbn [negb]. cbv iota.
    rewrite pstring_esc_str. cbn [append skip_ws]. change (is_ws ":") with false. cbv iota.
    change (Ascii.eqb ":" ":") with true. cbn [negb]. cbv iota.
    rewrite skip_ws_app by exact Hwk. rewrite vhead_skip by apply Hx.
    rewrite (proj1 Hx) by (apply nodigit_ws_app; [exact Hwc|reflexivity]).
    rewrite skip_ws_app by exact Hwc. reflexivity.
  - destruct kf as [|kf]; [cbn in Hkf; lia|].
    unfold pr_member at 1. unfold pr_str. cbn [pmembers pr_members].
    change (Ascii.eqb """" """") with true. cbn [negb]. cbv iota.
    rewrite pstring_esc_str. cbn [append skip_ws]. change (is_ws ":") with false. cbv iota.
    change (Ascii.eqb ":" ":") with true. cbn [negb]. cbv iota.
    rewrite skip_ws_app by exact Hwk. rewrite vhead_skip by apply Hx.
    rewrite (proj1 Hx) by reflexivity.
    cbn [skip_ws]. change (is_ws ",") with false. cbv iota.
    change (Ascii.eqb "," ",") with true. cbv iota.
    rewrite skip_ws_app by exact Hw.
    assert (Hh : vhead (pr_member (String ":" wk) key'
                   (prv y (pr_members prv (String "," w) (String ":" wk) o (wc ++ String "}" k))))).
    { unfold pr_member, pr_str. cbn. repeat split. }
    rewrite vhead_skip by exact Hh.
    cbn [snd] in Hy.
    rewrite IH; [reflexivity|exact Hy|exact Hw|exact Hwc|exact Hwk|cbn in Hkf; lia].
Qed.
End LoopsOk.

(* ---------------------------------------------------------------------------------------- *)
(* sizes *)

Lemma list_sum_cons x l : list_sum (x :: l) = x + list_sum l.
Proof. reflexivity. Qed.

Lemma size_pos j : 1 <= size j.
Proof. destruct j; cbn [size]; lia. Qed.

Lemma length_le_sizes l : length l <= list_sum (map size l).
Proof. induction l as [|x l IH]; cbn [length map]; rewrite ?list_sum_cons; [lia|]. pose proof (size_pos x). lia. Qed.

Lemma length_le_sizes_i (o : list (string * json)) :
  length o <= list_sum (map (fun kv => size (snd kv)) o).
Proof. induction o as [|[k x] o IH]; cbn [length map snd]; rewrite ?list_sum_cons; [lia|]. pose proof (size_pos x). lia. Qed.

Lemma Forall_size_le (P : json -> Prop) l m :
  Forall P l -> list_sum (map size l) <= m -> Forall (fun y => P y /\ size y <= m) l.
Proof.
  induction 1 as [|x l Hx Hl IH]; intros Hm; constructor.
  - cbn [map] in Hm; rewrite list_sum_cons in Hm. split; [exact Hx|lia].
  - apply IH. cbn [map] in Hm; rewrite list_sum_cons in Hm. lia.
Qed.

Lemma Forall_size_le_i (P : json -> Prop) (o : list (string * json)) m :
  Forall (fun kv => P (snd kv)) o -> list_sum (map (fun kv => size (snd kv)) o) <= m ->
  Forall (fun kv => P (snd kv) /\ size (snd kv) <= m) o.
Proof.
  induction 1 as [|x l Hx Hl IH]; intros Hm; constructor.
  - cbn [map] in Hm; rewrite list_sum_cons in Hm. split; [exact Hx|lia].
  - apply IH. cbn [map] in Hm; rewrite list_sum_cons in Hm. lia.
Qed.

(* ---------------------------------------------------------------------------------------- *)
(* the parser undoes the printer, for every layout made of white space *)

Definition style_ok (st : style) : Prop :=
  (forall l, all_ws (st_open st l) = true) /\ (forall l, all_ws (st_sep st l) = true) /\
  (forall l, all_ws (st_close st l) = true) /\ all_ws (st_colon st) = true.

Lemma compact_ok : style_ok compact.
Proof. repeat split. Qed.

Lemma indent2_ok : style_ok indent2.
Proof. repeat split; intros; apply all_ws_nl_indent. Qed.

Lemma pr_vhead st lvl j k : vhead (pr st lvl j k).
Proof.
  destruct j as [|[]|z|s|[|x l]|[|[key x] o]]; try (cbn; repeat split; fail).
  cbn [pr]. apply str_of_Z_head.
Qed.

Lemma pvalue_pr st : style_ok st -> forall j lvl k n,
  nodigit k -> size j <= n -> pvalue n (pr st lvl j k) = Some (j, k).
Proof.
  intros [Hop [Hsep [Hcl Hco]]].
  induction j as [| b | z | s | l IHl | o IHo] using json_ind'; intros lvl k n Hk Hn;
    (destruct n as [|n]; [pose proof (size_pos JNull); cbn [size] in Hn; lia|]).
  - reflexivity.
  - destruct b; reflexivity.
  - cbn [pr]. apply pvalue_int. exact Hk.
  - cbn [pr]. unfold pr_str. rewrite pvalue_str, pstring_esc_str. reflexivity.
  - destruct l as [|x l]; [reflexivity|].
    cbn [pr]. rewrite pvalue_list. rewrite skip_ws_app by apply Hop.
    rewrite vhead_skip by apply pr_vhead.
    cbn [size map] in Hn; rewrite list_sum_cons in Hn.
    inversion IHl as [|x' l' Px Pl]; subst x' l'.
    match goal with |- context [pr st (S lvl) x ?T] =>
      pose proof (pr_vhead st (S lvl) x T) as Hh; destruct (pr st (S lvl) x T) as [|c2 r2] eqn:E end;
      [destruct Hh|].
    destruct Hh as [_ [Hb _]]. rewrite Hb, <- E.
    rewrite (pelems_ok (pvalue n) (pr st (S lvl))).
    + reflexivity.
    + apply Forall_size_le with (m := n) in Pl; [|lia].
      eapply Forall_impl; [|exact Pl]. intros y [Py Hy]. split.
      * intros tail Ht. apply Py; assumption.
      * intros tail. apply pr_vhead.
    + split; [intros tail Ht; apply Px; [assumption|lia]|intros tail; apply pr_vhead].
    + apply Hsep.
    + apply Hcl.
    + pose proof (length_le_sizes l). pose proof (size_pos x). lia.
  - destruct o as [|[key x] o]; [reflexivity|].
    cbn [pr]. rewrite pvalue_obj. rewrite skip_ws_app by apply Hop.
    cbn [size map snd] in Hn; rewrite list_sum_cons in Hn.
    inversion IHo as [|x' l' Px Pl]; subst x' l'. cbn [snd] in Px.
    match goal with |- context [pr_member ?C key ?T] =>
      assert (Hh : vhead (pr_member C key T)) by (unfold pr_member, pr_str; cbn; repeat split);
      rewrite vhead_skip by exact Hh;
      destruct (pr_member C key T) as [|c2 r2] eqn:E end; [destruct Hh|].
    destruct Hh as [_ [_ Hb]]. rewrite Hb, <- E.
    rewrite (pmembers_ok (pvalue n) (pr st (S lvl))).
    + reflexivity.
    + apply (Forall_size_le_i (fun y => forall lvl k n, nodigit k -> size y <= n ->
                                   pvalue n (pr st lvl y k) = Some (y, k)) o n) in Pl; [|lia].
      eapply Forall_impl; [|exact Pl]. intros [k' y] [Py Hy]. cbn [snd] in *. split.
      * intros tail Ht. apply Py; assumption.
      * intros tail. apply pr_vhead.
    + split; [intros tail Ht; apply Px; [assumption|lia]|intros tail; apply pr_vhead].
    + apply Hsep.
    + apply Hcl.
    + apply Hco.
    + pose proof (length_le_sizes_i o). pose proof (size_pos x). lia.
Qed.

(* ---------------------------------------------------------------------------------------- *)
(* the text of a tree is at least as long as the tree is big: fuel = length of the text is enough
   for the round trip *)

Lemma pr_str_len s k : String.length k + 2 <= String.length (pr_str s k).
Proof.
  unfold pr_str. cbn [String.length]. pose proof (esc_str_len s (String """" k)) as H.
  cbn [String.length] in H. lia.
Qed.

Lemma str_of_Z_len z : 1 <= String.length (str_of_Z z).
Proof.
  pose proof (str_of_Z_head z "") as H.
  destruct (str_of_Z z ++ "") as [|c r] eqn:E; [destruct H|].
  apply (f_equal String.length) in E. rewrite slen_app in E. cbn [String.length] in E. lia.
Qed.

Lemma pr_elems_len prv sep l tail :
  Forall (fun y => forall k, size y + String.length k <= String.length (prv y k)) l ->
  list_sum (map size l) + String.length tail <= String.length (pr_elems prv sep l tail).
Proof.
  induction 1 as [|y l Hy Hl IH]; cbn [map pr_elems]; [cbn; lia|].
  rewrite list_sum_cons, slen_app. pose proof (Hy (pr_elems prv sep l tail)). lia.
Qed.

Lemma pr_members_len prv sep colon (o : list (string * json)) tail :
  Forall (fun kv => forall k, size (snd kv) + String.length k <= String.length (prv (snd kv) k)) o ->
  list_sum (map (fun kv => size (snd kv)) o) + String.length tail
  <= String.length (pr_members prv sep colon o tail).
Proof.
  induction 1 as [|[key y] o Hy Hl IH]; cbn [map pr_members snd]; [cbn; lia|].
  rewrite list_sum_cons, slen_app. unfold pr_member.
  match goal with |- context [pr_str key ?K] => pose proof (pr_str_len key K) as H1 end.
  rewrite slen_app in H1. cbn [snd] in Hy.
  pose proof (Hy (pr_members prv sep colon o tail)). lia.
Qed.

Lemma pr_len st : forall j lvl k, size j + String.length k <= String.length (pr st lvl j k).
Proof.
  induction j as [| b | z | s | l IHl | o IHo] using json_ind'; intros lvl k.
  - cbn. lia.
  - destruct b; cbn; lia.
  - cbn [pr size]. rewrite slen_app. pose proof (str_of_Z_len z). lia.
  - cbn [pr size]. pose proof (pr_str_len s k). lia.
  - destruct l as [|x l]; [cbn; lia|].
    inversion IHl as [|x' l' Px Pl]; subst x' l'.
    cbn [pr size map String.length]. rewrite list_sum_cons, slen_app.
    match goal with |- context [pr st (S lvl) x ?T] => pose proof (Px (S lvl) T) as H1 end.
    match type of H1 with context [pr_elems ?a ?b ?c ?d] =>
      assert (H2 : list_sum (map size l) + String.length d <= String.length (pr_elems a b c d)) end.
    { apply pr_elems_len. eapply Forall_impl; [|exact Pl]. intros y Py k0. apply Py. }
    rewrite slen_app in H2. cbn [String.length] in H2. lia.
  - destruct o as [|[key x] o]; [cbn; lia|].
    inversion IHo as [|x' l' Px Pl]; subst x' l'. cbn [snd] in Px.
    cbn [pr size map snd String.length]. rewrite list_sum_cons, slen_app. unfold pr_member at 1.
    match goal with |- context [pr_str key ?K] => pose proof (pr_str_len key K) as H0 end.
    rewrite slen_app in H0.
    match type of H0 with context [pr st (S lvl) x ?T] => pose proof (Px (S lvl) T) as H1 end.
    match type of H1 with context [pr_members ?a ?b ?c ?d ?e] =>
      assert (H2 : list_sum (map (fun kv => size (snd kv)) o) + String.length e
                   <= String.length (pr_members a b c d e)) end.
    { apply pr_members_len. eapply Forall_impl; [|exact Pl]. intros y Py k0. apply Py. }
    rewrite slen_app in H2. cbn [String.length] in H2. lia.
Qed.

(* json.loads (all pairs kept) inverts every white-space layout of the printer *)
Lemma loads_pairs_pr st : style_ok st -> forall j, loads_pairs (pr st 0 j "") = Some j.
Proof.
  intros Hst j. unfold loads_pairs. rewrite vhead_skip by apply pr_vhead.
  rewrite (pvalue_pr st Hst); [reflexivity|exact I|].
  pose proof (pr_len st j 0 ""). lia.
Qed.

Theorem loads_pairs_dumps : forall j, loads_pairs (dumps j) = Some j.
Proof. exact (loads_pairs_pr compact compact_ok). Qed.

Theorem loads_pairs_dumps_indent2 : forall j, loads_pairs (dumps_indent2 j) = Some j.
Proof. exact (loads_pairs_pr indent2 indent2_ok). Qed.

(* ---------------------------------------------------------------------------------------- *)
(* dict(pairs) is the identity on pairs with distinct keys *)

Lemma set_key_fresh {A} k (v : A) e : ~ In k (map fst e) -> set_key k v e = (e ++ [(k, v)])%list.
Proof.
  induction e as [|[k' v'] e IH]; cbn [set_key map fst In app]; intros H; [reflexivity|].
  destruct (String.eqb k k') eqn:E.
  - apply String.eqb_eq in E. subst k'. exfalso. apply H. left. reflexivity.
  - rewrite IH; [reflexivity|]. intros Hin. apply H. right. exact Hin.
Qed.

Lemma update_fresh {A} : forall (l e : list (string * A)),
  NoDup (map fst l) -> (forall k, In k (map fst l) -> ~ In k (map fst e)) -> update e l = (e ++ l)%list.
Proof.
  unfold update. induction l as [|[k v] l IH]; intros e Hnd Hdis; cbn [fold_left fst snd].
  - rewrite app_nil_r. reflexivity.
  - cbn [map fst] in Hnd, Hdis. inversion Hnd as [|k0 l0 Hnin Hnd']; subst k0 l0.
    rewrite set_key_fresh by (apply Hdis; left; reflexivity).
    rewrite IH.
    + rewrite <- app_assoc. reflexivity.
    + exact Hnd'.
    + intros k' Hin. rewrite map_app, in_app_iff. cbn [map fst In].
      intros [H1|[H2|[]]].
      * apply (Hdis k'); [right; exact Hin|exact H1].
      * subst k'. contradiction.
Qed.

Lemma normalize_list l : normalize (JList l) = JList (map normalize l). Proof. reflexivity. Qed.
Lemma normalize_obj o : normalize (JObj o) = JObj (update [] (map_items normalize o)).
Proof. reflexivity. Qed.

Lemma normalize_id : forall j, keys_distinct j -> normalize j = j.
Proof.
  induction j as [| b | z | s | l IHl | o IHo] using json_ind'; intros H; try reflexivity.
  - rewrite normalize_list. cbn [keys_distinct] in H. apply allP_Forall in H.
    rewrite map_id_Forall; [reflexivity|].
    rewrite Forall_forall in *. intros x Hx. apply IHl; [exact Hx|apply H; exact Hx].
  - rewrite normalize_obj. cbn [keys_distinct] in H. destruct H as [Hnd H]. apply allPi_Forall in H.
    rewrite map_items_id_Forall.
    + rewrite update_fresh; [reflexivity|exact Hnd|intros k _ []].
    + rewrite Forall_forall in *. intros x Hx. apply IHo; [exact Hx|apply H; exact Hx].
Qed.

(* ---------------------------------------------------------------------------------------- *)
(* the round trip theorems *)

(* for EVERY tree: json.loads(json.dumps(j)) is j with dict(pairs) applied to its objects *)
Theorem loads_dumps_normalize : forall j, loads (dumps j) = Some (normalize j).
Proof. intros j. unfold loads. rewrite loads_pairs_dumps. reflexivity. Qed.

Theorem loads_dumps_indent2_normalize : forall j, loads (dumps_indent2 j) = Some (normalize j).
Proof. intros j. unfold loads. rewrite loads_pairs_dumps_indent2. reflexivity. Qed.

(* for the trees Python can hold (dict keys are distinct): the identity *)
Theorem loads_dumps_kd : forall j, keys_distinct j -> loads (dumps j) = Some j.
Proof. intros j H. rewrite loads_dumps_normalize, normalize_id by exact H. reflexivity. Qed.

Theorem loads_dumps_indent2_kd : forall j, keys_distinct j -> loads (dumps_indent2 j) = Some j.
Proof. intros j H. rewrite loads_dumps_indent2_normalize, normalize_id by exact H. reflexivity. Qed.

(* as asked for: trees whose strings and keys are ASCII (the hypothesis is not needed) *)
Theorem loads_dumps : forall j, ascii_json j -> keys_distinct j -> loads (dumps j) = Some j.
Proof. intros j _. apply loads_dumps_kd. Qed.

Theorem loads_dumps_indent2 : forall j, ascii_json j -> keys_distinct j -> loads (dumps_indent2 j) = Some j.
Proof. intros j _. apply loads_dumps_indent2_kd. Qed.

(* the bridge to the development's abstract round trip Codec.json_rt *)
Theorem loads_dumps_rt : forall j, keys_distinct j -> loads (dumps j) = Some (json_rt j).
Proof. intros j H. rewrite json_rt_id. apply loads_dumps_kd. exact H. Qed.

Theorem loads_dumps_indent2_rt : forall j, keys_distinct j -> loads (dumps_indent2 j) = Some (json_rt j).
Proof. intros j H. rewrite json_rt_id. apply loads_dumps_indent2_kd. exact H. Qed.

(* two different trees never have the same text (no hypothesis) *)
Theorem dumps_injective : forall a b, dumps a = dumps b -> a = b.
Proof.
  intros a b H. pose proof (loads_pairs_dumps a) as Ha. rewrite H, loads_pairs_dumps in Ha. congruence.
Qed.

Theorem dumps_indent2_injective : forall a b, dumps_indent2 a = dumps_indent2 b -> a = b.
Proof.
  intros a b H. pose proof (loads_pairs_dumps_indent2 a) as Ha.
  rewrite H, loads_pairs_dumps_indent2 in Ha. congruence.
Qed.

(* both layouts denote the same tree: loading the compiled file = loading the compact text *)
Theorem loads_layout_independent : forall j, loads (dumps_indent2 j) = loads (dumps j).
Proof. intros j. rewrite loads_dumps_normalize, loads_dumps_indent2_normalize. reflexivity. Qed.

(* ---------------------------------------------------------------------------------------- *)
(* fuel: every parser consumes text; fuel = length of the text is always enough *)

Lemma skip_ws_len s : String.length (skip_ws s) <= String.length s.
Proof.
  induction s as [|c r IH]; cbn [skip_ws String.length]; [lia|].
  destruct (is_ws c); cbn [String.length]; lia.
Qed.

Lemma cons_res_inv c o x r :
  cons_res c o = Some (x, r) -> exists x', o = Some (x', r) /\ x = String c x'.
Proof.
  destruct o as [[x' r']|]; cbn [cons_res]; intros H; [|discriminate H].
  inversion H; subst. exists x'. split; reflexivity.
Qed.

Lemma tag_res_inv {A} (f : A -> json) o v r :
  tag_res f o = Some (v, r) -> exists x, o = Some (x, r) /\ v = f x.
Proof.
  destruct o as [[x r']|]; cbn [tag_res]; intros H; [|discriminate H].
  inversion H; subst. exists x. split; reflexivity.
Qed.

Lemma pstring_len_aux : forall n s x r,
  String.length s <= n -> pstring s = Some (x, r) -> String.length r < String.length s.
Proof.
  induction n as [|n IH]; intros s x r Hn H.
  - destruct s; [discriminate H|cbn in Hn; lia].
  - destruct s as [|c s1]; [discriminate H|].
    cbn [pstring] in H. cbn [String.length] in *.
    destruct (Ascii.eqb c """"). { inversion H; subst. lia. }
    destruct (Ascii.eqb c "\").
    + destruct s1 as [|e s2]; [discriminate H|]. cbn [String.length] in *.
      destruct (unesc_simple e).
      * apply cons_res_inv in H. destruct H as [x' [H _]]. apply IH in H; lia.
      * destruct (Ascii.eqb e "u"); [|discriminate H].
        destruct s2 as [|h1 [|h2 [|h3 [|h4 s3]]]]; try discriminate H.
        cbn [String.length] in *.
        destruct (hex4 h1 h2 h3 h4); [|discriminate H].
        destruct (_ <? 256)%N; [|discriminate H].
        apply cons_res_inv in H. destruct H as [x' [H _]]. apply IH in H; lia.
    + destruct (_ <? 32)%N; [discriminate H|].
      apply cons_res_inv in H. destruct H as [x' [H _]]. apply IH in H; lia.
Qed.

Lemma pstring_len s x r : pstring s = Some (x, r) -> String.length r < String.length s.
Proof. apply pstring_len_aux with (n := String.length s). lia. Qed.

Lemma digits_val_len : forall s acc n r,
  digits_val s acc = (n, r) -> String.length r <= String.length s.
Proof.
  induction s as [|c s IH]; intros acc n r H; cbn [digits_val] in H.
  - inversion H; subst. lia.
  - destruct (is_digit c).
    + apply IH in H. cbn [String.length]. lia.
    + inversion H; subst. lia.
Qed.

Lemma pnat_len s z r : pnat s = Some (z, r) -> String.length r < String.length s.
Proof.
  destruct s as [|c s]; [discriminate|]. unfold pnat. cbn [String.length].
  destruct (Ascii.eqb c "0"). { intros H; inversion H; subst. lia. }
  destruct (is_digit c) eqn:Hd; [|discriminate].
  cbn [digits_val]. rewrite Hd.
  destruct (digits_val s _) as [n r'] eqn:E. intros H. inversion H; subst.
  apply digits_val_len in E. lia.
Qed.

Lemma strip_prefix_len : forall p s r, strip_prefix p s = Some r -> String.length r <= String.length s.
Proof.
  induction p as [|a p IH]; intros s r H; cbn [strip_prefix] in H.
  - inversion H; subst. lia.
  - destruct s as [|b s]; [discriminate H|]. destruct (Ascii.eqb a b); [|discriminate H].
    apply IH in H. cbn [String.length]. lia.
Qed.

Lemma keyword_len p v s j r : keyword p v s = Some (j, r) -> String.length r <= String.length s.
Proof.
  unfold keyword. destruct (strip_prefix p s) as [r'|] eqn:E; [|discriminate].
  intros H. inversion H; subst. apply strip_prefix_len in E. exact E.
Qed.

Section LoopsLen.
Variable pv : string -> option (json * string).
Hypothesis pv_len : forall s v r, pv s = Some (v, r) -> String.length r < String.length s.

Lemma pelems_len : forall k s l r,
  pelems pv k s = Some (l, r) -> String.length r < String.length s.
Proof.
  induction k as [|k IH]; intros s l r H; [discriminate H|].
  cbn [pelems] in H.
  destruct (pv s) as [[v r0]|] eqn:E; [|discriminate H]. apply pv_len in E.
  pose proof (skip_ws_len r0) as Hs.
  destruct (skip_ws r0) as [|c r1]; [discriminate H|]. cbn [String.length] in Hs.
  destruct (Ascii.eqb c ",").
  - destruct (pelems pv k (skip_ws r1)) as [[l' r2]|] eqn:E2; [|discriminate H].
    inversion H; subst. apply IH in E2. pose proof (skip_ws_len r1). lia.
  - destruct (Ascii.eqb c "]"); [|discriminate H]. inversion H; subst. lia.
Qed.

Lemma pmembers_len : forall k s o r,
  pmembers pv k s = Some (o, r) -> String.length r < String.length s.
Proof.
  induction k as [|k IH]; intros s o r H; [discriminate H|].
  cbn [pmembers] in H.
  destruct s as [|q r0]; [discriminate H|]. cbn [String.length].
  destruct (negb (Ascii.eqb q """")); [discriminate H|].
  destruct (pstring r0) as [[key r1]|] eqn:E1; [|discriminate H]. apply pstring_len in E1.
  pose proof (skip_ws_len r1) as Hs1.
  destruct (skip_ws r1) as [|c r2]; [discriminate H|]. cbn [String.length] in Hs1.
  destruct (negb (Ascii.eqb c ":")); [discriminate H|].
  pose proof (skip_ws_len r2) as Hs2.
  destruct (pv (skip_ws r2)) as [[v r3]|] eqn:E3; [|discriminate H]. apply pv_len in E3.
  pose proof (skip_ws_len r3) as Hs3.
  destruct (skip_ws r3) as [|d r4]; [discriminate H|]. cbn [String.length] in Hs3.
  destruct (Ascii.eqb d ",").
  - destruct (pmembers pv k (skip_ws r4)) as [[o' r5]|] eqn:E5; [|discriminate H].
    inversion H; subst. apply IH in E5. pose proof (skip_ws_len r4). lia.
  - destruct (Ascii.eqb d "}"); [|discriminate H]. inversion H; subst. lia.
Qed.
End LoopsLen.

Lemma pvalue_len : forall n s v r, pvalue n s = Some (v, r) -> String.length r < String.length s.
Proof.
  induction n as [|n IH]; intros s v r H; [discriminate H|].
  destruct s as [|c s1]; [discriminate H|]. cbn [pvalue] in H. cbn [String.length].
  destruct (Ascii.eqb c """").
  { apply tag_res_inv in H. destruct H as [x [H _]]. apply pstring_len in H. lia. }
  destruct (Ascii.eqb c "{").
  { pose proof (skip_ws_len s1) as Hs. destruct (skip_ws s1) as [|c2 r2]; [discriminate H|].
    cbn [String.length] in Hs. destruct (Ascii.eqb c2 "}").
    - inversion H; subst. lia.
    - apply tag_res_inv in H. destruct H as [x [H _]].
      apply (pmembers_len (pvalue n) IH) in H. cbn [String.length] in H. lia. }
  destruct (Ascii.eqb c "[").
  { pose proof (skip_ws_len s1) as Hs. destruct (skip_ws s1) as [|c2 r2]; [discriminate H|].
    cbn [String.length] in Hs. destruct (Ascii.eqb c2 "]").
    - inversion H; subst. lia.
    - apply tag_res_inv in H. destruct H as [x [H _]].
      apply (pelems_len (pvalue n) IH) in H. cbn [String.length] in H. lia. }
  destruct (Ascii.eqb c "n"). { apply keyword_len in H. lia. }
  destruct (Ascii.eqb c "t"). { apply keyword_len in H. lia. }
  destruct (Ascii.eqb c "f"). { apply keyword_len in H. lia. }
  destruct (Ascii.eqb c "-").
  { apply tag_res_inv in H. destruct H as [x [H _]]. apply pnat_len in H. lia. }
  apply tag_res_inv in H. destruct H as [x [H _]]. apply pnat_len in H. cbn [String.length] in H. lia.
Qed.

Section LoopsStable.
Variables pv1 pv2 : string -> option (json * string).
Variable N : nat.
Hypothesis pv_same : forall t, String.length t <= N -> pv1 t = pv2 t.
Hypothesis pv2_len : forall s v r, pv2 s = Some (v, r) -> String.length r < String.length s.

Lemma pv2_empty : pv2 "" = None.
Proof. destruct (pv2 "") as [[v r]|] eqn:E; [|reflexivity]. apply pv2_len in E. cbn in E. lia. Qed.

Lemma pelems_stable : forall k1 k2 t,
  String.length t <= N -> String.length t <= k1 -> String.length t <= k2 ->
  pelems pv1 k1 t = pelems pv2 k2 t.
Proof.
  induction k1 as [|k1 IH]; intros k2 t HN H1 H2.
  - destruct t; [|cbn in H1; lia]. destruct k2; [reflexivity|]. cbn [pelems]. rewrite pv2_empty. reflexivity.
  - destruct k2 as [|k2].
    + destruct t; [|cbn in H2; lia]. cbn [pelems]. rewrite pv_same by exact HN. rewrite pv2_empty. reflexivity.
    + cbn [pelems]. rewrite pv_same by exact HN.
      destruct (pv2 t) as [[v r]|] eqn:E; [|reflexivity]. apply pv2_len in E.
      pose proof (skip_ws_len r) as Hs. destruct (skip_ws r) as [|c r']; [reflexivity|].
      cbn [String.length] in Hs. destruct (Ascii.eqb c ","); [|reflexivity].
      pose proof (skip_ws_len r').
      rewrite (IH k2 (skip_ws r')) by lia. reflexivity.
Qed.

Lemma pmembers_stable : forall k1 k2 t,
  String.length t <= N -> String.length t <= k1 -> String.length t <= k2 ->
  pmembers pv1 k1 t = pmembers pv2 k2 t.
Proof.
  induction k1 as [|k1 IH]; intros k2 t HN H1 H2.
  - destruct t; [|cbn in H1; lia]. destruct k2; reflexivity.
  - destruct k2 as [|k2].
    + destruct t; [|cbn in H2; lia]. reflexivity.
    + cbn [pmembers]. destruct t as [|q r0]; [reflexivity|]. cbn [String.length] in *.
      destruct (negb (Ascii.eqb q """")); [reflexivity|].
      destruct (pstring r0) as [[key r1]|] eqn:E1; [|reflexivity]. apply pstring_len in E1.
      pose proof (skip_ws_len r1) as Hs1.
      destruct (skip_ws r1) as [|c r2]; [reflexivity|]. cbn [String.length] in Hs1.
      destruct (negb (Ascii.eqb c ":")); [reflexivity|].
      pose proof (skip_ws_len r2) as Hs2.
      rewrite pv_same by lia.
      destruct (pv2 (skip_ws r2)) as [[v r3]|] eqn:E3; [|reflexivity]. apply pv2_len in E3.
      pose proof (skip_ws_len r3) as Hs3.
      destruct (skip_ws r3) as [|d r4]; [reflexivity|]. cbn [String.length] in Hs3.
      destruct (Ascii.eqb d ","); [|reflexivity].
      pose proof (skip_ws_len r4).
      rewrite (IH k2 (skip_ws r4)) by lia. reflexivity.
Qed.
End LoopsStable.

Lemma pvalue_stable : forall n s, String.length s <= n -> forall m, n <= m -> pvalue m s = pvalue n s.
Proof.
  induction n as [|n IH]; intros s Hs m Hm.
  - destruct s; [|cbn in Hs; lia]. destruct m; reflexivity.
  - destruct m as [|m]; [lia|]. destruct s as [|c s1]; [reflexivity|].
    cbn [String.length] in Hs. cbn [pvalue].
    destruct (Ascii.eqb c """"); [reflexivity|].
    destruct (Ascii.eqb c "{").
    { pose proof (skip_ws_len s1) as Hl. destruct (skip_ws s1) as [|c2 r2]; [reflexivity|].
      destruct (Ascii.eqb c2 "}"); [reflexivity|]. f_equal.
      apply (pmembers_stable (pvalue m) (pvalue n) n); try lia.
      - intros t Ht. apply IH; [exact Ht|lia].
      - apply pvalue_len. }
    destruct (Ascii.eqb c "[").
    { pose proof (skip_ws_len s1) as Hl. destruct (skip_ws s1) as [|c2 r2]; [reflexivity|].
      destruct (Ascii.eqb c2 "]"); [reflexivity|]. f_equal.
      apply (pelems_stable (pvalue m) (pvalue n) n); try lia.
      - intros t Ht. apply IH; [exact Ht|lia].
      - apply pvalue_len. }
    reflexivity.
Qed.

(* the result of the scanner does not depend on the fuel once it is the length of the text *)
Theorem pvalue_fuel_enough : forall s n, String.length s <= n -> pvalue n s = pvalue (String.length s) s.
Proof. intros s n H. apply pvalue_stable; [apply le_n|exact H]. Qed.

(* so loads is "the" parse: any larger fuel gives the same answer, None is a real rejection *)
Theorem loads_pairs_fuel_enough : forall s n, String.length s <= n ->
  match pvalue n (skip_ws s) with
  | Some (j, r) => match skip_ws r with EmptyString => Some j | _ => None end
  | None => None
  end = loads_pairs s.
Proof.
  intros s n H. unfold loads_pairs. pose proof (skip_ws_len s) as Hl.
  rewrite (pvalue_stable (String.length (skip_ws s)) (skip_ws s) (le_n _) n) by lia.
  rewrite (pvalue_stable (String.length (skip_ws s)) (skip_ws s) (le_n _) (String.length s)) by lia.
  reflexivity.
Qed.

(* ---------------------------------------------------------------------------------------- *)
(* the hypothesis keys_distinct is met by what the engine writes: the value codec (_serialize_value)
   and save_state() produce trees with distinct keys from Python values *)

Lemma mapM_pres {A B} (f : A -> option B) (P : A -> Prop) (Q : B -> Prop) l :
  Forall (fun x => P x -> forall y, f x = Some y -> Q y) l -> Forall P l ->
  forall l', mapM f l = Some l' -> Forall Q l'.
Proof.
  induction 1 as [|x r Hx _ IH]; intros HP l' E; cbn [mapM] in E.
  - inversion E. constructor.
  - inversion HP as [|x0 r0 Px Pr]; subst x0 r0.
    destruct (f x) as [y|] eqn:Ef; [|discriminate E].
    destruct (mapM f r) as [r'|] eqn:Er; [|discriminate E].
    inversion E; subst. constructor; [eapply Hx; eauto|apply IH; auto].
Qed.

Lemma filterMi_pres {A B} (f : A -> option B) keep (P : A -> Prop) (Q : B -> Prop) (d : list (string * A)) :
  Forall (fun kv => P (snd kv) -> forall y, f (snd kv) = Some y -> Q y) d ->
  Forall (fun kv => P (snd kv)) d ->
  forall d', filterMi f keep d = Some d' ->
  Forall (fun kv => Q (snd kv)) d' /\ (forall k, In k (map fst d') -> In k (map fst d)) /\
  (NoDup (map fst d) -> NoDup (map fst d')).
Proof.
  induction 1 as [|[k x] r Hx _ IH]; intros HP d' E; cbn [filterMi] in E.
  - inversion E. repeat split; auto; constructor.
  - inversion HP as [|x0 r0 Px Pr]; subst x0 r0. cbn [snd] in *.
    destruct (keep k).
    + destruct (f x) as [y|] eqn:Ef; [|discriminate E].
      destruct (filterMi f keep r) as [r'|] eqn:Er; [|discriminate E].
      inversion E; subst. destruct (IH Pr r' eq_refl) as [I1 [I2 I3]].
      split; [constructor; [cbn [snd]; eapply Hx; eauto|exact I1]|]. cbn [map fst]. split.
      * intros k0 [H|H]; [left; exact H|right; apply I2; exact H].
      * intros Hnd. inversion Hnd as [|k0 l0 Hnin Hnd']; subst k0 l0. constructor; [|apply I3; exact Hnd'].
        intros Hin. apply Hnin. apply I2. exact Hin.
    + destruct (IH Pr d' E) as [I1 [I2 I3]]. split; [exact I1|]. cbn [map fst]. split.
      * intros k0 H. right. apply I2. exact H.
      * intros Hnd. inversion Hnd; subst. apply I3. assumption.
Qed.

Lemma mapMi_pres {A B} (f : A -> option B) (P : A -> Prop) (Q : B -> Prop) (d : list (string * A)) :
  Forall (fun kv => P (snd kv) -> forall y, f (snd kv) = Some y -> Q y) d ->
  Forall (fun kv => P (snd kv)) d ->
  forall d', mapMi f d = Some d' ->
  Forall (fun kv => Q (snd kv)) d' /\ (NoDup (map fst d) -> NoDup (map fst d')).
Proof.
  intros H HP d' E. rewrite <- (filterMi_all f (fun _ => true)) in E by reflexivity.
  destruct (filterMi_pres f _ P Q d H HP d' E) as [I1 [_ I3]]. split; assumption.
Qed.

Lemma wrap_obj_kd c m data b : keys_distinct data -> keys_distinct (wrap_obj c m data b).
Proof.
  intros H. unfold wrap_obj. destruct b; cbn [app keys_distinct map fst allPi]; (split; [|tauto]).
  - repeat constructor; cbn [In]; intros Hin;
      repeat (destruct Hin as [Hin|Hin]; [discriminate Hin|]); exact Hin.
  - repeat constructor; cbn [In]; intros Hin;
      repeat (destruct Hin as [Hin|Hin]; [discriminate Hin|]); exact Hin.
Qed.

Lemma dump_kd : forall v, value_kd v -> forall j, dump v = Some j -> keys_distinct j.
Proof.
  induction v as [| b | z | s | l IHl | l IHl | d IHd | c a IHa | n | n | n] using value_ind';
    intros Hv j E; cbn [dump] in E; try discriminate E; try (inversion E; subst; exact I).
  - destruct (mapM dump l) as [l'|] eqn:El; [|discriminate E]. inversion E; subst.
    cbn [keys_distinct value_kd] in *. apply allP_Forall. apply allP_Forall in Hv.
    exact (mapM_pres dump value_kd keys_distinct l IHl Hv l' El).
  - destruct (mapM dump l) as [l'|] eqn:El; [|discriminate E]. inversion E; subst.
    cbn [keys_distinct value_kd] in *. apply allP_Forall. apply allP_Forall in Hv.
    exact (mapM_pres dump value_kd keys_distinct l IHl Hv l' El).
  - destruct (mapMi dump d) as [d'|] eqn:Ed; [|discriminate E]. inversion E; subst.
    cbn [keys_distinct value_kd] in *. destruct Hv as [Hnd Hv]. apply allPi_Forall in Hv.
    destruct (mapMi_pres dump value_kd keys_distinct d IHd Hv d' Ed) as [I1 I2].
    split; [apply I2; exact Hnd|apply allPi_Forall; exact I1].
Qed.

Section SerKd.
Variable cf : cfg.
Variable cx : ctx.
Variable sc : value -> option json.
Hypothesis cx_kd : ctx_kd cx.
Hypothesis sc_kd : forall v, value_kd v -> forall j, sc v = Some j -> keys_distinct j.

Lemma ser_go_kd : forall v, value_kd v -> forall j, ser_go cf cx sc v = Some j -> keys_distinct j.
Proof.
  induction v as [| b | z | s | l IHl | l IHl | d IHd | c a IHa | n | n | n] using value_ind';
    intros Hv j E; cbn [ser_go] in E.
  - inversion E; subst; exact I.
  - inversion E; subst; exact I.
  - inversion E; subst; exact I.
  - inversion E; subst; exact I.
  - destruct (dump (VList l)) as [j0|] eqn:Ed.
    + inversion E; subst. eapply dump_kd; eauto.
    + destruct (mapM (ser_go cf cx sc) l) as [l'|] eqn:El; [|discriminate E]. inversion E; subst.
      cbn [keys_distinct value_kd] in *. apply allP_Forall. apply allP_Forall in Hv.
      exact (mapM_pres _ value_kd keys_distinct l IHl Hv l' El).
  - destruct (dump (VTuple l)) as [j0|] eqn:Ed.
    + inversion E; subst. eapply dump_kd; eauto.
    + destruct (mapM (ser_go cf cx sc) l) as [l'|] eqn:El; [|discriminate E]. inversion E; subst.
      cbn [keys_distinct value_kd] in *. apply allP_Forall. apply allP_Forall in Hv.
      exact (mapM_pres _ value_kd keys_distinct l IHl Hv l' El).
  - destruct (dump (VDict d)) as [j0|] eqn:Ed.
    + inversion E; subst. eapply dump_kd; eauto.
    + destruct (mapMi (ser_go cf cx sc) d) as [d'|] eqn:El; [|discriminate E]. inversion E; subst.
      cbn [keys_distinct value_kd] in *. destruct Hv as [Hnd Hv]. apply allPi_Forall in Hv.
      destruct (mapMi_pres _ value_kd keys_distinct d IHd Hv d' El) as [I1 I2].
      split; [apply I2; exact Hnd|apply allPi_Forall; exact I1].
  - cbn [value_kd] in Hv.
    destruct (ci_to_save (class_of cx c)) as [f|] eqn:Ef.
    + assert (Hf : value_kd (f a)) by (apply (cx_kd c f a Ef); exact Hv).
      destruct (custom_recursed cf).
      * destruct (sc (f a)) as [data|] eqn:Es; [|discriminate E]. inversion E; subst.
        apply wrap_obj_kd. eapply sc_kd; eauto.
      * destruct (dump (f a)) as [data|] eqn:Es; [|discriminate E]. inversion E; subst.
        apply wrap_obj_kd. eapply dump_kd; eauto.
    + destruct (filterMi (ser_go cf cx sc) (attr_kept cf) a) as [o|] eqn:Eo; [|discriminate E].
      inversion E; subst. apply wrap_obj_kd. destruct Hv as [Hnd Hv]. apply allPi_Forall in Hv.
      destruct (filterMi_pres _ _ value_kd keys_distinct a IHa Hv o Eo) as [I1 [_ I3]].
      cbn [keys_distinct]. split; [apply I3; exact Hnd|apply allPi_Forall; exact I1].
  - inversion E; subst; exact I.
  - inversion E; subst. apply wrap_obj_kd. cbn. split; [constructor|exact I].
  - inversion E; subst. apply wrap_obj_kd. cbn. split; [constructor|exact I].
Qed.
End SerKd.

Lemma ser_kd cf cx : ctx_kd cx -> forall fuel v, value_kd v -> forall j, ser fuel cf cx v = Some j -> keys_distinct j.
Proof.
  intros Hcx. induction fuel as [|fuel IH]; intros v Hv j E; rewrite ser_fuel in E.
  - eapply ser_go_kd; [exact Hcx| |exact Hv|exact E]. intros v0 _ j0 H0. discriminate H0.
  - eapply ser_go_kd; [exact Hcx| |exact Hv|exact E]. exact IH.
Qed.

Lemma save_doc_kd cf cx : ctx_kd cx -> forall fuel st o,
  allPi value_kd st -> save_doc fuel cf cx st = Some o ->
  allPi keys_distinct o /\ (forall k, In k (map fst o) -> In k (map fst st)) /\
  (NoDup (map fst st) -> NoDup (map fst o)).
Proof.
  intros Hcx fuel. induction st as [|[k v] r IH]; intros o Hv E; cbn [save_doc] in E.
  - inversion E; subst. repeat split; auto; constructor.
  - cbn [allPi] in Hv. destruct Hv as [Hv Hr]. cbn [map fst].
    destruct (imports_kept cf && is_import_binding v).
    + destruct (IH o Hr E) as [I1 [I2 I3]]. split; [exact I1|]. split.
      * intros k0 H. right. apply I2. exact H.
      * intros Hnd. inversion Hnd; subst. apply I3. assumption.
    + destruct (ser fuel cf cx v) as [j|] eqn:Ej; [|discriminate E].
      destruct (save_doc fuel cf cx r) as [o'|] eqn:Eo; [|discriminate E].
      inversion E; subst. destruct (IH o' Hr eq_refl) as [I1 [I2 I3]].
      cbn [allPi map fst]. split; [split; [eapply ser_kd; eauto|exact I1]|]. split.
      * intros k0 [H|H]; [left; exact H|right; apply I2; exact H].
      * intros Hnd. inversion Hnd as [|k0 l0 Hnin Hnd']; subst k0 l0. constructor; [|apply I3; exact Hnd'].
        intros Hin. apply Hnin. apply I2. exact Hin.
Qed.

(* C06 "values survive save -> JSON text -> load": the serialised value, written and read as text *)
Theorem ser_text_roundtrip cf cx fuel v j :
  ctx_kd cx -> value_kd v -> ser fuel cf cx v = Some j -> loads (dumps j) = Some (json_rt j).
Proof. intros Hcx Hv E. apply loads_dumps_rt. eapply ser_kd; eauto. Qed.

(* ---------------------------------------------------------------------------------------- *)
(* what json.loads returns always has distinct keys (it builds Python dicts) *)

Lemma set_key_in {A} k (v : A) e k' : In k' (map fst (set_key k v e)) -> k' = k \/ In k' (map fst e).
Proof.
  induction e as [|[k0 v0] e IH]; cbn [set_key map fst In].
  - intros [H|[]]. left. symmetry. exact H.
  - destruct (String.eqb k k0) eqn:E; cbn [map fst In].
    + apply String.eqb_eq in E. subst k0. intros [H|H]; [left; symmetry; exact H|right; right; exact H].
    + intros [H|H]; [right; left; exact H|]. destruct (IH H) as [H1|H1]; [left; exact H1|right; right; exact H1].
Qed.

Lemma set_key_nodup {A} k (v : A) e : NoDup (map fst e) -> NoDup (map fst (set_key k v e)).
Proof.
  induction e as [|[k0 v0] e IH]; cbn [set_key map fst]; intros Hnd.
  - constructor; [intros []|constructor].
  - inversion Hnd as [|k1 l1 Hnin Hnd']; subst k1 l1.
    destruct (String.eqb k k0) eqn:E; cbn [map fst].
    + apply String.eqb_eq in E. subst k0. constructor; assumption.
    + constructor; [|apply IH; exact Hnd'].
      intros Hin. apply set_key_in in Hin. destruct Hin as [H|H]; [|contradiction].
      subst k0. rewrite String.eqb_refl in E. discriminate E.
Qed.

Lemma set_key_allPi {A} (P : A -> Prop) k v e : P v -> allPi P e -> allPi P (set_key k v e).
Proof.
  intros Hv. induction e as [|[k0 v0] e IH]; cbn [set_key allPi]; intros He.
  - split; [exact Hv|exact I].
  - destruct (String.eqb k k0); cbn [allPi]; [tauto|]. split; [tauto|apply IH; tauto].
Qed.

Lemma update_kd {A} (P : A -> Prop) : forall l e,
  NoDup (map fst e) -> allPi P e -> allPi P l ->
  NoDup (map fst (update e l)) /\ allPi P (update e l).
Proof.
  unfold update. induction l as [|[k v] l IH]; intros e Hnd He Hl; cbn [fold_left fst snd].
  - split; assumption.
  - cbn [allPi] in Hl. apply IH; [apply set_key_nodup; exact Hnd|apply set_key_allPi; tauto|tauto].
Qed.

Lemma normalize_kd : forall j, keys_distinct (normalize j).
Proof.
  induction j as [| b | z | s | l IHl | o IHo] using json_ind'; try exact I.
  - rewrite normalize_list. cbn [keys_distinct]. apply allP_Forall.
    apply Forall_forall. intros x Hx. apply in_map_iff in Hx. destruct Hx as [y [Hy Hin]]. subst x.
    rewrite Forall_forall in IHl. apply IHl. exact Hin.
  - rewrite normalize_obj. cbn [keys_distinct].
    apply (update_kd keys_distinct); [constructor|exact I|].
    induction IHo as [|[k x] o Hx _ IH]; [exact I|].
    rewrite map_items_cons. cbn [allPi]. split; [exact Hx|exact IH].
Qed.

Theorem loads_kd : forall s j, loads s = Some j -> keys_distinct j.
Proof.
  intros s j H. unfold loads in H. destruct (loads_pairs s) as [j0|]; [|discriminate H].
  inversion H; subst. apply normalize_kd.
Qed.

(* so reading a text and writing it again is stable: dumps . loads . dumps = dumps on loaded trees *)
Theorem loads_dumps_loads : forall s j, loads s = Some j -> loads (dumps j) = Some j.
Proof. intros s j H. apply loads_dumps_kd. eapply loads_kd. exact H. Qed.

(* ---------------------------------------------------------------------------------------- *)
(* ensure_ascii: the text is printable ASCII whatever the strings contain (so the encoding the file
   is opened with cannot matter: compiler.py writes utf-8, engine.py reads with the locale's) *)

Fixpoint str_all (p : ascii -> bool) (s : string) : bool :=
  match s with EmptyString => true | String c r => p c && str_all p r end.

Definition printable (c : ascii) : bool := ((32 <=? N_of_ascii c) && (N_of_ascii c <=? 126))%N.
Definition printable_nl (c : ascii) : bool := printable c || (N_of_ascii c =? 10)%N.

Lemma str_all_app p a b : str_all p (a ++ b) = str_all p a && str_all p b.
Proof. induction a as [|c a IH]; cbn [append str_all]; [reflexivity|]. rewrite IH, andb_assoc. reflexivity. Qed.

Lemma esc_char_printable c k : str_all printable (esc_char c k) = str_all printable k.
Proof. destruct c as [[] [] [] [] [] [] [] []]; reflexivity. Qed.

Lemma esc_char_printable_nl c k : str_all printable_nl (esc_char c k) = str_all printable_nl k.
Proof. destruct c as [[] [] [] [] [] [] [] []]; reflexivity. Qed.

Lemma digit_printable c : is_digit c = true -> printable c = true.
Proof. destruct c as [[] [] [] [] [] [] [] []]; intros H; try discriminate H; reflexivity. Qed.

Section Printable.
Variable p : ascii -> bool.
Hypothesis p_printable : forall c, printable c = true -> p c = true.
Hypothesis p_esc : forall c k, str_all p (esc_char c k) = str_all p k.

Lemma pdf_all f : forall n acc, str_all p (pos_digits_fuel f n acc) = str_all p acc.
Proof.
  induction f as [|f IH]; intros n acc; [reflexivity|]. rewrite pdf_unfold.
  pose proof (N.mod_lt n 10 ltac:(lia)) as Hm.
  destruct (digit_char_ok (n mod 10) Hm) as [Hd _]. apply digit_printable, p_printable in Hd.
  destruct (n / 10 =? 0)%N; [|rewrite IH]; cbn [str_all]; rewrite Hd; reflexivity.
Qed.

Lemma str_of_Z_all z : str_all p (str_of_Z z) = true.
Proof.
  destruct z as [|q|q]; cbn [str_of_Z].
  - cbn [str_all]. rewrite p_printable by reflexivity. reflexivity.
  - unfold str_of_N. rewrite pdf_all. reflexivity.
  - cbn [str_all]. rewrite p_printable by reflexivity. unfold str_of_N. rewrite pdf_all. reflexivity.
Qed.

Lemma pr_str_all s k : str_all p (pr_str s k) = str_all p k.
Proof.
  unfold pr_str. cbn [str_all]. rewrite p_printable by reflexivity. cbn [andb].
  induction s as [|c s IH]; cbn [esc_str].
  - cbn [str_all]. rewrite p_printable by reflexivity. reflexivity.
  - rewrite p_esc. exact IH.
Qed.

Variable st : style.
Hypothesis st_p : (forall l, str_all p (st_open st l) = true) /\ (forall l, str_all p (st_sep st l) = true) /\
                  (forall l, str_all p (st_close st l) = true) /\ str_all p (st_colon st) = true.

Lemma pr_all : forall j lvl k, str_all p (pr st lvl j k) = str_all p k.
Proof.
  destruct st_p as [Hop [Hsep [Hcl Hco]]].
  assert (Pc : forall c, printable c = true -> forall k, str_all p (String c k) = str_all p k).
  { intros c Hc k. cbn [str_all]. rewrite p_printable by exact Hc. reflexivity. }
  induction j as [| b | z | s | l IHl | o IHo] using json_ind'; intros lvl k.
  - cbn [pr append]. rewrite !Pc by reflexivity. reflexivity.
  - destruct b; cbn [pr append]; rewrite !Pc by reflexivity; reflexivity.
  - cbn [pr]. rewrite str_all_app, str_of_Z_all. reflexivity.
  - cbn [pr]. apply pr_str_all.
  - destruct l as [|x l]; [cbn [pr append]; rewrite !Pc by reflexivity; reflexivity|].
    inversion IHl as [|x' l' Px Pl]; subst x' l'.
    cbn [pr]. rewrite Pc by reflexivity. rewrite str_all_app, Hop, Px. cbn [andb].
    induction Pl as [|y l Py _ IH]; cbn [pr_elems].
    + rewrite str_all_app, Hcl, Pc by reflexivity. reflexivity.
    + cbn [append]. rewrite Pc by reflexivity. rewrite str_all_app, Hsep, Py. cbn [andb].
      apply IH. constructor; [exact Px|]. inversion IHl as [|? ? _ H2]; subst. inversion H2; subst. assumption.
  - destruct o as [|[key x] o]; [cbn [pr append]; rewrite !Pc by reflexivity; reflexivity|].
    inversion IHo as [|x' l' Px Pl]; subst x' l'. cbn [snd] in Px.
    cbn [pr]. rewrite Pc by reflexivity. rewrite str_all_app, Hop. cbn [andb].
    unfold pr_member at 1. rewrite pr_str_all. cbn [append]. rewrite Pc by reflexivity.
    rewrite str_all_app, Hco, Px. cbn [andb].
    clear IHo. induction Pl as [|[key' y] o Py _ IH]; cbn [pr_members].
    + rewrite str_all_app, Hcl, Pc by reflexivity. reflexivity.
    + cbn [append snd] in *. rewrite Pc by reflexivity. rewrite str_all_app, Hsep. cbn [andb].
      unfold pr_member at 1. rewrite pr_str_all. cbn [append]. rewrite Pc by reflexivity.
      rewrite str_all_app, Hco, Py. cbn [andb]. exact IH.
Qed.
End Printable.

Theorem dumps_printable : forall j, str_all printable (dumps j) = true.
Proof.
  intros j. unfold dumps. rewrite (pr_all printable); [reflexivity|auto|apply esc_char_printable|].
  repeat split.
Qed.

Lemma spaces_printable_nl n : str_all printable_nl (repeat_char " " n) = true.
Proof. induction n as [|n IH]; [reflexivity|]. cbn [repeat_char str_all]. rewrite IH. reflexivity. Qed.

Theorem dumps_indent2_printable : forall j, str_all printable_nl (dumps_indent2 j) = true.
Proof.
  intros j. unfold dumps_indent2. rewrite (pr_all printable_nl); [reflexivity| |apply esc_char_printable_nl|].
  - intros c H. unfold printable_nl. rewrite H. reflexivity.
  - repeat split; intros; unfold indent2, nl_indent; cbn [st_open st_sep st_close st_colon str_all];
      try rewrite spaces_printable_nl; reflexivity.
Qed.

(* json.loads does not see the layout: any white space after '[' '{' ',' ':' and before ']' '}' *)
Theorem loads_any_layout : forall st, style_ok st -> forall j, loads (pr st 0 j "") = Some (normalize j).
Proof. intros st Hst j. unfold loads. rewrite (loads_pairs_pr st Hst). reflexivity. Qed.
