(* The JSON text codec applied to the document of save_state() (Engine/SaveLoad.v): the document has
   distinct keys at every depth, so its text - compact or indent=2 - loads back as the tree the
   theorems of Props/C05.v call json_rt doc. *)
From Coq Require Import String Ascii List Bool ZArith Lia.
From Bardic Require Import PyStr Value Compiled Engine Codec SaveLoad JsonText CodecProofs JsonTextProofs.
Import ListNotations.
Local Open Scope list_scope.
Local Open Scope string_scope.

Lemma enc_strs_kd l : keys_distinct (enc_strs l).
Proof.
  unfold enc_strs. cbn [keys_distinct]. apply allP_Forall. apply Forall_forall.
  intros x Hx. apply in_map_iff in Hx. destruct Hx as [s [Hs _]]. subst x. exact I.
Qed.

Lemma enc_hooks_kd h : NoDup (map fst h) -> keys_distinct (enc_hooks h).
Proof.
  intros Hnd. unfold enc_hooks. cbn [keys_distinct]. split.
  - rewrite map_map. cbn [fst]. exact Hnd.
  - clear Hnd. induction h as [|[k l] h IH]; cbn [map allPi fst snd]; [exact I|].
    split; [apply enc_strs_kd|exact IH].
Qed.

Lemma enc_join_kd (j : list (string * nat)) : NoDup (map fst j) -> keys_distinct (enc_join j).
Proof.
  intros Hnd. unfold enc_join. cbn [keys_distinct]. split.
  - rewrite map_map. cbn [fst]. exact Hnd.
  - clear Hnd. induction j as [|[k n] j IH]; cbn [map allPi fst snd]; [exact I|].
    split; [exact I|exact IH].
Qed.

Lemma meta_or_unknown_kd st k : keys_distinct (meta_or_unknown st k).
Proof. unfold meta_or_unknown. destruct (lookup k (metadata st)); exact I. Qed.

Lemma enc_save_meta_kd st : keys_distinct (enc_save_meta st).
Proof.
  unfold enc_save_meta. cbn [keys_distinct map fst allPi snd]. split; [|repeat split].
  repeat constructor; cbn [In]; intros Hin; repeat (destruct Hin as [Hin|Hin]; [discriminate Hin|]); exact Hin.
Qed.

(* what save_state() returns has distinct keys at every depth, when the engine's dictionaries are
   Python dictionaries *)
Theorem save_json_kd st cx fuel out_enc now e doc :
  ctx_kd cx -> env_kd (vars (ec e)) ->
  NoDup (map fst (hooks (ec e))) -> NoDup (map fst (joinidx (ec e))) ->
  (forall o, out (ec e) = Some o -> keys_distinct (out_enc o)) ->
  save_json st cx fuel out_enc now e = Some doc -> keys_distinct doc.
Proof.
  intros Hcx [Hnd Hv] Hh Hj Ho E. unfold save_json in E.
  destruct (save_doc fuel fixed cx (vars (ec e))) as [sd|] eqn:Es; [|discriminate E].
  inversion E; subst doc. clear E.
  destruct (save_doc_kd fixed cx Hcx fuel _ _ Hv Es) as [I1 [_ I3]].
  cbn [keys_distinct map fst allPi]. split.
  - repeat constructor; cbn [In]; intros Hin;
      repeat (destruct Hin as [Hin|Hin]; [discriminate Hin|]); exact Hin.
  - split; [exact I|].
    split; [apply meta_or_unknown_kd|]. split; [apply meta_or_unknown_kd|]. split; [apply meta_or_unknown_kd|].
    split; [exact I|].
    split; [destruct (cur (ec e)); exact I|].
    split; [split; [apply I3; exact Hnd|exact I1]|].
    split; [apply enc_strs_kd|].
    split; [apply enc_save_meta_kd|].
    split; [apply enc_hooks_kd; exact Hh|].
    split; [apply enc_join_kd; exact Hj|].
    split; [|exact I].
    destruct (out (ec e)) as [o|] eqn:Eo; [apply Ho; reflexivity|exact I].
Qed.

(* C05/C06 "save, JSON text, load": the text of a saved document loads back as the tree the
   theorems of Props/C05.v and Props/C06.v call json_rt doc *)
Theorem save_text_roundtrip st cx fuel out_enc now e doc :
  ctx_kd cx -> env_kd (vars (ec e)) ->
  NoDup (map fst (hooks (ec e))) -> NoDup (map fst (joinidx (ec e))) ->
  (forall o, out (ec e) = Some o -> keys_distinct (out_enc o)) ->
  save_json st cx fuel out_enc now e = Some doc ->
  loads (dumps doc) = Some (json_rt doc) /\ loads (dumps_indent2 doc) = Some (json_rt doc).
Proof.
  intros. assert (keys_distinct doc) by (eapply save_json_kd; eauto).
  split; [apply loads_dumps_rt|apply loads_dumps_indent2_rt]; assumption.
Qed.

