(* Lemmas about Compiler/Lex.v (strip_inline_comment, detect_and_strip_indentation). *)
From Coq Require Import String Ascii List Bool Arith Lia.
From Bardic Require Import PyStr Lex.
Import ListNotations.
Local Open Scope string_scope.
Local Open Scope nat_scope.

Notation sic := strip_inline_comment.

(* ------------------------------------------------------------------------------------------- *)
(* step lemmas: one unfolding of the scanner, by number of characters left                      *)
(* ------------------------------------------------------------------------------------------- *)

Lemma let_pair : forall (A B C : Type) (p : A * B) (f : A -> C),
  (let (k, m) := p in (f k, m)) = (f (fst p), snd p).
Proof. intros A B C [k m] f. reflexivity. Qed.

Lemma sic_0 : sic "" = ("", "").
Proof. reflexivity. Qed.

Lemma sic_1 : forall a, sic (String a "") = (String a "", "").
Proof. reflexivity. Qed.

Lemma sic_2 : forall a b,
  sic (String a (String b "")) =
  if is_slash a && is_slash b then ("", String a (String b ""))
  else (String a (String b ""), "").
Proof. intros a b. cbn. destruct (is_slash a && is_slash b); reflexivity. Qed.

Lemma sic_3 : forall a b c r,
  sic (String a (String b (String c r))) =
  if is_bslash a && is_slash b && is_slash c then
    (String "/" (String "/" (fst (sic r))), snd (sic r))
  else if is_slash a && is_slash b && is_equals c then
    (String "/" (String "/" (String "=" (fst (sic r)))), snd (sic r))
  else if is_slash a && is_slash b then ("", String a (String b (String c r)))
  else (String a (fst (sic (String b (String c r)))), snd (sic (String b (String c r)))).
Proof.
  intros a b c r.
  change (sic (String a (String b (String c r)))) with
    (if is_bslash a && is_slash b && is_slash c then
       let (k, m) := sic r in (String "/" (String "/" k), m)
     else if is_slash a && is_slash b && is_equals c then
       let (k, m) := sic r in (String "/" (String "/" (String "=" k)), m)
     else if is_slash a && is_slash b then ("", String a (String b (String c r)))
     else let (k, m) := sic (String b (String c r)) in (String a k, m)).
  rewrite !let_pair. reflexivity.
Qed.

(* a character that cannot start a pattern here is content *)
Lemma sic_regular_head : forall x b,
  (is_slash x || is_bslash x = false) \/ starts_slash b = false ->
  sic (String x b) = (String x (fst (sic b)), snd (sic b)).
Proof.
  intros x b H. destruct b as [|b1 [|b2 b']].
  - reflexivity.
  - rewrite sic_2, sic_1. simpl in H.
    destruct (is_slash x), (is_bslash x), (is_slash b1); simpl in *;
      try reflexivity; destruct H; discriminate.
  - rewrite sic_3. simpl in H.
    destruct (is_slash x), (is_bslash x), (is_slash b1); simpl in *;
      try reflexivity; destruct H; discriminate.
Qed.

Lemma sic_escape : forall r,
  sic (String "\" (String "/" (String "/" r))) = (String "/" (String "/" (fst (sic r))), snd (sic r)).
Proof. intros r. rewrite sic_3. reflexivity. Qed.

Lemma sic_floordiv : forall r,
  sic (String "/" (String "/" (String "=" r))) =
  (String "/" (String "/" (String "=" (fst (sic r)))), snd (sic r)).
Proof. intros r. rewrite sic_3. reflexivity. Qed.

Lemma sic_comment_start : forall c,
  starts_equals c = false ->
  sic (String "/" (String "/" c)) = ("", String "/" (String "/" c)).
Proof.
  intros [|c1 c'] H.
  - reflexivity.
  - rewrite sic_3. simpl in H. cbn. rewrite H. reflexivity.
Qed.

(* ------------------------------------------------------------------------------------------- *)
(* the scanner over a concatenation                                                            *)
(* ------------------------------------------------------------------------------------------- *)

(* no pattern can straddle the boundary between a and b *)
Definition boundary_ok (a b : string) : bool := clean_end a || negb (starts_slash b).

Lemma clean_end_cons : forall x y r, clean_end (String x (String y r)) = clean_end (String y r).
Proof. reflexivity. Qed.

Lemma boundary_ok_tail : forall x a b, boundary_ok (String x a) b = true -> boundary_ok a b = true.
Proof.
  intros x [|y r] b H.
  - reflexivity.
  - unfold boundary_ok in *. rewrite clean_end_cons in H. exact H.
Qed.

Lemma app_nil_r : forall s : string, s ++ "" = s.
Proof. induction s as [|c s IH]; simpl; [reflexivity | now rewrite IH]. Qed.

Lemma app_assoc : forall a b c : string, (a ++ b) ++ c = a ++ (b ++ c).
Proof. induction a as [|x a IH]; intros; simpl; [reflexivity | now rewrite IH]. Qed.

Lemma sic_app_aux : forall n a b,
  String.length a <= n -> no_comment a -> boundary_ok a b = true ->
  sic (a ++ b) = (fst (sic a) ++ fst (sic b), snd (sic b)).
Proof.
  unfold no_comment.
  induction n as [|n IH]; intros a b Hlen Hno Hok.
  - destruct a; simpl in Hlen; [|lia]. simpl. destruct (sic b); reflexivity.
  - destruct a as [|x [|y [|z r]]].
    + simpl. destruct (sic b); reflexivity.
    + (* one character *)
      simpl. apply sic_regular_head.
      unfold boundary_ok in Hok. unfold clean_end in Hok. simpl in Hok.
      destruct (is_slash x || is_bslash x); simpl in Hok.
      * right. now destruct (starts_slash b).
      * now left.
    + (* two characters *)
      rewrite sic_2 in Hno |- *.
      destruct (is_slash x && is_slash y) eqn:Exy; [simpl in Hno; discriminate|].
      destruct b as [|b1 b'].
      * rewrite app_nil_r, sic_2, Exy. reflexivity.
      * change ((String x (String y "")) ++ String b1 b') with (String x (String y (String b1 b'))).
        rewrite sic_3.
        assert (Hy : (is_slash y || is_bslash y = false) \/ starts_slash (String b1 b') = false).
        { unfold boundary_ok, clean_end in Hok. simpl in Hok. simpl.
          destruct (is_slash y || is_bslash y); simpl in Hok.
          - right. now destruct (is_slash b1).
          - now left. }
        assert (E1 : is_bslash x && is_slash y && is_slash b1 = false).
        { simpl in Hy. destruct (is_bslash x), (is_slash y), (is_slash b1); simpl in *;
            try reflexivity; destruct Hy; discriminate. }
        rewrite E1.
        assert (E2 : is_slash x && is_slash y && is_equals b1 = false) by (rewrite Exy; reflexivity).
        rewrite E2, Exy.
        rewrite (sic_regular_head y (String b1 b') Hy). reflexivity.
    + (* three or more characters: the same branch is taken with and without the suffix *)
      change ((String x (String y (String z r))) ++ b) with (String x (String y (String z (r ++ b)))).
      rewrite (sic_3 x y z r) in Hno |- *. rewrite (sic_3 x y z (r ++ b)).
      assert (Hokr : boundary_ok r b = true).
      { apply boundary_ok_tail with z, boundary_ok_tail with y, boundary_ok_tail with x. exact Hok. }
      destruct (is_bslash x && is_slash y && is_slash z).
      { cbn [fst snd] in Hno |- *.
        rewrite (IH r b); [reflexivity| simpl in Hlen; lia | exact Hno | exact Hokr]. }
      destruct (is_slash x && is_slash y && is_equals z).
      { cbn [fst snd] in Hno |- *.
        rewrite (IH r b); [reflexivity| simpl in Hlen; lia | exact Hno | exact Hokr]. }
      destruct (is_slash x && is_slash y).
      { cbn [fst snd] in Hno. discriminate. }
      cbn [fst snd] in Hno |- *.
      change (String y (String z (r ++ b))) with ((String y (String z r)) ++ b).
      rewrite (IH (String y (String z r)) b);
        [reflexivity | simpl in Hlen |- *; lia | exact Hno | apply boundary_ok_tail with x; exact Hok].
Qed.

(* master lemma: when a has no comment and no pattern straddles the boundary, the scanner works
   on a and on b independently *)
Lemma sic_app : forall a b,
  no_comment a -> boundary_ok a b = true ->
  sic (a ++ b) = (fst (sic a) ++ fst (sic b), snd (sic b)).
Proof. intros a b. apply sic_app_aux with (n := String.length a). lia. Qed.

(* once a comment has started, whatever follows belongs to it -- with one exception: *)
(* `//` at the very end of a followed by `=` is the one place where appended text changes an
   already started comment into an operator; so absorption is stated for b not starting with `=`
   or, more simply, for a comment that is longer than the bare `//`. *)
Lemma sic_absorb_aux : forall n a b,
  String.length a <= n -> snd (sic a) <> "" -> starts_equals b = false ->
  sic (a ++ b) = (fst (sic a), snd (sic a) ++ b).
Proof.
  induction n as [|n IH]; intros a b Hlen Hc Hb.
  - destruct a; simpl in Hlen; [|lia]. simpl in Hc. congruence.
  - destruct a as [|x [|y [|z r]]].
    + simpl in Hc. congruence.
    + simpl in Hc. congruence.
    + rewrite sic_2 in Hc |- *.
      destruct (is_slash x && is_slash y) eqn:Exy; [|simpl in Hc; congruence].
      destruct b as [|b1 b'].
      * rewrite app_nil_r, sic_2, Exy. reflexivity.
      * change ((String x (String y "")) ++ String b1 b') with (String x (String y (String b1 b'))).
        rewrite sic_3. rewrite Exy. simpl in Hb. rewrite Hb.
        destruct (is_bslash x && is_slash y && is_slash b1) eqn:E1.
        { apply andb_prop in Exy. destruct Exy as [Ex _].
          apply andb_prop in E1. destruct E1 as [E1 _]. apply andb_prop in E1. destruct E1 as [E1 _].
          unfold is_slash in Ex. unfold is_bslash in E1.
          apply Ascii.eqb_eq in Ex. apply Ascii.eqb_eq in E1. subst x. discriminate. }
        rewrite andb_false_r. reflexivity.
    + change ((String x (String y (String z r))) ++ b) with (String x (String y (String z (r ++ b)))).
      rewrite (sic_3 x y z r) in Hc |- *. rewrite (sic_3 x y z (r ++ b)).
      destruct (is_bslash x && is_slash y && is_slash z).
      { cbn [fst snd] in Hc |- *.
        rewrite (IH r b); [reflexivity | simpl in Hlen; lia | exact Hc | exact Hb]. }
      destruct (is_slash x && is_slash y && is_equals z).
      { cbn [fst snd] in Hc |- *.
        rewrite (IH r b); [reflexivity | simpl in Hlen; lia | exact Hc | exact Hb]. }
      destruct (is_slash x && is_slash y).
      { reflexivity. }
      cbn [fst snd] in Hc |- *.
      change (String y (String z (r ++ b))) with ((String y (String z r)) ++ b).
      rewrite (IH (String y (String z r)) b);
        [reflexivity | simpl in Hlen |- *; lia | exact Hc | exact Hb].
Qed.

Lemma sic_absorb : forall a b,
  snd (sic a) <> "" -> starts_equals b = false ->
  sic (a ++ b) = (fst (sic a), snd (sic a) ++ b).
Proof. intros a b. apply sic_absorb_aux with (n := String.length a). lia. Qed.

(* ------------------------------------------------------------------------------------------- *)
(* consequences for trailing comments, `\//` and `//=`                                         *)
(* ------------------------------------------------------------------------------------------- *)

Lemma no_comment_dec : forall s, no_comment s \/ snd (sic s) <> "".
Proof.
  intros s. unfold no_comment. destruct (snd (sic s)); [now left | right; discriminate].
Qed.

Lemma sic_trailing : forall c, sic (" // " ++ c) = (" ", "// " ++ c).
Proof.
  intros c. cbn [append]. rewrite sic_regular_head by (left; reflexivity).
  rewrite (sic_comment_start (String " " c)) by reflexivity. reflexivity.
Qed.

(* a trailing comment (in the documented ` // text` form) is cut off exactly, for EVERY line on
   which the scanner has not already found a comment; what remains is the blank before `//` *)
Lemma comment_invisible_lemma : forall s c,
  no_comment s -> sic (s ++ " // " ++ c) = (fst (sic s) ++ " ", "// " ++ c).
Proof.
  intros s c H. rewrite sic_app; [| exact H | unfold boundary_ok; apply orb_true_r].
  rewrite sic_trailing. reflexivity.
Qed.

(* ... and on a line that already has a comment it just extends that comment *)
Lemma comment_absorbed_lemma : forall s c,
  snd (sic s) <> "" -> sic (s ++ " // " ++ c) = (fst (sic s), snd (sic s) ++ " // " ++ c).
Proof. intros s c H. apply sic_absorb; [exact H | reflexivity]. Qed.

Lemma rstrip_app_space : forall x, rstrip (x ++ " ") = rstrip x.
Proof.
  induction x as [|a x IH].
  - reflexivity.
  - cbn [append rstrip]. rewrite IH. reflexivity.
Qed.

(* so, up to trailing whitespace (every caller of the scanner strips or ought to strip it), the
   content of ANY line is unchanged by a trailing comment *)
Lemma comment_invisible_content_lemma : forall s c,
  rstrip (fst (sic (s ++ " // " ++ c))) = rstrip (fst (sic s)).
Proof.
  intros s c. destruct (no_comment_dec s) as [H|H].
  - rewrite comment_invisible_lemma by exact H. cbn [fst]. apply rstrip_app_space.
  - rewrite comment_absorbed_lemma by exact H. reflexivity.
Qed.

(* the glued form `text//comment` needs the two exclusions: the text must not end with `/` or `\`
   and the comment text must not start with `=` *)
Lemma comment_invisible_glued_lemma : forall s c,
  no_comment s -> clean_end s = true -> starts_equals c = false ->
  sic (s ++ "//" ++ c) = (fst (sic s), "//" ++ c).
Proof.
  intros s c H He Hc.
  rewrite sic_app; [| exact H | unfold boundary_ok; rewrite He; reflexivity].
  cbn [append]. rewrite (sic_comment_start c Hc). cbn [fst snd]. rewrite app_nil_r. reflexivity.
Qed.

(* `\//` yields a literal `//` in the content and does not start a comment, after any prefix
   on which no comment was found *)
Lemma escaped_slashes_kept_lemma : forall a b,
  no_comment a ->
  sic (a ++ "\//" ++ b) = (fst (sic a) ++ "//" ++ fst (sic b), snd (sic b)).
Proof.
  intros a b H. rewrite sic_app; [| exact H | unfold boundary_ok; apply orb_true_r].
  cbn [append]. rewrite sic_escape. reflexivity.
Qed.

(* `//=` is kept and does not start a comment, after a prefix without comment that does not end
   with `/` or `\` *)
Lemma floordiv_assign_kept_lemma : forall a b,
  no_comment a -> clean_end a = true ->
  sic (a ++ "//=" ++ b) = (fst (sic a) ++ "//=" ++ fst (sic b), snd (sic b)).
Proof.
  intros a b H He. rewrite sic_app; [| exact H | unfold boundary_ok; rewrite He; reflexivity].
  cbn [append]. rewrite sic_floordiv. reflexivity.
Qed.

(* lines without any `/` are returned unchanged *)
Fixpoint slash_free (s : string) : bool :=
  match s with EmptyString => true | String c r => negb (is_slash c) && slash_free r end.

Lemma slash_free_identity : forall s, slash_free s = true -> sic s = (s, "").
Proof.
  induction s as [|x r IH]; intros H.
  - reflexivity.
  - simpl in H. apply andb_prop in H. destruct H as [Hx Hr].
    rewrite sic_regular_head.
    + rewrite (IH Hr). reflexivity.
    + right. destruct r as [|y r']; [reflexivity|]. simpl in Hr |- *.
      apply andb_prop in Hr. destruct Hr as [Hy _]. now destruct (is_slash y).
Qed.

Lemma slash_free_no_comment : forall s, slash_free s = true -> no_comment s.
Proof. intros s H. unfold no_comment. rewrite (slash_free_identity s H). reflexivity. Qed.

(* the form quoted in DESIGN.md section 2 (iii) *)
Lemma comment_invisible_slash_free : forall s c,
  slash_free s = true -> sic (s ++ " // " ++ c) = (s ++ " ", "// " ++ c).
Proof.
  intros s c H. rewrite comment_invisible_lemma by (apply slash_free_no_comment; exact H).
  rewrite (slash_free_identity s H). reflexivity.
Qed.

(* ------------------------------------------------------------------------------------------- *)
(* detect_and_strip_indentation                                                                *)
(* ------------------------------------------------------------------------------------------- *)

Lemma length_lstrip_le : forall l, String.length (lstrip l) <= String.length l.
Proof.
  induction l as [|c r IH]; simpl; [lia|]. destruct (is_space c); simpl; lia.
Qed.

Lemma indent_of_cons : forall c r,
  indent_of (String c r) = if is_space c then S (indent_of r) else 0.
Proof.
  intros c r. unfold indent_of. cbn [lstrip]. destruct (is_space c); cbn [String.length].
  - pose proof (length_lstrip_le r). lia.
  - lia.
Qed.

Lemma indent_of_nil : indent_of "" = 0.
Proof. reflexivity. Qed.

Lemma indent_of_app : forall p l,
  all_space p = true -> indent_of (p ++ l) = String.length p + indent_of l.
Proof.
  induction p as [|c p IH]; intros l H.
  - reflexivity.
  - simpl in H. apply andb_prop in H. destruct H as [Hc Hp].
    cbn [append]. rewrite indent_of_cons, Hc, (IH l Hp). reflexivity.
Qed.

Lemma is_blank_app : forall p l, all_space p = true -> is_blank (p ++ l) = is_blank l.
Proof.
  unfold is_blank. induction p as [|c p IH]; intros l H.
  - reflexivity.
  - simpl in H. apply andb_prop in H. destruct H as [Hc Hp].
    simpl. rewrite Hc, (IH l Hp). reflexivity.
Qed.

Lemma drop_app_length : forall p l k, drop (String.length p + k) (p ++ l) = drop k l.
Proof. induction p as [|c p IH]; intros l k; simpl; [reflexivity | apply IH]. Qed.

Lemma drop_0 : forall l, drop 0 l = l.
Proof. reflexivity. Qed.

Lemma drop_indent_lstrip : forall l, drop (indent_of l) l = lstrip l.
Proof.
  induction l as [|c r IH].
  - reflexivity.
  - rewrite indent_of_cons. simpl. destruct (is_space c); [exact IH | reflexivity].
Qed.

Lemma lstrip_idem : forall l, lstrip (lstrip l) = lstrip l.
Proof.
  induction l as [|c r IH]; [reflexivity|]. simpl. destruct (is_space c) eqn:E; [exact IH|].
  simpl. rewrite E. reflexivity.
Qed.

Lemma indent_of_lstrip : forall l, indent_of (lstrip l) = 0.
Proof. intros l. unfold indent_of. rewrite lstrip_idem. lia. Qed.

Lemma is_blank_lstrip : forall l, is_blank (lstrip l) = is_blank l.
Proof.
  unfold is_blank. induction l as [|c r IH]; [reflexivity|]. simpl.
  destruct (is_space c) eqn:E; [exact IH|]. simpl. rewrite E. reflexivity.
Qed.

Lemma dedent_line_0 : forall l, dedent_line 0 l = l.
Proof. intros l. unfold dedent_line. destruct (is_blank l); reflexivity. Qed.

Lemma base_indent_none_blank : forall ls,
  base_indent ls = None -> forall l, In l ls -> is_blank l = true.
Proof.
  induction ls as [|x r IH]; intros H l Hin; [destruct Hin|].
  simpl in H. destruct (is_blank x) eqn:E; [|discriminate].
  destruct Hin as [<-|Hin]; [exact E | exact (IH H l Hin)].
Qed.

Lemma indent_line_blank : forall p l, is_blank l = true -> indent_line p l = l.
Proof. intros p l H. unfold indent_line. rewrite H. reflexivity. Qed.

Lemma map_id_in : forall (f : string -> string) ls, (forall l, In l ls -> f l = l) -> map f ls = ls.
Proof.
  induction ls as [|x r IH]; intros H; [reflexivity|]. simpl.
  rewrite (H x (or_introl eq_refl)), IH; [reflexivity|]. intros l Hl. apply H. now right.
Qed.

Lemma base_indent_indent_line : forall p ls,
  all_space p = true ->
  base_indent (map (indent_line p) ls) =
  match base_indent ls with Some k => Some (String.length p + k) | None => None end.
Proof.
  intros p ls Hp. induction ls as [|l r IH]; [reflexivity|].
  cbn [map base_indent]. destruct (is_blank l) eqn:E.
  - rewrite (indent_line_blank p l E), E. exact IH.
  - assert (indent_line p l = p ++ l) as -> by (unfold indent_line; rewrite E; reflexivity).
    rewrite (is_blank_app p l Hp), E, (indent_of_app p l Hp). reflexivity.
Qed.

Lemma base_indent_indent_any : forall p ls,
  all_space p = true ->
  base_indent (map (indent_any p) ls) =
  match base_indent ls with Some k => Some (String.length p + k) | None => None end.
Proof.
  intros p ls Hp. induction ls as [|l r IH]; [reflexivity|].
  cbn [map base_indent]. change (indent_any p l) with (p ++ l).
  rewrite (is_blank_app p l Hp). destruct (is_blank l) eqn:E.
  - exact IH.
  - rewrite (indent_of_app p l Hp). reflexivity.
Qed.

Lemma dedent_line_indent_line : forall p k l,
  all_space p = true -> (is_blank l = false -> k <= indent_of l) ->
  dedent_line (String.length p + k) (indent_line p l) = dedent_line k l.
Proof.
  intros p k l Hp Hk. unfold indent_line, dedent_line. destruct (is_blank l) eqn:E.
  - rewrite E. reflexivity.
  - rewrite (is_blank_app p l Hp), E, (indent_of_app p l Hp).
    specialize (Hk eq_refl).
    replace (String.length p + k <=? String.length p + indent_of l) with true
      by (symmetry; apply Nat.leb_le; lia).
    replace (k <=? indent_of l) with true by (symmetry; apply Nat.leb_le; lia).
    apply drop_app_length.
Qed.

(* indenting every non-blank line of a block by the same whitespace prefix (spaces, tabs, any
   mixture) is invisible, provided no line is indented less than the first non-blank one *)
Lemma uniform_indent_invisible_lemma : forall p ls,
  all_space p = true -> well_indented ls ->
  detect_and_strip_indentation (map (indent_line p) ls) = detect_and_strip_indentation ls.
Proof.
  intros p ls Hp Hw. unfold detect_and_strip_indentation.
  rewrite (base_indent_indent_line p ls Hp). destruct (base_indent ls) as [k|] eqn:Eb.
  - rewrite map_map. apply map_ext_in. intros l Hl.
    apply dedent_line_indent_line; [exact Hp|]. intros Hnb. exact (Hw k Eb l Hl Hnb).
  - apply map_id_in. intros l Hl. apply indent_line_blank. exact (base_indent_none_blank ls Eb l Hl).
Qed.

Lemma dedent_fixed : forall ls,
  base_indent ls = Some 0 -> detect_and_strip_indentation ls = ls.
Proof.
  intros ls H. unfold detect_and_strip_indentation. rewrite H.
  apply map_id_in. intros l _. apply dedent_line_0.
Qed.

Lemma well_indented_base0 : forall ls, base_indent ls = Some 0 -> well_indented ls.
Proof. intros ls H base Hb l _ _. rewrite H in Hb. injection Hb as <-. lia. Qed.

(* the form of the task statement: an already dedented block comes back unchanged *)
Lemma uniform_indent_dedented_lemma : forall p ls,
  all_space p = true -> base_indent ls = Some 0 ->
  detect_and_strip_indentation (map (indent_line p) ls) = ls.
Proof.
  intros p ls Hp H0.
  rewrite (uniform_indent_invisible_lemma p ls Hp (well_indented_base0 ls H0)).
  exact (dedent_fixed ls H0).
Qed.

(* when the blank lines are indented too they stay indented (and blank) *)
Definition line_equiv (x y : string) : Prop := x = y \/ (is_blank x = true /\ is_blank y = true).

Lemma Forall2_map_in : forall (R : string -> string -> Prop) (f g : string -> string) ls,
  (forall l, In l ls -> R (f l) (g l)) -> Forall2 R (map f ls) (map g ls).
Proof.
  induction ls as [|x r IH]; intros H; simpl; constructor.
  - apply H. now left.
  - apply IH. intros l Hl. apply H. now right.
Qed.

Lemma uniform_indent_any_lemma : forall p ls,
  all_space p = true -> well_indented ls ->
  Forall2 line_equiv (detect_and_strip_indentation (map (indent_any p) ls))
                     (detect_and_strip_indentation ls).
Proof.
  intros p ls Hp Hw. unfold detect_and_strip_indentation.
  rewrite (base_indent_indent_any p ls Hp). destruct (base_indent ls) as [k|] eqn:Eb.
  - rewrite map_map. apply Forall2_map_in. intros l Hl.
    unfold indent_any, dedent_line. rewrite (is_blank_app p l Hp).
    destruct (is_blank l) eqn:E.
    + right. split; [rewrite (is_blank_app p l Hp)|]; exact E.
    + left. rewrite (indent_of_app p l Hp). pose proof (Hw k Eb l Hl E) as Hk.
      replace (String.length p + k <=? String.length p + indent_of l) with true
        by (symmetry; apply Nat.leb_le; lia).
      replace (k <=? indent_of l) with true by (symmetry; apply Nat.leb_le; lia).
      apply drop_app_length.
  - rewrite <- (map_id ls) at 2. apply Forall2_map_in. intros l Hl.
    pose proof (base_indent_none_blank ls Eb l Hl) as E.
    right. split; [unfold indent_any; rewrite (is_blank_app p l Hp)|]; exact E.
Qed.

Lemma base_indent_after_dedent : forall ls k,
  base_indent ls = Some k -> base_indent (map (dedent_line k) ls) = Some 0.
Proof.
  induction ls as [|l r IH]; intros k H; [discriminate|].
  cbn [map base_indent] in H |- *. destruct (is_blank l) eqn:E.
  - assert (dedent_line k l = l) as -> by (unfold dedent_line; rewrite E; reflexivity).
    rewrite E. exact (IH k H).
  - injection H as <-.
    assert (dedent_line (indent_of l) l = lstrip l) as ->.
    { unfold dedent_line. rewrite E, Nat.leb_refl. apply drop_indent_lstrip. }
    rewrite is_blank_lstrip, E, indent_of_lstrip. reflexivity.
Qed.

Lemma dedent_idempotent_lemma : forall ls,
  detect_and_strip_indentation (detect_and_strip_indentation ls) = detect_and_strip_indentation ls.
Proof.
  intros ls. unfold detect_and_strip_indentation at 2 3. destruct (base_indent ls) as [k|] eqn:Eb.
  - apply dedent_fixed. exact (base_indent_after_dedent ls k Eb).
  - unfold detect_and_strip_indentation. rewrite Eb. reflexivity.
Qed.

(* the dedented block starts at column 0 (or is all blank) *)
Lemma dedent_base_zero : forall ls,
  base_indent (detect_and_strip_indentation ls) = None \/
  base_indent (detect_and_strip_indentation ls) = Some 0.
Proof.
  intros ls. unfold detect_and_strip_indentation. destruct (base_indent ls) as [k|] eqn:Eb.
  - right. exact (base_indent_after_dedent ls k Eb).
  - left. exact Eb.
Qed.

(* a block that is well indented without starting at column 0 (non-vacuity of the hypothesis) *)
Lemma well_indented_sample : well_indented ["  a"; "    b"; ""; " "].
Proof.
  intros base H l Hin Hb. vm_compute in H. injection H as <-.
  simpl in Hin. destruct Hin as [<-|[<-|[<-|[<-|[]]]]]; vm_compute in Hb |- *; try discriminate; lia.
Qed.
