(* The two halves of the parser model put together: the main loop of Compiler/ParseMain.v (part A)
   run with the block extractors of Compiler/ParseBlocks.v (part B) instantiated with the line-level
   functions of Compiler/ParseLine.v (Compiler/ParseBlocksInst.v).  This is the only proof file that
   sees both halves; it discharges part A's hypotheses on the extractors (extractors_ok,
   call_sites_total) with part B's theorems (contract_all, real_extractors_total). *)
From Coq Require Import String Ascii List Bool Arith Lia.
From Bardic Require Import PyStr Value Compiled Lex ParseBase ParseLine ParseMain ParseBlocks.
From Bardic Require Import ParseProofs ParseBlocksProofs ParseBlocksInst.
Import ListNotations.
Local Open Scope string_scope.

(* the parser of the current /repo: blocks.py with the fixes 2da11ec and 179a3c4 *)
Definition real_extractors : extractors :=
  mkExtractors extract_python_block extract_conditional_block_real extract_loop_block_real
               extract_join_choice_block_real.

Definition parse_real (pp : pyparse) (is_call : string -> bool) (lines : list string) : pres story :=
  parse pp is_call real_extractors lines.

Lemma real_extractors_ok : extractors_ok real_extractors.
Proof.
  repeat split; intros ls i c n H; simpl in H.
  - destruct (contract_all true (Some max_block_depth) real_linefns ls i) as [H1 _].
    apply H1 in H. lia.
  - destruct (contract_all true (Some max_block_depth) real_linefns ls i) as [_ [_ [H1 _]]].
    apply H1 in H. lia.
  - destruct (contract_all true (Some max_block_depth) real_linefns ls i) as [_ [_ [_ [H1 _]]]].
    apply H1 in H. lia.
Qed.

Lemma real_call_sites_total : call_sites_total real_extractors.
Proof.
  repeat split; simpl.
  - intros lines i [l [Hl _]]. destruct (real_extractors_total lines i) as [H _]. apply H.
    apply nth_error_Some. congruence.
  - intros lines i _. destruct (real_extractors_total lines i) as [_ [H _]]. exact H.
  - intros lines i [l [Hl Ht]]. destruct (real_extractors_total lines i) as [_ [_ [H _]]]. apply H.
    exists l. split; auto.
  - intros lines i indent. destruct (real_extractors_total lines i) as [_ [_ [_ H]]]. apply H.
Qed.

(* C11 for the modelled compiler, full strength: every line list, every oracle *)
Lemma parse_total_lemma : forall pp is_call lines, ok_or_diag (parse_real pp is_call lines).
Proof.
  intros. unfold parse_real. apply parse_total_sites; [apply real_extractors_ok|apply real_call_sites_total].
Qed.

(* a story with every block construct compiles in the combined model *)
Definition block_sample_lines : list string :=
  [":: Start"; "@py:"; "  hp = 3"; "@endpy"; "@if hp > 1:"; "  You live."; "  -> End"; "@else:";
   "  + [Again] -> Start"; "@endif"; "@for i in items:"; "  {i}<>"; "@endfor";
   "* [Rest] -> @join"; "    You rest."; "@join"; "Done."; ":: End"; "Bye."].

Lemma block_sample_parses :
  match parse_real (mkPyparse (fun _ => true) (fun _ => Some (0, []))) (fun _ => true) block_sample_lines with
  | POk st => map fst (passages st) = ["Start"; "End"] /\ initial st = "Start"
  | _ => False
  end.
Proof. vm_compute. split; reflexivity. Qed.
