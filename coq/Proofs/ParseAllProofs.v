(* The two halves of the parser model put together: the main loop of Compiler/ParseMain.v (part A)
   run with the block extractors of Compiler/ParseBlocks.v (part B) instantiated with the line-level
   functions of Compiler/ParseLine.v (Compiler/ParseBlocksInst.v).  This is the only proof file that
   sees both halves; it discharges part A's hypotheses on the extractors (extractors_ok,
   call_sites_total) with part B's theorems (contract_all, real_extractors_total). *)
From Coq Require Import String Ascii List Bool Arith Lia.
From Bardic Require Import PyStr Value Compiled Lex ParseBase ParseLine ParseMain ParseBlocks.
From Bardic Require Import ParseProofs ParseBlocksProofs ParseBlocksInst.
Import ListNotations.
Local Open Scope string_scope.

(* the parser of the current /repo: blocks.py with the fixes 2da11ec and 179a3c4 *)
Definition real_extractors : extractors :=
  mkExtractors extract_python_block extract_conditional_block_real extract_loop_block_real
               extract_join_choice_block_real.

Definition parse_real (pp : pyparse) (is_call : string -> bool) (lines : list string) : pres story :=
  parse pp is_call real_extractors lines.

Lemma real_extractors_ok : extractors_ok real_extractors.
Proof.
  repeat split; intros ls i c n H; simpl in H.
  - destruct (contract_all true (Some max_block_depth) real_linefns ls i) as [H1 _].
    apply H1 in H. lia.
  - destruct (contract_all true (Some max_block_depth) real_linefns ls i) as [_ [_ [H1 _]]].
    apply H1 in H. lia.
  - destruct (contract_all true (Some max_block_depth) real_linefns ls i) as [_ [_ [_ [H1 _]]]].
    apply H1 in H. lia.
Qed.

Lemma real_call_sites_total : call_sites_total real_extractors.
Proof.
  repeat split; simpl.
  - intros lines i [l [Hl _]]. destruct (real_extractors_total lines i) as [H _]. apply H.
    apply nth_error_Some. congruence.
  - intros lines i _. destruct (real_extractors_total lines i) as [_ [H _]]. exact H.
  - intros lines i [l [Hl Ht]]. destruct (real_extractors_total lines i) as [_ [_ [H _]]]. apply H.
    exists l. split; auto.
  - intros lines i indent. destruct (real_extractors_total lines i) as [_ [_ [_ H]]]. apply H.
Qed.

(* C11 for the modelled compiler, full strength: every line list, every oracle *)
Lemma parse_total_lemma : forall pp is_call lines, ok_or_diag (parse_real pp is_call lines).
Proof.
  intros. unfold parse_real. apply parse_total_sites; [apply real_extractors_ok|apply real_call_sites_total].
Qed.

(* a story with every block construct compiles in the combined model *)
Definition block_sample_lines : list string :=
  [":: Start"; "@py:"; "  hp = 3"; "@endpy"; "@if hp > 1:"; "  You live."; "  -> End"; "@else:";
   "  + [Again] -> Start"; "@endif"; "@for i in items:"; "  {i}<>"; "@endfor";
   "* [Rest] -> @join"; "    You rest."; "@join"; "Done."; ":: End"; "Bye."].

Lemma block_sample_parses :
  match parse_real (mkPyparse (fun _ => true) (fun _ => Some (0, [])) (fun _ => 0)) (fun _ => true) block_sample_lines with
  | POk st => map fst (passages st) = ["Start"; "End"] /\ initial st = "Start"
  | _ => False
  end.
Proof. vm_compute. split; reflexivity. Qed.

(* ------------------------------------------------------------------------------------------- *)
(* C12: from what parse guarantees to what the engine needs (Proofs/StoryWfProofs.v)             *)
(* ------------------------------------------------------------------------------------------- *)
From Bardic Require Import Engine EngineBase StoryWfProofs.

Lemma name_char_not_paren : forall c,
  (is_alpha c || ch c "_" = true) \/ is_name_char c = true -> ascii_eqb c "("%char = false.
Proof.
  intros c H. destruct (ascii_eqb c "("%char) eqn:E; auto.
  unfold ascii_eqb in E. apply Ascii.eqb_eq in E. subst c. destruct H as [H|H]; vm_compute in H; discriminate.
Qed.

Lemma all_name_chars_no_paren : forall s, all_chars is_name_char s = true -> no_paren s = true.
Proof.
  induction s as [|c r IH]; simpl; intros H; auto.
  apply andb_prop in H. destruct H as [H1 H2].
  rewrite (name_char_not_paren c (or_intror H1)). simpl. auto.
Qed.

Lemma valid_name_no_paren : forall k, valid_passage_pattern k = true -> no_paren k = true.
Proof.
  intros [|c r] H; simpl in *; [discriminate|].
  apply andb_prop in H. destruct H as [H1 H2].
  rewrite (name_char_not_paren c (or_introl H1)). simpl. apply all_name_chars_no_paren; auto.
Qed.

Lemma targets_ok_jumps_defined : forall ps t, targets_ok ps t -> jumps_defined ps t.
Proof.
  intros ps. induction t using token_ind'; intros Ht; try exact I.
  - (* TCond *)
    simpl in *. induction H as [|[c cont chs] r [Hcont _] Hr IH]; auto.
    destruct Ht as [_ [Ht1 Ht2]]. split; [|apply IH; auto].
    clear IH Ht2 Hr. induction Hcont as [|x l Hx Hl IHl]; auto.
    destruct Ht1 as [A1 A2]. split; [auto|apply IHl; auto].
  - (* TLoop *)
    simpl in *. destruct Ht as [_ Ht]. induction H as [|x l Hx Hl IHl]; auto.
    destruct Ht as [A1 A2]. split; [auto|apply IHl; auto].
  - (* TJump *)
    simpl in *. exact Ht.
Qed.

Lemma parse_ok_nav_lemma : forall pp is_call xs lines0 story,
  parse pp is_call xs lines0 = POk story ->
  story_jumps_defined story /\ names_plain story.
Proof.
  intros pp is_call xs lines0 story H. split.
  - intros k p Hin. destruct (validated_targets_lemma _ _ _ _ _ H k p Hin) as [_ Ht].
    unfold tokens_targets_ok in Ht.
    clear Hin. induction Ht; constructor; auto.
    apply targets_ok_jumps_defined; auto.
  - intros k p Hin. apply valid_name_no_paren. eapply parse_ok_names_lemma; eauto.
Qed.

(* for every story the compiler model returns: following jump chains from a defined passage never reaches
   the unknown-passage site *)
Lemma parse_ok_never_unknown_lemma : forall pp is_call xs lines0 story,
  parse pp is_call xs lines0 = POk story ->
  forall orc ctxkeys unknown fuel spec visited s,
    name_defined story spec ->
    goto_rec_g orc ctxkeys story unknown fuel spec visited s = goto_rec orc ctxkeys story fuel spec visited s.
Proof.
  intros pp is_call xs lines0 story H orc ctxkeys unknown fuel spec visited s Hd.
  destruct (parse_ok_nav_lemma _ _ _ _ _ H) as [H1 H2].
  apply wf_never_unknown_passage_lemma; auto.
Qed.

(* `-> @join` written as a jump is rejected (fix 3c6eb71; before it the validator let it through and the engine
   could not follow it: StoryWfProofs.join_jump_unknown shows what such a story does at run time) *)
Lemma join_jump_rejected :
  parse (mkPyparse (fun _ => true) (fun _ => Some (0, [])) (fun _ => 0)) (fun _ => true) no_extractors
        [":: Start"; "hi<>"; "-> @join"] = PDiag (DSyntax "call:jump-to-join" 0).
Proof. vm_compute. reflexivity. Qed.
