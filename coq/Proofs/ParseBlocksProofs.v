(* Lemmas about Compiler/ParseBlocks.v (block extractors).  Property statements are in Props/C11b.v. *)
From Coq Require Import String Ascii List Bool Arith ZArith Lia.
From Bardic Require Import PyStr Value Compiled Lex ParseBase ParseBlocks.
Import ListNotations.
Local Open Scope string_scope.
Local Open Scope nat_scope.
Local Open Scope list_scope.

(* ------------------------------------------------------------------------------------------- *)
(* vocabulary                                                                                   *)
(* ------------------------------------------------------------------------------------------- *)

(* outcomes a function may produce: a value or a diagnostic; an internal error only when
   `int_ok`; never OutOfFuel *)
Definition allowed (int_ok : bool) {A} (r : pres A) : Prop :=
  match r with
  | POk _ | PDiag _ => True
  | PInternal _ => int_ok = true
  | POutOfFuel => False
  end.

(* a (construct, consumed) result reports at least one consumed line *)
Definition progress {X} (r : pres (X * nat)) : Prop := forall x k, r = POk (x, k) -> 1 <= k.

Definition recok (b : bool) {X} (r : pres (X * nat)) : Prop := allowed b r /\ progress r.

Definition lf_allowed (b : bool) (lf : linefns) : Prop :=
  (forall s, allowed b (lf_content lf s)) /\ (forall s, allowed b (lf_choice lf s)) /\
  (forall s, allowed b (lf_render lf s)) /\ (forall s, allowed b (lf_input lf s)).

(* extract_multiline_expression always consumes the line it starts on *)
Definition lf_progress (lf : linefns) : Prop := forall ls i c, 1 <= snd (lf_emx lf ls i c).

Lemma allowed_false_ok_or_diag : forall A (r : pres A), allowed false r -> ok_or_diag r.
Proof.
  intros A [a|d|i|] H; simpl in H; try discriminate; try contradiction.
  - left; eauto.
  - right; eauto.
Qed.

Lemma allowed_true_no_fuel : forall A (r : pres A), allowed true r -> r <> POutOfFuel.
Proof. intros A r H E; subst; exact H. Qed.

Lemma allowed_weaken : forall A (r : pres A) b, allowed false r -> allowed b r.
Proof. intros A [a|d|i|] b H; simpl in *; auto; discriminate. Qed.

Lemma allowed_bind : forall b A B (m : pres A) (f : A -> pres B),
  allowed b m -> (forall a, m = POk a -> allowed b (f a)) -> allowed b (pbind m f).
Proof. intros b A B [a|d|i|] f H K; simpl in *; auto. Qed.

Lemma allowed_at_line : forall b A i (r : pres A), allowed b r -> allowed b (at_line i r).
Proof. intros b A i [a|[s j|s]|e|] H; simpl in *; auto. Qed.

(* ------------------------------------------------------------------------------------------- *)
(* lists                                                                                        *)
(* ------------------------------------------------------------------------------------------- *)
Lemma skipn_cons_nth : forall (A : Type) i (ls : list A) l r,
  skipn i ls = l :: r -> nth_error ls i = Some l /\ skipn (S i) ls = r.
Proof.
  induction i; intros ls l r H.
  - destruct ls; simpl in H; inversion H; subst; auto.
  - destruct ls as [|x ls]; simpl in H; [discriminate|].
    apply IHi in H. destruct H as [H1 H2]. split; auto.
Qed.

Lemma skipn_cons_lt : forall (A : Type) i (ls : list A) l r, skipn i ls = l :: r -> i < length ls.
Proof.
  intros A i ls l r H. apply skipn_cons_nth in H. destruct H as [H _].
  apply nth_error_Some. rewrite H. discriminate.
Qed.

(* ------------------------------------------------------------------------------------------- *)
(* extract_python_block                                                                         *)
(* ------------------------------------------------------------------------------------------- *)
Lemma py_new_go_bounds : forall start rest acc k c n,
  py_new_go start rest acc k = POk (c, n) -> k < n /\ n <= k + length rest.
Proof.
  induction rest as [|line rest IH]; intros acc k c n H; simpl in H; [discriminate|].
  destruct (String.eqb (strip line) "@endpy").
  - inversion H; subst. simpl. lia.
  - apply IH in H. simpl. lia.
Qed.

Lemma py_new_go_allowed : forall b start rest acc k, allowed b (py_new_go start rest acc k).
Proof.
  induction rest as [|line rest IH]; intros; simpl; auto.
  destruct (String.eqb (strip line) "@endpy"); simpl; auto.
Qed.

Lemma py_old_go_bounds : forall rest base acc k,
  k < snd (py_old_go rest base acc k) /\ snd (py_old_go rest base acc k) <= S (k + length rest).
Proof.
  induction rest as [|line rest IH]; intros; simpl; [lia|].
  destruct (String.eqb (strip line) ">>"); simpl; [lia|].
  match goal with |- context [py_old_go rest ?b ?a ?k'] => specialize (IH b a k') end. lia.
Qed.

(* new syntax: 1 <= consumed <= len - start; legacy syntax: an unclosed block reports one more *)
Lemma extract_python_block_bounds : forall lines start c n,
  extract_python_block lines start = POk (c, n) ->
  1 <= n /\ n <= S (length lines - start).
Proof.
  intros lines start c n H. unfold extract_python_block in H.
  destruct (nth_error lines start) as [line|] eqn:E; [|discriminate].
  assert (L : start < length lines) by (apply nth_error_Some; rewrite E; discriminate).
  destruct (startswith (strip line) "<<py").
  - inversion H as [H1]. unfold extract_py_old_syntax in *.
    pose proof (py_old_go_bounds (skipn (S start) lines) None [] 1) as B.
    rewrite skipn_length in B. rewrite H1 in B. cbn [snd] in B. lia.
  - destruct (startswith (strip line) "@py"); [|discriminate].
    unfold extract_py_new_syntax in H. rewrite E in H.
    destruct (negb (String.eqb (strip line) "@py:")); [discriminate|].
    apply py_new_go_bounds in H. rewrite skipn_length in H. lia.
Qed.

Lemma extract_py_new_bounds : forall lines start c n,
  extract_py_new_syntax lines start = POk (c, n) -> 1 <= n /\ n <= length lines - start.
Proof.
  intros lines start c n H. unfold extract_py_new_syntax in H.
  destruct (nth_error lines start) as [line|] eqn:E; [|discriminate].
  assert (L : start < length lines) by (apply nth_error_Some; rewrite E; discriminate).
  destruct (negb (String.eqb (strip line) "@py:")); [discriminate|].
  apply py_new_go_bounds in H. rewrite skipn_length in H. lia.
Qed.

Lemma extract_python_block_recok : forall b lines i l,
  nth_error lines i = Some l -> recok b (extract_python_block lines i).
Proof.
  intros b lines i l E. split.
  - unfold extract_python_block. rewrite E.
    destruct (startswith (strip l) "<<py"); simpl; auto.
    destruct (startswith (strip l) "@py"); simpl; auto.
    unfold extract_py_new_syntax. rewrite E.
    destruct (negb (String.eqb (strip l) "@py:")); simpl; auto. apply py_new_go_allowed.
  - intros c k H. apply extract_python_block_bounds in H. lia.
Qed.

Lemma extract_python_block_internal_iff : forall lines start e,
  extract_python_block lines start = PInternal e -> length lines <= start /\ e = IIndex.
Proof.
  intros lines start e H. unfold extract_python_block in H.
  destruct (nth_error lines start) as [line|] eqn:E.
  - exfalso. destruct (startswith (strip line) "<<py"); [discriminate|].
    destruct (startswith (strip line) "@py"); [|discriminate].
    unfold extract_py_new_syntax in H. rewrite E in H.
    destruct (negb (String.eqb (strip line) "@py:")); [discriminate|].
    pose proof (py_new_go_allowed false start (skipn (S start) lines) [] 1) as A.
    rewrite H in A. simpl in A. discriminate.
  - apply nth_error_None in E. inversion H. auto.
Qed.

(* ------------------------------------------------------------------------------------------- *)
(* contracts: 1 <= consumed <= len(lines) - start (no hypothesis on linefns or on the sub-calls)  *)
(* ------------------------------------------------------------------------------------------- *)
Section Contracts.
Variable fixed : bool.
Variable lf : linefns.
Variable rec_cond rec_loop : list string -> nat -> pres (token * nat).

Lemma cond_go_bounds : forall lines start rest i skip st t n,
  start <= i ->
  cond_go fixed lf rec_cond rec_loop lines start rest i skip st = POk (t, n) ->
  (exists brs, t = TCond brs) /\ i - start < n /\ n <= i + length rest - start.
Proof.
  induction rest as [|line rest IH]; intros i skip st t n Hi H; cbn [cond_go] in H; [discriminate|].
  destruct skip as [|k].
  - destruct (cond_step fixed lf rec_cond rec_loop lines start i line st) as [[st' [|k]|brs]|d|e|];
      try discriminate.
    + apply IH in H; [|lia]. cbn [length]. destruct H as [H1 H2]. split; auto. lia.
    + assert (E1 : t = TCond brs) by congruence. assert (E2 : n = S i - start) by congruence.
      subst. split; [eauto|]. cbn [length]. lia.
  - apply IH in H; [|lia]. cbn [length]. destruct H as [H1 H2]. split; auto. lia.
Qed.

Lemma cond_body_bounds : forall lines start t n,
  cond_body fixed lf rec_cond rec_loop lines start = POk (t, n) ->
  (exists brs, t = TCond brs) /\ 1 <= n /\ n <= length lines - start.
Proof.
  intros lines start t n H. unfold cond_body in H. apply cond_go_bounds in H; [|lia].
  rewrite skipn_length in H. destruct H as [H1 H2]. split; auto.
  destruct (le_lt_dec (length lines) start); lia.
Qed.

Lemma loop_collect_bounds : forall start rest i started depth raw var coll found i' raw' v' c',
  loop_collect start rest i started depth raw var coll = POk (found, i', raw', v', c') ->
  length raw' <= length raw + length rest /\
  (found = true -> i < i' /\ i' <= i + length rest).
Proof.
  induction rest as [|line rest IH]; intros i started depth raw var coll found i' raw' v' c' H;
    cbn [loop_collect] in H.
  - assert (found = false) by congruence. assert (raw' = raw) by congruence. subst.
    split; [lia|discriminate].
  - cbn [length].
    assert (K : forall st d rw v c,
               loop_collect start rest (S i) st d rw v c = POk (found, i', raw', v', c') ->
               length rw <= S (length raw) ->
               length raw' <= length raw + S (length rest) /\
               (found = true -> i < i' /\ i' <= i + S (length rest))).
    { intros st d rw v c E L. apply IH in E. destruct E as [E1 E2]. split; [lia|].
      intros F. specialize (E2 F). lia. }
    assert (L1 : length (raw ++ [line]) <= S (length raw)) by (rewrite app_length; simpl; lia).
    destruct (is_for_line (strip line) && (i =? start)).
    + destruct (startswith (strip line) "@for ").
      * destruct (match_for_colon _) as [[v c]|]; [|discriminate]. eapply K; eauto.
      * destruct (match_for_legacy _) as [[v c]|]; [|discriminate]. eapply K; eauto.
    + destruct (String.eqb (strip line) "@endfor:"); [discriminate|].
      destruct (started && is_for_line (strip line)); [eapply K; eauto|].
      destruct (startswith (strip line) "<<endfor>>" || String.eqb (strip line) "@endfor").
      * destruct ((depth - 1 =? 0)%Z); [|eapply K; eauto].
        assert (found = true) by congruence. assert (i' = S i) by congruence.
        assert (raw' = raw) by congruence. subst. split; [lia|intros; lia].
      * eapply K; eauto. destruct started; auto.
Qed.

Lemma loop_body_bounds : forall lines start t n,
  loop_body lf rec_cond rec_loop lines start = POk (t, n) ->
  (exists v c ct chs, t = TLoop v c ct chs) /\ 1 <= n /\ n <= length lines - start.
Proof.
  intros lines start t n H. unfold loop_body in H.
  destruct (loop_collect start (skipn start lines) start false 0 [] "" "")
    as [[[[[found i] raw] var] coll]|d|e|] eqn:E; simpl in H; try discriminate.
  destruct (body_go lf rec_cond rec_loop (detect_and_strip_indentation raw)
              (detect_and_strip_indentation raw) 0 0 [] []) as [[ct chs]|d|e|]; simpl in H; try discriminate.
  destruct found; [|discriminate]. inversion H; subst.
  apply loop_collect_bounds in E. destruct E as [_ E]. specialize (E eq_refl).
  rewrite skipn_length in E. split; [eauto|].
  destruct (le_lt_dec (length lines) start); lia.
Qed.

End Contracts.

Lemma extract_conditional_block_f_bounds : forall fixed lf n lines start t k,
  extract_conditional_block_f fixed lf n lines start = POk (t, k) ->
  (exists brs, t = TCond brs) /\ 1 <= k /\ k <= length lines - start.
Proof. intros fixed lf [|n] lines start t k H; simpl in H; [discriminate|]. eapply cond_body_bounds; eauto. Qed.

Lemma extract_loop_block_f_bounds : forall fixed lf n lines start t k,
  extract_loop_block_f fixed lf n lines start = POk (t, k) ->
  (exists v c ct chs, t = TLoop v c ct chs) /\ 1 <= k /\ k <= length lines - start.
Proof. intros fixed lf [|n] lines start t k H; simpl in H; [discriminate|]. eapply loop_body_bounds; eauto. Qed.

Lemma join_collect_bounds : forall indent rest block k,
  snd (join_collect indent rest block k) <= k + length rest.
Proof.
  induction rest as [|line rest IH]; intros; simpl; [lia|].
  destruct (is_join_block_terminator line); simpl; [lia|].
  destruct (negb (nonempty (strip line))).
  - specialize (IH (block ++ [line]) (S k)). lia.
  - destruct (ws_run line <=? indent); simpl; [lia|]. specialize (IH (block ++ [line]) (S k)). lia.
Qed.

Lemma extract_join_bounds : forall lf lines start indent ct ex k,
  extract_join_choice_block lf lines start indent = POk (ct, ex, k) -> k <= length lines - start.
Proof.
  intros lf lines start indent ct ex k H. unfold extract_join_choice_block in H.
  pose proof (join_collect_bounds indent (skipn start lines) [] 0) as B. rewrite skipn_length in B.
  destruct (join_collect indent (skipn start lines) [] 0) as [block k'].
  destruct block.
  - inversion H; subst. lia.
  - destruct (join_parse lf start (detect_and_strip_indentation (s :: block)) 0 [] []) as [[c e]|d|e|];
      simpl in H; try discriminate. inversion H; subst. cbn [snd] in B. lia.
Qed.
