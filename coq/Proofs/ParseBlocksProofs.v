(* Lemmas about Compiler/ParseBlocks.v (block extractors).  Property statements are in Props/C11b.v. *)
From Coq Require Import String Ascii List Bool Arith ZArith Lia.
From Bardic Require Import PyStr Value Compiled Lex ParseBase ParseBlocks.
Import ListNotations.
Local Open Scope string_scope.
Local Open Scope nat_scope.
Local Open Scope list_scope.

(* ------------------------------------------------------------------------------------------- *)
(* vocabulary                                                                                   *)
(* ------------------------------------------------------------------------------------------- *)

(* outcomes a function may produce: a value or a diagnostic; an internal error only when
   `int_ok`; never OutOfFuel *)
Definition allowed (int_ok : bool) {A} (r : pres A) : Prop :=
  match r with
  | POk _ | PDiag _ => True
  | PInternal _ => int_ok = true
  | POutOfFuel => False
  end.

(* a (construct, consumed) result reports at least one consumed line *)
Definition progress {X} (r : pres (X * nat)) : Prop := forall x k, r = POk (x, k) -> 1 <= k.

Definition recok (b : bool) {X} (r : pres (X * nat)) : Prop := allowed b r /\ progress r.

Definition lf_allowed (b : bool) (lf : linefns) : Prop :=
  (forall s, allowed b (lf_content lf s)) /\ (forall s, allowed b (lf_choice lf s)) /\
  (forall s, allowed b (lf_render lf s)) /\ (forall s, allowed b (lf_input lf s)).

(* extract_multiline_expression always consumes the line it starts on *)
Definition lf_progress (lf : linefns) : Prop := forall ls i c, 1 <= snd (lf_emx lf ls i c).

Lemma allowed_false_ok_or_diag : forall A (r : pres A), allowed false r -> ok_or_diag r.
Proof.
  intros A [a|d|i|] H; simpl in H; try discriminate; try contradiction.
  - left; eauto.
  - right; eauto.
Qed.

Lemma allowed_true_no_fuel : forall A (r : pres A), allowed true r -> r <> POutOfFuel.
Proof. intros A r H E; subst; exact H. Qed.

Lemma allowed_weaken : forall A (r : pres A) b, allowed false r -> allowed b r.
Proof. intros A [a|d|i|] b H; simpl in *; auto; discriminate. Qed.

Lemma allowed_bind : forall b A B (m : pres A) (f : A -> pres B),
  allowed b m -> (forall a, m = POk a -> allowed b (f a)) -> allowed b (pbind m f).
Proof. intros b A B [a|d|i|] f H K; simpl in *; auto. Qed.

Lemma allowed_at_line : forall b A i (r : pres A), allowed b r -> allowed b (at_line i r).
Proof. intros b A i [a|[s j|s]|e|] H; simpl in *; auto. Qed.

(* ------------------------------------------------------------------------------------------- *)
(* lists                                                                                        *)
(* ------------------------------------------------------------------------------------------- *)
Lemma skipn_cons_nth : forall (A : Type) i (ls : list A) l r,
  skipn i ls = l :: r -> nth_error ls i = Some l /\ skipn (S i) ls = r.
Proof.
  induction i; intros ls l r H.
  - destruct ls; simpl in H; inversion H; subst; auto.
  - destruct ls as [|x ls]; simpl in H; [discriminate|].
    apply IHi in H. destruct H as [H1 H2]. split; auto.
Qed.

Lemma skipn_cons_lt : forall (A : Type) i (ls : list A) l r, skipn i ls = l :: r -> i < length ls.
Proof.
  intros A i ls l r H. apply skipn_cons_nth in H. destruct H as [H _].
  apply nth_error_Some. rewrite H. discriminate.
Qed.

(* ------------------------------------------------------------------------------------------- *)
(* extract_python_block                                                                         *)
(* ------------------------------------------------------------------------------------------- *)
Lemma py_new_go_bounds : forall fx op start rest acc k c n,
  py_new_go fx op start rest acc k = POk (c, n) -> k < n /\ n <= k + length rest.
Proof.
  induction rest as [|line rest IH]; intros acc k c n H; simpl in H; [discriminate|].
  destruct (String.eqb (strip line) "@endpy").
  - inversion H; subst. simpl. lia.
  - apply IH in H. simpl. lia.
Qed.

Lemma py_new_go_allowed : forall fx b op start rest acc k, allowed b (py_new_go fx op start rest acc k).
Proof.
  induction rest as [|line rest IH]; intros; simpl; auto.
  destruct (String.eqb (strip line) "@endpy"); simpl; auto.
Qed.

Lemma py_old_go_bounds : forall op start rest base acc k c n,
  py_old_go op start rest base acc k = POk (c, n) -> k < n /\ n <= k + length rest.
Proof.
  induction rest as [|line rest IH]; intros base acc k c n H; simpl in H; [discriminate|].
  destruct (String.eqb (strip line) ">>").
  - inversion H; subst. simpl. lia.
  - apply IH in H. simpl. lia.
Qed.

Lemma py_old_go_allowed : forall b op start rest base acc k, allowed b (py_old_go op start rest base acc k).
Proof.
  induction rest as [|line rest IH]; intros; simpl; auto.
  destruct (String.eqb (strip line) ">>"); simpl; auto.
Qed.

(* both syntaxes: 1 <= consumed <= len - start (fix F17o: an unclosed legacy block is a diagnostic; before it the
   legacy extractor reported one line more than there are) *)
Lemma extract_python_block_bounds : forall fx lines start c n,
  extract_python_block_v fx lines start = POk (c, n) ->
  1 <= n /\ n <= length lines - start.
Proof.
  intros fx lines start c n H. unfold extract_python_block_v in H.
  destruct (nth_error lines start) as [line|] eqn:E; [|discriminate].
  assert (L : start < length lines) by (apply nth_error_Some; rewrite E; discriminate).
  destruct (startswith (strip line) "<<py").
  - unfold extract_py_old_syntax in H. apply py_old_go_bounds in H. rewrite skipn_length in H. lia.
  - destruct (startswith (strip line) "@py"); [|discriminate].
    unfold extract_py_new_syntax_v in H. rewrite E in H.
    destruct (negb (String.eqb (strip line) "@py:")); [discriminate|].
    apply py_new_go_bounds in H. rewrite skipn_length in H. lia.
Qed.

Lemma extract_py_new_bounds : forall fx lines start c n,
  extract_py_new_syntax_v fx lines start = POk (c, n) -> 1 <= n /\ n <= length lines - start.
Proof.
  intros fx lines start c n H. unfold extract_py_new_syntax_v in H.
  destruct (nth_error lines start) as [line|] eqn:E; [|discriminate].
  assert (L : start < length lines) by (apply nth_error_Some; rewrite E; discriminate).
  destruct (negb (String.eqb (strip line) "@py:")); [discriminate|].
  apply py_new_go_bounds in H. rewrite skipn_length in H. lia.
Qed.

Lemma extract_python_block_recok : forall fx b lines i l,
  nth_error lines i = Some l -> recok b (extract_python_block_v fx lines i).
Proof.
  intros fx b lines i l E. split.
  - unfold extract_python_block_v. rewrite E.
    destruct (startswith (strip l) "<<py"); [unfold extract_py_old_syntax; apply py_old_go_allowed|].
    destruct (startswith (strip l) "@py"); simpl; auto.
    unfold extract_py_new_syntax_v. rewrite E.
    destruct (negb (String.eqb (strip l) "@py:")); simpl; auto. apply py_new_go_allowed.
  - intros c k H. apply extract_python_block_bounds in H. lia.
Qed.

Lemma extract_python_block_internal_iff : forall fx lines start e,
  extract_python_block_v fx lines start = PInternal e -> length lines <= start /\ e = IIndex.
Proof.
  intros fx lines start e H. unfold extract_python_block_v in H.
  destruct (nth_error lines start) as [line|] eqn:E.
  - exfalso. destruct (startswith (strip line) "<<py").
    { unfold extract_py_old_syntax in H.
      pose proof (py_old_go_allowed false (nth start lines EmptyString) start (skipn (S start) lines) None [] 1) as A.
      rewrite H in A. simpl in A. discriminate. }
    destruct (startswith (strip line) "@py"); [|discriminate].
    unfold extract_py_new_syntax_v in H. rewrite E in H.
    destruct (negb (String.eqb (strip line) "@py:")); [discriminate|].
    pose proof (py_new_go_allowed fx false line start (skipn (S start) lines) [] 1) as A.
    rewrite H in A. simpl in A. discriminate.
  - apply nth_error_None in E. inversion H. auto.
Qed.

(* ------------------------------------------------------------------------------------------- *)
(* contracts: 1 <= consumed <= len(lines) - start (no hypothesis on linefns or on the sub-calls)  *)
(* ------------------------------------------------------------------------------------------- *)
Section Contracts.
Variable fixed : bool.
Variable lf : linefns.
Variable rec_cond rec_loop : list string -> nat -> pres (token * nat).

Lemma cond_go_bounds : forall lines start rest i skip st t n,
  start <= i ->
  cond_go fixed lf rec_cond rec_loop lines start rest i skip st = POk (t, n) ->
  (exists brs, t = TCond brs) /\ i - start < n /\ n <= i + length rest - start.
Proof.
  induction rest as [|line rest IH]; intros i skip st t n Hi H; cbn [cond_go] in H; [discriminate|].
  destruct skip as [|k].
  - destruct (cond_step fixed lf rec_cond rec_loop lines start i line st) as [[st' [|k]|brs]|d|e|];
      try discriminate.
    + apply IH in H; [|lia]. cbn [length]. destruct H as [H1 H2]. split; auto. lia.
    + assert (E1 : t = TCond brs) by congruence. assert (E2 : n = S i - start) by congruence.
      subst. split; [eauto|]. cbn [length]. lia.
  - apply IH in H; [|lia]. cbn [length]. destruct H as [H1 H2]. split; auto. lia.
Qed.

Lemma cond_body_bounds : forall lines start t n,
  cond_body fixed lf rec_cond rec_loop lines start = POk (t, n) ->
  (exists brs, t = TCond brs) /\ 1 <= n /\ n <= length lines - start.
Proof.
  intros lines start t n H. unfold cond_body in H. apply cond_go_bounds in H; [|lia].
  rewrite skipn_length in H. destruct H as [H1 H2]. split; auto.
  destruct (le_lt_dec (length lines) start); lia.
Qed.

Lemma loop_collect_bounds : forall start rest i started depth raw var coll found i' raw' v' c',
  loop_collect start rest i started depth raw var coll = POk (found, i', raw', v', c') ->
  length raw' <= length raw + length rest /\
  (found = true -> i < i' /\ i' <= i + length rest).
Proof.
  induction rest as [|line rest IH]; intros i started depth raw var coll found i' raw' v' c' H;
    cbn [loop_collect] in H.
  - assert (found = false) by congruence. assert (raw' = raw) by congruence. subst.
    split; [lia|discriminate].
  - cbn [length].
    assert (K : forall st d rw v c,
               loop_collect start rest (S i) st d rw v c = POk (found, i', raw', v', c') ->
               length rw <= S (length raw) ->
               length raw' <= length raw + S (length rest) /\
               (found = true -> i < i' /\ i' <= i + S (length rest))).
    { intros st d rw v c E L. apply IH in E. destruct E as [E1 E2]. split; [lia|].
      intros F. specialize (E2 F). lia. }
    assert (L1 : length (raw ++ [line]) <= S (length raw)) by (rewrite app_length; simpl; lia).
    destruct (is_for_line (strip line) && (i =? start)).
    + destruct (startswith (strip line) "@for ").
      * destruct (match_for_colon _) as [[v c]|]; [|discriminate]. eapply K; eauto.
      * destruct (match_for_legacy _) as [[v c]|]; [|discriminate]. eapply K; eauto.
    + destruct (String.eqb (strip line) "@endfor:"); [discriminate|].
      destruct (started && is_for_line (strip line)); [eapply K; eauto|].
      destruct (startswith (strip line) "<<endfor>>" || String.eqb (strip line) "@endfor").
      * destruct ((depth - 1 =? 0)%Z); [|eapply K; eauto].
        assert (found = true) by congruence. assert (i' = S i) by congruence.
        assert (raw' = raw) by congruence. subst. split; [lia|intros; lia].
      * eapply K; eauto. destruct started; auto.
Qed.

Lemma loop_body_bounds : forall lines start t n,
  loop_body fixed lf rec_cond rec_loop lines start = POk (t, n) ->
  (exists v c ct chs, t = TLoop v c ct chs) /\ 1 <= n /\ n <= length lines - start.
Proof.
  intros lines start t n H. unfold loop_body in H.
  destruct (loop_collect start (skipn start lines) start false 0 [] "" "")
    as [[[[[found i] raw] var] coll]|d|e|] eqn:E; simpl in H; try discriminate.
  match type of H with context [body_go ?z ?a ?b ?c ?d ?e 0 0 [] []] =>
    destruct (body_go z a b c d e 0 0 [] []) as [[ct chs]|d0|e0|] end; simpl in H; try discriminate.
  destruct found; [|discriminate]. inversion H; subst.
  apply loop_collect_bounds in E. destruct E as [_ E]. specialize (E eq_refl).
  rewrite skipn_length in E. split; [eauto|].
  destruct (le_lt_dec (length lines) start); lia.
Qed.

End Contracts.

Lemma extract_conditional_block_f_bounds : forall fixed cap lf n depth lines start t k,
  extract_conditional_block_f fixed cap lf n depth lines start = POk (t, k) ->
  (exists brs, t = TCond brs) /\ 1 <= k /\ k <= length lines - start.
Proof.
  intros fixed cap lf [|n] depth lines start t k H; cbn [extract_conditional_block_f] in H; [discriminate|].
  destruct (too_deep cap depth); [discriminate|]. eapply cond_body_bounds; eauto.
Qed.

Lemma extract_loop_block_f_bounds : forall fixed cap lf n depth lines start t k,
  extract_loop_block_f fixed cap lf n depth lines start = POk (t, k) ->
  (exists v c ct chs, t = TLoop v c ct chs) /\ 1 <= k /\ k <= length lines - start.
Proof.
  intros fixed cap lf [|n] depth lines start t k H; cbn [extract_loop_block_f] in H; [discriminate|].
  destruct (too_deep cap depth); [discriminate|]. eapply loop_body_bounds; eauto.
Qed.

Lemma join_collect_bounds : forall indent rest block k,
  snd (join_collect indent rest block k) <= k + length rest.
Proof.
  induction rest as [|line rest IH]; intros; simpl; [lia|].
  destruct (is_join_block_terminator line); simpl; [lia|].
  destruct (negb (nonempty (strip line)) || is_comment_line line).
  - specialize (IH (block ++ [line]) (S k)). lia.
  - destruct (ws_run line <=? indent); simpl; [lia|]. specialize (IH (block ++ [line]) (S k)). lia.
Qed.

Lemma extract_join_bounds : forall lf lines start indent ct ex k,
  extract_join_choice_block lf lines start indent = POk (ct, ex, k) -> k <= length lines - start.
Proof.
  intros lf lines start indent ct ex k H. unfold extract_join_choice_block in H.
  pose proof (join_collect_bounds indent (skipn start lines) [] 0) as B. rewrite skipn_length in B.
  destruct (join_collect indent (skipn start lines) [] 0) as [block k'].
  destruct block.
  - inversion H; subst. lia.
  - cbv zeta in H. destruct (join_parse lf start _ [] []) as [[c e]|d|e|];
      simpl in H; try discriminate. inversion H; subst. cbn [snd] in B. lia.
Qed.

(* ------------------------------------------------------------------------------------------- *)
(* outcomes: value or diagnostic (internal errors only where `b` allows them), never OutOfFuel   *)
(* ------------------------------------------------------------------------------------------- *)
Section Outcomes.
Variable fixed : bool.
Variable cap : option nat.
Variable lf : linefns.
Variable b : bool.
Hypothesis Hlf : lf_allowed b lf.
Hypothesis Hemx : lf_progress lf.
(* the unpatched legacy headers can raise UnboundLocalError *)
Hypothesis Hver : fixed = true \/ b = true.

Let Hcontent := proj1 Hlf.
Let Hchoice := proj1 (proj2 Hlf).
Let Hrender := proj1 (proj2 (proj2 Hlf)).
Let Hinput := proj2 (proj2 (proj2 Hlf)).

Lemma flush_plain_lines_allowed : forall ded content, allowed b (flush_plain_lines lf content ded).
Proof.
  induction ded as [|l r IH]; intros; simpl; auto.
  apply allowed_bind; [apply Hcontent|]. intros; apply IH.
Qed.

Lemma flush_plain_allowed : forall content ls, allowed b (flush_plain lf content ls).
Proof. intros; apply flush_plain_lines_allowed. Qed.

Lemma content_line_glue_allowed : forall content l, allowed b (content_line_glue lf content l).
Proof.
  intros. unfold content_line_glue. destruct (glue_split l);
    (apply allowed_bind; [apply Hcontent|]; intros; simpl; auto).
Qed.

Lemma flush_glue_lines_allowed : forall ded content, allowed b (flush_glue_lines lf content ded).
Proof.
  induction ded as [|l r IH]; intros; simpl; auto.
  apply allowed_bind; [apply content_line_glue_allowed|]. intros; apply IH.
Qed.

Lemma flush_cur_allowed : forall st, allowed b (flush_cur fixed lf st).
Proof.
  intros st. unfold flush_cur. destruct (cs_cur st) as [[[c content] chs]|]; simpl; auto.
  apply allowed_bind; [|intros; simpl; auto].
  destruct fixed; [apply flush_glue_lines_allowed|apply flush_plain_allowed].
Qed.

Lemma finalize_allowed : forall st, allowed b (finalize lf st).
Proof.
  intros st. unfold finalize. destruct (cs_cur st) as [[[c content] chs]|]; simpl; auto.
  apply allowed_bind; [apply flush_glue_lines_allowed|]. intros; simpl; auto.
Qed.

(* a step result: allowed, and `i += consumed` moves forward *)
Definition stepok (r : pres cstep) : Prop :=
  allowed b r /\ forall st k, r = POk (CNext st k) -> 1 <= k.

Lemma stepok_bind : forall A (m : pres A) (f : A -> pres cstep),
  allowed b m -> (forall a, m = POk a -> stepok (f a)) -> stepok (pbind m f).
Proof.
  intros A [a|d|i|] f H K; simpl in *.
  - auto.
  - split; [exact I|discriminate].
  - split; [exact H|discriminate].
  - contradiction.
Qed.

Lemma stepok_next1 : forall st, stepok (POk (CNext st 1)).
Proof. intros st; split; [exact I|]. intros st' k E. inversion E. lia. Qed.

Lemma stepok_done : forall brs, stepok (POk (CDone brs)).
Proof. intros; split; [exact I|discriminate]. Qed.

Lemma stepok_diag : forall d, stepok (PDiag d).
Proof. intros; split; [exact I|discriminate]. Qed.

Lemma start_new_branch_ok : forall st c cv, stepok (start_new_branch lf st c cv).
Proof.
  intros. unfold start_new_branch. apply stepok_bind; [apply finalize_allowed|].
  intros; apply stepok_next1.
Qed.

Lemma legacy_condition_allowed : forall p site i s1 st,
  allowed b (legacy_condition fixed p site i s1 st).
Proof.
  intros. unfold legacy_condition. destruct (match_legacy p s1); simpl; auto.
  destruct Hver as [F|B].
  - rewrite F. simpl; auto.
  - destruct fixed; simpl; auto. destruct (cs_condvar st); simpl; auto.
Qed.

Lemma cond_py_statement_progress : forall lines i line raw,
  1 <= snd (cond_py_statement fixed lf lines i line raw).
Proof.
  intros. unfold cond_py_statement.
  destruct (fixed && (1 <? snd (py_statement lf lines i raw))); cbn [snd]; unfold py_statement; apply Hemx.
Qed.

Section Bodies.
Variable rec_cond rec_loop : list string -> nat -> pres (token * nat).

Lemma cond_step_ok : forall lines start i line st,
  nth_error lines i = Some line ->
  (i <> start -> recok b (rec_cond lines i)) ->
  (is_for_line (strip line) = true -> has_cur st = true -> recok b (rec_loop lines i)) ->
  stepok (cond_step fixed lf rec_cond rec_loop lines start i line st).
Proof.
  intros lines start i line st Hn Hc Hl. unfold cond_step. cbv zeta.
  destruct (startswith (strip line) "#"); [apply stepok_next1|].
  destruct (is_py_line (strip line) && has_cur st).
  { apply stepok_bind; [apply flush_cur_allowed|]. intros st1 _.
    destruct (extract_python_block_recok fixed b lines i line Hn) as [A P].
    apply stepok_bind; [exact A|]. intros [c k] E. split; [exact I|].
    intros st' k' E'. inversion E'; subst. simpl. eapply P; eauto. }
  destruct (startswith (strip line) "@input" && has_cur st).
  { apply stepok_bind; [apply flush_cur_allowed|]. intros st1 _.
    apply stepok_bind; [apply Hinput|]. intros; apply stepok_next1. }
  destruct (startswith (strip line) "@render" && has_cur st).
  { apply stepok_bind; [apply flush_cur_allowed|]. intros st1 _.
    apply stepok_bind; [apply Hrender|]. intros; apply stepok_next1. }
  destruct (startswith (strip line) "@hook " && has_cur st).
  { apply stepok_bind; [apply flush_cur_allowed|]. intros; apply stepok_next1. }
  destruct (startswith (strip line) "@unhook " && has_cur st).
  { apply stepok_bind; [apply flush_cur_allowed|]. intros; apply stepok_next1. }
  destruct (startswith (strip line) "~ " && has_cur st).
  { apply stepok_bind; [apply flush_cur_allowed|]. intros st1 _. split; [exact I|].
    intros st' k E. injection E as E1 E2. rewrite <- E2. apply cond_py_statement_progress. }
  destruct (is_if_line (strip line) && negb (i =? start) && has_cur st) eqn:Eif.
  { apply andb_prop in Eif. destruct Eif as [Eif _]. apply andb_prop in Eif. destruct Eif as [_ Ene].
    apply negb_true_iff in Ene. apply Nat.eqb_neq in Ene. destruct (Hc Ene) as [A P].
    apply stepok_bind; [apply flush_cur_allowed|]. intros st1 _.
    apply stepok_bind; [exact A|]. intros [t k] E. split; [exact I|].
    intros st' k' E'. inversion E'; subst. simpl. eapply P; eauto. }
  destruct (is_for_line (strip line) && has_cur st) eqn:Efor.
  { apply andb_prop in Efor. destruct Efor as [E1 E2]. destruct (Hl E1 E2) as [A P].
    apply stepok_bind; [apply flush_cur_allowed|]. intros st1 _.
    apply stepok_bind; [exact A|]. intros [t k] E. split; [exact I|].
    intros st' k' E'. inversion E'; subst. simpl. eapply P; eauto. }
  destruct (is_if_line (strip line) && (i =? start)).
  { apply stepok_bind; [|intros; apply stepok_next1].
    destruct (startswith (strip line) "@if ").
    - destruct (match_colon_tail "@if" _); simpl; auto.
    - apply legacy_condition_allowed. }
  destruct (String.eqb (strip line) "@endif:"); [apply stepok_diag|].
  destruct (startswith (strip line) "<<endif>>" || String.eqb (strip line) "@endif").
  { apply stepok_bind; [apply finalize_allowed|]. intros; apply stepok_done. }
  destruct (startswith (strip line) "<<elif " || startswith (strip line) "@elif ").
  { apply stepok_bind; [|intros; apply start_new_branch_ok].
    destruct (startswith (strip line) "@elif ").
    - destruct (match_colon_tail "@elif" _); simpl; auto.
    - apply legacy_condition_allowed. }
  destruct (startswith (strip line) "<<else>>" || startswith (strip line) "@else").
  { destruct (startswith (strip line) "@else" && _); [apply stepok_diag|apply start_new_branch_ok]. }
  destruct (startswith (strip line) "->").
  { destruct (jump_of lf (strip line)); [|apply stepok_next1].
    destruct (has_cur st); [|apply stepok_next1].
    apply stepok_bind; [apply flush_cur_allowed|]. intros; apply stepok_next1. }
  destruct (is_choice_line (strip line) && has_cur st).
  { apply stepok_bind; [apply flush_cur_allowed|]. intros st1 _.
    apply stepok_bind; [apply Hchoice|]. intros; apply stepok_next1. }
  apply stepok_next1.
Qed.

(* state facts used by the invariant "no current branch at the start line" *)
Lemma cond_go_allowed : forall lines start rest i skip st,
  skipn i lines = rest -> start <= i ->
  (i = start -> skip = 0 /\ has_cur st = false) ->
  (forall j, start < j -> j < length lines -> recok b (rec_cond lines j)) ->
  (forall j l, start < j -> nth_error lines j = Some l -> is_for_line (strip l) = true ->
               recok b (rec_loop lines j)) ->
  allowed b (cond_go fixed lf rec_cond rec_loop lines start rest i skip st).
Proof.
  induction rest as [|line rest IH]; intros i skip st Hs Hi H0 Hc Hl; cbn [cond_go]; [exact I|].
  destruct (skipn_cons_nth _ _ _ _ _ Hs) as [Hn Hs'].
  assert (Hlt : i < length lines) by (eapply skipn_cons_lt; eauto).
  assert (Hnext : forall k st', allowed b (cond_go fixed lf rec_cond rec_loop lines start rest (S i) k st')).
  { intros k st'. apply IH; auto; try lia. }
  destruct skip as [|k]; [|apply Hnext].
  assert (S1 : stepok (cond_step fixed lf rec_cond rec_loop lines start i line st)).
  { apply cond_step_ok; auto.
    - intros Hne. apply Hc; lia.
    - intros Hf Hcur. apply Hl with (l := line); auto.
      destruct (Nat.eq_dec i start) as [E|E]; [|lia].
      destruct (H0 E) as [_ F]. congruence. }
  destruct S1 as [A P].
  destruct (cond_step fixed lf rec_cond rec_loop lines start i line st) as [[st' [|k]|brs]|d|e|].
  - specialize (P st' 0 eq_refl). lia.
  - apply Hnext.
  - exact I.
  - exact I.
  - exact A.
  - exact A.
Qed.

Lemma cond_body_allowed : forall lines start,
  (forall j, start < j -> j < length lines -> recok b (rec_cond lines j)) ->
  (forall j l, start < j -> nth_error lines j = Some l -> is_for_line (strip l) = true ->
               recok b (rec_loop lines j)) ->
  allowed b (cond_body fixed lf rec_cond rec_loop lines start).
Proof.
  intros lines start Hc Hl. unfold cond_body. apply cond_go_allowed; auto.
Qed.

Lemma loop_collect_allowed : forall start rest i started depth raw var coll,
  allowed b (loop_collect start rest i started depth raw var coll).
Proof.
  induction rest as [|line rest IH]; intros; cbn [loop_collect]; [exact I|].
  destruct (is_for_line (strip line) && (i =? start)).
  - destruct (startswith (strip line) "@for ").
    + destruct (match_for_colon _) as [[v c]|]; [apply IH|exact I].
    + destruct (match_for_legacy _) as [[v c]|]; [apply IH|exact I].
  - destruct (String.eqb (strip line) "@endfor:"); [exact I|].
    destruct (started && is_for_line (strip line)); [apply IH|].
    destruct (startswith (strip line) "<<endfor>>" || String.eqb (strip line) "@endfor").
    + destruct ((depth - 1 =? 0)%Z); [exact I|apply IH].
    + apply IH.
Qed.

Definition bstepok (r : pres (list token * list choice * nat)) : Prop :=
  allowed b r /\ forall c h k, r = POk (c, h, k) -> 1 <= k.

Lemma bstepok_bind : forall A (m : pres A) f,
  allowed b m -> (forall a, m = POk a -> bstepok (f a)) -> bstepok (pbind m f).
Proof.
  intros A [a|d|i|] f H K; simpl in *.
  - auto.
  - split; [exact I|discriminate].
  - split; [exact H|discriminate].
  - contradiction.
Qed.

Lemma bstepok_1 : forall c h, bstepok (POk (c, h, 1)).
Proof. intros; split; [exact I|]. intros c' h' k E. inversion E. lia. Qed.

Lemma body_step_ok : forall ded j line content chs,
  nth_error ded j = Some line ->
  (is_if_line (strip line) = true -> recok b (rec_cond ded j)) ->
  (is_for_line (strip line) = true -> recok b (rec_loop ded j)) ->
  bstepok (body_step fixed lf rec_cond rec_loop ded j line content chs).
Proof.
  intros ded j line content chs Hn Hc Hl. unfold body_step. cbv zeta.
  destruct (startswith (strip line) "#"); [apply bstepok_1|].
  destruct (is_py_line (strip line)).
  { destruct (extract_python_block_recok fixed b ded j line Hn) as [A P].
    apply bstepok_bind; [exact A|]. intros [c k] E. split; [exact I|].
    intros c' h' k' E'. inversion E'; subst. simpl. eapply P; eauto. }
  destruct (startswith (strip line) "@input").
  { apply bstepok_bind; [apply Hinput|]. intros; apply bstepok_1. }
  destruct (startswith (strip line) "@render").
  { apply bstepok_bind; [apply Hrender|]. intros; apply bstepok_1. }
  destruct (startswith (strip line) "@hook "); [apply bstepok_1|].
  destruct (startswith (strip line) "@unhook "); [apply bstepok_1|].
  destruct (startswith line "~ ").
  { split; [exact I|]. intros c' h' k E. inversion E; subst. unfold py_statement. apply Hemx. }
  destruct (is_for_line (strip line)) eqn:Ef.
  { destruct (Hl eq_refl) as [A P]. apply bstepok_bind; [exact A|]. intros [t k] E.
    split; [exact I|]. intros c' h' k' E'. inversion E'; subst. simpl. eapply P; eauto. }
  destruct (is_if_line (strip line)) eqn:Ei.
  { destruct (Hc eq_refl) as [A P]. apply bstepok_bind; [exact A|]. intros [t k] E.
    split; [exact I|]. intros c' h' k' E'. inversion E'; subst. simpl. eapply P; eauto. }
  destruct (startswith (strip line) "->"); [apply bstepok_1|].
  destruct (is_choice_line (strip line)).
  { apply bstepok_bind; [apply Hchoice|]. intros; apply bstepok_1. }
  apply bstepok_bind; [apply content_line_glue_allowed|]. intros; apply bstepok_1.
Qed.

Lemma body_go_allowed : forall ded rest j skip content chs,
  skipn j ded = rest ->
  (forall j l, nth_error ded j = Some l -> is_if_line (strip l) = true -> recok b (rec_cond ded j)) ->
  (forall j l, nth_error ded j = Some l -> is_for_line (strip l) = true -> recok b (rec_loop ded j)) ->
  allowed b (body_go fixed lf rec_cond rec_loop ded rest j skip content chs).
Proof.
  induction rest as [|line rest IH]; intros j skip content chs Hs Hc Hl; cbn [body_go]; [exact I|].
  destruct (skipn_cons_nth _ _ _ _ _ Hs) as [Hn Hs'].
  destruct skip as [|k]; [|apply IH; auto].
  destruct (body_step_ok ded j line content chs Hn) as [A P]; eauto.
  destruct (body_step fixed lf rec_cond rec_loop ded j line content chs) as [[[c h] [|k]]|d|e|].
  - specialize (P c h 0 eq_refl). lia.
  - apply IH; auto.
  - exact I.
  - exact A.
  - exact A.
Qed.

(* the dedented body is never longer than what follows the start line when that line is a header *)
Lemma loop_collect_raw_header : forall start line rest found i' raw' v' c',
  is_for_line (strip line) = true ->
  loop_collect start (line :: rest) start false 0%Z [] "" "" = POk (found, i', raw', v', c') ->
  length raw' <= length rest.
Proof.
  intros start line rest found i' raw' v' c' Hf H. cbn [loop_collect] in H.
  rewrite Hf, Nat.eqb_refl in H. simpl andb in H. cbv iota in H.
  destruct (startswith (strip line) "@for ").
  - destruct (match_for_colon _) as [[v c]|]; [|discriminate].
    apply loop_collect_bounds in H. simpl in H. lia.
  - destruct (match_for_legacy _) as [[v c]|]; [|discriminate].
    apply loop_collect_bounds in H. simpl in H. lia.
Qed.

Lemma dedent_length : forall ls, length (detect_and_strip_indentation ls) = length ls.
Proof.
  intros ls. unfold detect_and_strip_indentation. destruct (base_indent ls); auto. apply map_length.
Qed.

Lemma drop_leading_comments_length : forall raw, length (drop_leading_comments raw) <= length raw.
Proof.
  induction raw as [|l r IH]; simpl; auto.
  destruct (startswith (strip l) "#"); [lia|].
  destruct (negb (nonempty (strip l))); simpl; lia.
Qed.

Lemma loop_body_allowed : forall lines start l0,
  nth_error lines start = Some l0 -> is_for_line (strip l0) = true ->
  (forall ded j, length ded < length lines - start -> recok b (rec_cond ded j)) ->
  (forall ded j l, length ded < length lines - start -> nth_error ded j = Some l ->
                   is_for_line (strip l) = true -> recok b (rec_loop ded j)) ->
  allowed b (loop_body fixed lf rec_cond rec_loop lines start).
Proof.
  intros lines start l0 Hn Hf Hc Hl. unfold loop_body.
  pose proof (loop_collect_allowed start (skipn start lines) start false 0%Z [] "" "") as A.
  destruct (loop_collect start (skipn start lines) start false 0 [] "" "")
    as [[[[[found i] raw] var] coll]|d|e|] eqn:E; simpl in A |- *; auto.
  assert (Hlen : length raw < length lines - start).
  { destruct (skipn start lines) as [|x rest] eqn:Es.
    - exfalso. assert (L : start < length lines) by (apply nth_error_Some; rewrite Hn; discriminate).
      assert (L2 : length (skipn start lines) = 0) by (rewrite Es; auto).
      rewrite skipn_length in L2. lia.
    - destruct (skipn_cons_nth _ _ _ _ _ Es) as [Hx _]. rewrite Hn in Hx. inversion Hx; subst x.
      apply loop_collect_raw_header in E; auto.
      assert (L2 : length (skipn start lines) = S (length rest)) by (rewrite Es; auto).
      rewrite skipn_length in L2. lia. }
  assert (Hlen' : length (if fixed then drop_leading_comments raw else raw) < length lines - start).
  { destruct fixed; auto. pose proof (drop_leading_comments_length raw). lia. }
  apply allowed_bind.
  - apply body_go_allowed; auto; intros j l H1 H2; [apply Hc|eapply Hl; eauto]; rewrite dedent_length; auto.
  - intros [ct chs] _. destruct found; simpl; auto.
Qed.

End Bodies.

(* tying the knot: fuel above len(lines) - start is enough at every level *)
Lemma extract_f_ok : forall n,
  (forall depth lines start, length lines - start < n ->
     recok b (extract_conditional_block_f fixed cap lf n depth lines start)) /\
  (forall depth lines start l0, length lines - start < n ->
     nth_error lines start = Some l0 -> is_for_line (strip l0) = true ->
     recok b (extract_loop_block_f fixed cap lf n depth lines start)).
Proof.
  induction n as [|n [IHc IHl]]; [split; intros; lia|].
  split.
  - intros depth lines start Hlt. split.
    + cbn [extract_conditional_block_f]. destruct (too_deep cap depth); [exact I|].
      apply cond_body_allowed.
      * intros j H1 H2. apply IHc. lia.
      * intros j l H1 H2 H3. eapply IHl; eauto.
        assert (j < length lines) by (apply nth_error_Some; rewrite H2; discriminate). lia.
    + intros t k E. apply extract_conditional_block_f_bounds in E. lia.
  - intros depth lines start l0 Hlt Hn Hf. split.
    + cbn [extract_loop_block_f]. destruct (too_deep cap depth); [exact I|].
      eapply loop_body_allowed; eauto.
      * intros ded j L. apply IHc. lia.
      * intros ded j l L En Ef. eapply IHl; eauto. lia.
    + intros t k E. apply extract_loop_block_f_bounds in E. lia.
Qed.

(* with the nesting cap of F11b the recursion depth is bounded by the cap, whatever the input:
   fuel (= number of nested extractor calls on one path) m - depth + 1 is enough for every line list *)
Lemma extract_f_ok_capped : forall m, cap = Some m -> forall n,
  (forall depth lines start, m - depth < n ->
     recok b (extract_conditional_block_f fixed cap lf n depth lines start)) /\
  (forall depth lines start l0, m - depth < n ->
     nth_error lines start = Some l0 -> is_for_line (strip l0) = true ->
     recok b (extract_loop_block_f fixed cap lf n depth lines start)).
Proof.
  intros m Hcap. induction n as [|n [IHc IHl]]; [split; intros; lia|].
  assert (T : forall depth, too_deep cap depth = false -> depth < m).
  { intros depth H. unfold too_deep in H. rewrite Hcap in H. apply Nat.leb_gt in H. exact H. }
  split.
  - intros depth lines start Hlt. split.
    + cbn [extract_conditional_block_f]. destruct (too_deep cap depth) eqn:Et; [exact I|].
      apply T in Et. apply cond_body_allowed.
      * intros j H1 H2. apply IHc. lia.
      * intros j l H1 H2 H3. eapply IHl; eauto. lia.
    + intros t k E. apply extract_conditional_block_f_bounds in E. lia.
  - intros depth lines start l0 Hlt Hn Hf. split.
    + cbn [extract_loop_block_f]. destruct (too_deep cap depth) eqn:Et; [exact I|].
      apply T in Et. eapply loop_body_allowed; eauto.
      * intros ded j L. apply IHc. lia.
      * intros ded j l L En Ef. eapply IHl; eauto. lia.
    + intros t k E. apply extract_loop_block_f_bounds in E. lia.
Qed.

End Outcomes.

(* ------------------------------------------------------------------------------------------- *)
(* extract_join_choice_block                                                                    *)
(* ------------------------------------------------------------------------------------------- *)
Lemma join_parse_allowed : forall b lf, (forall s, allowed b (lf_content lf s)) ->
  forall start items content exec, allowed b (join_parse lf start items content exec).
Proof.
  intros b lf H start. induction items as [|[j line] r IH]; intros; cbn [join_parse]; [exact I|].
  cbv zeta.
  destruct (negb (nonempty (strip line))); [apply IH|].
  destruct (startswith (strip line) "#"); [apply IH|].
  destruct (startswith (strip line) "~"); [apply IH|].
  destruct (startswith (strip line) "@hook "); [destruct (hook_parts _) as [[e t]|]; apply IH|].
  destruct (startswith (strip line) "@unhook "); [destruct (hook_parts _) as [[e t]|]; apply IH|].
  apply allowed_bind; [apply allowed_at_line; apply H|]. intros; apply IH.
Qed.

Lemma extract_join_allowed : forall b lf, (forall s, allowed b (lf_content lf s)) ->
  forall lines start indent, allowed b (extract_join_choice_block lf lines start indent).
Proof.
  intros b lf H lines start indent. unfold extract_join_choice_block.
  destruct (join_collect indent (skipn start lines) [] 0) as [block k].
  destruct block; [exact I|].
  apply allowed_bind; [apply join_parse_allowed; auto|]. intros; exact I.
Qed.

(* ------------------------------------------------------------------------------------------- *)
(* top level: the fuel the model uses                                                            *)
(* ------------------------------------------------------------------------------------------- *)
Lemma extract_conditional_block_v_ok : forall fixed cap lf b,
  lf_allowed b lf -> lf_progress lf -> fixed = true \/ b = true ->
  forall lines start, recok b (extract_conditional_block_v fixed cap lf lines start).
Proof.
  intros fixed cap lf b H1 H2 H3 lines start. unfold extract_conditional_block_v, block_fuel.
  apply (proj1 (extract_f_ok fixed cap lf b H1 H2 H3 _)). lia.
Qed.

Lemma extract_loop_block_v_ok : forall fixed cap lf b,
  lf_allowed b lf -> lf_progress lf -> fixed = true \/ b = true ->
  forall lines start l0, nth_error lines start = Some l0 -> is_for_line (strip l0) = true ->
  recok b (extract_loop_block_v fixed cap lf lines start).
Proof.
  intros fixed cap lf b H1 H2 H3 lines start l0 Hn Hf. unfold extract_loop_block_v, block_fuel.
  eapply (proj2 (extract_f_ok fixed cap lf b H1 H2 H3 _)); eauto.
Qed.

(* ------------------------------------------------------------------------------------------- *)
(* structure: a conditional opened by an if-header has at least one branch                      *)
(* ------------------------------------------------------------------------------------------- *)
Lemma hash_not_if : forall s, startswith s "#" = true -> is_if_line s = false.
Proof.
  intros [|a r] H; simpl in H; [discriminate|].
  apply andb_prop in H. destruct H as [H _]. apply Ascii.eqb_eq in H. subst a. reflexivity.
Qed.

Section Branches.
Variable fixed : bool.
Variable lf : linefns.
Variable rec_cond rec_loop : list string -> nat -> pres (token * nat).

Definition keeps (r : pres cstep) : Prop :=
  (forall st k, r = POk (CNext st k) -> has_cur st = true) /\
  (forall brs, r = POk (CDone brs) -> brs <> []).

Lemma keeps_bind : forall A (m : pres A) f,
  (forall a, m = POk a -> keeps (f a)) -> keeps (pbind m f).
Proof. intros A [a|d|i|] f K; simpl; auto; split; intros; discriminate. Qed.

Lemma keeps_next : forall st k, has_cur st = true -> keeps (POk (CNext st k)).
Proof. intros st k H; split; intros; [congruence|discriminate]. Qed.

Lemma keeps_diag : forall d, keeps (PDiag d).
Proof. intros; split; intros; discriminate. Qed.

Lemma flush_cur_has : forall st st1, flush_cur fixed lf st = POk st1 -> has_cur st1 = has_cur st.
Proof.
  intros st st1 H. unfold flush_cur in H. unfold has_cur.
  destruct (cs_cur st) as [[[c ct] chs]|] eqn:E.
  - destruct (if fixed then flush_glue lf ct (cs_lines st) else flush_plain lf ct (cs_lines st));
      simpl in H; try discriminate.
    inversion H; subst. reflexivity.
  - inversion H; subst. rewrite E. reflexivity.
Qed.

Lemma push_tok_has : forall st t, has_cur (push_tok st t) = has_cur st.
Proof.
  intros st t. unfold push_tok, has_cur. destruct (cs_cur st) as [[[c ct] chs]|] eqn:E; simpl; auto.
  rewrite E. reflexivity.
Qed.

Lemma push_opt_has : forall st t, has_cur (push_opt st t) = has_cur st.
Proof. intros st [t|]; simpl; auto. apply push_tok_has. Qed.

Lemma push_choice_has : forall st ch, has_cur (push_choice st ch) = has_cur st.
Proof.
  intros st [ch|]; unfold push_choice, has_cur; destruct (cs_cur st) as [[[c ct] chs]|] eqn:E;
    simpl; auto; rewrite E; reflexivity.
Qed.

Lemma finalize_nonempty : forall st brs, has_cur st = true -> finalize lf st = POk brs -> brs <> [].
Proof.
  intros st brs H F. unfold finalize in F. unfold has_cur in H.
  destruct (cs_cur st) as [[[c ct] chs]|]; [|discriminate].
  destruct (flush_glue lf ct (cs_lines st)); simpl in F; try discriminate.
  inversion F. destruct (cs_branches st); discriminate.
Qed.

Lemma start_new_branch_keeps : forall st c cv, keeps (start_new_branch lf st c cv).
Proof.
  intros. unfold start_new_branch. apply keeps_bind. intros brs _. apply keeps_next. reflexivity.
Qed.

Ltac flush_then :=
  apply keeps_bind; let st1 := fresh "st1" in let E := fresh "E" in intros st1 E;
  apply flush_cur_has in E.

Lemma cond_step_keeps : forall lines start i line st,
  has_cur st = true -> keeps (cond_step fixed lf rec_cond rec_loop lines start i line st).
Proof.
  intros lines start i line st Hc. unfold cond_step. cbv zeta.
  destruct (startswith (strip line) "#"); [apply keeps_next; auto|].
  destruct (is_py_line (strip line) && has_cur st).
  { flush_then. apply keeps_bind. intros ck _. apply keeps_next. rewrite push_tok_has. congruence. }
  destruct (startswith (strip line) "@input" && has_cur st).
  { flush_then. apply keeps_bind. intros d _. apply keeps_next. rewrite push_opt_has. congruence. }
  destruct (startswith (strip line) "@render" && has_cur st).
  { flush_then. apply keeps_bind. intros d _. apply keeps_next. rewrite push_opt_has. congruence. }
  destruct (startswith (strip line) "@hook " && has_cur st).
  { flush_then. apply keeps_next. rewrite push_opt_has. congruence. }
  destruct (startswith (strip line) "@unhook " && has_cur st).
  { flush_then. apply keeps_next. rewrite push_opt_has. congruence. }
  destruct (startswith (strip line) "~ " && has_cur st).
  { flush_then. apply keeps_next. rewrite push_tok_has. congruence. }
  destruct (is_if_line (strip line) && negb (i =? start) && has_cur st).
  { flush_then. apply keeps_bind. intros tk _. apply keeps_next. rewrite push_tok_has. congruence. }
  destruct (is_for_line (strip line) && has_cur st).
  { flush_then. apply keeps_bind. intros tk _. apply keeps_next. rewrite push_tok_has. congruence. }
  destruct (is_if_line (strip line) && (i =? start)).
  { apply keeps_bind. intros c _. apply keeps_next. reflexivity. }
  destruct (String.eqb (strip line) "@endif:"); [apply keeps_diag|].
  destruct (startswith (strip line) "<<endif>>" || String.eqb (strip line) "@endif").
  { apply keeps_bind. intros brs E. split; intros; [discriminate|].
    inversion H; subst. eapply finalize_nonempty; eauto. }
  destruct (startswith (strip line) "<<elif " || startswith (strip line) "@elif ").
  { apply keeps_bind. intros c _. apply start_new_branch_keeps. }
  destruct (startswith (strip line) "<<else>>" || startswith (strip line) "@else").
  { destruct (startswith (strip line) "@else" && _); [apply keeps_diag|apply start_new_branch_keeps]. }
  destruct (startswith (strip line) "->").
  { destruct (jump_of lf (strip line)); [|apply keeps_next; auto].
    rewrite Hc. flush_then. apply keeps_next. rewrite push_tok_has. congruence. }
  destruct (is_choice_line (strip line) && has_cur st).
  { flush_then. apply keeps_bind. intros ch _. apply keeps_next. rewrite push_choice_has. congruence. }
  rewrite Hc. apply keeps_next. unfold has_cur in *. simpl. exact Hc.
Qed.

(* the first step: the header line opens the first branch (or is rejected) *)
Lemma cond_step_first : forall lines start line st,
  has_cur st = false -> is_if_line (strip line) = true ->
  keeps (cond_step fixed lf rec_cond rec_loop lines start start line st).
Proof.
  intros lines start line st Hc Hif. unfold cond_step. cbv zeta.
  destruct (startswith (strip line) "#") eqn:Eh.
  { apply hash_not_if in Eh. congruence. }
  rewrite Hc, Hif, Nat.eqb_refl. repeat rewrite andb_false_r. simpl negb. simpl andb. cbv iota.
  apply keeps_bind. intros c _. apply keeps_next. reflexivity.
Qed.

Lemma cond_go_has_branch : forall lines start rest i skip st brs n,
  has_cur st = true ->
  cond_go fixed lf rec_cond rec_loop lines start rest i skip st = POk (TCond brs, n) -> brs <> [].
Proof.
  induction rest as [|line rest IH]; intros i skip st brs n Hc H; cbn [cond_go] in H; [discriminate|].
  destruct skip as [|k]; [|eapply IH; eauto].
  destruct (cond_step_keeps lines start i line st Hc) as [K1 K2].
  destruct (cond_step fixed lf rec_cond rec_loop lines start i line st) as [[st' [|k]|brs']|d|e|];
    try discriminate.
  - eapply IH; [|exact H]. eapply K1; eauto.
  - assert (brs = brs') by congruence. subst. eapply K2; eauto.
Qed.

Lemma cond_body_has_branch : forall lines start l0 brs n,
  nth_error lines start = Some l0 -> is_if_line (strip l0) = true ->
  cond_body fixed lf rec_cond rec_loop lines start = POk (TCond brs, n) -> brs <> [].
Proof.
  intros lines start l0 brs n Hn Hif H. unfold cond_body in H.
  destruct (skipn start lines) as [|x rest] eqn:Es.
  - exfalso. assert (L : start < length lines) by (apply nth_error_Some; rewrite Hn; discriminate).
    assert (L2 : length (skipn start lines) = 0) by (rewrite Es; auto). rewrite skipn_length in L2. lia.
  - destruct (skipn_cons_nth _ _ _ _ _ Es) as [Hx _]. rewrite Hn in Hx. inversion Hx; subst x.
    cbn [cond_go] in H.
    destruct (cond_step_first lines start l0 cstate0 eq_refl Hif) as [K1 K2].
    destruct (cond_step fixed lf rec_cond rec_loop lines start start l0 cstate0) as [[st' [|k]|brs']|d|e|];
      try discriminate.
    + eapply cond_go_has_branch; [|exact H]. eapply K1; eauto.
    + assert (brs = brs') by congruence. subst. eapply K2; eauto.
Qed.

End Branches.

Lemma extract_conditional_has_branch : forall fixed cap lf lines start l0 brs n,
  nth_error lines start = Some l0 -> is_if_line (strip l0) = true ->
  extract_conditional_block_v fixed cap lf lines start = POk (TCond brs, n) -> brs <> [].
Proof.
  intros fixed cap lf lines start l0 brs n Hn Hif H. unfold extract_conditional_block_v, block_fuel in H.
  cbn [extract_conditional_block_f] in H. destruct (too_deep cap 0); [discriminate|].
  eapply cond_body_has_branch; eauto.
Qed.

(* `@else:` / `<<else>>` open a branch whose condition is the text "True" *)
Lemma else_branch_condition_True : forall lf st cv st' k,
  start_new_branch lf st "True" cv = POk (CNext st' k) ->
  exists brs, cs_cur st' = Some ("True", [], []) /\ cs_lines st' = [] /\ cs_branches st' = brs /\ k = 1.
Proof.
  intros lf st cv st' k H. unfold start_new_branch in H.
  destruct (finalize lf st) as [brs|d|e|]; simpl in H; try discriminate.
  inversion H; subst. simpl. eauto.
Qed.

(* ------------------------------------------------------------------------------------------- *)
(* statements in the shape Props/C11b.v exports                                                  *)
(* ------------------------------------------------------------------------------------------- *)

(* hypotheses on the line-level functions *)
Definition lf_total (lf : linefns) : Prop := lf_allowed false lf.       (* value or diagnostic *)
Definition lf_no_fuel (lf : linefns) : Prop :=
  (forall s, lf_content lf s <> POutOfFuel) /\ (forall s, lf_choice lf s <> POutOfFuel) /\
  (forall s, lf_render lf s <> POutOfFuel) /\ (forall s, lf_input lf s <> POutOfFuel).

Lemma no_fuel_allowed : forall A (r : pres A), r <> POutOfFuel -> allowed true r.
Proof. intros A [a|d|i|] H; simpl; auto. Qed.

Lemma lf_no_fuel_allowed : forall lf, lf_no_fuel lf -> lf_allowed true lf.
Proof.
  intros lf (H1 & H2 & H3 & H4). repeat split; intros; apply no_fuel_allowed; auto.
Qed.

Lemma lf_total_no_fuel : forall lf, lf_total lf -> lf_no_fuel lf.
Proof.
  intros lf (H1 & H2 & H3 & H4).
  repeat split; intros s E; [specialize (H1 s)|specialize (H2 s)|specialize (H3 s)|specialize (H4 s)];
    rewrite E in *; simpl in *; contradiction.
Qed.

Definition header_at (p : string -> bool) (lines : list string) (start : nat) : Prop :=
  exists l0, nth_error lines start = Some l0 /\ p (strip l0) = true.

Lemma contract_all : forall fixed cap lf lines start,
  (forall c n, extract_python_block lines start = POk (c, n) ->
               1 <= n /\ n <= length lines - start) /\
  (forall c n, extract_py_new_syntax lines start = POk (c, n) ->
               1 <= n /\ n <= length lines - start) /\
  (forall t n, extract_conditional_block_v fixed cap lf lines start = POk (t, n) ->
               1 <= n /\ n <= length lines - start) /\
  (forall t n, extract_loop_block_v fixed cap lf lines start = POk (t, n) ->
               1 <= n /\ n <= length lines - start) /\
  (forall indent ct ex n, extract_join_choice_block lf lines start indent = POk (ct, ex, n) ->
               n <= length lines - start).
Proof.
  intros. repeat split; intros.
  - unfold extract_python_block in H. apply extract_python_block_bounds in H; lia.
  - unfold extract_python_block in H. apply extract_python_block_bounds in H; lia.
  - unfold extract_py_new_syntax in H. apply extract_py_new_bounds in H; lia.
  - unfold extract_py_new_syntax in H. apply extract_py_new_bounds in H; lia.
  - apply extract_conditional_block_f_bounds in H; lia.
  - apply extract_conditional_block_f_bounds in H; lia.
  - apply extract_loop_block_f_bounds in H; lia.
  - apply extract_loop_block_f_bounds in H; lia.
  - eapply extract_join_bounds; eauto.
Qed.

Lemma shape_all : forall fixed cap lf lines start t n,
  (extract_conditional_block_v fixed cap lf lines start = POk (t, n) -> exists brs, t = TCond brs) /\
  (extract_loop_block_v fixed cap lf lines start = POk (t, n) -> exists v c ct chs, t = TLoop v c ct chs).
Proof.
  intros; split; intros H.
  - apply extract_conditional_block_f_bounds in H; tauto.
  - apply extract_loop_block_f_bounds in H; tauto.
Qed.

Lemma never_out_of_fuel_all : forall fixed cap lf lines start,
  lf_no_fuel lf -> lf_progress lf ->
  extract_python_block lines start <> POutOfFuel /\
  extract_conditional_block_v fixed cap lf lines start <> POutOfFuel /\
  (header_at is_for_line lines start -> extract_loop_block_v fixed cap lf lines start <> POutOfFuel) /\
  (forall indent, extract_join_choice_block lf lines start indent <> POutOfFuel).
Proof.
  intros fixed cap lf lines start H1 H2. apply lf_no_fuel_allowed in H1. repeat split.
  - destruct (nth_error lines start) as [l|] eqn:E.
    + apply allowed_true_no_fuel. eapply (proj1 (extract_python_block_recok true true lines start l E)).
    + unfold extract_python_block, extract_python_block_v. rewrite E. discriminate.
  - apply allowed_true_no_fuel. apply extract_conditional_block_v_ok; auto.
  - intros (l0 & Hn & Hf). apply allowed_true_no_fuel. eapply extract_loop_block_v_ok; eauto.
  - intros indent. apply allowed_true_no_fuel. apply extract_join_allowed. apply H1.
Qed.

Lemma total_all : forall cap lf lines start,
  lf_total lf -> lf_progress lf ->
  (start < length lines -> ok_or_diag (extract_python_block lines start)) /\
  ok_or_diag (extract_conditional_block_v true cap lf lines start) /\
  (header_at is_for_line lines start -> ok_or_diag (extract_loop_block_v true cap lf lines start)) /\
  (forall indent, ok_or_diag (extract_join_choice_block lf lines start indent)).
Proof.
  intros cap lf lines start H1 H2. repeat split.
  - intros L. apply nth_error_Some in L. destruct (nth_error lines start) as [l|] eqn:E; [|congruence].
    apply allowed_false_ok_or_diag. eapply (proj1 (extract_python_block_recok true false lines start l E)).
  - apply allowed_false_ok_or_diag. apply extract_conditional_block_v_ok; auto.
  - intros (l0 & Hn & Hf). apply allowed_false_ok_or_diag. eapply extract_loop_block_v_ok; eauto.
  - intros indent. apply allowed_false_ok_or_diag. apply extract_join_allowed. apply H1.
Qed.

(* with the cap, max_block_depth + 1 nested calls are enough for every input *)
Lemma capped_depth_all : forall fixed lf n lines start,
  lf_no_fuel lf -> lf_progress lf -> max_block_depth < n ->
  extract_conditional_block_f fixed (Some max_block_depth) lf n 0 lines start <> POutOfFuel /\
  (header_at is_for_line lines start ->
   extract_loop_block_f fixed (Some max_block_depth) lf n 0 lines start <> POutOfFuel).
Proof.
  intros fixed lf n lines start H1 H2 Hn. apply lf_no_fuel_allowed in H1.
  pose proof (extract_f_ok_capped fixed (Some max_block_depth) lf true H1 H2 (or_intror eq_refl)
                max_block_depth eq_refl n) as [Kc Kl].
  split.
  - apply allowed_true_no_fuel. apply Kc. lia.
  - intros (l0 & Hh & Hf). apply allowed_true_no_fuel. eapply Kl; eauto; lia.
Qed.

Lemma has_branch_all : forall fixed cap lf lines start brs n,
  header_at is_if_line lines start ->
  extract_conditional_block_v fixed cap lf lines start = POk (TCond brs, n) -> brs <> [].
Proof. intros fixed cap lf lines start brs n (l0 & Hn & Hf) H. eapply extract_conditional_has_branch; eauto. Qed.

(* sample line-level functions for the witnesses and non-vacuity examples *)
Definition lf_sample : linefns :=
  mkLinefns (fun s => if str_contains s "{" then PDiag (DSyntax "content:braces" 0) else POk [TText s])
            (fun _ => POk None) (fun _ => POk None) (fun _ => POk None)
            (fun _ _ c => (c, 1)) (fun s => (s, EmptyString)).

Lemma lf_sample_total : lf_total lf_sample.
Proof.
  repeat split; intros s; simpl; auto. destruct (str_contains s "{"); simpl; auto.
Qed.

Lemma lf_sample_progress : lf_progress lf_sample.
Proof. intros ls i c; simpl; lia. Qed.
