(* Lemmas about Compiler/ParseLine.v and Compiler/ParseMain.v (C11, structural half of C12). *)
From Coq Require Import String Ascii List Bool Arith ZArith Lia.
From Bardic Require Import PyStr Value Compiled Lex ParseBase ParseLine ParseMain LexProofs EngineBase.
Import ListNotations.
Local Open Scope string_scope.
Local Open Scope nat_scope.

(* ------------------------------------------------------------------------------------------- *)
(* outcomes                                                                                     *)
(* ------------------------------------------------------------------------------------------- *)

Lemma ood_ok : forall A (a : A), ok_or_diag (POk a).
Proof. intros. left. eauto. Qed.
Lemma ood_diag : forall A d, ok_or_diag (@PDiag A d).
Proof. intros. right. eauto. Qed.
Lemma ood_dsyn : forall A s i, ok_or_diag (@dsyn A s i).
Proof. intros. apply ood_diag. Qed.
#[global] Hint Resolve ood_ok ood_diag ood_dsyn : ood.

Lemma ood_bind : forall A B (m : pres A) (f : A -> pres B),
  ok_or_diag m -> (forall a, m = POk a -> ok_or_diag (f a)) -> ok_or_diag (pbind m f).
Proof.
  intros A B m f [[a Ha]|[d Hd]] Hf; subst; simpl; auto with ood.
Qed.

Lemma ood_retag : forall A i (m : pres A), ok_or_diag m -> ok_or_diag (retag i m).
Proof.
  intros A i m [[a Ha]|[d Hd]]; subst; simpl; auto with ood. destruct d; auto with ood.
Qed.

Lemma retag_ok : forall A i (m : pres A) a, retag i m = POk a -> m = POk a.
Proof. intros A i m a. destruct m as [x|d|k|]; simpl; try congruence. destruct d; congruence. Qed.

Ltac ood_step :=
  match goal with
  | |- ok_or_diag (POk _) => apply ood_ok
  | |- ok_or_diag (PDiag _) => apply ood_diag
  | |- ok_or_diag (dsyn _ _) => apply ood_dsyn
  | |- ok_or_diag (if ?b then _ else _) => destruct b
  | |- ok_or_diag (match ?x with _ => _ end) => destruct x
  | |- ok_or_diag (let (_, _) := ?x in _) => destruct x
  end.

(* ------------------------------------------------------------------------------------------- *)
(* lengths                                                                                      *)
(* ------------------------------------------------------------------------------------------- *)

Lemma length_take_le : forall n s, String.length (take n s) <= String.length s.
Proof. induction n; intros [|c r]; simpl; try lia. specialize (IHn r). lia. Qed.

Lemma length_drop_le : forall n s, String.length (drop n s) <= String.length s.
Proof. induction n; intros [|c r]; simpl; try lia. specialize (IHn r). lia. Qed.

Lemma length_drop : forall n s, String.length (drop n s) = String.length s - n.
Proof. induction n; intros [|c r]; simpl; try lia. apply IHn. Qed.

Lemma length_rstrip_le : forall s, String.length (rstrip s) <= String.length s.
Proof.
  induction s as [|c r IH]; simpl; auto.
  destruct (rstrip r) eqn:E.
  - destruct (is_space c); simpl; lia.
  - simpl in *. lia.
Qed.

Lemma length_strip_le : forall s, String.length (strip s) <= String.length s.
Proof.
  intros. unfold strip. pose proof (length_rstrip_le (lstrip s)). pose proof (length_lstrip_le s). lia.
Qed.

Lemma length_append : forall a b, String.length (a ++ b) = String.length a + String.length b.
Proof. induction a; simpl; auto. Qed.

Lemma length_snoc : forall s c, String.length (snoc s c) = S (String.length s).
Proof. intros. unfold snoc, str1. rewrite length_append. simpl. lia. Qed.

Lemma length_sic_le : forall n s, String.length s <= n ->
  String.length (fst (strip_inline_comment s)) <= String.length s.
Proof.
  induction n as [|n IH]; intros s Hn.
  - destruct s; simpl in *; lia.
  - destruct s as [|a [|b [|c r]]].
    + simpl. lia.
    + rewrite sic_1. simpl. lia.
    + rewrite sic_2. destruct (is_slash a && is_slash b); simpl; lia.
    + rewrite sic_3. simpl in Hn.
      pose proof (IH r ltac:(lia)) as H1.
      pose proof (IH (String b (String c r)) ltac:(simpl; lia)) as H2.
      destruct (is_bslash a && is_slash b && is_slash c); [simpl in *; lia|].
      destruct (is_slash a && is_slash b && is_equals c); [simpl in *; lia|].
      destruct (is_slash a && is_slash b); simpl in *; lia.
Qed.

Lemma length_remove_first_le : forall s sub, String.length (remove_first s sub) <= String.length s.
Proof.
  induction s as [|c r IH]; intros sub; cbn [remove_first].
  - destruct (startswith "" sub); [apply (length_drop_le _ "")|auto].
  - destruct (startswith (String c r) sub).
    + pose proof (length_drop_le (String.length sub) (String c r)). simpl in *. lia.
    + simpl. specialize (IH sub). lia.
Qed.

Lemma length_fold_remove_le : forall tags s,
  String.length (fold_left remove_first tags s) <= String.length s.
Proof.
  induction tags as [|t r IH]; intros s; simpl; auto.
  pose proof (IH (remove_first s t)). pose proof (length_remove_first_le s t). lia.
Qed.

Lemma length_parse_tags_le : forall s, String.length (fst (parse_tags s)) <= String.length s.
Proof.
  intros s. unfold parse_tags. destruct (find_tags TIdle s) eqn:E; simpl; auto.
  pose proof (length_rstrip_le (fold_left remove_first l (remove_first s s0))).
  pose proof (length_fold_remove_le l (remove_first s s0)).
  pose proof (length_remove_first_le s s0). lia.
Qed.

(* ------------------------------------------------------------------------------------------- *)
(* split_expressions_with_depth, parse_inline_conditional, parse_content_line                   *)
(* ------------------------------------------------------------------------------------------- *)

Definition short (N : nat) (x : string) : Prop := String.length x <= N.

Lemma sewd_aux_ood : forall s result cur depth, ok_or_diag (sewd_aux s result cur depth).
Proof.
  induction s as [|c r IH]; intros; simpl; auto with ood.
  repeat ood_step; auto with ood.
Qed.

Lemma sewd_aux_bound : forall N s result cur depth r c d,
  sewd_aux s result cur depth = POk (r, c, d) ->
  Forall (short N) result -> String.length cur + String.length s <= N ->
  Forall (short N) r /\ short N c.
Proof.
  induction s as [|a s IH]; intros result cur depth r c d H HF HL; simpl in *.
  - inversion H; subst. split; auto. unfold short. lia.
  - destruct (ch a "{").
    + destruct depth.
      * eapply IH in H; eauto.
        -- constructor; auto. unfold short. lia.
        -- simpl. lia.
      * eapply IH in H; eauto. rewrite length_snoc. lia.
    + destruct (ch a "}").
      * destruct depth as [|[|d']]; try discriminate.
        -- eapply IH in H; eauto.
           ++ constructor; auto. unfold short. rewrite length_snoc. lia.
           ++ simpl. lia.
        -- eapply IH in H; eauto. rewrite length_snoc. lia.
      * eapply IH in H; eauto. rewrite length_snoc. lia.
Qed.

Lemma split_expressions_ood : forall text, ok_or_diag (split_expressions_with_depth text).
Proof.
  intros. unfold split_expressions_with_depth. apply ood_bind; [apply sewd_aux_ood|].
  intros [[r c] d] _. repeat ood_step; auto with ood.
Qed.

Lemma Forall_rev' : forall A (P : A -> Prop) l, Forall P l -> Forall P (rev l).
Proof. intros. apply Forall_forall. intros x Hx. apply in_rev in Hx. rewrite Forall_forall in H. auto. Qed.

Lemma split_expressions_bound : forall text parts,
  split_expressions_with_depth text = POk parts -> Forall (short (String.length text)) parts.
Proof.
  intros text parts H. unfold split_expressions_with_depth in H.
  destruct (sewd_aux text [] "" 0) as [[[r c] d]| | |] eqn:E; simpl in H; try discriminate.
  eapply (sewd_aux_bound (String.length text)) in E; [|apply Forall_nil|simpl; lia]. destruct E as [Hr Hc].
  destruct (0 <? d); try discriminate.
  destruct (_ || _); inversion H; subst.
  - apply Forall_app. split; [apply Forall_rev'; auto|constructor; auto].
  - apply Forall_rev'; auto.
Qed.

Lemma find_top_range : forall sep s i d q, find_top sep s i d = Some q -> i <= q < i + String.length s.
Proof.
  induction s as [|c r IH]; intros i d q H; simpl in *; try discriminate.
  destruct (ch c "{"); [apply IH in H; lia|].
  destruct (ch c "}"); [apply IH in H; lia|].
  destruct (ch c sep && Z.eqb d 0); [inversion H; lia|apply IH in H; lia].
Qed.

Lemma pic_ood : forall rec expr,
  (forall t, String.length t < String.length expr -> ok_or_diag (rec t)) ->
  ok_or_diag (parse_inline_conditional_with rec expr).
Proof.
  intros rec expr Hrec. unfold parse_inline_conditional_with.
  destruct (negb (str_contains expr "?")); auto with ood.
  destruct (find_top "?" expr 0 0) as [q|] eqn:Eq; auto with ood.
  apply find_top_range in Eq.
  destruct (find_pipe_separator (drop (S q) expr)) as [p|] eqn:Ep; auto with ood.
  assert (Hrest : String.length (drop (S q) expr) < String.length expr) by (rewrite length_drop; lia).
  apply ood_bind.
  - destruct (nonempty _); auto with ood. apply Hrec.
    pose proof (length_strip_le (take p (drop (S q) expr))).
    pose proof (length_take_le p (drop (S q) expr)). lia.
  - intros tks _. apply ood_bind; auto with ood.
    destruct (nonempty _); auto with ood. apply Hrec.
    pose proof (length_strip_le (drop (S p) (drop (S q) expr))).
    pose proof (length_drop_le (S p) (drop (S q) expr)). lia.
Qed.

Lemma length_slice_1_m1_le : forall p, String.length (slice_1_m1 p) <= String.length p.
Proof.
  intros. unfold slice_1_m1.
  pose proof (length_take_le (String.length p - 2) (drop 1 p)). pose proof (length_drop_le 1 p). lia.
Qed.

Lemma content_parts_ood : forall pic parts,
  (forall p, In p parts -> ok_or_diag (pic (slice_1_m1 p))) -> ok_or_diag (content_parts pic parts).
Proof.
  induction parts as [|p r IH]; intros H; simpl; auto with ood.
  assert (IH' : ok_or_diag (content_parts pic r)) by (apply IH; intros; apply H; right; auto).
  destruct (startswith p "{" && endswith p "}").
  - apply ood_bind; [apply H; left; auto|]. intros ic _. apply ood_bind; auto with ood.
  - destruct (nonempty p); auto. apply ood_bind; auto with ood.
Qed.

Lemma pcl_ood : forall fuel rl line,
  String.length line < fuel -> String.length line < rl -> ok_or_diag (parse_content_line_lim rl fuel line).
Proof.
  induction fuel as [|f IH]; intros rl line Hf Hr; [lia|].
  destruct rl as [|rl']; [lia|]. cbn [parse_content_line_lim].
  pose proof (length_sic_le _ line (le_n _)) as H1.
  destruct (strip_inline_comment line) as [line1 cm]. simpl in H1.
  pose proof (length_parse_tags_le line1) as H2.
  destruct (parse_tags line1) as [lwt tags]. simpl in H2.
  pose proof (split_expressions_ood lwt) as Hs.
  destruct (split_expressions_with_depth lwt) as [parts|d|k|] eqn:E; auto with ood.
  - apply split_expressions_bound in E. rewrite Forall_forall in E.
    apply content_parts_ood. intros p Hp. apply E in Hp. unfold short in Hp.
    apply pic_ood. intros t Ht. pose proof (length_slice_1_m1_le p).
    apply IH; lia.
  - destruct Hs as [[? ?]|[? ?]]; discriminate.
  - destruct Hs as [[? ?]|[? ?]]; discriminate.
Qed.

Lemma parse_content_line_ood : forall line, ok_or_diag (parse_content_line line).
Proof. intros. unfold parse_content_line. apply pcl_ood; lia. Qed.

Lemma parse_inline_conditional_ood : forall e, ok_or_diag (parse_inline_conditional e).
Proof. intros. apply pic_ood. intros. apply parse_content_line_ood. Qed.

(* the depth-limited function does run out of stack: one level per nesting of {c ? .. | ..} *)
Lemma pcl_limit_reached : parse_content_line_lim 2 100 "{a ? {b ? c | d} | e}" = PInternal (IRecursion "parse_content_line").
Proof. vm_compute. reflexivity. Qed.

(* ------------------------------------------------------------------------------------------- *)
(* the other line-level functions                                                               *)
(* ------------------------------------------------------------------------------------------- *)

Lemma ppp_step_ood : forall st part, ok_or_diag (ppp_step st part).
Proof.
  intros [[acc seen] names] part. unfold ppp_step.
  destruct (negb (nonempty (strip part))); auto with ood.
  destruct (find_char (strip part) "="); repeat ood_step; auto with ood.
Qed.

Lemma ppp_loop_ood : forall parts st, ok_or_diag (ppp_loop parts st).
Proof.
  induction parts as [|p r IH]; intros st; simpl; auto with ood.
  apply ood_bind; [apply ppp_step_ood|auto].
Qed.

Lemma parse_passage_params_ood : forall s, ok_or_diag (parse_passage_params s).
Proof.
  intros. unfold parse_passage_params. destruct (negb (nonempty s)); auto with ood.
  apply ood_bind; [apply ppp_loop_ood|]. intros [[acc ?] ?] _. auto with ood.
Qed.

Lemma parse_choice_line_ood : forall s, ok_or_diag (parse_choice_line s).
Proof.
  intros. unfold parse_choice_line.
  destruct (strip_inline_comment s) as [line cm]. destruct (parse_tags line) as [lwt tags].
  repeat ood_step; auto with ood;
    (apply ood_bind; [apply parse_content_line_ood|intros; auto with ood]).
Qed.

(* `c in s` implies s.index(c) succeeds *)
Lemma find_from_char : forall s c i, find_from s (String c "") i = find_char_from s c i.
Proof.
  induction s as [|a r IH]; intros c i; simpl; auto.
  destruct (ascii_eqb a c) eqn:E; simpl.
  - destruct r; reflexivity.
  - apply IH.
Qed.

Lemma contains_index : forall s c, str_contains s (String c "") = true -> exists i, index_char s c = POk i.
Proof.
  intros s c H. unfold str_contains, str_find in H. rewrite find_from_char in H.
  unfold index_char, find_char. destruct (find_char_from s c 0); [eauto|discriminate].
Qed.

Lemma validate_choice_syntax_ood : forall line idx, ok_or_diag (validate_choice_syntax line idx).
Proof.
  intros. unfold validate_choice_syntax.
  destruct (strip_inline_comment (strip line)) as [clean cm].
  destruct (negb (str_contains clean " -> ")); auto with ood.
  match goal with |- context [match str_find clean " -> " with _ => _ end] =>
    destruct (match str_find clean " -> " with
              | Some k => (take k clean, strip (drop (k + 4) clean))
              | None => (clean, "") end) as [choice_part target_part] end.
  destruct (str_contains choice_part "[") eqn:E1; simpl; auto with ood.
  destruct (str_contains choice_part "]") eqn:E2; simpl; auto with ood.
  apply ood_bind.
  - destruct (str_contains choice_part "{") eqn:E3; simpl; auto with ood.
    destruct (contains_index _ _ E3) as [i1 H1]. destruct (contains_index _ _ E1) as [i2 H2].
    rewrite H1, H2. simpl. repeat ood_step; auto with ood.
  - intros cond_end _.
    destruct (str_contains choice_part "}" && negb (str_contains choice_part "{")); auto with ood.
    set (search_start := match cond_end with Some e => S e | None => 0 end).
    destruct (str_contains (drop search_start choice_part) "[") eqn:E4; simpl; auto with ood.
    destruct (str_contains (drop search_start choice_part) "]") eqn:E5; simpl; auto with ood.
    destruct (contains_index _ _ E4) as [i1 H1]. destruct (contains_index _ _ E5) as [i2 H2].
    rewrite H1, H2. simpl. repeat ood_step; auto with ood.
Qed.

Lemma validate_passage_name_ood : forall name idx, ok_or_diag (validate_passage_name name idx).
Proof.
  intros. unfold validate_passage_name.
  destruct name as [|c r]; simpl; auto with ood.
  repeat ood_step; simpl; auto with ood;
    (destruct (str_contains (String c r) " "); [|destruct (str_contains (String c r) "-")]; simpl; auto with ood).
Qed.

Lemma parse_render_line_ood : forall ctx s, ok_or_diag (parse_render_line ctx s).
Proof.
  intros. unfold parse_render_line. destruct (strip_inline_comment s) as [line cm].
  repeat ood_step; auto with ood.
Qed.

Lemma parse_input_attrs_ood : forall ctx s, ok_or_diag (parse_input_attrs ctx s).
Proof.
  intros. unfold parse_input_attrs. destruct (strip_inline_comment s) as [line cm].
  repeat ood_step; auto with ood.
Qed.

Lemma parse_input_line_ood : forall ctx s, ok_or_diag (parse_input_line ctx s).
Proof.
  intros. unfold parse_input_line. apply ood_bind; [apply parse_input_attrs_ood|auto with ood].
Qed.

(* without a context the two directive parsers never raise *)
Lemma parse_render_line_nocontext : forall s, exists r, parse_render_line false s = POk r.
Proof.
  intros. unfold parse_render_line. destruct (strip_inline_comment s) as [line cm].
  repeat match goal with
  | |- exists r, POk _ = POk r => eexists; reflexivity
  | |- exists r, (if ?b then _ else _) = POk r => destruct b
  | |- exists r, (match ?x with _ => _ end) = POk r => destruct x
  end.
Qed.

Lemma extract_multiline_consumes : forall ls i e, 1 <= snd (extract_multiline_expression ls i e).
Proof.
  intros. unfold extract_multiline_expression.
  destruct (negb _); simpl; [lia|].
  destruct (eme_loop _ _ _ _). simpl. lia.
Qed.

(* ------------------------------------------------------------------------------------------- *)
(* the main loop                                                                                *)
(* ------------------------------------------------------------------------------------------- *)

(* an internal error / an exhausted fuel that an extractor returned *)
Definition xs_internal (xs : extractors) (k : internal) : Prop :=
  (exists ls i, x_python xs ls i = PInternal k) \/
  (exists ls i, x_conditional xs ls i = PInternal k) \/
  (exists ls i, x_loop xs ls i = PInternal k) \/
  (exists ls i n, x_join xs ls i n = PInternal k).

Definition xs_fuel (xs : extractors) : Prop :=
  (exists ls i, x_python xs ls i = POutOfFuel) \/
  (exists ls i, x_conditional xs ls i = POutOfFuel) \/
  (exists ls i, x_loop xs ls i = POutOfFuel) \/
  (exists ls i n, x_join xs ls i n = POutOfFuel).

(* value, diagnostic, or exactly what an extractor returned *)
Definition safe (xs : extractors) {A} (m : pres A) : Prop :=
  match m with
  | POk _ | PDiag _ => True
  | PInternal k => xs_internal xs k
  | POutOfFuel => xs_fuel xs
  end.

Section MainLoop.
Variable pp : pyparse.
Variable is_call : string -> bool.
Variable xs : extractors.
Hypothesis xs_ok : extractors_ok xs.

Lemma safe_ood : forall A (m : pres A), ok_or_diag m -> safe xs m.
Proof. intros A m [[a H]|[d H]]; subst; simpl; auto. Qed.

Lemma safe_bind : forall A B (m : pres A) (f : A -> pres B),
  safe xs m -> (forall a, m = POk a -> safe xs (f a)) -> safe xs (pbind m f).
Proof. intros A B [a|d|k|] f Hm Hf; simpl in *; auto. Qed.

(* the iteration is safe and, when it succeeds, moves the index forward *)
Definition adv (i : nat) (m : pres (pstate * nat)) : Prop :=
  safe xs m /\ forall st' i', m = POk (st', i') -> i < i'.

Lemma adv_ok : forall i st i', i < i' -> adv i (POk (st, i')).
Proof. intros. split; simpl; auto. intros ? ? H0. inversion H0; subst; auto. Qed.

Lemma adv_diag : forall i d, adv i (PDiag d).
Proof. intros. split; simpl; auto. discriminate. Qed.

Lemma adv_dsyn : forall i s j, adv i (dsyn s j).
Proof. intros. apply adv_diag. Qed.

Lemma adv_bind : forall A i (m : pres A) f,
  safe xs m -> (forall a, m = POk a -> adv i (f a)) -> adv i (pbind m f).
Proof.
  intros A i [a|d|k|] f Hm Hf; simpl in *; try (split; simpl; auto; discriminate).
  apply Hf; auto.
Qed.

#[local] Hint Resolve adv_ok adv_diag adv_dsyn : adv.

Ltac adv_if :=
  match goal with
  | |- adv _ (if ?b then _ else _) => destruct b eqn:?
  end.

Lemma body_step_adv : forall lines i line st cp, adv i (body_step pp xs lines i line st cp).
Proof.
  intros. destruct xs_ok as [Hpy [Hcond Hloop]]. unfold body_step.
  adv_if; [apply adv_ok; lia|].
  adv_if.
  { apply adv_bind.
    - destruct (x_python xs lines i) eqn:E; simpl; auto; [left|left]; eauto.
    - intros [code n] E. apply adv_ok. apply Hpy in E. lia. }
  adv_if.
  { apply adv_bind.
    - destruct (x_conditional xs lines i) eqn:E; simpl; auto; [right; left|right; left]; eauto.
    - intros [t n] E. apply adv_ok. apply Hcond in E. lia. }
  adv_if.
  { apply adv_bind.
    - destruct (x_loop xs lines i) eqn:E; simpl; auto; [right; right; left|right; right; left]; eauto.
    - intros [t n] E. apply adv_ok. apply Hloop in E. lia. }
  adv_if.
  { apply adv_bind; [apply safe_ood, ood_retag, parse_render_line_ood|].
    intros [t|] _; apply adv_ok; lia. }
  adv_if.
  { apply adv_bind; [apply safe_ood, ood_retag, parse_input_attrs_ood|].
    intros [t|] _; apply adv_ok; lia. }
  adv_if.
  { destruct (split_ws (strip line)) as [|a [|b [|c [|? ?]]]]; auto with adv; try (apply adv_ok; lia). }
  adv_if.
  { destruct (split_ws (strip line)) as [|a [|b [|c [|? ?]]]]; auto with adv; try (apply adv_ok; lia). }
  adv_if; [apply adv_ok; lia|].
  adv_if.
  { destruct (arrow_rest _); [destruct (extract_target_and_args _)|]; apply adv_ok; lia. }
  adv_if.
  { destruct (strip_inline_comment _) as [code cm].
    pose proof (extract_multiline_consumes lines i code) as Hc.
    destruct (extract_multiline_expression lines i code) as [cc n]. simpl in Hc.
    destruct (py_stmt_ok pp cc); auto with adv. apply adv_ok; lia. }
  adv_if.
  { apply adv_bind; [apply safe_ood, validate_choice_syntax_ood|]. intros _ _.
    apply adv_bind; [apply safe_ood, ood_retag, parse_choice_line_ood|].
    intros [[text target args cond sticky sec tags blk]|] _; auto with adv.
    destruct (String.eqb target "@join").
    - apply adv_bind.
      + destruct (x_join xs lines (S i) (indent_of line)) eqn:E; simpl; auto;
          [right; right; right|right; right; right]; eauto.
      + intros [[bc be] n] _. apply adv_ok; lia.
    - apply adv_ok; lia. }
  adv_if.
  { adv_if.
    - apply adv_bind; [apply safe_ood, ood_retag, parse_content_line_ood|]. intros; apply adv_ok; lia.
    - apply adv_bind; [apply safe_ood, ood_retag, parse_content_line_ood|]. intros; apply adv_ok; lia. }
  apply adv_ok; lia.
Qed.

Lemma parse_step_adv : forall lines i line st, adv i (parse_step pp xs lines i line st).
Proof.
  intros. unfold parse_step.
  match goal with |- adv _ (match ?p with inl _ => _ | inr _ => _ end) =>
    assert (Hp : forall r, p = inr r -> i < snd r); [|destruct p as [st1|r] eqn:Ep] end.
  { intros r. repeat match goal with |- context [if ?b then _ else _] => destruct b end;
      intros H; inversion H; subst; simpl; lia. }
  2:{ destruct r as [s j]. apply adv_ok. apply (Hp (s, j)); reflexivity. }
  clear Hp Ep.
  adv_if; [apply adv_ok; lia|].
  match goal with |- adv _ (match ?p with inl _ => _ | inr _ => _ end) =>
    assert (Hp : forall r, p = inr r -> i < snd r); [|destruct p as [st2|r] eqn:Ep] end.
  { intros r. repeat match goal with
                     | |- context [if ?b then _ else _] => destruct b
                     | |- context [match find_char ?a ?b with _ => _ end] => destruct (find_char a b)
                     end;
      intros H; inversion H; subst; simpl; lia. }
  2:{ destruct r as [s j]. apply adv_ok. apply (Hp (s, j)); reflexivity. }
  clear Hp Ep.
  adv_if; [apply adv_ok; lia|].
  adv_if.
  { destruct (strip_inline_comment _) as [hdr cm]. destruct (extract_passage_params hdr) as [nwp ps].
    destruct (parse_tags nwp) as [name tags].
    apply adv_bind; [apply safe_ood, validate_passage_name_ood|]. intros _ _.
    apply adv_bind.
    - destruct (nonempty ps); [apply safe_ood, ood_retag, parse_passage_params_ood|simpl; auto].
    - intros; apply adv_ok; lia. }
  destruct (st_current st2); [apply body_step_adv|apply adv_ok; lia].
Qed.

Lemma parse_loop_safe : forall fuel lines i st,
  List.length lines < fuel + i -> safe xs (parse_loop pp xs fuel lines (List.length lines) i st).
Proof.
  induction fuel as [|f IH]; intros lines i st Hf.
  - simpl. destruct (List.length lines <=? i) eqn:E; simpl; auto. apply Nat.leb_gt in E. lia.
  - cbn [parse_loop]. destruct (List.length lines <=? i) eqn:E; simpl; auto.
    apply Nat.leb_gt in E.
    destruct (nth_error lines i) as [line|] eqn:En.
    2:{ apply nth_error_None in En. lia. }
    destruct (parse_step_adv lines i line st) as [Hs Hadv].
    apply safe_bind; auto.
    intros [st' i'] Hr. apply IH. apply Hadv in Hr. lia.
Qed.

(* ------------------------------------------------------------------------------------------- *)
(* post passes                                                                                  *)
(* ------------------------------------------------------------------------------------------- *)

Lemma add_positional_ok : forall n names i acc,
  n + i <= List.length names -> exists r, add_positional n names i acc = POk r.
Proof.
  induction n as [|n IH]; intros names i acc H; simpl; eauto.
  destruct (nth_error names i) eqn:E.
  - apply IH. lia.
  - apply nth_error_None in E. lia.
Qed.

(* every parsed argument string is a call (`tree.body` is an ast.Call) *)
Definition calls_are_calls : Prop := forall a, is_call a = true.

Lemma validate_single_call_ood : calls_are_calls ->
  forall ps tg a, ok_or_diag (validate_single_call pp is_call ps tg a).
Proof.
  intros Hc ps tg a. unfold validate_single_call.
  destruct (String.eqb tg "@join"); auto with ood.
  destruct (lookup tg ps) as [tp|]; auto with ood.
  destruct (params tp) as [|p0 pr] eqn:Eps; [destruct (nonempty a); auto with ood|].
  destruct (py_call_shape pp a) as [[npos kws]|]; auto with ood.
  rewrite Hc. simpl negb. cbv iota.
  destruct (List.length (p0 :: pr) <? npos) eqn:El; auto with ood.
  destruct (existsb _ kws); auto with ood.
  apply Nat.ltb_ge in El.
  destruct (add_positional_ok npos (map pname (p0 :: pr)) 0 []) as [r Hr].
  { rewrite map_length. lia. }
  rewrite Hr. simpl pbind. repeat ood_step; auto with ood.
Qed.

Section Walk.
Variable ps : list (string * passage).
Hypothesis Hc : calls_are_calls.

Lemma check_choices_ood : forall cs, ok_or_diag (check_choices pp is_call ps cs).
Proof.
  induction cs as [|c r IH]; simpl; auto with ood.
  apply ood_bind; [apply validate_single_call_ood; auto|auto].
Qed.

Definition toks_fix := fix toks (l : list token) : pres unit :=
  match l with
  | [] => POk tt
  | x :: r => let* _ := check_token pp is_call ps x in toks r
  end.

Lemma toks_fix_eq : forall l, toks_fix l = check_tokens pp is_call ps l.
Proof. induction l as [|x r IH]; simpl; auto. destruct (check_token pp is_call ps x); simpl; auto. Qed.

Lemma check_tokens_ood : forall l,
  Forall (fun t => ok_or_diag (check_token pp is_call ps t)) l -> ok_or_diag (check_tokens pp is_call ps l).
Proof.
  induction 1; simpl; auto with ood. apply ood_bind; auto.
Qed.

Lemma check_token_ood : forall t, ok_or_diag (check_token pp is_call ps t).
Proof.
  induction t using token_ind'; try (simpl; auto with ood; fail).
  - (* TCond *)
    simpl. induction H as [|[c cont chs] r [Hcont Hchs] Hr IH]; auto with ood.
    apply ood_bind; [apply check_choices_ood|]. intros _ _.
    apply ood_bind; [|intros; apply IH].
    change (ok_or_diag (toks_fix cont)). rewrite toks_fix_eq. apply check_tokens_ood. exact Hcont.
  - (* TLoop *)
    simpl. apply ood_bind; [apply check_choices_ood|]. intros _ _.
    change (ok_or_diag (toks_fix cont)). rewrite toks_fix_eq. apply check_tokens_ood. exact H.
  - (* TJump *)
    simpl. apply validate_single_call_ood; auto.
Qed.

Lemma check_tokens_ood' : forall l, ok_or_diag (check_tokens pp is_call ps l).
Proof. intros. apply check_tokens_ood. apply Forall_forall. intros. apply check_token_ood. Qed.

Lemma validate_passages_ood : forall todo, ok_or_diag (validate_passages pp is_call ps todo).
Proof.
  induction todo as [|[k p] r IH]; simpl; auto with ood.
  apply ood_bind; [apply check_choices_ood|]. intros _ _.
  apply ood_bind; [apply check_tokens_ood'|auto].
Qed.
End Walk.

Lemma check_duplicate_ood : forall locs, ok_or_diag (check_duplicate_passages locs).
Proof. intros. unfold check_duplicate_passages. destruct (existsb _ _); auto with ood. Qed.

Lemma determine_initial_ood : forall ps es, ok_or_diag (determine_initial_passage ps es).
Proof. intros. unfold determine_initial_passage. repeat ood_step; auto with ood. Qed.

(* parse: never out of fuel or internal, except for what an extractor itself returned *)
Lemma parse_safe : calls_are_calls -> forall lines, safe xs (parse pp is_call xs lines).
Proof.
  intros Hc lines. unfold parse.
  apply safe_bind; [apply parse_loop_safe; lia|]. intros st _.
  apply safe_bind; [apply safe_ood, check_duplicate_ood|]. intros _ _.
  apply safe_bind; [apply safe_ood, validate_passages_ood; auto|]. intros _ _.
  apply safe_bind; [apply safe_ood, determine_initial_ood|]. intros; simpl; auto.
Qed.

(* without the hypothesis on the call oracle the only extra outcome is the AttributeError *)
Lemma parse_loop_part_safe : forall lines,
  safe xs (parse_loop pp xs (S (List.length lines)) lines (List.length lines) 0 init_state).
Proof. intros. apply parse_loop_safe. lia. Qed.

End MainLoop.
