(* Lemmas about Compiler/ParseLine.v and Compiler/ParseMain.v (C11, structural half of C12). *)
From Coq Require Import String Ascii List Bool Arith ZArith Lia.
From Bardic Require Import PyStr Value Compiled Lex ParseBase ParseLine ParseMain LexProofs EngineBase.
Import ListNotations.
Local Open Scope string_scope.
Local Open Scope nat_scope.

(* ------------------------------------------------------------------------------------------- *)
(* outcomes                                                                                     *)
(* ------------------------------------------------------------------------------------------- *)

Lemma ood_ok : forall A (a : A), ok_or_diag (POk a).
Proof. intros. left. eauto. Qed.
Lemma ood_diag : forall A d, ok_or_diag (@PDiag A d).
Proof. intros. right. eauto. Qed.
Lemma ood_dsyn : forall A s i, ok_or_diag (@dsyn A s i).
Proof. intros. apply ood_diag. Qed.
#[global] Hint Resolve ood_ok ood_diag ood_dsyn : ood.

Lemma ood_bind : forall A B (m : pres A) (f : A -> pres B),
  ok_or_diag m -> (forall a, m = POk a -> ok_or_diag (f a)) -> ok_or_diag (pbind m f).
Proof.
  intros A B m f [[a Ha]|[d Hd]] Hf; subst; simpl; auto with ood.
Qed.

Lemma ood_retag : forall A i (m : pres A), ok_or_diag m -> ok_or_diag (retag i m).
Proof.
  intros A i m [[a Ha]|[d Hd]]; subst; simpl; auto with ood. destruct d; auto with ood.
Qed.

Lemma retag_ok : forall A i (m : pres A) a, retag i m = POk a -> m = POk a.
Proof. intros A i m a. destruct m as [x|d|k|]; simpl; try congruence. destruct d; congruence. Qed.

Ltac ood_step :=
  match goal with
  | |- ok_or_diag (POk _) => apply ood_ok
  | |- ok_or_diag (PDiag _) => apply ood_diag
  | |- ok_or_diag (dsyn _ _) => apply ood_dsyn
  | |- ok_or_diag (if ?b then _ else _) => destruct b
  | |- ok_or_diag (match ?x with _ => _ end) => destruct x
  | |- ok_or_diag (let (_, _) := ?x in _) => destruct x
  end.

(* ------------------------------------------------------------------------------------------- *)
(* lengths                                                                                      *)
(* ------------------------------------------------------------------------------------------- *)

Lemma length_take_le : forall n s, String.length (take n s) <= String.length s.
Proof. induction n; intros [|c r]; simpl; try lia. specialize (IHn r). lia. Qed.

Lemma length_drop_le : forall n s, String.length (drop n s) <= String.length s.
Proof. induction n; intros [|c r]; simpl; try lia. specialize (IHn r). lia. Qed.

Lemma length_drop : forall n s, String.length (drop n s) = String.length s - n.
Proof. induction n; intros [|c r]; simpl; try lia. apply IHn. Qed.

Lemma length_rstrip_le : forall s, String.length (rstrip s) <= String.length s.
Proof.
  induction s as [|c r IH]; simpl; auto.
  destruct (rstrip r) eqn:E.
  - destruct (is_space c); simpl; lia.
  - simpl in *. lia.
Qed.

Lemma length_strip_le : forall s, String.length (strip s) <= String.length s.
Proof.
  intros. unfold strip. pose proof (length_rstrip_le (lstrip s)). pose proof (length_lstrip_le s). lia.
Qed.

Lemma length_append : forall a b, String.length (a ++ b) = String.length a + String.length b.
Proof. induction a; simpl; auto. Qed.

Lemma length_snoc : forall s c, String.length (snoc s c) = S (String.length s).
Proof. intros. unfold snoc, str1. rewrite length_append. simpl. lia. Qed.

Lemma length_sic_le : forall n s, String.length s <= n ->
  String.length (fst (strip_inline_comment s)) <= String.length s.
Proof.
  induction n as [|n IH]; intros s Hn.
  - destruct s; simpl in *; lia.
  - destruct s as [|a [|b [|c r]]].
    + simpl. lia.
    + rewrite sic_1. simpl. lia.
    + rewrite sic_2. destruct (is_slash a && is_slash b); simpl; lia.
    + rewrite sic_3. simpl in Hn.
      pose proof (IH r ltac:(lia)) as H1.
      pose proof (IH (String b (String c r)) ltac:(simpl; lia)) as H2.
      destruct (is_bslash a && is_slash b && is_slash c); [simpl in *; lia|].
      destruct (is_slash a && is_slash b && is_equals c); [simpl in *; lia|].
      destruct (is_slash a && is_slash b); simpl in *; lia.
Qed.

Lemma length_remove_first_le : forall s sub, String.length (remove_first s sub) <= String.length s.
Proof.
  induction s as [|c r IH]; intros sub; cbn [remove_first].
  - destruct (startswith "" sub); [apply (length_drop_le _ "")|auto].
  - destruct (startswith (String c r) sub).
    + pose proof (length_drop_le (String.length sub) (String c r)). simpl in *. lia.
    + simpl. specialize (IH sub). lia.
Qed.

Lemma length_fold_remove_le : forall tags s,
  String.length (fold_left remove_first tags s) <= String.length s.
Proof.
  induction tags as [|t r IH]; intros s; simpl; auto.
  pose proof (IH (remove_first s t)). pose proof (length_remove_first_le s t). lia.
Qed.

Lemma length_parse_tags_le : forall s, String.length (fst (parse_tags s)) <= String.length s.
Proof.
  intros s. unfold parse_tags. destruct (find_tags TIdle s) eqn:E; simpl; auto.
  pose proof (length_rstrip_le (fold_left remove_first l (remove_first s s0))).
  pose proof (length_fold_remove_le l (remove_first s s0)).
  pose proof (length_remove_first_le s s0). lia.
Qed.

(* ------------------------------------------------------------------------------------------- *)
(* split_expressions_with_depth, parse_inline_conditional, parse_content_line                   *)
(* ------------------------------------------------------------------------------------------- *)

Definition short (N : nat) (x : string) : Prop := String.length x <= N.

Lemma sewd_aux_ood : forall s result cur depth, ok_or_diag (sewd_aux s result cur depth).
Proof.
  induction s as [|c r IH]; intros; simpl; auto with ood.
  repeat ood_step; auto with ood.
Qed.

Lemma sewd_aux_bound : forall N s result cur depth r c d,
  sewd_aux s result cur depth = POk (r, c, d) ->
  Forall (short N) result -> String.length cur + String.length s <= N ->
  Forall (short N) r /\ short N c.
Proof.
  induction s as [|a s IH]; intros result cur depth r c d H HF HL; simpl in *.
  - inversion H; subst. split; auto. unfold short. lia.
  - destruct (ch a "{").
    + destruct depth.
      * eapply IH in H; eauto.
        -- constructor; auto. unfold short. lia.
        -- simpl. lia.
      * eapply IH in H; eauto. rewrite length_snoc. lia.
    + destruct (ch a "}").
      * destruct depth as [|[|d']]; try discriminate.
        -- eapply IH in H; eauto.
           ++ constructor; auto. unfold short. rewrite length_snoc. lia.
           ++ simpl. lia.
        -- eapply IH in H; eauto. rewrite length_snoc. lia.
      * eapply IH in H; eauto. rewrite length_snoc. lia.
Qed.

Lemma split_expressions_ood : forall text, ok_or_diag (split_expressions_with_depth text).
Proof.
  intros. unfold split_expressions_with_depth. apply ood_bind; [apply sewd_aux_ood|].
  intros [[r c] d] _. repeat ood_step; auto with ood.
Qed.

Lemma Forall_rev' : forall A (P : A -> Prop) l, Forall P l -> Forall P (rev l).
Proof. intros. apply Forall_forall. intros x Hx. apply in_rev in Hx. rewrite Forall_forall in H. auto. Qed.

Lemma split_expressions_bound : forall text parts,
  split_expressions_with_depth text = POk parts -> Forall (short (String.length text)) parts.
Proof.
  intros text parts H. unfold split_expressions_with_depth in H.
  destruct (sewd_aux text [] "" 0) as [[[r c] d]| | |] eqn:E; simpl in H; try discriminate.
  eapply (sewd_aux_bound (String.length text)) in E; [|apply Forall_nil|simpl; lia]. destruct E as [Hr Hc].
  destruct (0 <? d); try discriminate.
  destruct (_ || _); inversion H; subst.
  - apply Forall_app. split; [apply Forall_rev'; auto|constructor; auto].
  - apply Forall_rev'; auto.
Qed.

Lemma find_top_range : forall sep s i d q, find_top sep s i d = Some q -> i <= q < i + String.length s.
Proof.
  induction s as [|c r IH]; intros i d q H; simpl in *; try discriminate.
  destruct (ch c "{"); [apply IH in H; lia|].
  destruct (ch c "}"); [apply IH in H; lia|].
  destruct (ch c sep && Z.eqb d 0); [inversion H; lia|apply IH in H; lia].
Qed.

Lemma pic_ood : forall depth rec expr,
  (depth < max_inline_depth -> forall t, ok_or_diag (rec t)) ->
  ok_or_diag (parse_inline_conditional_with depth rec expr).
Proof.
  intros depth rec expr Hrec. unfold parse_inline_conditional_with.
  destruct (negb (str_contains expr "?")); auto with ood.
  destruct (find_top "?" expr 0 0) as [q|]; auto with ood.
  destruct (find_pipe_separator (drop (S q) expr)) as [p|]; auto with ood.
  destruct (max_inline_depth <=? depth) eqn:E; auto with ood.
  apply Nat.leb_gt in E. specialize (Hrec E).
  apply ood_bind.
  - destruct (nonempty _); auto with ood.
  - intros tks _. apply ood_bind; auto with ood. destruct (nonempty _); auto with ood.
Qed.

Lemma length_slice_1_m1_le : forall p, String.length (slice_1_m1 p) <= String.length p.
Proof.
  intros. unfold slice_1_m1.
  pose proof (length_take_le (String.length p - 2) (drop 1 p)). pose proof (length_drop_le 1 p). lia.
Qed.

Lemma content_parts_ood : forall pic parts,
  (forall p, In p parts -> ok_or_diag (pic (slice_1_m1 p))) -> ok_or_diag (content_parts pic parts).
Proof.
  induction parts as [|p r IH]; intros H; simpl; auto with ood.
  assert (IH' : ok_or_diag (content_parts pic r)) by (apply IH; intros; apply H; right; auto).
  destruct (startswith p "{" && endswith p "}").
  - apply ood_bind; [apply H; left; auto|]. intros ic _. apply ood_bind; auto with ood.
  - destruct (nonempty p); auto. apply ood_bind; auto with ood.
Qed.

(* the fuel is sufficient: a level deeper than the cap is never entered *)
Lemma pcl_ood : forall fuel depth line,
  depth <= max_inline_depth -> S max_inline_depth <= fuel + depth ->
  ok_or_diag (parse_content_line_d fuel depth line).
Proof.
  induction fuel as [|f IH]; intros depth line Hd Hf; [lia|].
  cbn [parse_content_line_d].
  destruct (strip_inline_comment line) as [line1 cm].
  destruct (parse_tags line1) as [lwt tags].
  pose proof (split_expressions_ood lwt) as Hs.
  destruct (split_expressions_with_depth lwt) as [parts|d|k|] eqn:E; auto with ood.
  - apply content_parts_ood. intros p _. apply pic_ood. intros Hlt t. apply IH; lia.
  - destruct Hs as [[? ?]|[? ?]]; discriminate.
  - destruct Hs as [[? ?]|[? ?]]; discriminate.
Qed.

Lemma parse_content_line_ood : forall line, ok_or_diag (parse_content_line line).
Proof. intros. unfold parse_content_line. apply pcl_ood; unfold max_inline_depth; lia. Qed.

Lemma parse_inline_conditional_ood : forall e, ok_or_diag (parse_inline_conditional e).
Proof.
  intros. apply pic_ood. intros _ t. apply pcl_ood; unfold max_inline_depth; lia.
Qed.

(* ------------------------------------------------------------------------------------------- *)
(* the other line-level functions                                                               *)
(* ------------------------------------------------------------------------------------------- *)

Lemma ppp_step_ood : forall st part, ok_or_diag (ppp_step st part).
Proof.
  intros [[acc seen] names] part. unfold ppp_step.
  destruct (negb (nonempty (strip part))); auto with ood.
  destruct (find_char (strip part) "="); repeat ood_step; auto with ood.
Qed.

Lemma ppp_loop_ood : forall parts st, ok_or_diag (ppp_loop parts st).
Proof.
  induction parts as [|p r IH]; intros st; simpl; auto with ood.
  apply ood_bind; [apply ppp_step_ood|auto].
Qed.

Lemma parse_passage_params_ood : forall s, ok_or_diag (parse_passage_params s).
Proof.
  intros. unfold parse_passage_params. destruct (negb (nonempty s)); auto with ood.
  apply ood_bind; [apply ppp_loop_ood|]. intros [[acc ?] ?] _. auto with ood.
Qed.

Lemma parse_choice_line_ood : forall s, ok_or_diag (parse_choice_line s).
Proof.
  intros. unfold parse_choice_line.
  destruct (strip_inline_comment s) as [line cm]. destruct (parse_tags line) as [lwt tags].
  repeat ood_step; auto with ood;
    (apply ood_bind; [apply parse_content_line_ood|intros; auto with ood]).
Qed.

(* `c in s` implies s.index(c) succeeds *)
Lemma find_from_char : forall s c i, find_from s (String c "") i = find_char_from s c i.
Proof.
  induction s as [|a r IH]; intros c i; simpl; auto.
  destruct (ascii_eqb a c) eqn:E; simpl.
  - destruct r; reflexivity.
  - apply IH.
Qed.

Lemma contains_index : forall s c, str_contains s (String c "") = true -> exists i, index_char s c = POk i.
Proof.
  intros s c H. unfold str_contains, str_find in H. rewrite find_from_char in H.
  unfold index_char, find_char. destruct (find_char_from s c 0); [eauto|discriminate].
Qed.

Lemma validate_choice_syntax_ood : forall line idx, ok_or_diag (validate_choice_syntax line idx).
Proof.
  intros. unfold validate_choice_syntax.
  destruct (strip_inline_comment (strip line)) as [clean cm].
  destruct (negb (str_contains clean " -> ")); auto with ood.
  match goal with |- context [match str_find clean " -> " with _ => _ end] =>
    destruct (match str_find clean " -> " with
              | Some k => (take k clean, strip (drop (k + 4) clean))
              | None => (clean, "") end) as [choice_part target_part] end.
  destruct (str_contains choice_part "[") eqn:E1; simpl; auto with ood.
  destruct (str_contains choice_part "]") eqn:E2; simpl; auto with ood.
  apply ood_bind.
  - destruct (str_contains choice_part "{") eqn:E3; simpl; auto with ood.
    destruct (contains_index _ _ E3) as [i1 H1]. destruct (contains_index _ _ E1) as [i2 H2].
    rewrite H1, H2. simpl. repeat ood_step; auto with ood.
  - intros cond_end _.
    destruct (str_contains choice_part "}" && negb (str_contains choice_part "{")); auto with ood.
    set (search_start := match cond_end with Some e => S e | None => 0 end).
    destruct (str_contains (drop search_start choice_part) "[") eqn:E4; simpl; auto with ood.
    destruct (str_contains (drop search_start choice_part) "]") eqn:E5; simpl; auto with ood.
    destruct (contains_index _ _ E4) as [i1 H1]. destruct (contains_index _ _ E5) as [i2 H2].
    rewrite H1, H2. simpl. repeat ood_step; auto with ood.
Qed.

Lemma validate_passage_name_ood : forall name idx, ok_or_diag (validate_passage_name name idx).
Proof.
  intros. unfold validate_passage_name.
  destruct name as [|c r]; simpl; auto with ood.
  repeat ood_step; simpl; auto with ood;
    (destruct (str_contains (String c r) " "); [|destruct (str_contains (String c r) "-")]; simpl; auto with ood).
Qed.

Lemma parse_render_line_ood : forall ctx s, ok_or_diag (parse_render_line ctx s).
Proof.
  intros. unfold parse_render_line. destruct (strip_inline_comment s) as [line cm].
  repeat ood_step; auto with ood.
Qed.

Lemma parse_input_attrs_ood : forall ctx s, ok_or_diag (parse_input_attrs ctx s).
Proof.
  intros. unfold parse_input_attrs. destruct (strip_inline_comment s) as [line cm].
  repeat ood_step; auto with ood.
Qed.

Lemma parse_input_line_ood : forall ctx s, ok_or_diag (parse_input_line ctx s).
Proof.
  intros. unfold parse_input_line. apply ood_bind; [apply parse_input_attrs_ood|auto with ood].
Qed.

(* without a context the two directive parsers never raise *)
Lemma parse_render_line_nocontext : forall s, exists r, parse_render_line false s = POk r.
Proof.
  intros. unfold parse_render_line. destruct (strip_inline_comment s) as [line cm].
  repeat match goal with
  | |- exists r, POk _ = POk r => eexists; reflexivity
  | |- exists r, (if ?b then _ else _) = POk r => destruct b
  | |- exists r, (match ?x with _ => _ end) = POk r => destruct x
  end.
Qed.

Lemma extract_multiline_consumes : forall ls i e, 1 <= snd (extract_multiline_expression ls i e).
Proof.
  intros. unfold extract_multiline_expression.
  destruct (negb _); simpl; [lia|].
  destruct (eme_loop _ _ _ _). simpl. lia.
Qed.

(* ------------------------------------------------------------------------------------------- *)
(* the main loop                                                                                *)
(* ------------------------------------------------------------------------------------------- *)

(* an internal error / an exhausted fuel that an extractor returned *)
Definition xs_internal (xs : extractors) (k : internal) : Prop :=
  (exists ls i, x_python xs ls i = PInternal k) \/
  (exists ls i, x_conditional xs ls i = PInternal k) \/
  (exists ls i, x_loop xs ls i = PInternal k) \/
  (exists ls i n, x_join xs ls i n = PInternal k).

Definition xs_fuel (xs : extractors) : Prop :=
  (exists ls i, x_python xs ls i = POutOfFuel) \/
  (exists ls i, x_conditional xs ls i = POutOfFuel) \/
  (exists ls i, x_loop xs ls i = POutOfFuel) \/
  (exists ls i n, x_join xs ls i n = POutOfFuel).

(* value, diagnostic, or exactly what an extractor returned *)
Definition safe (xs : extractors) {A} (m : pres A) : Prop :=
  match m with
  | POk _ | PDiag _ => True
  | PInternal k => xs_internal xs k
  | POutOfFuel => xs_fuel xs
  end.

(* the tests the main loop makes on lines[i].strip() before it calls an extractor *)
Definition py_test (s : string) : bool := startswith s "<<py" || startswith s "@py".
Definition if_test (s : string) : bool := startswith s "<<if " || startswith s "@if ".
Definition for_test (s : string) : bool := startswith s "<<for " || startswith s "@for ".
Definition at_line (p : string -> bool) (lines : list string) (i : nat) : Prop :=
  exists l, nth_error lines i = Some l /\ p (strip l) = true.

(* the extractors return a value or a diagnostic wherever the main loop calls them *)
Definition call_sites_total (xs : extractors) : Prop :=
  (forall lines i, at_line py_test lines i -> ok_or_diag (x_python xs lines i)) /\
  (forall lines i, at_line if_test lines i -> ok_or_diag (x_conditional xs lines i)) /\
  (forall lines i, at_line for_test lines i -> ok_or_diag (x_loop xs lines i)) /\
  (forall lines i indent, ok_or_diag (x_join xs lines i indent)).

Lemma add_positional_ok : forall n names i acc,
  n + i <= List.length names -> exists r, add_positional n names i acc = POk r.
Proof.
  induction n as [|n IH]; intros names i acc H; simpl; eauto.
  destruct (nth_error names i) eqn:E.
  - apply IH. lia.
  - apply nth_error_None in E. lia.
Qed.

Section MainLoop.
Variable pp : pyparse.
Variable is_call : string -> bool.
Variable xs : extractors.
Hypothesis xs_ok : extractors_ok xs.

(* The proofs about the loop are made once, for any notion `Good` of an acceptable outcome that
   contains values and diagnostics, is closed under bind, and holds of what the extractors return
   at the loop's call sites.  Two instances below: `safe xs` (any extractors) and `ok_or_diag`
   (extractors that are total at the call sites). *)
Variable Good : forall A : Type, pres A -> Prop.
Hypothesis Good_ood : forall A (m : pres A), ok_or_diag m -> Good A m.
Hypothesis Good_bind : forall A B (m : pres A) (f : A -> pres B),
  Good A m -> (forall a, m = POk a -> Good B (f a)) -> Good B (pbind m f).
Hypothesis Good_py : forall lines i, at_line py_test lines i -> Good _ (x_python xs lines i).
Hypothesis Good_if : forall lines i, at_line if_test lines i -> Good _ (x_conditional xs lines i).
Hypothesis Good_for : forall lines i, at_line for_test lines i -> Good _ (x_loop xs lines i).
Hypothesis Good_join : forall lines i indent, Good _ (x_join xs lines i indent).

(* the iteration is good and, when it succeeds, moves the index forward *)
Definition adv (i : nat) (m : pres (pstate * nat)) : Prop :=
  Good _ m /\ forall st' i', m = POk (st', i') -> i < i'.

Lemma adv_ok : forall i st i', i < i' -> adv i (POk (st, i')).
Proof. intros. split; [apply Good_ood; auto with ood|]. intros ? ? H0. inversion H0; subst; auto. Qed.

Lemma adv_diag : forall i d, adv i (PDiag d).
Proof. intros. split; [apply Good_ood; auto with ood|]. discriminate. Qed.

Lemma adv_dsyn : forall i s j, adv i (dsyn s j).
Proof. intros. apply adv_diag. Qed.

Lemma adv_bind : forall A i (m : pres A) f,
  Good _ m -> (forall a, m = POk a -> adv i (f a)) -> adv i (pbind m f).
Proof.
  intros A i m f Hm Hf. split.
  - apply Good_bind; auto. intros a E. apply Hf; auto.
  - intros st' i' E. destruct m as [a|d|k|]; simpl in E; try discriminate.
    eapply (Hf a eq_refl); eauto.
Qed.

#[local] Hint Resolve adv_ok adv_diag adv_dsyn : adv.

Ltac adv_if :=
  match goal with
  | |- adv _ (if ?b then _ else _) => destruct b eqn:?
  end.

Lemma body_step_adv : forall lines i line st cp,
  nth_error lines i = Some line -> adv i (body_step pp xs lines i line st cp).
Proof.
  intros lines i line st cp Hl. destruct xs_ok as [Hpy [Hcond Hloop]]. unfold body_step.
  adv_if; [apply adv_ok; lia|].
  destruct (startswith (strip line) "<<py" || startswith (strip line) "@py") eqn:Epy.
  { apply adv_bind.
    - apply Good_py. exists line. split; auto.
    - intros [code n] E. apply adv_ok. apply Hpy in E. lia. }
  destruct (startswith (strip line) "<<if " || startswith (strip line) "@if ") eqn:Eif.
  { apply adv_bind.
    - apply Good_if. exists line. split; auto.
    - intros [t n] E. apply adv_ok. apply Hcond in E. lia. }
  destruct (startswith (strip line) "<<for " || startswith (strip line) "@for ") eqn:Efor.
  { apply adv_bind.
    - apply Good_for. exists line. split; auto.
    - intros [t n] E. apply adv_ok. apply Hloop in E. lia. }
  adv_if.
  { apply adv_bind; [apply Good_ood, ood_retag, parse_render_line_ood|].
    intros [t|] _; apply adv_ok; lia. }
  adv_if.
  { apply adv_bind; [apply Good_ood, ood_retag, parse_input_attrs_ood|].
    intros [t|] _; apply adv_ok; lia. }
  adv_if.
  { destruct (split_ws (strip line)) as [|a [|b [|c [|? ?]]]]; auto with adv; try (apply adv_ok; lia). }
  adv_if.
  { destruct (split_ws (strip line)) as [|a [|b [|c [|? ?]]]]; auto with adv; try (apply adv_ok; lia). }
  adv_if; [apply adv_ok; lia|].
  adv_if.
  { destruct (arrow_rest _); [destruct (extract_target_and_args _)|]; apply adv_ok; lia. }
  adv_if.
  { destruct (strip_inline_comment _) as [code cm].
    pose proof (extract_multiline_consumes lines i code) as Hc.
    destruct (extract_multiline_expression lines i code) as [cc n]. simpl in Hc.
    destruct (py_stmt_ok pp cc); auto with adv. apply adv_ok; lia. }
  adv_if.
  { apply adv_bind; [apply Good_ood, validate_choice_syntax_ood|]. intros _ _.
    apply adv_bind; [apply Good_ood, ood_retag, parse_choice_line_ood|].
    intros [[text target args cond sticky sec tags blk]|] _; auto with adv.
    destruct (String.eqb target "@join").
    - apply adv_bind; [apply Good_join|].
      intros [[bc be] n] _. apply adv_ok; lia.
    - apply adv_ok; lia. }
  adv_if.
  { adv_if.
    - apply adv_bind; [apply Good_ood, ood_retag, parse_content_line_ood|]. intros; apply adv_ok; lia.
    - apply adv_bind; [apply Good_ood, ood_retag, parse_content_line_ood|]. intros; apply adv_ok; lia. }
  apply adv_ok; lia.
Qed.

Lemma parse_step_adv : forall lines i line st,
  nth_error lines i = Some line -> adv i (parse_step pp xs lines i line st).
Proof.
  intros lines i line st Hl. unfold parse_step.
  match goal with |- adv _ (match ?p with inl _ => _ | inr _ => _ end) =>
    assert (Hp : forall r, p = inr r -> i < snd r); [|destruct p as [st1|r] eqn:Ep] end.
  { intros r. repeat match goal with |- context [if ?b then _ else _] => destruct b end;
      intros H; inversion H; subst; simpl; lia. }
  2:{ destruct r as [s j]. apply adv_ok. apply (Hp (s, j)); reflexivity. }
  clear Hp Ep.
  adv_if; [apply adv_ok; lia|].
  match goal with |- adv _ (match ?p with inl _ => _ | inr _ => _ end) =>
    assert (Hp : forall r, p = inr r -> i < snd r); [|destruct p as [st2|r] eqn:Ep] end.
  { intros r. repeat match goal with
                     | |- context [if ?b then _ else _] => destruct b
                     | |- context [match find_char ?a ?b with _ => _ end] => destruct (find_char a b)
                     end;
      intros H; inversion H; subst; simpl; lia. }
  2:{ destruct r as [s j]. apply adv_ok. apply (Hp (s, j)); reflexivity. }
  clear Hp Ep.
  adv_if; [apply adv_ok; lia|].
  adv_if.
  { destruct (strip_inline_comment _) as [hdr cm]. destruct (extract_passage_params hdr) as [nwp ps].
    destruct (parse_tags nwp) as [name tags].
    apply adv_bind; [apply Good_ood, validate_passage_name_ood|]. intros _ _.
    apply adv_bind.
    - destruct (nonempty ps); [apply Good_ood, ood_retag, parse_passage_params_ood|apply Good_ood; auto with ood].
    - intros; apply adv_ok; lia. }
  destruct (st_current st2); [apply body_step_adv; auto|apply adv_ok; lia].
Qed.

Lemma parse_loop_good : forall fuel lines i st,
  List.length lines < fuel + i -> Good _ (parse_loop pp xs fuel lines (List.length lines) i st).
Proof.
  induction fuel as [|f IH]; intros lines i st Hf.
  - simpl. destruct (List.length lines <=? i) eqn:E; [apply Good_ood; auto with ood|].
    apply Nat.leb_gt in E. lia.
  - cbn [parse_loop]. destruct (List.length lines <=? i) eqn:E; [apply Good_ood; auto with ood|].
    apply Nat.leb_gt in E.
    destruct (nth_error lines i) as [line|] eqn:En.
    2:{ apply nth_error_None in En. lia. }
    destruct (parse_step_adv lines i line st En) as [Hs Hadv].
    apply Good_bind; auto.
    intros [st' i'] Hr. apply IH. apply Hadv in Hr. lia.
Qed.

(* ------------------------------------------------------------------------------------------- *)
(* post passes                                                                                  *)
(* ------------------------------------------------------------------------------------------- *)

Lemma validate_single_call_ood : forall ps tg a, ok_or_diag (validate_single_call pp is_call ps tg a).
Proof.
  intros ps tg a. unfold validate_single_call.
  destruct (String.eqb tg "@join"); auto with ood.
  destruct (lookup tg ps) as [tp|]; auto with ood.
  destruct (params tp) as [|p0 pr] eqn:Eps; [destruct (nonempty a); auto with ood|].
  destruct (py_call_shape pp a) as [[npos kws]|]; auto with ood.
  destruct (negb (is_call a)); auto with ood.
  destruct (str_in "*" kws || str_in "**" kws); auto with ood.
  destruct (has_repeat kws); auto with ood.
  destruct (List.length (p0 :: pr) <? npos) eqn:El; auto with ood.
  destruct (existsb _ kws); auto with ood.
  apply Nat.ltb_ge in El.
  destruct (add_positional_ok npos (map pname (p0 :: pr)) 0 []) as [r Hr].
  { rewrite map_length. lia. }
  rewrite Hr. simpl pbind. repeat ood_step; auto with ood.
Qed.

Section Walk.
Variable ps : list (string * passage).

Lemma check_choices_ood : forall cs, ok_or_diag (check_choices pp is_call ps cs).
Proof.
  induction cs as [|c r IH]; simpl; auto with ood.
  apply ood_bind; [apply validate_single_call_ood|auto].
Qed.

Definition toks_fix := fix toks (l : list token) : pres unit :=
  match l with
  | [] => POk tt
  | x :: r => let* _ := check_token pp is_call ps x in toks r
  end.

Lemma toks_fix_eq : forall l, toks_fix l = check_tokens pp is_call ps l.
Proof. induction l as [|x r IH]; simpl; auto. destruct (check_token pp is_call ps x); simpl; auto. Qed.

Lemma check_tokens_ood : forall l,
  Forall (fun t => ok_or_diag (check_token pp is_call ps t)) l -> ok_or_diag (check_tokens pp is_call ps l).
Proof.
  induction 1; simpl; auto with ood. apply ood_bind; auto.
Qed.

Lemma check_token_ood : forall t, ok_or_diag (check_token pp is_call ps t).
Proof.
  induction t using token_ind'; try (simpl; auto with ood; fail).
  - (* TCond *)
    simpl. induction H as [|[c cont chs] r [Hcont Hchs] Hr IH]; auto with ood.
    apply ood_bind; [apply check_choices_ood|]. intros _ _.
    apply ood_bind; [|intros; apply IH].
    change (ok_or_diag (toks_fix cont)). rewrite toks_fix_eq. apply check_tokens_ood. exact Hcont.
  - (* TLoop *)
    simpl. apply ood_bind; [apply check_choices_ood|]. intros _ _.
    change (ok_or_diag (toks_fix cont)). rewrite toks_fix_eq. apply check_tokens_ood. exact H.
  - (* TJump *)
    simpl. destruct (String.eqb _ "@join"); [auto with ood|apply validate_single_call_ood].
Qed.

Lemma check_tokens_ood' : forall l, ok_or_diag (check_tokens pp is_call ps l).
Proof. intros. apply check_tokens_ood. apply Forall_forall. intros. apply check_token_ood. Qed.

Lemma validate_passages_ood : forall todo, ok_or_diag (validate_passages pp is_call ps todo).
Proof.
  induction todo as [|[k p] r IH]; simpl; auto with ood.
  apply ood_bind; [apply check_choices_ood|]. intros _ _.
  apply ood_bind; [apply check_tokens_ood'|auto].
Qed.
End Walk.

Lemma check_duplicate_ood : forall locs, ok_or_diag (check_duplicate_passages locs).
Proof. intros. unfold check_duplicate_passages. destruct (existsb _ _); auto with ood. Qed.

Lemma startable_ood : forall ps n, has_key n ps = true -> ok_or_diag (startable ps n).
Proof.
  intros ps n H. unfold startable, has_key in *. destruct (lookup n ps); [|discriminate].
  destruct (existsb _ _); auto with ood.
Qed.

Lemma has_key_head0 : forall A k (p : A) r, has_key k ((k, p) :: r) = true.
Proof. intros. unfold has_key. simpl. rewrite String.eqb_refl. reflexivity. Qed.

Lemma determine_initial_ood : forall ps es, ok_or_diag (determine_initial_passage ps es).
Proof.
  intros. unfold determine_initial_passage. destruct ps as [|[k p] r]; auto with ood.
  assert (F : ok_or_diag (startable ((k, p) :: r) (if has_key "Start" ((k, p) :: r) then "Start" else k))).
  { apply startable_ood. destruct (has_key "Start" ((k, p) :: r)) eqn:E; [exact E|apply has_key_head0]. }
  destruct es as [s|]; auto. destruct (nonempty s); auto.
  destruct (has_key s ((k, p) :: r)) eqn:E; [apply startable_ood; exact E|auto with ood].
Qed.

Lemma parse_good : forall lines, Good _ (parse pp is_call xs lines).
Proof.
  intros lines. unfold parse.
  apply Good_bind; [apply parse_loop_good; lia|]. intros st _.
  apply Good_bind; [apply Good_ood, check_duplicate_ood|]. intros _ _.
  apply Good_bind; [apply Good_ood, validate_passages_ood|]. intros _ _.
  apply Good_bind; [apply Good_ood, determine_initial_ood|]. intros; apply Good_ood; auto with ood.
Qed.

End MainLoop.

(* ---- instance 1: arbitrary extractors ---- *)

Lemma safe_ood : forall xs A (m : pres A), ok_or_diag m -> safe xs m.
Proof. intros xs A m [[a H]|[d H]]; subst; simpl; auto. Qed.

Lemma safe_bind : forall xs A B (m : pres A) (f : A -> pres B),
  safe xs m -> (forall a, m = POk a -> safe xs (f a)) -> safe xs (pbind m f).
Proof. intros xs A B [a|d|k|] f Hm Hf; simpl in *; auto. Qed.

Lemma parse_safe : forall pp is_call xs, extractors_ok xs -> forall lines, safe xs (parse pp is_call xs lines).
Proof.
  intros pp is_call xs Hx. apply (parse_good pp is_call xs Hx (fun A => @safe xs A)).
  - intros; apply safe_ood; auto.
  - intros; apply safe_bind; auto.
  - intros lines i _. destruct (x_python xs lines i) eqn:E; simpl; auto; [left|left]; eauto.
  - intros lines i _. destruct (x_conditional xs lines i) eqn:E; simpl; auto; [right; left|right; left]; eauto.
  - intros lines i _. destruct (x_loop xs lines i) eqn:E; simpl; auto; [right; right; left|right; right; left]; eauto.
  - intros lines i n. destruct (x_join xs lines i n) eqn:E; simpl; auto; [right; right; right|right; right; right]; eauto.
Qed.

Lemma parse_loop_safe : forall pp xs, extractors_ok xs -> forall lines,
  safe xs (parse_loop pp xs (S (List.length lines)) lines (List.length lines) 0 init_state).
Proof.
  intros pp xs Hx lines. apply (parse_loop_good pp xs Hx (fun A => @safe xs A)); try lia.
  - intros; apply safe_ood; auto.
  - intros; apply safe_bind; auto.
  - intros ls i _. destruct (x_python xs ls i) eqn:E; simpl; auto; [left|left]; eauto.
  - intros ls i _. destruct (x_conditional xs ls i) eqn:E; simpl; auto; [right; left|right; left]; eauto.
  - intros ls i _. destruct (x_loop xs ls i) eqn:E; simpl; auto; [right; right; left|right; right; left]; eauto.
  - intros ls i n. destruct (x_join xs ls i n) eqn:E; simpl; auto; [right; right; right|right; right; right]; eauto.
Qed.

(* ---- instance 2: extractors that are total where the loop calls them ---- *)

Lemma parse_total_sites : forall pp is_call xs,
  extractors_ok xs -> call_sites_total xs -> forall lines, ok_or_diag (parse pp is_call xs lines).
Proof.
  intros pp is_call xs Hx [H1 [H2 [H3 H4]]].
  apply (parse_good pp is_call xs Hx (fun A => @ok_or_diag A)); auto.
  intros; apply ood_bind; auto.
Qed.

(* ------------------------------------------------------------------------------------------- *)
(* C12, structural half: what holds of every story that parse returns                           *)
(* ------------------------------------------------------------------------------------------- *)

Lemma pbind_ok : forall A B (m : pres A) (f : A -> pres B) b,
  pbind m f = POk b -> exists a, m = POk a /\ f a = POk b.
Proof. intros A B [a|d|k|] f b H; simpl in H; try discriminate. eauto. Qed.

(* --- initial passage --- *)

(* @start > "Start" > first passage *)
Definition follows_priority (ps : list (string * passage)) (es : option string) (i : string) : Prop :=
  let default := if has_key "Start" ps then i = "Start" else exists p r, ps = (i, p) :: r in
  match es with
  | Some s => if nonempty s then i = s else default
  | None => default
  end.

Lemma has_key_head : forall A k (p : A) r, has_key k ((k, p) :: r) = true.
Proof. intros. unfold has_key. simpl. rewrite String.eqb_refl. reflexivity. Qed.

Lemma startable_spec : forall ps n j, startable ps n = POk j ->
  j = n /\ exists p, lookup n ps = Some p /\
                     existsb (fun q => match pdefault q with None => true | Some _ => false end) (params p) = false.
Proof.
  intros ps n j H. unfold startable in H. destruct (lookup n ps) as [p|]; [|discriminate].
  destruct (existsb _ _) eqn:E; inversion H; subst. split; [reflexivity|]. exists p. auto.
Qed.

Lemma determine_initial_spec : forall ps es i,
  determine_initial_passage ps es = POk i -> has_key i ps = true /\ follows_priority ps es i.
Proof.
  intros ps es i H. unfold determine_initial_passage in H. unfold follows_priority.
  destruct ps as [|[k p] r]; try discriminate.
  assert (D : forall j, startable ((k, p) :: r) (if has_key "Start" ((k, p) :: r) then "Start" else k) = POk j ->
              has_key j ((k, p) :: r) = true /\
              (if has_key "Start" ((k, p) :: r) then j = "Start" else exists p0 r0, (k, p) :: r = (j, p0) :: r0)).
  { intros j Hj. apply startable_spec in Hj. destruct Hj as [-> _].
    destruct (has_key "Start" ((k, p) :: r)) eqn:E; auto.
    split; [apply has_key_head|eauto]. }
  destruct es as [s|]; auto.
  destruct (nonempty s); auto.
  destruct (has_key s ((k, p) :: r)) eqn:E; [|discriminate].
  apply startable_spec in H. destruct H as [-> _]. auto.
Qed.

(* the initial passage can be entered without arguments (fix 15f0a5b) *)
Lemma determine_initial_startable : forall ps es i,
  determine_initial_passage ps es = POk i ->
  exists p, lookup i ps = Some p /\
            existsb (fun q => match pdefault q with None => true | Some _ => false end) (params p) = false.
Proof.
  intros ps es i H. unfold determine_initial_passage in H.
  destruct ps as [|[k p] r]; try discriminate.
  destruct es as [s|]; [destruct (nonempty s); [destruct (has_key s ((k, p) :: r)); [|discriminate]|]|];
    apply startable_spec in H; destruct H as [-> H]; exact H.
Qed.

(* --- keys are ids --- *)

Definition keys_ok (l : list (string * ppassage)) : Prop := forall k p, In (k, p) l -> pp_id p = k.

Lemma keys_ok_set_key : forall l p, keys_ok l -> keys_ok (set_key (pp_id p) p l).
Proof.
  induction l as [|[k0 p0] r IH]; intros p H k q Hin; simpl in *.
  - destruct Hin as [Hin|[]]. inversion Hin; subst; auto.
  - destruct (String.eqb (pp_id p) k0) eqn:E.
    + destruct Hin as [Hin|Hin]; [inversion Hin; subst; auto|]. apply H. right; auto.
    + destruct Hin as [Hin|Hin]; [inversion Hin; subst; apply H; left; auto|].
      eapply IH; eauto. intros k' p' H'. apply H. right; auto.
Qed.

Lemma keys_ok_flush : forall st, keys_ok (st_passages st) -> keys_ok (flush_current st).
Proof. intros st H. unfold flush_current. destruct (st_current st); auto. apply keys_ok_set_key; auto. Qed.

Section Structure.
Variable pp : pyparse.
Variable is_call : string -> bool.
Variable xs : extractors.

(* a property of the state an iteration returns *)
Definition lift (R : pstate -> Prop) (m : pres (pstate * nat)) : Prop :=
  forall st' i', m = POk (st', i') -> R st'.

Lemma lift_ok : forall (R : pstate -> Prop) st i, R st -> lift R (POk (st, i)).
Proof. intros R st i H st' i' E. inversion E; subst; auto. Qed.
Lemma lift_diag : forall R d, lift R (PDiag d).
Proof. intros R d st' i' E. discriminate. Qed.
Lemma lift_bind : forall A R (m : pres A) f, (forall a, lift R (f a)) -> lift R (pbind m f).
Proof. intros A R [a|d|k|] f H st' i' E; simpl in E; try discriminate. eapply H; eauto. Qed.

Ltac lift_if := match goal with |- lift _ (if ?b then _ else _) => destruct b end.

(* an iteration inside a passage only replaces the passage being built *)
Lemma body_step_shape : forall (R : pstate -> Prop) lines i line st cp,
  R st -> (forall cp', pp_id cp' = pp_id cp -> R (set_current st cp')) ->
  lift R (body_step pp xs lines i line st cp).
Proof.
  intros R lines i line st cp H0 H1. unfold body_step.
  lift_if; [apply lift_ok; auto|].
  lift_if; [apply lift_bind; intros [? ?]; apply lift_ok; auto|].
  lift_if; [apply lift_bind; intros [? ?]; apply lift_ok; auto|].
  lift_if; [apply lift_bind; intros [? ?]; apply lift_ok; auto|].
  lift_if; [apply lift_bind; intros [?|]; apply lift_ok; auto|].
  lift_if; [apply lift_bind; intros [?|]; apply lift_ok; auto|].
  lift_if.
  { destruct (split_ws (strip line)) as [|a [|b [|c [|? ?]]]]; try apply lift_diag. apply lift_ok; auto. }
  lift_if.
  { destruct (split_ws (strip line)) as [|a [|b [|c [|? ?]]]]; try apply lift_diag. apply lift_ok; auto. }
  lift_if; [apply lift_ok; auto|].
  lift_if.
  { destruct (arrow_rest _); [destruct (extract_target_and_args _)|]; apply lift_ok; auto. }
  lift_if.
  { destruct (strip_inline_comment _). destruct (extract_multiline_expression _ _ _).
    destruct (py_stmt_ok _ _); [apply lift_ok; auto|apply lift_diag]. }
  lift_if.
  { apply lift_bind. intros _. apply lift_bind.
    intros [[text target args cond sticky sec tags blk]|]; [|apply lift_diag].
    destruct (String.eqb target "@join").
    - apply lift_bind. intros [[? ?] ?]. apply lift_ok; auto.
    - apply lift_ok; auto. }
  lift_if.
  { lift_if; apply lift_bind; intros; apply lift_ok; auto. }
  apply lift_ok; auto.
Qed.

Lemma parse_step_keys : forall lines i line st,
  keys_ok (st_passages st) -> lift (fun s => keys_ok (st_passages s)) (parse_step pp xs lines i line st).
Proof.
  intros lines i line st0 H. unfold parse_step.
  match goal with |- lift _ (match ?p with inl _ => _ | inr _ => _ end) =>
    assert (Hp : (forall s, p = inl s -> st_passages s = st_passages st0) /\
                 (forall s j, p = inr (s, j) -> st_passages s = st_passages st0));
      [|destruct p as [st1|[s j]]] end.
  { split; intros; repeat match goal with H : context [if ?b then _ else _] |- _ => destruct b end;
      match goal with H : _ = _ |- _ => inversion H; subst; reflexivity end. }
  2:{ destruct Hp as [_ Hp]. apply lift_ok. rewrite (Hp s j eq_refl). auto. }
  destruct Hp as [Hp _]. specialize (Hp st1 eq_refl).
  lift_if; [apply lift_ok; simpl; rewrite Hp; auto|].
  match goal with |- lift _ (match ?p with inl _ => _ | inr _ => _ end) =>
    assert (Hq : (forall s, p = inl s -> st_passages s = st_passages st1) /\
                 (forall s j, p = inr (s, j) -> st_passages s = st_passages st1));
      [|destruct p as [st2|[s j]]] end.
  { split; intros;
      repeat match goal with
             | H : context [if ?b then _ else _] |- _ => destruct b
             | H : context [match find_char ?a ?b with _ => _ end] |- _ => destruct (find_char a b)
             end;
      match goal with H : _ = _ |- _ => inversion H; subst; reflexivity end. }
  2:{ destruct Hq as [_ Hq]. apply lift_ok. rewrite (Hq s j eq_refl), Hp. auto. }
  destruct Hq as [Hq _]. specialize (Hq st2 eq_refl).
  assert (H2 : keys_ok (st_passages st2)) by (rewrite Hq, Hp; auto).
  lift_if; [apply lift_ok; simpl; auto|].
  lift_if.
  { destruct (strip_inline_comment _). destruct (extract_passage_params _). destruct (parse_tags _).
    apply lift_bind. intros _. apply lift_bind. intros ps. apply lift_ok. simpl.
    apply keys_ok_flush; auto. }
  destruct (st_current st2); [|apply lift_ok; auto].
  apply body_step_shape; simpl; auto.
Qed.

Lemma parse_loop_keys : forall fuel lines n i st st',
  keys_ok (st_passages st) -> parse_loop pp xs fuel lines n i st = POk st' -> keys_ok (st_passages st').
Proof.
  induction fuel as [|f IH]; intros lines n i st st' H E; simpl in E.
  - destruct (n <=? i); [inversion E; subst; auto|discriminate].
  - destruct (n <=? i); [inversion E; subst; auto|].
    destruct (nth_error lines i) as [line|]; try discriminate.
    apply pbind_ok in E. destruct E as [[st1 i1] [E1 E2]].
    eapply IH; [|exact E2]. eapply (parse_step_keys lines i line st H); eauto.
Qed.

(* --- passage names are valid names --- *)

Definition names_ok (st : pstate) : Prop :=
  (forall k p, In (k, p) (st_passages st) -> valid_passage_pattern k = true) /\
  (forall cp, st_current st = Some cp -> valid_passage_pattern (pp_id cp) = true).

Lemma validate_passage_name_valid : forall name i,
  validate_passage_name name i = POk tt -> valid_passage_pattern name = true.
Proof.
  intros name i H. unfold validate_passage_name in H.
  destruct (negb (nonempty name) || isspace name); [discriminate|].
  destruct (valid_passage_pattern name); auto.
  destruct (str_contains name " "); [discriminate|].
  destruct (str_contains name "-"); [discriminate|]. destruct name; discriminate.
Qed.

Lemma set_key_names : forall (l : list (string * ppassage)) k v,
  (forall k0 p, In (k0, p) l -> valid_passage_pattern k0 = true) -> valid_passage_pattern k = true ->
  forall k0 p, In (k0, p) (set_key k v l) -> valid_passage_pattern k0 = true.
Proof.
  induction l as [|[k1 p1] r IH]; intros k v H Hk k0 p Hin; simpl in Hin.
  - destruct Hin as [E|[]]. inversion E; subst; auto.
  - destruct (String.eqb k k1).
    + destruct Hin as [E|Hin]; [inversion E; subst; auto|]. eapply H; right; eauto.
    + destruct Hin as [E|Hin]; [inversion E; subst; eapply H; left; eauto|].
      eapply IH; eauto. intros; eapply H; right; eauto.
Qed.

Lemma flush_names : forall st, names_ok st ->
  forall k p, In (k, p) (flush_current st) -> valid_passage_pattern k = true.
Proof.
  intros st [H1 H2] k p Hin. unfold flush_current in Hin.
  destruct (st_current st) as [cp|] eqn:E; [|eauto].
  eapply set_key_names; eauto.
Qed.

Lemma parse_step_names : forall lines i line st,
  names_ok st -> lift names_ok (parse_step pp xs lines i line st).
Proof.
  intros lines i line st0 Hn0. unfold parse_step.
  match goal with |- lift _ (match ?p with inl _ => _ | inr _ => _ end) =>
    assert (Hp : (forall s, p = inl s -> names_ok s) /\ (forall s j, p = inr (s, j) -> names_ok s));
      [|destruct p as [st1|[s j]]] end.
  { split; intros; repeat match goal with H : context [if ?b then _ else _] |- _ => destruct b end;
      match goal with H : _ = _ |- _ => inversion H; subst; exact Hn0 end. }
  2:{ destruct Hp as [_ Hp]. apply lift_ok. apply (Hp s j eq_refl). }
  destruct Hp as [Hp _]. specialize (Hp st1 eq_refl).
  lift_if; [apply lift_ok; exact Hp|].
  match goal with |- lift _ (match ?p with inl _ => _ | inr _ => _ end) =>
    assert (Hq : (forall s, p = inl s -> names_ok s) /\ (forall s j, p = inr (s, j) -> names_ok s));
      [|destruct p as [st2|[s j]]] end.
  { split; intros;
      repeat match goal with
             | H : context [if ?b then _ else _] |- _ => destruct b
             | H : context [match find_char ?a ?b with _ => _ end] |- _ => destruct (find_char a b)
             end;
      match goal with H : _ = _ |- _ => inversion H; subst; exact Hp end. }
  2:{ destruct Hq as [_ Hq]. apply lift_ok. apply (Hq s j eq_refl). }
  destruct Hq as [Hq _]. specialize (Hq st2 eq_refl).
  lift_if; [apply lift_ok; exact Hq|].
  lift_if.
  { destruct (strip_inline_comment _). destruct (extract_passage_params _). destruct (parse_tags _) as [name tags].
    intros st' i' E. apply pbind_ok in E. destruct E as [[] [Ev E]].
    apply pbind_ok in E. destruct E as [ps [_ E]]. inversion E; subst. clear E.
    apply validate_passage_name_valid in Ev.
    split; simpl.
    - apply flush_names; auto.
    - intros cp Hc. inversion Hc; subst. simpl. auto. }
  destruct (st_current st2) as [cp|] eqn:Ec; [|apply lift_ok; auto].
  destruct Hq as [Hq1 Hq2].
  apply body_step_shape; [split; auto|].
  intros cp' Hid. split; simpl; auto. intros cp0 Hc0. inversion Hc0; subst. rewrite Hid. auto.
Qed.

Lemma parse_loop_names : forall fuel lines n i st st',
  names_ok st -> parse_loop pp xs fuel lines n i st = POk st' -> names_ok st'.
Proof.
  induction fuel as [|f IH]; intros lines n i st st' H E; simpl in E.
  - destruct (n <=? i); [inversion E; subst; auto|discriminate].
  - destruct (n <=? i); [inversion E; subst; auto|].
    destruct (nth_error lines i) as [line|]; try discriminate.
    apply pbind_ok in E. destruct E as [[st1 i1] [E1 E2]].
    eapply IH; [|exact E2]. eapply (parse_step_names lines i line st H); eauto.
Qed.

(* what `parse` returns, taken apart *)
Lemma parse_inv : forall lines0 story,
  parse pp is_call xs lines0 = POk story ->
  exists fs,
    (let lines := strip_comments_outside_python lines0 None false 0 in
     parse_loop pp xs (S (List.length lines)) lines (List.length lines) 0 init_state = POk fs) /\
    keys_ok (flush_current fs) /\
    (forall k p, In (k, p) (flush_current fs) -> valid_passage_pattern k = true) /\
    passages story = map (fun kv => (fst kv, finish_passage (snd kv))) (flush_current fs) /\
    validate_passage_arguments pp is_call (passages story) = POk tt /\
    determine_initial_passage (passages story) (st_explicit_start fs) = POk (initial story).
Proof.
  intros lines0 story H. unfold parse in H.
  apply pbind_ok in H. destruct H as [fs [E1 H]].
  apply pbind_ok in H. destruct H as [[] [E2 H]].
  apply pbind_ok in H. destruct H as [[] [E3 H]].
  apply pbind_ok in H. destruct H as [ini [E4 H]].
  inversion H; subst; clear H. simpl.
  exists fs. repeat split; auto.
  - apply keys_ok_flush. eapply parse_loop_keys; [|exact E1]. intros k p [].
  - apply flush_names. eapply parse_loop_names; [|exact E1]. split; [intros k p []|discriminate].
Qed.

End Structure.

(* --- targets --- *)

Definition target_defined (ps : list (string * passage)) (tg : string) : Prop :=
  tg = "@join" \/ has_key tg ps = true.

Definition choices_targets_ok (ps : list (string * passage)) (cs : list choice) : Prop :=
  Forall (fun c => target_defined ps (ch_target c)) cs.

(* every jump target and every choice target of the token tree, at any depth of conditionals and
   loops, is defined *)
Fixpoint targets_ok (ps : list (string * passage)) (t : token) {struct t} : Prop :=
  let toks := fix toks (l : list token) : Prop :=
      match l with [] => True | x :: r => targets_ok ps x /\ toks r end in
  let brs := fix brs (l : list branch) : Prop :=
      match l with
      | [] => True
      | Branch _ cont chs :: r => choices_targets_ok ps chs /\ toks cont /\ brs r
      end in
  match t with
  | TJump tg _ => has_key tg ps = true              (* a jump cannot target @join (fix 3c6eb71) *)
  | TCond branches => brs branches
  | TLoop _ _ cont chs => choices_targets_ok ps chs /\ toks cont
  | _ => True
  end.

Definition tokens_targets_ok (ps : list (string * passage)) (l : list token) : Prop :=
  Forall (targets_ok ps) l.

Section Targets.
Variable pp : pyparse.
Variable is_call : string -> bool.
Variable ps : list (string * passage).

Lemma validate_single_call_target : forall tg a,
  validate_single_call pp is_call ps tg a = POk tt -> target_defined ps tg.
Proof.
  intros tg a H. unfold validate_single_call in H. unfold target_defined.
  destruct (String.eqb tg "@join") eqn:E; [left; apply String.eqb_eq; auto|].
  right. unfold has_key. destruct (lookup tg ps); auto. discriminate.
Qed.

Lemma check_choices_targets : forall cs,
  check_choices pp is_call ps cs = POk tt -> choices_targets_ok ps cs.
Proof.
  induction cs as [|c r IH]; intros H; [constructor|]. simpl in H.
  apply pbind_ok in H. destruct H as [[] [H1 H2]].
  constructor; [eapply validate_single_call_target; eauto|apply IH; auto].
Qed.

Definition toks_ok_fix := fix toks (l : list token) : Prop :=
  match l with [] => True | x :: r => targets_ok ps x /\ toks r end.

Lemma toks_ok_fix_eq : forall l, toks_ok_fix l <-> tokens_targets_ok ps l.
Proof.
  induction l as [|x r IH]; simpl; split; intros H; auto.
  - constructor.
  - destruct H as [H1 H2]. constructor; auto. apply IH; auto.
  - inversion H; subst. split; auto. apply IH; auto.
Qed.

Lemma check_tokens_targets_aux : forall l,
  Forall (fun t => check_token pp is_call ps t = POk tt -> targets_ok ps t) l ->
  check_tokens pp is_call ps l = POk tt -> tokens_targets_ok ps l.
Proof.
  induction 1 as [|x r Hx Hr IH]; intros H; [constructor|]. simpl in H.
  apply pbind_ok in H. destruct H as [[] [H1 H2]]. constructor; auto. apply IH; auto.
Qed.

Lemma check_token_targets : forall t, check_token pp is_call ps t = POk tt -> targets_ok ps t.
Proof.
  induction t using token_ind'; intros E; try exact I.
  - (* TCond *)
    simpl in *. induction H as [|[c cont chs] r [Hcont Hchs] Hr IH]; auto.
    apply pbind_ok in E. destruct E as [[] [E1 E]].
    apply pbind_ok in E. destruct E as [[] [E2 E3]].
    split; [apply check_choices_targets; auto|]. split; [|apply IH; auto].
    change (toks_ok_fix cont). apply toks_ok_fix_eq.
    apply check_tokens_targets_aux; [exact Hcont|].
    rewrite <- (toks_fix_eq pp is_call ps). exact E2.
  - (* TLoop *)
    simpl in *. apply pbind_ok in E. destruct E as [[] [E1 E2]].
    split; [apply check_choices_targets; auto|].
    change (toks_ok_fix cont). apply toks_ok_fix_eq.
    apply check_tokens_targets_aux; [exact H|].
    rewrite <- (toks_fix_eq pp is_call ps). exact E2.
  - (* TJump *)
    simpl in E. simpl.
    match type of E with (if String.eqb ?tg "@join" then _ else _) = _ =>
      destruct (String.eqb tg "@join") eqn:Ej; [discriminate|];
      destruct (validate_single_call_target _ _ E) as [Hj|Hk]; [|exact Hk];
      subst tg; discriminate
    end.
Qed.

Lemma check_tokens_targets : forall l,
  check_tokens pp is_call ps l = POk tt -> tokens_targets_ok ps l.
Proof.
  intros l. apply check_tokens_targets_aux. apply Forall_forall. intros t _. apply check_token_targets.
Qed.

Lemma validate_passages_targets : forall todo,
  validate_passages pp is_call ps todo = POk tt ->
  forall k p, In (k, p) todo -> choices_targets_ok ps (choices p) /\ tokens_targets_ok ps (content p).
Proof.
  induction todo as [|[k0 p0] r IH]; intros H k p Hin; [destruct Hin|]. simpl in H.
  apply pbind_ok in H. destruct H as [[] [H1 H]].
  apply pbind_ok in H. destruct H as [[] [H2 H3]].
  destruct Hin as [Hin|Hin].
  - inversion Hin; subst. split; [apply check_choices_targets|apply check_tokens_targets]; auto.
  - eapply IH; eauto.
Qed.
End Targets.

(* ------------------------------------------------------------------------------------------- *)
(* the statements of Props/C11.v                                                                *)
(* ------------------------------------------------------------------------------------------- *)

Lemma line_functions_total_lemma :
  (forall s, ok_or_diag (parse_content_line s)) /\
  (forall s, ok_or_diag (parse_inline_conditional s)) /\
  (forall s, ok_or_diag (split_expressions_with_depth s)) /\
  (forall s, ok_or_diag (parse_choice_line s)) /\
  (forall s i, ok_or_diag (validate_choice_syntax s i)) /\
  (forall s i, ok_or_diag (validate_passage_name s i)) /\
  (forall s, ok_or_diag (parse_passage_params s)) /\
  (forall c s, ok_or_diag (parse_render_line c s)) /\
  (forall c s, ok_or_diag (parse_input_line c s)).
Proof.
  repeat split; intros.
  - apply parse_content_line_ood.
  - apply parse_inline_conditional_ood.
  - apply split_expressions_ood.
  - apply parse_choice_line_ood.
  - apply validate_choice_syntax_ood.
  - apply validate_passage_name_ood.
  - apply parse_passage_params_ood.
  - apply parse_render_line_ood.
  - apply parse_input_line_ood.
Qed.

Lemma parse_ok_initial_lemma : forall pp is_call xs lines0 story,
  parse pp is_call xs lines0 = POk story ->
  has_key (initial story) (passages story) = true /\
  exists fs,
    (let lines := strip_comments_outside_python lines0 None false 0 in
     parse_loop pp xs (S (List.length lines)) lines (List.length lines) 0 init_state = POk fs) /\
    follows_priority (passages story) (st_explicit_start fs) (initial story).
Proof.
  intros pp is_call xs lines0 story H. apply parse_inv in H.
  destruct H as [fs [H0 [_ [_ [_ [_ H]]]]]]. apply determine_initial_spec in H. destruct H as [H1 H2].
  split; auto. exists fs. split; auto.
Qed.

Lemma parse_ok_initial_startable_lemma : forall pp is_call xs lines0 story,
  parse pp is_call xs lines0 = POk story ->
  exists p, lookup (initial story) (passages story) = Some p /\
            existsb (fun q => match pdefault q with None => true | Some _ => false end) (params p) = false.
Proof.
  intros pp is_call xs lines0 story H. apply parse_inv in H.
  destruct H as [fs [_ [_ [_ [_ [_ H]]]]]]. apply determine_initial_startable in H. exact H.
Qed.

Lemma parse_ok_keys_lemma : forall pp is_call xs lines0 story,
  parse pp is_call xs lines0 = POk story ->
  forall k p, In (k, p) (passages story) -> pid p = k.
Proof.
  intros pp is_call xs lines0 story H k p Hin. apply parse_inv in H.
  destruct H as [fs [_ [Hk [_ [Hp _]]]]]. rewrite Hp in Hin. apply in_map_iff in Hin.
  destruct Hin as [[k0 p0] [E Hin]]. simpl in E. inversion E; subst. simpl. apply Hk; auto.
Qed.

Lemma parse_ok_names_lemma : forall pp is_call xs lines0 story,
  parse pp is_call xs lines0 = POk story ->
  forall k p, In (k, p) (passages story) -> valid_passage_pattern k = true.
Proof.
  intros pp is_call xs lines0 story H k p Hin. apply parse_inv in H.
  destruct H as [fs [_ [_ [Hn [Hp _]]]]]. rewrite Hp in Hin. apply in_map_iff in Hin.
  destruct Hin as [[k0 p0] [E Hin]]. simpl in E. inversion E; subst. eapply Hn; eauto.
Qed.

Lemma validated_targets_lemma : forall pp is_call xs lines0 story,
  parse pp is_call xs lines0 = POk story ->
  forall k p, In (k, p) (passages story) ->
    choices_targets_ok (passages story) (choices p) /\ tokens_targets_ok (passages story) (content p).
Proof.
  intros pp is_call xs lines0 story H k p Hin. apply parse_inv in H.
  destruct H as [fs [_ [_ [_ [_ [Hv _]]]]]]. eapply validate_passages_targets; eauto.
Qed.

Lemma parse_never_out_of_fuel_lemma : forall pp xs lines,
  extractors_ok xs ->
  parse_loop pp xs (S (List.length lines)) lines (List.length lines) 0 init_state = POutOfFuel ->
  xs_fuel xs.
Proof.
  intros pp xs lines Hx H. pose proof (parse_loop_safe pp xs Hx lines) as S. rewrite H in S. exact S.
Qed.

Lemma parse_whole_never_out_of_fuel_lemma : forall pp is_call xs lines,
  extractors_ok xs -> parse pp is_call xs lines = POutOfFuel -> xs_fuel xs.
Proof.
  intros pp is_call xs lines Hx H. pose proof (parse_safe pp is_call xs Hx lines) as S. rewrite H in S. exact S.
Qed.

Lemma parse_total_partial_lemma : forall pp is_call xs,
  extractors_ok xs ->
  forall lines,
    match parse pp is_call xs lines with
    | POk _ | PDiag _ => True
    | PInternal k => xs_internal xs k
    | POutOfFuel => xs_fuel xs
    end.
Proof. intros pp is_call xs Hx lines. exact (parse_safe pp is_call xs Hx lines). Qed.

(* the cap of the inline-conditional nesting: 50 levels are accepted, the 51st is a diagnostic *)
Fixpoint nested_conditional (n : nat) : string :=
  match n with
  | 0 => "b"
  | S k => "{a ? " ++ nested_conditional k ++ " | c}"
  end.

Lemma inline_depth_cap_lemma :
  is_ok (parse_content_line (nested_conditional 50)) = true /\
  parse_content_line (nested_conditional 51) = PDiag (DSyntax "content:nesting-depth" 0).
Proof. vm_compute. split; reflexivity. Qed.

(* ------------------------------------------------------------------------------------------- *)
(* witnesses used by Props/C11.v                                                                *)
(* ------------------------------------------------------------------------------------------- *)

(* the argument string  "(") + (")"  and oracles that answer as CPython's ast does on it *)
Definition binop_args : string := """("") + ("")""".
Definition binop_oracle : pyparse := mkPyparse (fun _ => true) (fun _ => Some (0, [])) (fun _ => 0).
Definition binop_is_call (a : string) : bool := negb (String.eqb a binop_args).

(* a small story and an oracle for its two call sites *)
Definition sample_oracle : pyparse :=
  mkPyparse (fun _ => true) (fun a => if String.eqb a "1" then Some (1, []) else Some (0, []))
            (fun _ => 0).

Definition sample_lines : list string :=
  ["import random"; "@start Hall"; ":: Start"; "Hello {name} // greeting"; "~ x = 1";
   "+ [Go {x ? now | later}] -> Hall(1) ^tag"; ":: Hall(n=2)"; "@render card(n)"; "-> Start"].
