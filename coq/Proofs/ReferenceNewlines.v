(* C01: the two whitespace normalisations of the compiler (Source.cleanup_ws / trim_trailing, the twins of
   validation.py's _cleanup_whitespace / _trim_trailing_newlines, which work on the compiled TOKEN list) are the
   source-level rules of Sem/ReferenceWs.v (which work on the LINES of the passage), and therefore every passage
   body without @join markers renders to the reference meaning of its normalised lines - exactly, not up to
   newlines. *)
From Coq Require Import String Ascii List Bool ZArith Arith Lia.
From Bardic Require Import PyStr Value Compiled Engine EngineBase Source Reference ReferenceProofs ReferenceWs.
Import ListNotations.
Local Open Scope list_scope.

(* ---------------------------------------------------------------------------------------------------- *)
(* small facts                                                                                          *)
(* ---------------------------------------------------------------------------------------------------- *)
Lemma c_items_cons it r : c_items (it :: r) = c_item it ++ c_items r.
Proof. reflexivity. Qed.
Lemma c_items_app a b : c_items (a ++ b) = c_items a ++ c_items b.
Proof. induction a as [|x a IH]; [reflexivity|]. simpl app. rewrite !c_items_cons, IH, app_assoc. reflexivity. Qed.
Lemma c_item_text ps g : c_item (IText ps g) = c_pieces ps ++ (if g then [] else [NL]).
Proof. reflexivity. Qed.

Lemma is_nl_c_piece p : is_nl (c_piece p) = is_nl_piece p.
Proof. destruct p; reflexivity. Qed.
Lemma is_cond_c_piece p : is_cond (c_piece p) = false.
Proof. destruct p; reflexivity. Qed.
Lemma is_nl_NL_true : is_nl NL = true.
Proof. reflexivity. Qed.

Lemma forallb_rev {A} (f : A -> bool) l : forallb f (rev l) = forallb f l.
Proof.
  induction l as [|x l IH]; [reflexivity|]. simpl. rewrite forallb_app, IH. simpl.
  rewrite andb_true_r. apply andb_comm.
Qed.
Lemma forallb_filter_weak {A} (f g : A -> bool) l : forallb f l = true -> forallb f (filter g l) = true.
Proof.
  induction l as [|x l IH]; [reflexivity|]. simpl. intros H. apply andb_true_iff in H. destruct H as [Hx Hl].
  destruct (g x); simpl; [rewrite Hx|]; apply IH; exact Hl.
Qed.

(* a line of the source, as the lemmas need it: proper, and no @join marker *)
Definition nonl (p : piece) : bool := negb (is_nl_piece p).
Definition lineb (it : item) : bool := proper_item it && negb (is_join it).

Lemma lineb_text qs g : qs <> [] -> forallb nonl qs = true -> lineb (IText qs g) = true.
Proof.
  intros Hne Hq. unfold lineb. simpl. rewrite andb_true_r. destruct qs as [|q qs']; [congruence|]. exact Hq.
Qed.

Definition plain_tok (t : token) : Prop := is_nl t = false /\ is_cond t = false.
Lemma pieces_plain ps : forallb nonl ps = true -> Forall plain_tok (c_pieces ps).
Proof.
  induction ps as [|p r IH]; intros H; [constructor|]. simpl in H. apply andb_true_iff in H. destruct H as [Hp Hr].
  simpl. constructor; [|apply IH; exact Hr]. split; [|apply is_cond_c_piece].
  rewrite is_nl_c_piece. apply negb_true_iff. exact Hp.
Qed.

(* what lineb gives for a text line *)
Lemma lineb_text_inv ps g : lineb (IText ps g) = true -> ps <> [] /\ forallb nonl ps = true.
Proof.
  unfold lineb. simpl. rewrite andb_true_r. intros H. apply andb_true_iff in H. destruct H as [Hne Hq].
  split; [|exact Hq]. destruct ps; [discriminate|discriminate].
Qed.

(* ---------------------------------------------------------------------------------------------------- *)
(* 1. _cleanup_whitespace without its accumulator                                                       *)
(* ---------------------------------------------------------------------------------------------------- *)
Definition tk (t : token) : above := if is_nl t then ANewline else if is_cond t then AIf else AOther.
Definition tkind (rk : list token) : above := match rk with x :: _ => tk x | [] => AOther end.
Definition tnext (p : token -> bool) (r : list token) : bool := match r with x :: _ => p x | [] => false end.

Fixpoint cw (ab : above) (l : list token) : list token :=
  match l with
  | [] => []
  | t :: r =>
      if is_nl t && tnext is_cond r && is_ANewline ab then cw ab r
      else if is_nl t && is_AIf ab && tnext is_nl r then cw ab r
      else t :: cw (tk t) r
  end.

Lemma last_is_nl_kind rk : last_is is_nl rk = is_ANewline (tkind rk).
Proof.
  destruct rk as [|x r]; [reflexivity|]. simpl. unfold tk. destruct (is_nl x); [reflexivity|].
  destruct (is_cond x); reflexivity.
Qed.
Lemma last_is_cond_kind rk : last_is is_cond rk = is_AIf (tkind rk).
Proof.
  destruct rk as [|x r]; [reflexivity|]. simpl. unfold tk. destruct x; simpl; try reflexivity.
  match goal with |- context [if ?b then _ else _] => destruct b end; reflexivity.
Qed.

Lemma cleanup_ws_cw l : forall rk, cleanup_ws l rk = rev rk ++ cw (tkind rk) l.
Proof.
  induction l as [|t r IH]; intros rk.
  - simpl. rewrite app_nil_r. reflexivity.
  - cbn [cleanup_ws cw]. rewrite last_is_nl_kind, last_is_cond_kind. unfold tnext.
    destruct (is_nl t && match r with x :: _ => is_cond x | [] => false end && is_ANewline (tkind rk));
      [apply IH|].
    destruct (is_nl t && is_AIf (tkind rk) && match r with x :: _ => is_nl x | [] => false end);
      [apply IH|].
    rewrite IH. simpl. rewrite <- app_assoc. reflexivity.
Qed.

Lemma cw_keep t ab rest : is_nl t = false -> cw ab (t :: rest) = t :: cw (tk t) rest.
Proof. intros H. cbn [cw]. rewrite H. reflexivity. Qed.

Lemma cw_plain toks : Forall plain_tok toks -> toks <> [] ->
  forall ab rest, cw ab (toks ++ rest) = toks ++ cw AOther rest.
Proof.
  induction 1 as [|t toks' [Hn Hc] Hr IH]; intros Hne ab rest; [congruence|].
  simpl app. rewrite cw_keep by exact Hn. unfold tk. rewrite Hn, Hc.
  destruct toks' as [|t' toks'']; [reflexivity|]. rewrite IH by discriminate. reflexivity.
Qed.

Lemma cw_nl_other rest : cw AOther (NL :: rest) = NL :: cw ANewline rest.
Proof.
  cbn [cw]. rewrite is_nl_NL_true. cbn [is_ANewline is_AIf]. rewrite andb_false_r. reflexivity.
Qed.

(* the first token of the compiled lines, read off the first line *)
Lemma tnext_items r : forallb lineb r = true ->
  tnext is_cond (c_items r) = next_is_if r /\ tnext is_nl (c_items r) = next_is_blank r.
Proof.
  destruct r as [|it r']; [split; reflexivity|]. intros H. simpl in H. apply andb_true_iff in H.
  destruct H as [Hp _]. destruct it; try (split; reflexivity).
  - apply lineb_text_inv in Hp. destruct Hp as [Hne Hq]. destruct ps as [|p ps']; [congruence|].
    simpl in Hq. apply andb_true_iff in Hq. destruct Hq as [Hq _]. apply negb_true_iff in Hq.
    rewrite c_items_cons, c_item_text. simpl. rewrite is_cond_c_piece, is_nl_c_piece, Hq. split; reflexivity.
  - discriminate Hp.
Qed.

Lemma cw_items l : forallb lineb l = true ->
  forall ab, cw ab (c_items l) = c_items (collapse_blanks ab l).
Proof.
  induction l as [|it r IH]; intros Hp ab; [reflexivity|].
  simpl in Hp. apply andb_true_iff in Hp. destruct Hp as [Hit Hr]. specialize (IH Hr).
  destruct (tnext_items r Hr) as [Hc Hn].
  destruct it; cbn [collapse_blanks]; rewrite !c_items_cons;
    try (cbn [c_item app]; rewrite cw_keep by reflexivity; f_equal; apply IH).
  - (* text line *)
    apply lineb_text_inv in Hit. destruct Hit as [Hne Hq].
    rewrite !c_item_text, <- !app_assoc.
    rewrite cw_plain; [|apply pieces_plain; exact Hq|destruct ps; [congruence|discriminate]].
    f_equal. destruct glue.
    + simpl. apply IH.
    + simpl app. rewrite cw_nl_other. f_equal. apply IH.
  - (* blank line *)
    change (c_item IBlank) with [NL]. simpl app. cbn [cw]. rewrite is_nl_NL_true, Hc, Hn.
    destruct ab, (next_is_if r), (next_is_blank r); simpl; rewrite ?c_items_cons; simpl;
      try apply IH; f_equal; apply IH.
  - (* @join marker: excluded *)
    discriminate Hit.
Qed.

Lemma collapse_lineb l : forallb lineb l = true -> forall ab, forallb lineb (collapse_blanks ab l) = true.
Proof.
  induction l as [|it r IH]; intros Hp ab; [reflexivity|].
  simpl in Hp. apply andb_true_iff in Hp. destruct Hp as [Hit Hr]. specialize (IH Hr).
  destruct it; cbn [collapse_blanks];
    try (cbn [forallb]; rewrite Hit; simpl; apply IH).
  destruct (is_AIf ab && next_is_blank r || is_ANewline ab && next_is_if r); [apply IH|].
  cbn [forallb]. simpl. apply IH.
Qed.

(* ---------------------------------------------------------------------------------------------------- *)
(* 2. _trim_trailing_newlines read forwards                                                             *)
(* ---------------------------------------------------------------------------------------------------- *)
Fixpoint tt (pn : bool) (l : list token) : list token :=
  match l with
  | [] => []
  | t :: r => if forallb is_nl l then (if pn then [] else [NL]) else t :: tt (is_nl t) r
  end.

Definition one_nl (k : nat) : list token := match k with 0 => [] | S _ => [NL] end.

Lemma forallb_repeat_nl k : forallb is_nl (repeat NL k) = true.
Proof. induction k as [|k IH]; [reflexivity|]. simpl repeat. cbn [forallb]. rewrite is_nl_NL_true, IH. reflexivity. Qed.

Lemma repeat_snoc {A} (a : A) k : repeat a k ++ [a] = a :: repeat a k.
Proof. induction k as [|k IH]; [reflexivity|]. simpl. rewrite IH. reflexivity. Qed.
Lemma rev_repeat {A} (a : A) k : rev (repeat a k) = repeat a k.
Proof. induction k as [|k IH]; [reflexivity|]. simpl. rewrite IH. apply repeat_snoc. Qed.

Lemma drop_nls_repeat k l : drop_nls (repeat NL k ++ l) = drop_nls l.
Proof. induction k as [|k IH]; [reflexivity|]. simpl repeat. simpl app. cbn [drop_nls]. rewrite is_nl_NL_true. exact IH. Qed.

Lemma tokens_decomp (l : list token) :
  exists core k, l = core ++ repeat NL k /\ (core = [] \/ exists c x, core = c ++ [x] /\ is_nl x = false).
Proof.
  induction l as [|x l IH] using rev_ind.
  - exists [], 0. split; [reflexivity|left; reflexivity].
  - destruct (is_nl x) eqn:Hx.
    + apply is_nl_NL in Hx. subst x. destruct IH as (core & k & -> & Hc).
      exists core, (S k). split; [|exact Hc]. rewrite <- app_assoc, repeat_snoc. reflexivity.
    + exists (l ++ [x]), 0. split; [simpl; rewrite app_nil_r; reflexivity|]. right. exists l, x. split; [reflexivity|exact Hx].
Qed.

Lemma trim_trailing_eq l :
  trim_trailing l = match rev l with x :: _ => if is_nl x then rev (x :: drop_nls (rev l)) else l | [] => l end.
Proof. reflexivity. Qed.

Lemma trim_repeat k : trim_trailing (repeat NL k) = one_nl k.
Proof.
  destruct k as [|k]; [reflexivity|]. rewrite trim_trailing_eq, rev_repeat. simpl repeat.
  cbv beta iota. rewrite is_nl_NL_true. cbn [drop_nls]. rewrite is_nl_NL_true.
  replace (repeat NL k) with (repeat NL k ++ []) by apply app_nil_r. rewrite drop_nls_repeat. reflexivity.
Qed.

Lemma trim_core c x k : is_nl x = false ->
  trim_trailing ((c ++ [x]) ++ repeat NL k) = (c ++ [x]) ++ one_nl k.
Proof.
  intros Hx. destruct k as [|k].
  - simpl. rewrite !app_nil_r. rewrite trim_trailing_eq, rev_unit, Hx. reflexivity.
  - rewrite trim_trailing_eq, rev_app_distr, rev_repeat, rev_unit. simpl repeat. simpl app. cbv beta iota.
    rewrite is_nl_NL_true. cbn [drop_nls]. rewrite is_nl_NL_true, drop_nls_repeat. cbn [drop_nls]. rewrite Hx.
    simpl rev. rewrite rev_involutive. reflexivity.
Qed.

Lemma tt_repeat pn k : tt pn (repeat NL k) = match k with 0 => [] | S _ => if pn then [] else [NL] end.
Proof.
  destruct k as [|k]; [reflexivity|]. simpl repeat. cbn [tt].
  change (forallb is_nl (NL :: repeat NL k)) with (forallb is_nl (repeat NL (S k))).
  rewrite forallb_repeat_nl. reflexivity.
Qed.

Lemma not_all_nl c x r : is_nl x = false -> forallb is_nl (c ++ x :: r) = false.
Proof. intros Hx. rewrite forallb_app. cbn [forallb]. rewrite Hx. simpl. apply andb_false_r. Qed.

Lemma tt_core c x k : is_nl x = false -> forall pn, tt pn ((c ++ [x]) ++ repeat NL k) = (c ++ [x]) ++ one_nl k.
Proof.
  intros Hx. induction c as [|t c IH]; intros pn.
  - simpl app. cbn [tt]. cbn [forallb]. rewrite Hx. simpl. rewrite tt_repeat. destruct k; reflexivity.
  - simpl app. cbn [tt].
    assert (Hf : forallb is_nl (t :: (c ++ [x]) ++ repeat NL k) = false).
    { cbn [forallb]. rewrite <- app_assoc. simpl app. rewrite not_all_nl by exact Hx. apply andb_false_r. }
    rewrite Hf. rewrite IH. reflexivity.
Qed.

Lemma trim_trailing_tt l : trim_trailing l = tt false l.
Proof.
  destruct (tokens_decomp l) as (core & k & -> & [->|(c & x & -> & Hx)]).
  - simpl app. rewrite trim_repeat, tt_repeat. destruct k; reflexivity.
  - rewrite trim_core, tt_core by exact Hx. reflexivity.
Qed.

Lemma tt_plain toks : Forall plain_tok toks ->
  forall pn rest, tt pn (toks ++ rest) = toks ++ tt (match toks with [] => pn | _ => false end) rest.
Proof.
  induction 1 as [|t toks' [Hn Hc] Hr IH]; intros pn rest; [reflexivity|].
  simpl app. cbn [tt forallb]. rewrite Hn. simpl. rewrite IH. destruct toks'; reflexivity.
Qed.

Lemma tt_keep t pn rest : is_nl t = false -> tt pn (t :: rest) = t :: tt false rest.
Proof. intros H. cbn [tt forallb]. rewrite H. reflexivity. Qed.

Lemma tt_all_nl b : forallb is_nl b = true -> tt true b = [].
Proof. destruct b as [|t b]; [reflexivity|]. intros H. cbn [tt]. rewrite H. reflexivity. Qed.

Lemma tt_nl pn b :
  tt pn (NL :: b) = if forallb is_nl b then (if pn then [] else [NL]) else NL :: tt true b.
Proof. cbn [tt forallb]. rewrite is_nl_NL_true. reflexivity. Qed.

Lemma all_nl_item it : lineb it = true -> forallb is_nl (c_item it) = is_blank it.
Proof.
  intros H. destruct it; try reflexivity.
  - apply lineb_text_inv in H. destruct H as [Hne Hq]. destruct ps as [|p ps']; [congruence|].
    simpl in Hq. apply andb_true_iff in Hq. destruct Hq as [Hq _]. apply negb_true_iff in Hq.
    rewrite c_item_text. simpl. rewrite is_nl_c_piece, Hq. reflexivity.
  - discriminate H.
Qed.

Lemma all_nl_items l : forallb lineb l = true -> forallb is_nl (c_items l) = forallb is_blank l.
Proof.
  induction l as [|it r IH]; intros H; [reflexivity|]. simpl in H. apply andb_true_iff in H. destruct H as [Hit Hr].
  rewrite c_items_cons, forallb_app, all_nl_item by exact Hit. rewrite IH by exact Hr. reflexivity.
Qed.

Lemma tt_items l : forallb lineb l = true -> forall pn, tt pn (c_items l) = c_items (trim_end pn l).
Proof.
  induction l as [|it r IH]; intros Hp pn; [reflexivity|].
  pose proof Hp as Hall. simpl in Hp. apply andb_true_iff in Hp. destruct Hp as [Hit Hr]. specialize (IH Hr).
  destruct it; cbn [trim_end forallb is_blank andb]; rewrite ?c_items_cons;
    try (cbn [c_item app]; rewrite tt_keep by reflexivity; f_equal; apply IH).
  - (* text line *)
    apply lineb_text_inv in Hit. destruct Hit as [Hne Hq].
    rewrite !c_item_text, <- !app_assoc. rewrite tt_plain by (apply pieces_plain; exact Hq).
    f_equal. destruct ps as [|p ps']; [congruence|]. destruct glue.
    + simpl. apply IH.
    + simpl app. rewrite tt_nl. rewrite (all_nl_items r Hr).
      destruct (forallb is_blank r) eqn:Hb.
      * (* only blank lines follow: the line's own newline is the one that stays *)
        destruct r as [|it' r']; [reflexivity|]. cbn [trim_end]. rewrite Hb. reflexivity.
      * f_equal. apply IH.
  - (* blank line *)
    change (c_item IBlank) with [NL]. simpl app. rewrite tt_nl, (all_nl_items r Hr).
    destruct (forallb is_blank r); [destruct pn; reflexivity|].
    rewrite c_items_cons. simpl app. f_equal. apply IH.
  - discriminate Hit.
Qed.

(* ---------------------------------------------------------------------------------------------------- *)
(* 3. the two passes of the compiler on the tokens of source lines = the source-level rules             *)
(* ---------------------------------------------------------------------------------------------------- *)
Lemma normalise_tokens l : forallb lineb l = true ->
  trim_trailing (cleanup_ws (c_items l) []) = c_items (normalise_items l).
Proof.
  intros H. rewrite cleanup_ws_cw. simpl rev. simpl app. cbn [tkind].
  rewrite cw_items by exact H. rewrite trim_trailing_tt. apply tt_items. apply collapse_lineb. exact H.
Qed.

Lemma shown_lines_filter body : shown_lines body = filter shown_item body.
Proof. reflexivity. Qed.

Lemma shown_lineb body :
  forallb (fun it => negb (is_join it)) body = true -> proper_lines body = true ->
  forallb lineb (shown_lines body) = true.
Proof.
  unfold proper_lines, shown_lines. intros Hj Hp.
  pose proof (forallb_filter_weak _ ws_shown body Hj) as Hj'.
  induction (filter ws_shown body) as [|x l IH]; [reflexivity|].
  simpl in *. apply andb_true_iff in Hj'. apply andb_true_iff in Hp. destruct Hj' as [Hx Hl], Hp as [Px Pl].
  unfold lineb at 1. rewrite Px, Hx. simpl. apply IH; assumption.
Qed.

Lemma top_content_source_lines body :
  forallb (fun it => negb (is_join it)) body = true -> proper_lines body = true ->
  top_content body = c_items (normalise_items (shown_lines body)).
Proof.
  intros Hj Hp. unfold top_content. rewrite (top_content_raw_plain body 0 Hj), <- shown_lines_filter.
  apply normalise_tokens. apply shown_lineb; assumption.
Qed.

(* ---- ASTs that are not lists of source lines: read as lines first ---- *)
Lemma split_line_tokens ps : forall acc g,
  c_items (split_line acc ps g) = c_pieces (rev acc) ++ c_pieces ps ++ (if g then [] else [NL]).
Proof.
  induction ps as [|p r IH]; intros acc g.
  - cbn [split_line]. destruct acc as [|a acc'].
    + destruct g; reflexivity.
    + rewrite c_items_cons, c_item_text. simpl c_items. rewrite app_nil_r. reflexivity.
  - cbn [split_line]. destruct (is_nl_piece p) eqn:Hp.
    + assert (Ep : c_piece p = NL).
      { destruct p; try discriminate. simpl in Hp. apply String.eqb_eq in Hp. subst s. reflexivity. }
      rewrite c_items_cons, IH. simpl rev. simpl c_pieces at 2. cbn [c_pieces map]. rewrite Ep.
      destruct acc as [|a acc'].
      * reflexivity.
      * rewrite c_item_text. rewrite <- !app_assoc. reflexivity.
    + rewrite IH. simpl rev. unfold c_pieces. rewrite map_app. simpl. rewrite <- app_assoc. reflexivity.
Qed.

Lemma split_line_lineb ps : forall acc g, forallb nonl acc = true -> forallb lineb (split_line acc ps g) = true.
Proof.
  assert (Hacc : forall a acc' g, forallb nonl (a :: acc') = true -> lineb (IText (rev (a :: acc')) g) = true).
  { intros a acc' g H. apply lineb_text.
    - simpl. destruct (rev acc'); discriminate.
    - rewrite forallb_rev. exact H. }
  induction ps as [|p r IH]; intros acc g Ha.
  - cbn [split_line]. destruct acc as [|a acc'].
    + destruct g; reflexivity.
    + cbn [forallb]. rewrite (Hacc a acc' g Ha). reflexivity.
  - cbn [split_line]. destruct (is_nl_piece p) eqn:Hp.
    + cbn [forallb]. rewrite (IH [] g) by reflexivity. rewrite andb_true_r.
      destruct acc as [|a acc']; [reflexivity|]. apply Hacc. exact Ha.
    + apply IH. cbn [forallb]. unfold nonl at 1. rewrite Hp. simpl. exact Ha.
Qed.

Lemma canon_tokens l : c_items (canon_lines l) = c_items l.
Proof.
  induction l as [|it r IH]; [reflexivity|]. unfold canon_lines in *. simpl flat_map.
  rewrite c_items_app, IH, c_items_cons. f_equal.
  destruct it; try reflexivity. cbn [canon_item]. rewrite split_line_tokens, c_item_text. reflexivity.
Qed.

Lemma canon_lineb l : forallb (fun it => negb (is_join it)) l = true -> forallb lineb (canon_lines l) = true.
Proof.
  induction l as [|it r IH]; intros H; [reflexivity|]. simpl in H. apply andb_true_iff in H. destruct H as [Hit Hr].
  unfold canon_lines in *. simpl flat_map. rewrite forallb_app, (IH Hr), andb_true_r.
  destruct it; try reflexivity.
  - cbn [canon_item]. apply split_line_lineb. reflexivity.
  - discriminate Hit.
Qed.

Lemma top_content_any body :
  forallb (fun it => negb (is_join it)) body = true ->
  top_content body = c_items (normalise_items (canon_lines (shown_lines body))).
Proof.
  intros Hj. unfold top_content. rewrite (top_content_raw_plain body 0 Hj), <- shown_lines_filter.
  rewrite <- (canon_tokens (shown_lines body)). apply normalise_tokens. apply canon_lineb.
  unfold shown_lines. apply forallb_filter_weak. exact Hj.
Qed.

(* on source lines the reading changes nothing *)
Lemma split_line_plain ps : forall acc g, forallb nonl ps = true ->
  split_line acc ps g = split_line (rev ps ++ acc) [] g.
Proof.
  induction ps as [|p r IH]; intros acc g H; [reflexivity|].
  simpl in H. apply andb_true_iff in H. destruct H as [Hp Hr]. apply negb_true_iff in Hp.
  cbn [split_line]. rewrite Hp, IH by exact Hr. simpl rev. rewrite <- app_assoc. reflexivity.
Qed.

Lemma canon_proper l : forallb proper_item l = true -> canon_lines l = l.
Proof.
  induction l as [|it r IH]; intros H; [reflexivity|]. simpl in H. apply andb_true_iff in H. destruct H as [Hit Hr].
  unfold canon_lines in *. simpl flat_map. rewrite (IH Hr).
  destruct it; try reflexivity. cbn [canon_item].
  simpl in Hit. apply andb_true_iff in Hit. destruct Hit as [Hne Hq].
  rewrite split_line_plain by exact Hq. rewrite app_nil_r. cbn [split_line].
  destruct (rev ps) as [|a q] eqn:E.
  - apply (f_equal (@rev piece)) in E. rewrite rev_involutive in E. subst ps. discriminate Hne.
  - rewrite <- E, rev_involutive. reflexivity.
Qed.

(* ---- the normalisations delete blank lines, nothing else ---- *)
Inductive del_blank : list item -> list item -> Prop :=
| db_nil : del_blank [] []
| db_keep it l l' : del_blank l l' -> del_blank (it :: l) (it :: l')
| db_drop l l' : del_blank l l' -> del_blank (IBlank :: l) l'.

Lemma del_blank_refl l : del_blank l l.
Proof. induction l; constructor; assumption. Qed.
Lemma del_blank_trans a b c : del_blank a b -> del_blank b c -> del_blank a c.
Proof.
  intros H; revert c. induction H as [|t l l' H IH|l l' H IH]; intros c Hc.
  - exact Hc.
  - inversion Hc; subst; [constructor; apply IH; assumption|apply db_drop; apply IH; assumption].
  - apply db_drop. apply IH. exact Hc.
Qed.

Lemma collapse_del_blank l : forall ab, del_blank l (collapse_blanks ab l).
Proof.
  induction l as [|it r IH]; intros ab; [constructor|].
  destruct it; cbn [collapse_blanks]; try (constructor; apply IH).
  destruct (is_AIf ab && next_is_blank r || is_ANewline ab && next_is_if r); constructor; apply IH.
Qed.

Lemma all_blank_del l : forallb is_blank l = true -> del_blank l [].
Proof.
  induction l as [|it r IH]; intros H; [constructor|]. simpl in H. apply andb_true_iff in H. destruct H as [Hb Hr].
  destruct it; try discriminate. apply db_drop. apply IH. exact Hr.
Qed.

Lemma trim_end_del_blank l : forall pn, del_blank l (trim_end pn l).
Proof.
  induction l as [|it r IH]; intros pn; [constructor|].
  cbn [trim_end]. destruct (forallb is_blank (it :: r)) eqn:Hb.
  - destruct pn; [apply all_blank_del; exact Hb|].
    simpl in Hb. apply andb_true_iff in Hb. destruct Hb as [Hi Hr]. destruct it; try discriminate.
    constructor. apply all_blank_del. exact Hr.
  - constructor. apply IH.
Qed.

Lemma normalise_del_blank l : del_blank l (normalise_items l).
Proof. unfold normalise_items. eapply del_blank_trans; [apply collapse_del_blank|apply trim_end_del_blank]. Qed.

(* ---------------------------------------------------------------------------------------------------- *)
(* 4. the passage-level theorems                                                                        *)
(* ---------------------------------------------------------------------------------------------------- *)
Section TopLevelWs.
Variable orc : pyorc.
Variable ctxkeys : list string.

(* FULL for source lines: no "up to newlines", no hypothesis that the normalisations do nothing *)
Lemma passage_content_meaning_ws body s :
  forallb (fun it => negb (is_join it)) body = true -> proper_lines body = true ->
  render_content orc ctxkeys (top_content body) s = sem_items_ws orc ctxkeys body s.
Proof.
  intros Hj Hp. rewrite (top_content_source_lines body Hj Hp). unfold sem_items_ws. apply compiled_block_meaning.
Qed.

(* FULL for every AST without @join markers *)
Lemma passage_content_meaning_ws_any body s :
  forallb (fun it => negb (is_join it)) body = true ->
  render_content orc ctxkeys (top_content body) s = sem_items_ws_any orc ctxkeys body s.
Proof.
  intros Hj. rewrite (top_content_any body Hj). unfold sem_items_ws_any. apply compiled_block_meaning.
Qed.

Lemma sem_items_ws_any_proper body s :
  proper_lines body = true -> sem_items_ws_any orc ctxkeys body s = sem_items_ws orc ctxkeys body s.
Proof. intros Hp. unfold sem_items_ws_any, sem_items_ws. rewrite canon_proper by exact Hp. reflexivity. Qed.
End TopLevelWs.

Lemma normalised_lines_compile body :
  forallb (fun it => negb (is_join it)) body = true -> proper_lines body = true ->
  top_content body = c_items (normalise_items (shown_lines body)).
Proof. exact (top_content_source_lines body). Qed.
