(* C01, string level composed with Proofs/ReferenceNewlines.v: the top-level text lines of a `printable` story are
   source lines (proper_lines), so what the parser model makes of the printed text renders EXACTLY the reference
   meaning of the normalised lines - not "up to newlines". *)
From Coq Require Import String Ascii List Bool ZArith Arith Lia.
From Bardic Require Import PyStr Value Compiled Engine EngineBase Source Reference ReferenceProofs.
From Bardic Require Import ReferenceWs ReferenceNewlines SourcePrint.
From Bardic Require ParseBase ParseAllProofs SourcePrintProofs.
Import ListNotations.
Local Open Scope list_scope.
Module SPP := SourcePrintProofs.

Lemma print_body_in body : forall sec pending it l,
  In it body -> In l (print_item it) -> In l (print_body body sec pending).
Proof.
  induction body as [|x r IH]; intros sec pending it l Hin Hl; [contradiction|].
  destruct Hin as [->|Hin].
  - destruct it; cbn [print_body]; try (apply in_or_app; left; exact Hl).
    apply in_or_app; right. apply in_or_app; left. exact Hl.
  - destruct x; cbn [print_body]; try (apply in_or_app; right; eapply IH; eassumption).
    apply in_or_app; right. apply in_or_app; right. eapply IH; eassumption.
Qed.

Lemma print_passages_in ps : forall p l, In p ps -> In l (print_passage p) -> In l (print_passages ps).
Proof.
  induction ps as [|q r IH]; intros p l Hin Hl; [contradiction|]. cbn [print_passages]. apply in_or_app.
  destruct Hin as [->|Hin]; [left; exact Hl|right; eapply IH; eassumption].
Qed.

Lemma print_pieces_cons p r : print_pieces (p :: r) = (print_piece p ++ print_pieces r)%string.
Proof. reflexivity. Qed.

Lemma clean_pieces_nonl ps : clean (print_pieces ps) = true -> forallb nonl ps = true.
Proof.
  induction ps as [|p r IH]; intros H; [reflexivity|].
  rewrite print_pieces_cons, SPP.clean_app in H. apply andb_prop in H. destruct H as [Hp Hr].
  cbn [forallb]. rewrite (IH Hr), andb_true_r. unfold nonl. apply negb_true_iff.
  destruct p; try reflexivity. simpl. destruct (String.eqb s nl) eqn:E; [|reflexivity].
  apply String.eqb_eq in E. subst s. vm_compute in Hp. discriminate Hp.
Qed.

Lemma printable_proper_lines pp is_call s p :
  printable pp is_call s = true -> In p (ss_passages s) -> proper_lines (sp_body p) = true.
Proof.
  intros Hpr Hin.
  pose proof (SPP.printable_passages pp is_call s Hpr) as Hps. rewrite forallb_forall in Hps.
  pose proof (SPP.items_ok_of_passage pp p (Hps p Hin)) as Hi. rewrite forallb_forall in Hi.
  assert (Hlines : forall l, In l (print_story s) -> line_ok l = true).
  { unfold printable in Hpr. apply andb_prop in Hpr. destruct Hpr as [Hpr _]. apply andb_prop in Hpr.
    destruct Hpr as [Hpr _]. apply andb_prop in Hpr. destruct Hpr as [_ Hl]. rewrite forallb_forall in Hl. exact Hl. }
  unfold proper_lines, shown_lines. apply forallb_forall. intros it Hit. apply filter_In in Hit.
  destruct Hit as [Hit _]. destruct it; try reflexivity.
  (* a text line *)
    pose proof (Hi _ Hit) as Hok. cbn [item_ok] in Hok.
    assert (Hl : line_ok (print_pieces ps ++ (if glue then "<>" else ""))%string = true).
    { apply Hlines. unfold print_story. eapply print_passages_in; [exact Hin|]. unfold print_passage. right.
      eapply print_body_in; [exact Hit|]. left. reflexivity. }
    apply SPP.line_ok_parts in Hl. destruct Hl as [Hcl _]. rewrite SPP.clean_app in Hcl. apply andb_prop in Hcl.
    destruct Hcl as [Hcl _]. cbn [proper_item]. rewrite (clean_pieces_nonl ps Hcl : forallb (fun p => negb (is_nl_piece p)) ps = true).
    rewrite andb_true_r. destruct ps as [|q ps']; [|reflexivity].
    unfold text_line_ok in Hok. apply andb_prop in Hok. destruct Hok as [Hok _]. apply andb_prop in Hok.
    destruct Hok as [_ Hst]. discriminate Hst.
Qed.

(* the end-to-end statement of SourcePrintProofs.printed_story_reference_meaning with equality in place of
   same_up_to_newlines *)
Lemma printed_story_reference_meaning_ws : forall pp is_call s,
  printable pp is_call s = true ->
  exists st, ParseAllProofs.parse_real pp is_call (print_story s) = ParseBase.POk st /\
    initial st = initial_of s /\
    forall p, In p (ss_passages s) ->
      exists cp, In (sp_name p, cp) (passages st) /\
        choices cp = map (fun sc => c_choice (fst sc) (snd sc)) (sp_choices p) /\
        (forall orc ctxkeys s0, exec_commands orc ctxkeys (execute cp) s0 = sem_enter orc ctxkeys (sp_body p) s0) /\
        (forall orc ctxkeys s0, forallb (fun it => negb (is_join it)) (sp_body p) = true ->
           render_content orc ctxkeys (content cp) s0 = sem_items_ws orc ctxkeys (sp_body p) s0).
Proof.
  intros pp is_call s H. exists (compile_ref s). split; [apply SPP.parse_print_full, H|]. split; [reflexivity|].
  intros p Hin. exists (compile_passage p). split; [|split; [reflexivity|split]].
  - cbn [compile_ref passages]. apply in_map_iff. exists p. split; [reflexivity|exact Hin].
  - intros orc ctxkeys s0. apply compiled_enter_meaning.
  - intros orc ctxkeys s0 Hj. cbn [compile_passage content]. apply passage_content_meaning_ws; [exact Hj|].
    eapply printable_proper_lines; eassumption.
Qed.
