(* C01: the engine, run on compile_ref of a source AST, computes the reference meaning of the AST. *)
From Coq Require Import String Ascii List Bool ZArith Arith Lia.
From Bardic Require Import PyStr Value Compiled Engine EngineBase EngineNav EngineParams EngineSem EngineJump
     Source Reference.
Import ListNotations.
Local Open Scope list_scope.

(* ---- induction principles for the nested source types ---- *)
Section PieceInd.
Variable P : piece -> Prop.
Hypothesis H_text : forall s, P (PText s).
Hypothesis H_expr : forall c, P (PExpr c).
Hypothesis H_cond : forall c tr fa, Forall P tr -> Forall P fa -> P (PCond c tr fa).
Fixpoint piece_ind' (p : piece) : P p :=
  let go := fix go (l : list piece) : Forall P l :=
      match l with [] => Forall_nil P | x :: r => Forall_cons x (piece_ind' x) (go r) end in
  match p with
  | PText s => H_text s
  | PExpr c => H_expr c
  | PCond c tr fa => H_cond c tr fa (go tr) (go fa)
  end.
End PieceInd.

Section ItemInd.
Variable P : item -> Prop.
Hypothesis H_text : forall ps g, P (IText ps g).
Hypothesis H_blank : P IBlank.
Hypothesis H_stmt : forall c, P (IStmt c).
Hypothesis H_py : forall c, P (IPy c).
Hypothesis H_if : forall brs, Forall (fun b => Forall P (snd (fst b))) brs -> P (IIf brs).
Hypothesis H_for : forall v c body chs, Forall P body -> P (IFor v c body chs).
Hypothesis H_jump : forall t a, P (IJump t a).
Hypothesis H_render : forall n a, P (IRender n a).
Hypothesis H_input : forall a, P (IInput a).
Hypothesis H_hook : forall a e t, P (IHook a e t).
Hypothesis H_join : P IJoin.
Fixpoint item_ind' (it : item) : P it :=
  let go := fix go (l : list item) : Forall P l :=
      match l with [] => Forall_nil P | x :: r => Forall_cons x (item_ind' x) (go r) end in
  match it with
  | IText ps g => H_text ps g
  | IBlank => H_blank
  | IStmt c => H_stmt c
  | IPy c => H_py c
  | IIf brs =>
      H_if brs ((fix gb (l : list (string * list item * list schoice))
                   : Forall (fun b => Forall P (snd (fst b))) l :=
                   match l with
                   | [] => Forall_nil _
                   | (c, body, chs) :: r => Forall_cons (c, body, chs) (go body) (gb r)
                   end) brs)
  | IFor v c body chs => H_for v c body chs (go body)
  | IJump t a => H_jump t a
  | IRender n a => H_render n a
  | IInput a => H_input a
  | IHook a e t => H_hook a e t
  | IJoin => H_join
  end.
End ItemInd.

(* ---- unfolding lemmas for the nested fixes of Source / Reference ---- *)
Lemma c_item_if brs :
  c_item (IIf brs) =
  [TCond (map (fun b => match b with (c, body, chs) => Branch c (c_items body) (map (c_choice 0) chs) end) brs)].
Proof.
  simpl. do 2 f_equal. induction brs as [|[[c body] chs] r IH]; [reflexivity|]. simpl. rewrite IH. reflexivity.
Qed.

Lemma c_item_for v c body chs : c_item (IFor v c body chs) = [TLoop v c (c_items body) (map (c_choice 0) chs)].
Proof. reflexivity. Qed.

Section WithOracle.
Variable orc : pyorc.
Variable ctxkeys : list string.

Lemma piece_text_cond s c tr fa :
  piece_text orc s (PCond c tr fa) =
  match o_eval orc (eval_context (vars (nc s)) (scopes s)) c with
  | Exc _ => ERR
  | Ok b => pieces_text orc s (if truthy b then tr else fa)
  end.
Proof.
  simpl. destruct (o_eval orc _ c) as [b|e]; [|reflexivity].
  generalize (if truthy b then tr else fa). intros l.
  induction l as [|x r IH]; [reflexivity|]. simpl in *. rewrite IH. reflexivity.
Qed.

(* ---- the sequencer distributes over append when the first part cannot stop without a jump ---- *)
Definition seq_then (r1 : nstate * res seq_out) (k : nstate -> nstate * res seq_out) : nstate * res seq_out :=
  match r1 with
  | (s1, Ok (t1, None, d1)) =>
      match k s1 with
      | (s2, Ok (t2, j, d2)) => (s2, Ok ((t1 ++ t2)%string, j, d1 ++ d2))
      | (s2, Exc e) => (s2, Exc e)
      end
  | (s1, Ok (t1, Some sp, d1)) => (s1, Ok (t1, Some sp, d1))
  | (s1, Exc e) => (s1, Exc e)
  end.

Lemma string_app_assoc (a b c : string) : ((a ++ b) ++ c = a ++ (b ++ c))%string.
Proof. induction a as [|x a IH]; simpl; [reflexivity|]. rewrite IH. reflexivity. Qed.
Lemma string_app_nil_r (a : string) : (a ++ "" = a)%string.
Proof. induction a as [|x a IH]; simpl; [reflexivity|]. rewrite IH. reflexivity. Qed.

Lemma seqr_app (f : token -> M tok_out) l1 l2 :
  (forall t s s' txt ds, In t l1 -> f t s = (s', Ok (txt, CBreak, ds)) -> False) ->
  forall s, seqr f (l1 ++ l2) s = seq_then (seqr f l1 s) (seqr f l2).
Proof.
  induction l1 as [|x r IH]; intros Hb s.
  - simpl. unfold ret. destruct (seqr f l2 s) as [s2 [[[t2 j] d2]|e]]; reflexivity.
  - simpl app. rewrite !seqr_cons. destruct (f x s) as [s1 [[[t1 c] d1]|e]] eqn:Ef; [|reflexivity].
    destruct c.
    + rewrite IH by (intros; eapply Hb; [right; eassumption|eassumption]).
      unfold seq_then. destruct (seqr f r s1) as [s2 [[[t2 [sp|]] d2]|e]]; try reflexivity.
      destruct (seqr f l2 s2) as [s3 [[[t3 j3] d3]|e]]; [|reflexivity].
      rewrite string_app_assoc, app_assoc. reflexivity.
    + reflexivity.
    + exfalso. eapply Hb; [left; reflexivity|exact Ef].
Qed.

(* ---- pieces: rendering the piece tokens gives the piece text and changes nothing ---- *)
Lemma render_pieces ps : forall s,
  seqr (render_tok orc ctxkeys) (c_pieces ps) s = (s, Ok (pieces_text orc s ps, None, [])).
Proof.
  induction ps as [|p r IHr]; intros s; [reflexivity|].
  assert (Hp : render_tok orc ctxkeys (c_piece p) s = (s, Ok (piece_text orc s p, CNext, []))).
  { clear IHr r. revert s. induction p using piece_ind'; intros s0; try reflexivity.
    cbn [c_piece render_tok]. unfold bind at 1, ctx_now. rewrite piece_text_cond.
    destruct (o_eval orc (eval_context (vars (nc s0)) (scopes s0)) c) as [b|e]; [|reflexivity].
    assert (Hl : forall l, Forall (fun p => forall s1, render_tok orc ctxkeys (c_piece p) s1
                                              = (s1, Ok (piece_text orc s1 p, CNext, []))) l ->
                           seqr (render_tok orc ctxkeys) (map c_piece l) s0 = (s0, Ok (pieces_text orc s0 l, None, []))).
    { induction 1 as [|x l Hx Hl IH]; [reflexivity|]. simpl map. rewrite seqr_cons, Hx, IH. simpl.
      reflexivity. }
    unfold catch, bind. destruct (truthy b).
    - rewrite (Hl tr H). reflexivity.
    - rewrite (Hl fa H0). reflexivity. }
  unfold c_pieces in *. simpl map. rewrite seqr_cons, Hp, IHr. reflexivity.
Qed.

Definition seq_of (r : nstate * res tok_out) : nstate * res seq_out :=
  match r with
  | (s, Ok (t, CNext, d)) => (s, Ok (t, None, d))
  | (s, Ok (t, CJump sp, d)) => (s, Ok (t, Some sp, d))
  | (s, Ok (t, CBreak, d)) => (s, Ok (t, None, d))
  | (s, Exc e) => (s, Exc e)
  end.

Lemma seqr_single (f : token -> M tok_out) t s : seqr f [t] s = seq_of (f t s).
Proof.
  rewrite seqr_cons. simpl. unfold ret. destruct (f t s) as [s1 [[[txt c] ds]|e]]; [|reflexivity].
  destruct c; simpl; try reflexivity. rewrite string_app_nil_r, app_nil_r. reflexivity.
Qed.

(* no item compiles to a join marker inside a block *)
Lemma c_item_no_break it t s s' txt ds :
  In t (c_item it) -> render_tok orc ctxkeys t s = (s', Ok (txt, CBreak, ds)) -> False.
Proof.
  intros Hin H. apply render_tok_break in H. destruct t; try discriminate.
  destruct it; simpl in Hin.
  - apply in_app_or in Hin. destruct Hin as [Hin|Hin].
    + unfold c_pieces in Hin. apply in_map_iff in Hin. destruct Hin as (p & E & _). destruct p; discriminate.
    + destruct glue; [contradiction|]. destruct Hin as [E|[]]. discriminate.
  - destruct Hin as [E|[]]. discriminate.
  - destruct Hin as [E|[]]. discriminate.
  - destruct Hin as [E|[]]. discriminate.
  - destruct Hin as [E|[]]. discriminate.
  - destruct Hin as [E|[]]. discriminate.
  - destruct Hin as [E|[]]. discriminate.
  - destruct Hin as [E|[]]. discriminate.
  - destruct Hin as [E|[]]. discriminate.
  - destruct Hin as [E|[]]. discriminate.
  - contradiction.
Qed.

(* ---- the main lemma, by induction on the source item tree ---- *)
Definition item_ok (it : item) : Prop :=
  forall s, seqr (render_tok orc ctxkeys) (c_item it) s = seq_of (sem_item orc ctxkeys it s).

Lemma items_ok l : Forall item_ok l ->
  forall s, seqr (render_tok orc ctxkeys) (c_items l) s = seqi (sem_item orc ctxkeys) l s.
Proof.
  induction 1 as [|x r Hx Hr IH]; intros s; [reflexivity|].
  simpl c_items. rewrite seqr_app by (intros; eapply c_item_no_break; eauto).
  rewrite Hx. simpl seqi. unfold bind.
  destruct (sem_item orc ctxkeys x s) as [s1 [[[t1 c1] d1]|e]]; [|reflexivity].
  destruct c1; simpl.
  - rewrite IH. destruct (seqi (sem_item orc ctxkeys) r s1) as [s2 [[[t2 j2] d2]|e]]; reflexivity.
  - reflexivity.
  - rewrite IH. destruct (seqi (sem_item orc ctxkeys) r s1) as [s2 [[[t2 j2] d2]|e]]; reflexivity.
Qed.

Lemma branches_ok ctx brs :
  Forall (fun b => Forall item_ok (snd (fst b))) brs ->
  forall s, render_branches orc (render_tok orc ctxkeys) ctx
              (map (fun b => match b with (c, body, chs) => Branch c (c_items body) (map (c_choice 0) chs) end) brs) s
            = sem_branches orc (sem_item orc ctxkeys) ctx brs s.
Proof.
  induction 1 as [|[[c body] chs] r Hb Hr IH]; intros s; [reflexivity|].
  simpl. destruct (o_eval orc ctx c) as [b|e]; [|apply IH].
  destruct (truthy b); [|apply IH].
  unfold bind. simpl in Hb. rewrite (items_ok body Hb).
  destruct (seqi (sem_item orc ctxkeys) body s) as [s1 [[[t1 j1] d1]|e]]; [|reflexivity].
  unfold ret. rewrite map_map. destruct j1; reflexivity.
Qed.

Lemma loop_choices_ok chs s :
  render_loop_choices (render_tok orc ctxkeys) (map (c_choice 0) chs) s = sem_loop_choices orc chs s.
Proof.
  unfold sem_loop_choices. induction chs as [|[tx tg ar cd stk blk] r IH]; [reflexivity|].
  simpl. unfold bind. rewrite render_pieces. rewrite IH. reflexivity.
Qed.

Lemma loop_items_ok vs body chs items :
  Forall item_ok body ->
  forall s, render_loop_items (render_tok orc ctxkeys) vs (c_items body) (map (c_choice 0) chs) items s
            = sem_loop_items orc (sem_item orc ctxkeys) vs body chs items s.
Proof.
  intros Hb. induction items as [|v rest IH]; intros s; [reflexivity|].
  simpl. unfold bind, get, set_vars. destruct (loop_bind vs v (vars (nc s))) as [v1 orig]. cbv beta iota.
  rewrite (items_ok body Hb).
  match goal with |- context [seqi (sem_item orc ctxkeys) body ?sa] =>
    destruct (seqi (sem_item orc ctxkeys) body sa) as [sb [[[t1 j1] d1]|e]] end; [|reflexivity].
  rewrite loop_choices_ok.
  destruct (sem_loop_choices orc chs sb) as [sc [chds|e]]; [|reflexivity].
  destruct j1; [reflexivity|]. rewrite IH. reflexivity.
Qed.

Lemma item_all_ok it : item_ok it.
Proof.
  induction it using item_ind'; intros s.
  - (* text *)
    simpl c_item. rewrite seqr_app.
    + rewrite render_pieces. unfold seq_then. destruct g; simpl; unfold ret; simpl;
        rewrite ?string_app_nil_r, ?app_nil_r; reflexivity.
    + intros t s0 s' txt ds Hin H. eapply (c_item_no_break (IText ps true)); [|exact H].
      simpl. rewrite app_nil_r. exact Hin.
  - reflexivity.
  - cbn [c_item]. rewrite seqr_single. cbn [render_tok sem_item]. unfold bind.
    match goal with |- context [?m s] => destruct (m s) as [s1 [[]|ex]] end; reflexivity.
  - cbn [c_item]. rewrite seqr_single. cbn [render_tok sem_item]. unfold bind.
    match goal with |- context [?m s] => destruct (m s) as [s1 [[]|ex]] end; reflexivity.
  - (* if *)
    rewrite c_item_if, seqr_single. cbn [render_tok sem_item]. unfold bind, ctx_now.
    rewrite branches_ok by exact H. reflexivity.
  - (* for *)
    rewrite c_item_for, seqr_single. cbn [render_tok sem_item].
    destruct (String.eqb v "" || String.eqb c ""); [reflexivity|].
    unfold bind, ctx_now.
    destruct (match o_eval orc _ c with Ok c0 => py_iter c0 | Exc e => Exc e end) as [items|e]; [|reflexivity].
    rewrite loop_items_ok by exact H. reflexivity.
  - reflexivity.
  - cbn [c_item]. rewrite seqr_single. reflexivity.
  - reflexivity.
  - cbn [c_item]. rewrite seqr_single. cbn [render_tok sem_item]. unfold bind.
    match goal with |- context [?m s] => destruct (m s) as [s1 [[]|ex]] end; reflexivity.
  - reflexivity.
Qed.

(* rendering the compiled block content = the reference meaning of the block's items *)
Lemma compiled_block_meaning l s :
  render_content orc ctxkeys (c_items l) s = sem_items orc ctxkeys l s.
Proof.
  unfold render_content, sem_items. apply items_ok. apply Forall_forall. intros x _. apply item_all_ok.
Qed.

(* entering: the hoisted commands run in source order *)
Lemma compiled_enter_meaning body s :
  exec_commands orc ctxkeys (top_execute body) s = sem_enter orc ctxkeys body s.
Proof.
  unfold top_execute, sem_enter. revert s. induction body as [|it r IH]; intros s; [reflexivity|].
  destruct it; simpl; try apply IH; unfold bind;
    match goal with |- context [?m s] => destruct (m s) as [s1 [[]|e]] end; try reflexivity; apply IH.
Qed.

End WithOracle.

(* ---- top level of a passage ---- *)
Definition is_join (it : item) : bool := match it with IJoin => true | _ => false end.
Definition shown_item (it : item) : bool := negb (is_command it || is_input it).

Lemma top_content_raw_plain body k :
  forallb (fun it => negb (is_join it)) body = true ->
  top_content_raw body k = c_items (filter shown_item body).
Proof.
  revert k. induction body as [|it r IH]; intros k H; [reflexivity|].
  simpl in H. apply andb_true_iff in H. destruct H as [Hj Hr].
  destruct it; simpl in *; try discriminate; rewrite ?(IH k Hr); reflexivity.
Qed.


(* ---- the two whitespace normalisations delete newline tokens only, and deleting newline tokens deletes
        newline characters of the shown text only: state, jump and directives are untouched ---- *)
Inductive del_nl_tok : list token -> list token -> Prop :=
| dnt_nil : del_nl_tok [] []
| dnt_keep t l l' : del_nl_tok l l' -> del_nl_tok (t :: l) (t :: l')
| dnt_drop l l' : del_nl_tok l l' -> del_nl_tok (NL :: l) l'.

Inductive del_nl_str : string -> string -> Prop :=
| dns_nil : del_nl_str "" ""
| dns_keep c a b : del_nl_str a b -> del_nl_str (String c a) (String c b)
| dns_drop a b : del_nl_str a b -> del_nl_str (String "010"%char a) b.

Lemma del_nl_tok_refl l : del_nl_tok l l.
Proof. induction l; constructor; assumption. Qed.
Lemma del_nl_str_refl a : del_nl_str a a.
Proof. induction a; constructor; assumption. Qed.
Lemma del_nl_tok_trans a b c : del_nl_tok a b -> del_nl_tok b c -> del_nl_tok a c.
Proof.
  intros H; revert c. induction H as [|t l l' H IH|l l' H IH]; intros c Hc.
  - exact Hc.
  - inversion Hc; subst.
    + constructor. apply IH. assumption.
    + apply dnt_drop. apply IH. assumption.
  - apply dnt_drop. apply IH. exact Hc.
Qed.
Lemma del_nl_tok_app a a' b b' : del_nl_tok a a' -> del_nl_tok b b' -> del_nl_tok (a ++ b) (a' ++ b').
Proof. intros H Hb. induction H; simpl; [exact Hb| |]; constructor; assumption. Qed.
Lemma del_nl_str_app_l p a b : del_nl_str a b -> del_nl_str (p ++ a) (p ++ b).
Proof. intros H. induction p; simpl; [exact H|]. constructor. assumption. Qed.

Lemma is_nl_NL t : is_nl t = true -> t = NL.
Proof.
  destruct t; simpl; try discriminate. intros H. apply String.eqb_eq in H. subst. reflexivity.
Qed.

Lemma cleanup_ws_deletes_newlines l : forall rk, del_nl_tok (rev rk ++ l) (cleanup_ws l rk).
Proof.
  induction l as [|t r IH]; intros rk.
  - simpl. rewrite app_nil_r. apply del_nl_tok_refl.
  - cbn [cleanup_ws].
    assert (Hkeep : del_nl_tok (rev rk ++ t :: r) (cleanup_ws r (t :: rk))).
    { specialize (IH (t :: rk)). simpl in IH. rewrite <- app_assoc in IH. exact IH. }
    assert (Hdrop : is_nl t = true -> del_nl_tok (rev rk ++ t :: r) (cleanup_ws r rk)).
    { intros Hn. apply is_nl_NL in Hn. subst t.
      eapply del_nl_tok_trans; [|apply IH].
      apply del_nl_tok_app; [apply del_nl_tok_refl|]. apply dnt_drop. apply del_nl_tok_refl. }
    destruct (is_nl t) eqn:Hn; simpl.
    + destruct (match r with x :: _ => is_cond x | [] => false end && last_is is_nl rk); [apply Hdrop; reflexivity|].
      destruct (last_is is_cond rk && match r with x :: _ => is_nl x | [] => false end); [apply Hdrop; reflexivity|].
      exact Hkeep.
    + exact Hkeep.
Qed.

Lemma drop_nls_deletes rl : del_nl_tok (rev rl) (rev (drop_nls rl)).
Proof.
  induction rl as [|x r IH]; [constructor|].
  simpl. destruct (is_nl x) eqn:Hn.
  - apply is_nl_NL in Hn. subst x. eapply del_nl_tok_trans; [|exact IH].
    replace (rev r) with (rev r ++ []) at 2 by apply app_nil_r.
    apply del_nl_tok_app; [apply del_nl_tok_refl|]. apply dnt_drop. constructor.
  - apply del_nl_tok_refl.
Qed.

Lemma trim_trailing_deletes_newlines l : del_nl_tok l (trim_trailing l).
Proof.
  unfold trim_trailing. destruct (rev l) as [|x r] eqn:E; [apply del_nl_tok_refl|].
  destruct (is_nl x) eqn:Hn; [|apply del_nl_tok_refl].
  rewrite <- (rev_involutive l), E.
  pose proof (drop_nls_deletes (x :: r)) as H. simpl in H. rewrite Hn in H.
  simpl. (* rev (x :: drop_nls (x :: r)) = rev (drop_nls r) ++ [x] *)
  cbn [drop_nls]. rewrite Hn. simpl.
  apply del_nl_tok_app; [|apply del_nl_tok_refl].
  apply drop_nls_deletes.
Qed.

Lemma top_content_deletes_newlines body : del_nl_tok (top_content_raw body 0) (top_content body).
Proof.
  unfold top_content. eapply del_nl_tok_trans; [|apply trim_trailing_deletes_newlines].
  apply (cleanup_ws_deletes_newlines (top_content_raw body 0) []).
Qed.

Definition same_up_to_newlines (a b : nstate * res seq_out) : Prop :=
  match a, b with
  | (s1, Ok (t1, j1, d1)), (s2, Ok (t2, j2, d2)) => s1 = s2 /\ j1 = j2 /\ d1 = d2 /\ del_nl_str t1 t2
  | (s1, Exc e1), (s2, Exc e2) => s1 = s2 /\ e1 = e2
  | _, _ => False
  end.

Lemma same_up_to_newlines_refl a : same_up_to_newlines a a.
Proof. destruct a as [s [[[t j] d]|e]]; simpl; repeat split. apply del_nl_str_refl. Qed.

Lemma seqr_del_nl (f : token -> M tok_out) :
  (forall s, f NL s = (s, Ok (String "010"%char EmptyString, CNext, []))) ->
  forall l l', del_nl_tok l l' -> forall s, same_up_to_newlines (seqr f l s) (seqr f l' s).
Proof.
  intros Hnl l l' H. induction H as [|t l l' H IH|l l' H IH]; intros s.
  - apply same_up_to_newlines_refl.
  - rewrite !seqr_cons. destruct (f t s) as [s1 [[[t1 c] d1]|e]]; [|simpl; split; reflexivity].
    destruct c; try (simpl; repeat split; apply del_nl_str_refl).
    specialize (IH s1). unfold same_up_to_newlines in *.
    destruct (seqr f l s1) as [sa [[[ta ja] da]|ea]], (seqr f l' s1) as [sb [[[tb jb] db]|eb]]; try contradiction.
    + destruct IH as (-> & -> & -> & Hd). repeat split. apply del_nl_str_app_l. exact Hd.
    + exact IH.
  - rewrite seqr_cons, Hnl. specialize (IH s). unfold same_up_to_newlines in *.
    destruct (seqr f l s) as [sa [[[ta ja] da]|ea]], (seqr f l' s) as [sb [[[tb jb] db]|eb]]; try contradiction.
    + destruct IH as (-> & -> & -> & Hd). repeat split. simpl. apply dns_drop. exact Hd.
    + exact IH.
Qed.

Section TopLevel.
Variable orc : pyorc.
Variable ctxkeys : list string.

(* a passage without @join markers whose content needs no whitespace normalisation: what the engine renders
   for the compiled passage is the reference meaning of its lines (commands and input directives aside, which
   are handled when the passage is entered / attached to the passage) *)
Lemma passage_content_meaning body s :
  forallb (fun it => negb (is_join it)) body = true ->
  top_content body = top_content_raw body 0 ->
  render_content orc ctxkeys (top_content body) s = sem_items orc ctxkeys (filter shown_item body) s.
Proof.
  intros Hj Hn. rewrite Hn, (top_content_raw_plain body 0 Hj). apply compiled_block_meaning.
Qed.

(* every passage without @join markers: what the engine renders for the compiled passage is the reference meaning
   of its lines - same final state (every effect of the statements inside blocks), same jump, same directives -
   and the shown text is the reference text with some newline characters deleted (the two normalisations) *)
Lemma passage_content_meaning_full body s :
  forallb (fun it => negb (is_join it)) body = true ->
  same_up_to_newlines (sem_items orc ctxkeys (filter shown_item body) s)
                      (render_content orc ctxkeys (top_content body) s).
Proof.
  intros Hj. rewrite <- compiled_block_meaning, <- (top_content_raw_plain body 0 Hj).
  apply seqr_del_nl; [intros s0; reflexivity|apply top_content_deletes_newlines].
Qed.
End TopLevel.
