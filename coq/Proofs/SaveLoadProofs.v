(* Lemmas for C05: load (json round trip (save e)) restores the game; malformed documents are rejected. *)
From Coq Require Import String Ascii List Bool ZArith Arith Lia.
From Bardic Require Import PyStr Value Compiled Engine Codec SaveLoad.
Import ListNotations.
Local Open Scope list_scope.
Local Open Scope string_scope.

Lemma mapM_dec_str l : mapM dec_str (map JStr l) = Some l.
Proof. induction l as [|x r IH]; simpl; [reflexivity|]. rewrite IH. reflexivity. Qed.

Lemma json_rt_strs l : json_rt (enc_strs l) = enc_strs l.
Proof.
  unfold enc_strs. simpl. f_equal. induction l as [|x r IH]; simpl; [reflexivity|]. rewrite IH. reflexivity.
Qed.

Lemma dec_strs_enc l : dec_strs (json_rt (enc_strs l)) = Some l.
Proof. rewrite json_rt_strs. unfold dec_strs, enc_strs. apply mapM_dec_str. Qed.

Lemma dec_hooks_enc h : dec_hooks (json_rt (enc_hooks h)) = Some h.
Proof.
  unfold enc_hooks, dec_hooks. cbn [json_rt]. unfold map_items.
  induction h as [|[k l] r IH]; [reflexivity|].
  cbn [map fst snd mapMi]. rewrite dec_strs_enc, IH. reflexivity.
Qed.

Lemma dec_join_enc j : dec_join (json_rt (enc_join j)) = Some j.
Proof.
  unfold enc_join, dec_join. cbn [json_rt]. unfold map_items.
  induction j as [|[k n] r IH]; [reflexivity|].
  cbn [map fst snd mapMi json_rt dec_nat]. rewrite IH.
  assert ((0 <=? Z.of_nat n)%Z = true) as -> by (apply Z.leb_le; lia).
  rewrite Nat2Z.id. reflexivity.
Qed.

Section WithOracle.
Variable orc : pyorc.
Variable ctxkeys : list string.
Variable st : story.
Variable cx : ctx.
Variable fuel : nat.
Variable out_enc : output -> json.
Variable out_dec : json -> option output.

Notation load := (load orc ctxkeys st cx out_dec).
Notation save_json := (save_json st cx fuel out_enc).

(* every document the shape test rejects - ANY json tree - is refused with ValueError, and the running game
   is returned exactly as it was *)
Lemma load_rejects_malformed_lemma e0 j :
  valid_doc st j = false -> load e0 j = (e0, Exc ValueError).
Proof.
  unfold valid_doc, SaveLoad.load. destruct (decode_doc st j); [discriminate|reflexivity].
Qed.

(* ... and so is a well-shaped document whose variables or displayed output cannot be decoded *)
Lemma load_total e0 j :
  (exists e', load e0 j = (e', Ok tt)) \/ load e0 j = (e0, Exc ValueError).
Proof.
  unfold SaveLoad.load. destruct (decode_doc st j) as [d|] eqn:Ed; [|right; reflexivity].
  destruct (load_doc fixed cx (vars (ec e0)) (dc_state d)) as [vars'|]; [|right; reflexivity].
  destruct (dc_output d) as [oj|] eqn:Eo.
  - destruct (out_dec oj) as [o|]; [|right; reflexivity]. left. eexists. reflexivity.
  - destruct (goto_op orc ctxkeys st _ (dc_target d)) as [e2 [o|x]]; [left; eexists; reflexivity|right; reflexivity].
Qed.

Lemma decode_unknown_passage o p :
  lookup "version" o <> None -> lookup "current_passage_id" o = Some (JStr p) ->
  has_key p (passages st) = false -> valid_doc st (JObj o) = false.
Proof.
  intros Hv Hp Hk. unfold valid_doc, decode_doc. destruct (lookup "version" o); [|contradiction].
  rewrite Hp, Hk. reflexivity.
Qed.

(* loading the JSON round trip of a save restores position, variables (as the value codec restores them, C06),
   used one-time choices, hook registrations, @join progress and the displayed output, and clears the history *)
Lemma load_faithful_lemma now e e0 doc sd p o vars' :
  cur (ec e) = Some p -> has_key p (passages st) = true -> out (ec e) = Some o ->
  save_doc fuel fixed cx (vars (ec e)) = Some sd ->
  save_json now e = Some doc ->
  output_shape st (json_rt (out_enc o)) = true -> out_dec (json_rt (out_enc o)) = Some o ->
  load_doc fixed cx (vars (ec e0)) (map_items json_rt sd) = Some vars' ->
  load e0 (json_rt doc) =
  (mkES (mkCore (Some p) vars' (used (ec e)) (hooks (ec e)) (joinidx (ec e)) (Some o)) [] []
        (escopes e0) (elog e0), Ok tt).
Proof.
  intros Hc Hk Ho Hsd Hs Hshape Hdec Hld.
  unfold SaveLoad.save_json in Hs. rewrite Hsd, Hc, Ho in Hs. inversion Hs; subst doc. clear Hs.
  unfold SaveLoad.load.
  assert (Hd : decode_doc st (json_rt (JObj
      [("version", JStr "0.1.0"); ("story_version", meta_or_unknown st "version");
       ("story_name", meta_or_unknown st "title"); ("story_id", meta_or_unknown st "story_id");
       ("timestamp", JStr now); ("current_passage_id", JStr p); ("state", JObj sd);
       ("used_choices", enc_strs (used (ec e))); ("metadata", enc_save_meta st);
       ("hooks", enc_hooks (hooks (ec e)));
       ("join_section_index", enc_join (joinidx (ec e))); ("current_output", out_enc o)]))
     = Some (mkDec p (map_items json_rt sd) (used (ec e)) (hooks (ec e)) (joinidx (ec e))
                   (Some (json_rt (out_enc o))))).
  { cbn [json_rt map_items map]. unfold decode_doc. cbn [lookup String.eqb Ascii.eqb Bool.eqb].
    simpl lookup. rewrite Hk. simpl negb. cbv iota.
    change (JList (map json_rt (map JStr (used (ec e))))) with (json_rt (enc_strs (used (ec e)))).
    rewrite dec_strs_enc.
    change (json_rt (enc_hooks (hooks (ec e)))) with (json_rt (enc_hooks (hooks (ec e)))).
    rewrite dec_hooks_enc, dec_join_enc.
    destruct (json_rt (out_enc o)) eqn:Eo; try (simpl in Hshape; discriminate Hshape).
    rewrite Hshape. reflexivity. }
  rewrite Hd. cbn [dc_state dc_output dc_target dc_used dc_hooks dc_join]. rewrite Hld, Hdec. reflexivity.
Qed.

End WithOracle.
