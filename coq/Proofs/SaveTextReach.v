(* C05, the save document as TEXT, without side conditions on the engine state: the hypotheses of
   JsonTextSave.save_text_roundtrip (the variables, the hook table, the @join table and the displayed output are
   Python dictionaries: distinct keys at every depth) are INVARIANTS of every engine state that a history can
   reach (EngineHooks.reach, and StoryWfChoose.played = reach plus the save slot of OpSave/OpLoad), for every
   story and every author-code oracle whose results are Python values (orc_kd below). *)
From Coq Require Import String Ascii List Bool ZArith Arith Lia.
From Bardic Require Import PyStr Value Compiled Engine EngineBase EngineNav EngineParams EngineSem EngineJump
     EngineUndo EngineHooks PyMini EngineCheck EngineReach Codec SaveLoad JsonText CodecProofs JsonTextProofs
     JsonTextSave StoryWfChoose SaveOutEnc ArgKeys.
Import ListNotations.
Local Open Scope list_scope.

(* ---------------------------------------------------------------------------------------- *)
(* dictionaries: set_key / del_key / update keep the keys distinct *)

Lemma skd_in_keys {A} k (v : A) e x : List.In x (map fst (set_key k v e)) -> x = k \/ List.In x (map fst e).
Proof.
  induction e as [|[k' v'] r IH]; simpl.
  - intros [H|[]]. left. symmetry. exact H.
  - destruct (String.eqb k k') eqn:E; simpl.
    + apply String.eqb_eq in E. subst k'. intros [H|H]; [left; symmetry; exact H|right; right; exact H].
    + intros [H|H]; [right; left; exact H|]. destruct (IH H) as [H1|H1]; [left; exact H1|right; right; exact H1].
Qed.

Lemma skd_nodup {A} k (v : A) e : NoDup (map fst e) -> NoDup (map fst (set_key k v e)).
Proof.
  induction e as [|[k' v'] r IH]; simpl; intros H.
  - constructor; [intros []|constructor].
  - inversion H as [|x l Hn Hr]; subst. destruct (String.eqb k k') eqn:E; simpl.
    + apply String.eqb_eq in E. subst k'. constructor; assumption.
    + constructor; [|apply IH; exact Hr]. intros Hin. apply skd_in_keys in Hin.
      destruct Hin as [Hin|Hin]; [subst k'; rewrite String.eqb_refl in E; discriminate E|contradiction].
Qed.

Lemma skd_Forall {A} (P : A -> Prop) k v e :
  P v -> Forall (fun kv => P (snd kv)) e -> Forall (fun kv => P (snd kv)) (set_key k v e).
Proof.
  intros Hv. induction e as [|[k' v'] r IH]; simpl; intros H.
  - constructor; [exact Hv|constructor].
  - inversion H as [|x l Hx Hr]; subst. destruct (String.eqb k k'); constructor; auto.
Qed.

Lemma dkd_in_keys {A} k (e : list (string * A)) x : List.In x (map fst (del_key k e)) -> List.In x (map fst e).
Proof.
  induction e as [|[k' v'] r IH]; simpl; [tauto|].
  destruct (String.eqb k k'); simpl; [tauto|]. intros [H|H]; [left; exact H|right; exact (IH H)].
Qed.

Lemma dkd_nodup {A} k (e : list (string * A)) : NoDup (map fst e) -> NoDup (map fst (del_key k e)).
Proof.
  induction e as [|[k' v'] r IH]; simpl; intros H; [constructor|].
  inversion H as [|x l Hn Hr]; subst. destruct (String.eqb k k'); simpl; [exact Hr|].
  constructor; [|apply IH; exact Hr]. intros Hin. apply Hn. eapply dkd_in_keys; exact Hin.
Qed.

Lemma dkd_Forall {A} (P : string * A -> Prop) k e : Forall P e -> Forall P (del_key k e).
Proof.
  induction e as [|[k' v'] r IH]; simpl; intros H; [constructor|].
  inversion H as [|x l Hx Hr]; subst. destruct (String.eqb k k'); [exact Hr|constructor; auto].
Qed.

Lemma lookup_snd {A} (P : A -> Prop) k (e : list (string * A)) v :
  Forall (fun kv => P (snd kv)) e -> lookup k e = Some v -> P v.
Proof.
  induction e as [|[k' v'] r IH]; simpl; intros H E; [discriminate E|].
  inversion H as [|x l Hx Hr]; subst. destruct (String.eqb k k'); [inversion E; subst; exact Hx|exact (IH Hr E)].
Qed.

(* values: vkd d = every value of the dictionary is a Python value *)
Definition vkd (d : list (string * value)) : Prop := Forall (fun kv => value_kd (snd kv)) d.

Lemma env_kd_iff d : env_kd d <-> NoDup (map fst d) /\ vkd d.
Proof. unfold env_kd, vkd. rewrite (allPi_Forall value_kd d). tauto. Qed.

Lemma env_kd_nil : env_kd [].
Proof. split; [constructor|exact I]. Qed.

Lemma env_kd_vkd d : env_kd d -> vkd d.
Proof. intros H. apply env_kd_iff in H. tauto. Qed.

Lemma value_kd_dict d : env_kd d -> value_kd (VDict d).
Proof. intros H. exact H. Qed.

Lemma env_kd_set k v e : value_kd v -> env_kd e -> env_kd (set_key k v e).
Proof.
  intros Hv He. apply env_kd_iff in He. destruct He as [Hn Hf]. apply env_kd_iff. split.
  - apply skd_nodup. exact Hn.
  - apply skd_Forall; assumption.
Qed.

Lemma env_kd_del k e : env_kd e -> env_kd (del_key k e).
Proof.
  intros He. apply env_kd_iff in He. destruct He as [Hn Hf]. apply env_kd_iff. split.
  - apply dkd_nodup. exact Hn.
  - apply dkd_Forall. exact Hf.
Qed.

Lemma env_kd_lookup k e v : env_kd e -> lookup k e = Some v -> value_kd v.
Proof. intros He. apply env_kd_vkd in He. exact (lookup_snd value_kd k e v He). Qed.

Lemma env_kd_update e other : env_kd e -> vkd other -> env_kd (update e other).
Proof.
  unfold update. revert e. induction other as [|[k v] r IH]; simpl; intros e He Ho; [exact He|].
  inversion Ho as [|x l Hx Hr]; subst. apply IH; [|exact Hr]. apply env_kd_set; assumption.
Qed.

Lemma vkd_app a b : vkd a -> vkd b -> vkd (a ++ b).
Proof. intros. apply Forall_app. split; assumption. Qed.

(* ---------------------------------------------------------------------------------------- *)
(* the invariant *)

(* the data of an evaluated @render directive is a Python dict of Python values *)
Definition rdir_kd (r : rdir) : Prop :=
  match r with RDEval _ data _ => env_kd data | RDError _ _ => True end.
Definition dir_kd (d : directive) : Prop :=
  match d with DRender r => rdir_kd r | _ => True end.
Definition out_kd (o : output) : Prop := Forall rdir_kd (o_render o).

(* what a snapshot holds *)
Definition core_kd (c : core) : Prop :=
  env_kd (vars c) /\ NoDup (map fst (hooks c)) /\ NoDup (map fst (joinidx c)) /\
  (forall o, out c = Some o -> out_kd o).

Definition NSI (s : nstate) : Prop := core_kd (nc s) /\ Forall env_kd (scopes s).

(* the whole engine state: the live situation, both stacks, the parameter scopes *)
Definition EI (e : estate) : Prop :=
  core_kd (ec e) /\ Forall core_kd (undo_stack e) /\ Forall core_kd (redo_stack e) /\
  Forall env_kd (escopes e).

Definition KdM {A} (Q : A -> Prop) (m : M A) : Prop :=
  forall s s' r, m s = (s', r) -> NSI s -> NSI s' /\ (forall a, r = Ok a -> Q a).

Lemma KdM_ret {A} (Q : A -> Prop) a : Q a -> KdM Q (ret a).
Proof. intros Ha s s' r H HI. inversion H; subst. split; [exact HI|]. intros a0 E. inversion E; subst. exact Ha. Qed.

Lemma KdM_raise {A} (Q : A -> Prop) e : KdM Q (@raise A e).
Proof. intros s s' r H HI. inversion H; subst. split; [exact HI|]. intros a0 E. discriminate E. Qed.

Lemma KdM_bind {A B} (Q1 : A -> Prop) (Q2 : B -> Prop) (m : M A) (f : A -> M B) :
  KdM Q1 m -> (forall a, Q1 a -> KdM Q2 (f a)) -> KdM Q2 (bind m f).
Proof.
  intros Hm Hf s s' r H HI. unfold bind in H. destruct (m s) as [s1 [a|e]] eqn:E.
  - destruct (Hm _ _ _ E HI) as [H1 Ha]. eapply Hf; [apply Ha; reflexivity|exact H|exact H1].
  - inversion H; subst. destruct (Hm _ _ _ E HI) as [H1 _]. split; [exact H1|]. intros a E0. discriminate E0.
Qed.

Lemma KdM_weaken {A} (Q1 Q2 : A -> Prop) (m : M A) : (forall a, Q1 a -> Q2 a) -> KdM Q1 m -> KdM Q2 m.
Proof. intros Hq Hm s s' r H HI. destruct (Hm _ _ _ H HI) as [H1 Ha]. split; [exact H1|]. intros a E. apply Hq, Ha, E. Qed.

Definition TT {A} : A -> Prop := fun _ => True.

Lemma KdM_catch {A} (Q : A -> Prop) (m : M A) (h : exn -> M A) :
  KdM Q m -> (forall e, KdM Q (h e)) -> KdM Q (catch m h).
Proof.
  intros Hm Hh s s' r H HI. unfold catch in H. destruct (m s) as [s1 [a|e]] eqn:E.
  - inversion H; subst. exact (Hm _ _ _ E HI).
  - destruct (Hm _ _ _ E HI) as [H1 _]. exact (Hh e _ _ _ H H1).
Qed.

Lemma KdM_finally {A} (Q : A -> Prop) (m : M A) (f : M unit) :
  KdM Q m -> KdM TT f -> KdM Q (finally m f).
Proof.
  intros Hm Hf s s' r H HI. unfold finally in H. destruct (m s) as [s1 r1] eqn:E.
  destruct (Hm _ _ _ E HI) as [H1 Ha]. inversion H; subst.
  destruct (f s1) as [s2 r2] eqn:E2. simpl. destruct (Hf _ _ _ E2 H1) as [H2 _]. split; assumption.
Qed.

Lemma KdM_get : KdM NSI get.
Proof. intros s s' r H HI. inversion H; subst. split; [exact HI|]. intros a E. inversion E; subst. exact HI. Qed.

Lemma KdM_emit ev : KdM TT (emit ev).
Proof. intros s s' r H HI. inversion H; subst. split; [exact HI|]. intros; exact I. Qed.

Lemma KdM_lift {A} (Q : A -> Prop) (x : res A) : (forall a, x = Ok a -> Q a) -> KdM Q (lift_res x).
Proof. intros Hx s s' r H HI. inversion H; subst. split; [exact HI|exact Hx]. Qed.

Lemma NSI_vars s v : NSI s -> env_kd v ->
  NSI (mkNS (mkCore (cur (nc s)) v (used (nc s)) (hooks (nc s)) (joinidx (nc s)) (out (nc s))) (scopes s) (log s)).
Proof. intros [(A & B & C & D) E] Hv. split; [|exact E]. split; [exact Hv|]. split; [exact B|]. split; [exact C|exact D]. Qed.

Lemma KdM_set_vars v : env_kd v -> KdM TT (set_vars v).
Proof. intros Hv s s' r H HI. inversion H; subst. split; [apply NSI_vars; assumption|]. intros; exact I. Qed.

Lemma KdM_set_cur p : KdM TT (set_cur p).
Proof. intros s s' r H HI. inversion H; subst. split; [exact HI|]. intros; exact I. Qed.

Lemma KdM_set_joinidx j : NoDup (map fst j) -> KdM TT (set_joinidx j).
Proof.
  intros Hj s s' r H [(A & B & C & D) E]. inversion H; subst. split; [|intros; exact I].
  split; [|exact E]. split; [exact A|]. split; [exact B|]. split; [exact Hj|exact D].
Qed.

Lemma KdM_set_out o : out_kd o -> KdM TT (set_out o).
Proof.
  intros Ho s s' r H [(A & B & C & D) E]. inversion H; subst. split; [|intros; exact I].
  split; [|exact E]. split; [exact A|]. split; [exact B|]. split; [exact C|].
  simpl. intros o0 E0. inversion E0; subst. exact Ho.
Qed.

Lemma KdM_push_scope pv : env_kd pv -> KdM TT (push_scope pv).
Proof.
  intros Hp s s' r H [A E]. inversion H; subst. split; [|intros; exact I]. split; [exact A|].
  simpl. constructor; assumption.
Qed.

Lemma KdM_pop_scope : KdM TT pop_scope.
Proof.
  intros s s' r H [A E]. inversion H; subst. split; [|intros; exact I]. split; [exact A|].
  simpl. destruct (scopes s); [constructor|]. inversion E; subst. assumption.
Qed.

Section WithOracle.
Variable orc : pyorc.
Variable ctxkeys : list string.
Variable st : story.

(* the author-code oracle returns Python values when it is given Python values: eval gives a value whose dicts
   have distinct keys; the context after exec holds such values; the evaluated arguments of "f(<args>)" -- the
   positional values and the values of the keyword pairs -- are such values.  Nothing is asked of the keyword NAMES:
   the engine assigns them into one dict after arg_0, arg_1, .. (Engine.args_dict), so the argument dictionary has
   distinct keys whatever they are (args_dict_kd below; f(1, arg_0=2) gives {"arg_0": 2}) *)
Record orc_kd : Prop := mkOrcKd {
  ok_eval : forall ctx code v, env_kd ctx -> o_eval orc ctx code = Ok v -> value_kd v;
  ok_exec : forall ctx code ctx', env_kd ctx -> o_exec orc ctx code = Ok ctx' -> vkd ctx';
  ok_args : forall ctx a pos kw, env_kd ctx -> o_args orc ctx a = Ok (pos, kw) ->
            Forall value_kd pos /\ vkd kw }.

Hypothesis Horc : orc_kd.

Lemma local_of_kd sc : Forall env_kd sc -> env_kd (local_of sc).
Proof. intros H. destruct sc; simpl; [exact env_kd_nil|]. inversion H; assumption. Qed.

Lemma eval_context_kd v sc : env_kd v -> Forall env_kd sc -> env_kd (eval_context v sc).
Proof.
  intros Hv Hs. unfold eval_context, dict_of. pose proof (local_of_kd sc Hs) as Hl.
  apply env_kd_update; [|apply env_kd_vkd; exact Hl].
  apply env_kd_set; [apply value_kd_dict; exact Hl|].
  apply env_kd_set; [apply value_kd_dict; exact Hv|exact Hv].
Qed.

Lemma KdM_ctx_now : KdM env_kd ctx_now.
Proof.
  intros s s' r H HI. inversion H; subst. split; [exact HI|]. intros a E. inversion E; subst.
  destruct HI as [(A & _) S]. apply eval_context_kd; assumption.
Qed.

Lemma sync_back_kd ctx' v skip : vkd ctx' -> env_kd v -> env_kd (sync_back ctxkeys ctx' v skip).
Proof.
  unfold sync_back. revert v. induction ctx' as [|[k x] r IH]; simpl; intros v Hc Hv; [exact Hv|].
  inversion Hc as [|y l Hy Hr]; subst. apply IH; [exact Hr|].
  destruct (is_private k || str_in k ctxkeys || str_in k skip); [exact Hv|]. apply env_kd_set; assumption.
Qed.

Lemma KdM_exec_statement c : KdM TT (exec_statement orc ctxkeys c).
Proof.
  unfold exec_statement. eapply KdM_bind; [apply KdM_emit|]. intros _ _.
  eapply KdM_bind; [apply KdM_ctx_now|]. intros ctx Hctx.
  destruct (o_exec orc ctx c) as [ctx'|e] eqn:E; [|apply KdM_raise].
  intros s s' r H HI. eapply KdM_set_vars; [|exact H|exact HI].
  apply sync_back_kd; [eapply ok_exec; eauto|]. destruct HI as [(A & _) _]. exact A.
Qed.

Lemma KdM_exec_block c : KdM TT (exec_block orc ctxkeys c).
Proof.
  unfold exec_block. eapply KdM_bind; [apply KdM_emit|]. intros _ _.
  eapply KdM_bind; [apply KdM_ctx_now|]. intros ctx Hctx.
  destruct (o_exec orc ctx c) as [ctx'|e] eqn:E; [|apply KdM_raise].
  intros s s' r H HI. eapply KdM_set_vars; [|exact H|exact HI].
  apply sync_back_kd; [eapply ok_exec; eauto|]. destruct HI as [(A & _) _]. exact A.
Qed.

Lemma register_keys h ev p : NoDup (map fst h) -> NoDup (map fst (register_hook h ev p)).
Proof.
  intros H. unfold register_hook. destruct (lookup ev h) as [l|]; [|apply skd_nodup; exact H].
  destruct (str_in p l); [exact H|apply skd_nodup; exact H].
Qed.

Lemma unregister_keys h ev p : NoDup (map fst h) -> NoDup (map fst (unregister_hook h ev p)).
Proof.
  intros H. unfold unregister_hook. destruct (lookup ev h) as [l|]; [|exact H].
  destruct (str_in p l); [apply skd_nodup; exact H|exact H].
Qed.

Lemma KdM_exec_hook a ev p : KdM TT (exec_hook a ev p).
Proof.
  unfold exec_hook. eapply KdM_bind; [apply KdM_emit|]. intros _ _.
  intros s s' r H [(A & B & C & D) E]. unfold set_hooks in H. inversion H; subst. split; [|intros; exact I].
  split; [|exact E]. split; [exact A|]. split; [|split; [exact C|exact D]].
  simpl. destruct a; [apply register_keys|apply unregister_keys]; exact B.
Qed.

Lemma KdM_exec_command t : KdM TT (exec_command orc ctxkeys t).
Proof.
  destruct t; simpl; try (apply KdM_ret; exact I);
    auto using KdM_exec_statement, KdM_exec_block, KdM_exec_hook.
Qed.

Lemma KdM_exec_commands l : KdM TT (exec_commands orc ctxkeys l).
Proof.
  induction l as [|t l IH]; simpl; [apply KdM_ret; exact I|].
  eapply KdM_bind; [apply KdM_exec_command|]. intros _ _. exact IH.
Qed.

(* ---- rendering ---- *)
Definition tokQ (x : tok_out) : Prop := Forall dir_kd (snd x).
Definition seqQ (x : seq_out) : Prop := Forall dir_kd (snd x).

Lemma KdM_seqr (f : token -> M tok_out) l :
  Forall (fun t => KdM tokQ (f t)) l -> KdM seqQ (seqr f l).
Proof.
  induction 1 as [|t l Ht Hl IH]; simpl; [apply KdM_ret; constructor|].
  eapply KdM_bind; [exact Ht|]. intros [[txt c] ds] Hds. unfold tokQ in Hds. simpl in Hds.
  destruct c; [|apply KdM_ret; exact Hds|apply KdM_ret; exact Hds].
  eapply KdM_bind; [exact IH|]. intros [[txt2 j] ds2] H2. unfold seqQ in H2. simpl in H2.
  apply KdM_ret. unfold seqQ. simpl. apply Forall_app. split; assumption.
Qed.

Definition KC (f : token -> M tok_out) (c : choice) : Prop :=
  Forall (fun t => KdM tokQ (f t)) (ch_text c) /\ Forall (fun t => KdM tokQ (f t)) (ch_block c).
Definition KB (f : token -> M tok_out) (b : branch) : Prop :=
  match b with Branch _ cont chs => Forall (fun t => KdM tokQ (f t)) cont /\ Forall (KC f) chs end.

Lemma Forall_dir_choices (g : choice -> directive) chs :
  (forall c, dir_kd (g c)) -> Forall dir_kd (map g chs).
Proof. intros Hg. induction chs; simpl; constructor; auto. Qed.

Lemma KdM_render_branches f ctx brs :
  env_kd ctx -> Forall (KB f) brs -> KdM tokQ (render_branches orc f ctx brs).
Proof.
  intros Hctx. induction 1 as [|b l Hb Hl IH]; simpl; [apply KdM_ret; constructor|].
  destruct b as [cond cont chs]. destruct Hb as [Hc _].
  destruct (o_eval orc ctx cond) as [v|e]; [|exact IH].
  destruct (truthy v); [|exact IH].
  eapply KdM_bind; [apply KdM_seqr; exact Hc|]. intros [[txt j] ds] Hds. unfold seqQ in Hds. simpl in Hds.
  apply KdM_ret. unfold tokQ. simpl. apply Forall_app. split; [exact Hds|].
  apply Forall_dir_choices. intros c. exact I.
Qed.

Lemma KdM_render_loop_choices f chs :
  Forall (KC f) chs -> KdM (Forall dir_kd) (render_loop_choices f chs).
Proof.
  induction 1 as [|c l Hc Hl IH]; simpl; [apply KdM_ret; constructor|].
  destruct Hc as [Ht _].
  eapply KdM_bind; [apply KdM_seqr; exact Ht|]. intros [[t j] ds] _.
  eapply KdM_bind; [exact IH|]. intros rs Hrs. apply KdM_ret. constructor; [exact I|exact Hrs].
Qed.

Definition orig_ok (orig : list (string * option value)) : Prop :=
  Forall (fun kv => match snd kv with Some o => value_kd o | None => True end) orig.

Lemma nth_item_kd item i : value_kd item -> value_kd (nth_item item i).
Proof.
  intros H. unfold nth_item. destruct item; try exact I.
  - simpl in H. apply allP_Forall in H. revert i. induction H as [|x l Hx Hl IH]; intros [|i]; simpl; auto; exact I.
  - simpl in H. apply allP_Forall in H. revert i. induction H as [|x l Hx Hl IH]; intros [|i]; simpl; auto; exact I.
Qed.

Lemma opt_lookup_ok x v : env_kd v ->
  match lookup x v with Some o => value_kd o | None => True end.
Proof. intros Hv. destruct (lookup x v) eqn:E; [eapply env_kd_lookup; eauto|exact I]. Qed.

Lemma loop_bind_go_kd item : forall l i v acc,
  value_kd item -> env_kd v -> orig_ok acc ->
  let r := (fix go (i : nat) (l : list string) (v : env) (acc : list (string * option value)) :=
              match l with
              | [] => (v, acc)
              | x :: r => go (S i) r (set_key x (nth_item item i) v) (set_key x (lookup x v) acc)
              end) i l v acc in
  env_kd (fst r) /\ orig_ok (snd r).
Proof.
  induction l as [|x l IH]; intros i v acc Hi Hv Ha; simpl; [split; assumption|].
  apply IH; [exact Hi| |].
  - apply env_kd_set; [apply nth_item_kd; exact Hi|exact Hv].
  - unfold orig_ok.
    apply (skd_Forall (fun o : option value => match o with Some o => value_kd o | None => True end));
      [apply opt_lookup_ok; exact Hv|exact Ha].
Qed.

Lemma loop_bind_kd vs item v v1 orig :
  value_kd item -> env_kd v -> loop_bind vs item v = (v1, orig) -> env_kd v1 /\ orig_ok orig.
Proof.
  intros Hi Hv E. unfold loop_bind in E.
  destruct vs as [|x [|y r]].
  - inversion E; subst. split; [exact Hv|constructor].
  - inversion E; subst. split; [apply env_kd_set; assumption|].
    constructor; [simpl; apply opt_lookup_ok; exact Hv|constructor].
  - pose proof (loop_bind_go_kd item (x :: y :: r) 0 v [] Hi Hv (Forall_nil _)) as H.
    cbv zeta in H. change (env_kd (fst (v1, orig)) /\ orig_ok (snd (v1, orig))). rewrite <- E. exact H.
Qed.

Lemma loop_restore_kd orig v : orig_ok orig -> env_kd v -> env_kd (loop_restore orig v).
Proof.
  unfold loop_restore. revert v. induction orig as [|[k o] r IH]; simpl; intros v Ho Hv; [exact Hv|].
  inversion Ho as [|y l Hy Hr]; subst. apply IH; [exact Hr|]. simpl in Hy.
  destruct o as [o|]; [|apply env_kd_del; exact Hv].
  destruct (is_none o); [apply env_kd_del; exact Hv|apply env_kd_set; assumption].
Qed.

Lemma KdM_render_loop_items f vs cont chs items :
  Forall (fun t => KdM tokQ (f t)) cont -> Forall (KC f) chs -> Forall value_kd items ->
  KdM tokQ (render_loop_items f vs cont chs items).
Proof.
  intros Hc Hch Hit. induction Hit as [|it rest Hi Hrest IH]; simpl; [apply KdM_ret; constructor|].
  eapply KdM_bind; [apply KdM_get|]. intros s0 Hs0.
  destruct (loop_bind vs it (vars (nc s0))) as [v1 orig] eqn:Elb.
  assert (Hv0 : env_kd (vars (nc s0))) by (destruct Hs0 as [(A & _) _]; exact A).
  destruct (loop_bind_kd _ _ _ _ _ Hi Hv0 Elb) as [Hv1 Horig].
  eapply KdM_bind; [apply KdM_set_vars; exact Hv1|]. intros _ _.
  eapply KdM_bind; [apply KdM_seqr; exact Hc|]. intros [[txt j] ds] Hds. unfold seqQ in Hds. simpl in Hds.
  eapply KdM_bind; [apply KdM_render_loop_choices; exact Hch|]. intros chds Hchds.
  eapply KdM_bind; [apply KdM_get|]. intros s1 Hs1.
  eapply KdM_bind.
  { apply KdM_set_vars. apply loop_restore_kd; [exact Horig|]. destruct Hs1 as [(A & _) _]. exact A. }
  intros _ _.
  destruct j.
  - apply KdM_ret. unfold tokQ. simpl. apply Forall_app. split; assumption.
  - eapply KdM_bind; [exact IH|]. intros [[txt2 c2] ds2] H2. unfold tokQ in H2. simpl in H2.
    apply KdM_ret. unfold tokQ. simpl. apply Forall_app. split; [exact Hds|]. apply Forall_app. split; assumption.
Qed.

Lemma py_iter_kd c items : value_kd c -> py_iter c = Ok items -> Forall value_kd items.
Proof.
  intros Hc E. destruct c; simpl in E; try discriminate E; inversion E; subst.
  - apply Forall_forall. intros x Hx. apply in_map_iff in Hx. destruct Hx as [ch [<- _]]. exact I.
  - simpl in Hc. apply allP_Forall in Hc. exact Hc.
  - simpl in Hc. apply allP_Forall in Hc. exact Hc.
  - apply Forall_forall. intros x Hx. apply in_map_iff in Hx. destruct Hx as [kv [<- _]]. exact I.
Qed.

Lemma number_args_vkd : forall pos b, Forall value_kd pos -> vkd (number_args b pos).
Proof.
  induction pos as [|v r IH]; intros b H; [constructor|]. inversion H as [|x l Hx Hr]; subst.
  cbn [number_args]. constructor; [exact Hx|apply IH; exact Hr].
Qed.

(* the argument dictionary is a Python dict of Python values, whatever the keyword names are *)
Lemma args_dict_kd pos kw : Forall value_kd pos -> vkd kw -> env_kd (args_dict pos kw).
Proof.
  intros Hp Hk. unfold args_dict. apply env_kd_update; [|exact Hk].
  apply env_kd_iff. split; [exact (number_args_nodup pos 0)|apply number_args_vkd; exact Hp].
Qed.

Lemma parse_args_kd ctx args d : env_kd ctx -> parse_args orc ctx args = Ok d -> env_kd d.
Proof.
  intros Hctx E. unfold parse_args in E. destruct (all_space args); [inversion E; subst; exact env_kd_nil|].
  destruct (o_args orc ctx args) as [[pos kw]|e] eqn:Ea; [|discriminate E].
  inversion E; subst. destruct (ok_args Horc _ _ _ _ Hctx Ea) as [Hp Hk]. apply args_dict_kd; assumption.
Qed.

Lemma process_render_kd ctx name args fw : env_kd ctx -> rdir_kd (process_render orc ctx name args fw).
Proof.
  intros Hctx. unfold process_render. destruct (String.eqb args ""); [exact env_kd_nil|].
  destruct (parse_args orc ctx args) as [d|e] eqn:E; [|exact I]. simpl. eapply parse_args_kd; eauto.
Qed.

Lemma PC_KC c : PC (fun t => KdM tokQ (render_tok orc ctxkeys t)) c -> KC (render_tok orc ctxkeys) c.
Proof. intros [A B]. split; assumption. Qed.

Lemma KdM_render_tok t : KdM tokQ (render_tok orc ctxkeys t).
Proof.
  induction t using token_ind'; simpl.
  - apply KdM_ret. constructor.
  - eapply KdM_bind; [apply KdM_ctx_now|]. intros ctx _. apply KdM_ret. constructor.
  - eapply KdM_bind; [apply KdM_ctx_now|]. intros ctx _.
    destruct (o_eval orc ctx c) as [b|e]; [|apply KdM_ret; constructor].
    apply KdM_catch; [|intros; apply KdM_ret; constructor].
    eapply KdM_bind.
    + apply KdM_seqr. destruct (truthy b); assumption.
    + intros [[? ?] ?] _. apply KdM_ret. constructor.
  - eapply KdM_bind; [apply KdM_ctx_now|]. intros ctx Hctx.
    apply KdM_render_branches; [exact Hctx|].
    eapply Forall_impl; [|exact H]. intros [cond cont chs] [Hc Hch]. split; [exact Hc|].
    eapply Forall_impl; [|exact Hch]. intros c0. apply PC_KC.
  - destruct (String.eqb v "" || String.eqb c ""); [apply KdM_ret; constructor|].
    eapply KdM_bind; [apply KdM_ctx_now|]. intros ctx Hctx.
    destruct (match o_eval orc ctx c with Ok c0 => py_iter c0 | Exc e => Exc e end) as [items|e] eqn:E;
      [|apply KdM_ret; constructor].
    apply KdM_render_loop_items; [assumption| |].
    + eapply Forall_impl; [|exact H0]. intros c0. apply PC_KC.
    + destruct (o_eval orc ctx c) as [c0|e0] eqn:Ev; [|discriminate E].
      eapply py_iter_kd; [|exact E]. eapply ok_eval; eauto.
  - apply KdM_ret. constructor.
  - eapply KdM_bind; [apply KdM_exec_statement|]. intros; apply KdM_ret; constructor.
  - eapply KdM_bind; [apply KdM_exec_block|]. intros; apply KdM_ret; constructor.
  - eapply KdM_bind; [apply KdM_exec_hook|]. intros; apply KdM_ret; constructor.
  - eapply KdM_bind; [apply KdM_ctx_now|]. intros ctx Hctx. apply KdM_ret.
    unfold tokQ. simpl. constructor; [|constructor]. simpl. apply process_render_kd. exact Hctx.
  - apply KdM_ret. unfold tokQ. simpl. constructor; [exact I|constructor].
  - apply KdM_ret. constructor.
Qed.

Lemma KdM_render_content l : KdM seqQ (render_content orc ctxkeys l).
Proof.
  unfold render_content. apply KdM_seqr. apply Forall_forall. intros t _. apply KdM_render_tok.
Qed.


Lemma KdM_choice_text c dt : KdM TT (choice_text orc ctxkeys c dt).
Proof.
  destruct dt; simpl; [apply KdM_ret; exact I|]. unfold render_choice_text.
  eapply KdM_bind; [apply KdM_render_content|]. intros [[? ?] ?] _. apply KdM_ret. exact I.
Qed.

Lemma KdM_is_choice_available c dt : KdM TT (is_choice_available orc ctxkeys c dt).
Proof.
  unfold is_choice_available. eapply KdM_bind with (Q1 := TT).
  - destruct (ch_sticky c); [apply KdM_ret; exact I|].
    eapply KdM_bind; [apply KdM_choice_text|]. intros t _.
    intros s s' r H HI. inversion H; subst. split; [exact HI|]. intros; exact I.
  - intros u _. destruct (negb u); [apply KdM_ret; exact I|].
    destruct (ch_cond c) as [cond|]; [|apply KdM_ret; exact I].
    destruct (String.eqb cond ""); [apply KdM_ret; exact I|].
    eapply KdM_bind; [apply KdM_ctx_now|]. intros ctx _.
    destruct (o_eval orc ctx cond); apply KdM_ret; exact I.
Qed.

Lemma KdM_filter_choices cands sec : KdM TT (filter_choices orc ctxkeys cands sec).
Proof.
  induction cands as [|[[c dt] fd] r IH]; simpl; [apply KdM_ret; exact I|].
  eapply KdM_bind; [apply KdM_is_choice_available|]. intros av _.
  destruct (av && Nat.eqb (dir_section c fd) sec); [|exact IH].
  eapply KdM_bind; [apply KdM_choice_text|]. intros t _.
  eapply KdM_bind; [exact IH|]. intros rs _. apply KdM_ret. exact I.
Qed.

Lemma split_dirs_kd ds cds ins rds :
  Forall dir_kd ds -> split_dirs ds = (cds, ins, rds) -> Forall rdir_kd rds.
Proof.
  revert cds ins rds. induction ds as [|d r IH]; simpl; intros cds ins rds H E.
  - inversion E; subst. constructor.
  - inversion H as [|x l Hx Hr]; subst. destruct (split_dirs r) as [[cs0 ins0] rs0] eqn:Es.
    pose proof (IH _ _ _ Hr eq_refl) as IH'.
    destruct d; inversion E; subst; [exact IH'|exact IH'|constructor; [exact Hx|exact IH']].
Qed.

Lemma KdM_render_passage pid : KdM out_kd (render_passage orc ctxkeys st pid).
Proof.
  unfold render_passage. destruct (get_passage st pid) as [p|]; [|apply KdM_raise].
  eapply KdM_bind; [apply KdM_emit|]. intros _ _.
  eapply KdM_bind; [apply KdM_render_content|]. intros [[txt j] ds] Hds. unfold seqQ in Hds. simpl in Hds.
  destruct (split_dirs ds) as [[cds ins] rds] eqn:Es.
  eapply KdM_bind; [apply KdM_get|]. intros s _.
  eapply KdM_bind; [apply KdM_filter_choices|]. intros chs _. apply KdM_ret.
  unfold out_kd. simpl. eapply split_dirs_kd; eauto.
Qed.

Lemma KdM_execute_passage pid : KdM TT (execute_passage orc ctxkeys st pid).
Proof.
  unfold execute_passage. destruct (get_passage st pid) as [p|]; [|apply KdM_raise].
  eapply KdM_bind; [apply KdM_emit|]. intros _ _. apply KdM_exec_commands.
Qed.

Lemma bind_arguments_kd ctx0 ad : env_kd ctx0 -> vkd ad ->
  forall ps pi acc pv, env_kd acc -> bind_arguments orc ctx0 ps ad pi acc = Ok pv -> env_kd pv.
Proof.
  intros Hc Had. induction ps as [|p r IH]; simpl; intros pi acc pv Hacc E; [inversion E; subst; exact Hacc|].
  match type of E with match ?x with _ => _ end = _ => destruct x as [v|] eqn:E1 end.
  - eapply IH; [|exact E]. apply env_kd_set; [|exact Hacc]. exact (lookup_snd value_kd _ _ _ Had E1).
  - destruct (lookup (pname p) ad) as [v|] eqn:E2.
    + destruct (has_key (pname p) acc); [discriminate E|].
      eapply IH; [|exact E]. apply env_kd_set; [|exact Hacc]. exact (lookup_snd value_kd _ _ _ Had E2).
    + destruct (pdefault p) as [d|]; [|discriminate E].
      destruct (o_eval orc (update ctx0 acc) d) as [v|e] eqn:E3; [|discriminate E].
      eapply IH; [|exact E]. apply env_kd_set; [|exact Hacc].
      eapply ok_eval; [exact Horc| |exact E3]. apply env_kd_update; [exact Hc|apply env_kd_vkd; exact Hacc].
Qed.

Lemma KdM_enter_scope p args : KdM TT (enter_scope orc p args).
Proof.
  unfold enter_scope. destruct (has_scope p args); [|apply KdM_ret; exact I].
  eapply KdM_bind; [apply KdM_ctx_now|]. intros ctx Hctx.
  eapply KdM_bind with (Q1 := env_kd).
  - apply KdM_lift. intros ad E. destruct (String.eqb args ""); [inversion E; subst; exact env_kd_nil|].
    eapply parse_args_kd; eauto.
  - intros ad Had. destruct (bind_arguments orc ctx (params p) ad 0 []) as [pv|e] eqn:E; [|apply KdM_raise].
    apply KdM_push_scope. eapply bind_arguments_kd; [exact Hctx|apply env_kd_vkd; exact Had|exact env_kd_nil|exact E].
Qed.

Lemma KdM_with_scope {A} (Q : A -> Prop) p args (body : M A) :
  KdM Q body -> KdM Q (with_scope orc p args body).
Proof.
  intros Hb. unfold with_scope. eapply KdM_bind; [apply KdM_enter_scope|]. intros _ _.
  apply KdM_finally; [exact Hb|]. destruct (has_scope p args); [apply KdM_pop_scope|apply KdM_ret; exact I].
Qed.

Lemma chain_output_kd o jo : out_kd o -> out_kd jo -> out_kd (chain_output o jo).
Proof. unfold out_kd, chain_output. simpl. intros. apply Forall_app. split; assumption. Qed.

Lemma KdM_goto_rec fuel : forall spec visited, KdM out_kd (goto_rec orc ctxkeys st fuel spec visited).
Proof.
  induction fuel as [|f IH]; intros spec visited; simpl; [apply KdM_raise|].
  eapply KdM_bind with (Q1 := TT); [apply KdM_lift; intros; exact I|]. intros [pid args] _.
  destruct (get_passage st pid) as [p|]; [|apply KdM_raise].
  apply KdM_with_scope.
  destruct (str_in pid visited); [apply KdM_raise|].
  eapply KdM_bind; [apply KdM_set_cur|]. intros _ _.
  eapply KdM_bind; [apply KdM_get|]. intros s Hs.
  eapply KdM_bind.
  { apply KdM_set_joinidx. apply skd_nodup. destruct Hs as [(_ & _ & C & _) _]. exact C. }
  intros _ _.
  eapply KdM_bind; [apply KdM_execute_passage|]. intros _ _.
  eapply KdM_bind; [apply KdM_render_passage|]. intros o Ho.
  eapply KdM_bind with (Q1 := out_kd).
  - destruct (o_jump o) as [target|]; [|apply KdM_ret; exact Ho].
    eapply KdM_bind; [apply IH|]. intros jo Hjo. apply KdM_ret. apply chain_output_kd; assumption.
  - intros o' Ho'. eapply KdM_bind; [apply KdM_set_out; exact Ho'|]. intros _ _. apply KdM_ret. exact Ho'.
Qed.

Lemma KdM_goto spec : KdM out_kd (goto orc ctxkeys st spec).
Proof. apply KdM_goto_rec. Qed.

Lemma KdM_run_hooks l : KdM TT (run_hooks orc ctxkeys st l).
Proof.
  induction l as [|p r IH]; simpl; [apply KdM_ret; exact I|].
  destruct (get_passage st p); [|exact IH].
  eapply KdM_bind; [apply KdM_emit|]. intros _ _.
  eapply KdM_bind; [apply KdM_execute_passage|]. intros _ _.
  eapply KdM_bind; [apply KdM_render_passage|]. intros o _.
  eapply KdM_bind; [exact IH|]. intros rest _. apply KdM_ret. exact I.
Qed.

Lemma KdM_trigger_event ev : KdM TT (trigger_event orc ctxkeys st ev).
Proof.
  unfold trigger_event. eapply KdM_bind; [apply KdM_get|]. intros s _.
  destruct (lookup ev (hooks (nc s))) as [active|]; [|apply KdM_ret; exact I].
  eapply KdM_bind; [apply KdM_run_hooks|]. intros outs _. apply KdM_ret. exact I.
Qed.

Lemma with_hook_output_kd o h : out_kd o -> out_kd (with_hook_output o h).
Proof. unfold with_hook_output. destruct (String.eqb h ""); [tauto|]. unfold out_kd. simpl. tauto. Qed.

Lemma KdM_after_hooks o : out_kd o -> KdM out_kd (after_hooks orc ctxkeys st o).
Proof.
  intros Ho. unfold after_hooks. eapply KdM_bind; [apply KdM_trigger_event|]. intros h _.
  destruct (String.eqb h ""); [apply KdM_ret; exact Ho|].
  pose proof (with_hook_output_kd o h Ho) as Ho'.
  eapply KdM_bind; [apply KdM_set_out; exact Ho'|]. intros _ _. apply KdM_ret. exact Ho'.
Qed.

Lemma KdM_render_from_join_marker pid idx : KdM out_kd (render_from_join_marker orc ctxkeys st pid idx).
Proof.
  unfold render_from_join_marker. destruct (get_passage st pid) as [p|]; [|apply KdM_raise].
  eapply KdM_bind with (Q1 := TT).
  - destruct (after_nth_marker (content p) idx); [apply KdM_ret; exact I|].
    destruct idx; [apply KdM_ret; exact I|apply KdM_raise].
  - intros toks _. eapply KdM_bind; [apply KdM_render_content|]. intros [[txt j] ds] Hds.
    unfold seqQ in Hds. simpl in Hds.
    destruct (split_dirs ds) as [[cds ins] rds] eqn:Es.
    eapply KdM_bind; [apply KdM_filter_choices|]. intros chs _. apply KdM_ret.
    unfold out_kd. simpl. eapply split_dirs_kd; eauto.
Qed.

Lemma bdirs_kd bds : Forall dir_kd bds ->
  Forall rdir_kd (map (fun d => match d with
                                | DRender r => r
                                | DInput a => RDError "input"%string ""%string
                                | DChoice c _ => RDError "choice"%string ""%string
                                end) bds).
Proof. induction 1 as [|d l Hd Hl IH]; simpl; constructor; [destruct d; simpl; auto|exact IH]. Qed.

Lemma KdM_execute_join_choice c : KdM out_kd (execute_join_choice orc ctxkeys st c).
Proof.
  unfold execute_join_choice. eapply KdM_bind; [apply KdM_get|]. intros s _.
  eapply KdM_bind with (Q1 := fun x : string * list directive => Forall dir_kd (snd x)).
  - destruct (ch_block (rc_choice c)) as [|b0 blk]; [apply KdM_ret; constructor|].
    eapply KdM_bind; [apply KdM_render_content|]. intros [[t j] ds] Hds. apply KdM_ret. exact Hds.
  - intros [btxt bds] Hb. simpl in Hb.
    eapply KdM_bind; [apply KdM_get|]. intros s1 _.
    eapply KdM_bind; [apply KdM_render_from_join_marker|]. intros post Hpost.
    eapply KdM_bind; [apply KdM_get|]. intros s2 Hs2.
    eapply KdM_bind.
    { apply KdM_set_joinidx. apply skd_nodup. destruct Hs2 as [(_ & _ & C & _) _]. exact C. }
    intros _ _.
    match goal with |- KdM _ (bind (set_out ?res) _) => assert (Hres : out_kd res) end.
    { unfold out_kd. simpl. apply Forall_app. split; [apply bdirs_kd; exact Hb|exact Hpost]. }
    eapply KdM_bind; [apply KdM_set_out; exact Hres|]. intros _ _.
    apply KdM_after_hooks. exact Hres.
Qed.

Lemma KdM_choose_nav ch o : KdM out_kd (choose_nav orc ctxkeys st ch o).
Proof.
  unfold choose_nav. eapply KdM_bind with (Q1 := TT).
  - destruct (ch_sticky (rc_choice ch)); [apply KdM_ret; exact I|].
    intros s s' r H HI. inversion H; subst. split; [exact HI|]. intros; exact I.
  - intros _ _. destruct (String.eqb (ch_target (rc_choice ch)) "@join"); [apply KdM_execute_join_choice|].
    eapply KdM_bind; [apply KdM_goto|]. intros r Hr. apply KdM_after_hooks. exact Hr.
Qed.

(* ---- whole-state operations ---- *)
Lemma run_nav_EI {A} (Q : A -> Prop) (m : M A) e :
  KdM Q m -> EI e -> EI (fst (run_nav m e)).
Proof.
  intros Hm (H1 & H2 & H3 & H4). unfold run_nav.
  destruct (m (mkNS (ec e) (escopes e) (elog e))) as [s r] eqn:E.
  destruct (Hm _ _ _ E) as [[Hc Hs] _]; [split; assumption|].
  simpl. split; [exact Hc|]. split; [exact H2|]. split; [exact H3|exact Hs].
Qed.

Lemma EI_step e o : EI e -> EI (fst (step orc ctxkeys st e o)).
Proof.
  intros HI. pose proof HI as (H1 & H2 & H3 & H4). destruct o; simpl.
  - (* choose *)
    destruct (Z_lt_dec i 0) as [Hi|Hi].
    { rewrite choose_bad_index by (unfold valid_index; lia). exact HI. }
    destruct (Z_lt_dec i (Z.of_nat (List.length (o_choices (current_out e))))) as [Hj|Hj].
    2:{ rewrite choose_bad_index by (unfold valid_index; lia). exact HI. }
    destruct (choose_valid orc ctxkeys st e i) as (ch & _ & Hc); [unfold valid_index; lia|].
    rewrite Hc.
    match goal with |- EI (fst (let (_, _) := run_nav ?m ?e1 in _)) =>
      pose proof (run_nav_EI out_kd m e1 (KdM_choose_nav ch (current_out e))) as Hn;
      destruct (run_nav m e1) as [e' [a|x]] end.
    all: simpl in *; apply Hn; (split; [exact H1|]; split; [apply Forall_firstn; constructor; assumption|];
         split; [constructor|exact H4]).
  - (* undo *)
    unfold undo. destruct (undo_stack e) as [|p rest] eqn:Eu; simpl; [exact HI|].
    inversion H2; subst. split; [assumption|]. split; [assumption|]. split; [constructor; assumption|exact H4].
  - (* redo *)
    unfold redo. destruct (redo_stack e) as [|p rest] eqn:Er; simpl; [exact HI|].
    inversion H3; subst. split; [assumption|]. split; [apply Forall_firstn; constructor; assumption|].
    split; assumption.
  - (* goto *)
    unfold goto_op. pose proof (run_nav_EI out_kd _ e (KdM_goto spec) HI) as Hn.
    destruct (run_nav (goto orc ctxkeys st spec) e) as [e' [a|x]]; exact Hn.
  - (* reset *)
    destruct H1 as (A & B & C & D). split; [split; [exact A|split; [exact B|split; [exact C|exact D]]]|].
    split; [exact H2|]. split; [exact H3|exact H4].
  - exact HI.
  - (* reload *) split; [exact H1|]. split; [constructor|]. split; [constructor|exact H4].
  - (* input *)
    destruct H1 as (A & B & C & D). split; [|split; [exact H2|split; [exact H3|exact H4]]].
    split; [|split; [exact B|split; [exact C|exact D]]]. simpl.
    apply env_kd_set; [|exact A]. apply value_kd_dict. apply env_kd_set; [exact I|].
    destruct (lookup "_inputs"%string (vars (ec e))) as [[]|] eqn:El; try exact env_kd_nil.
    exact (env_kd_lookup _ _ _ A El).
  - exact HI.
  - exact HI.
  - exact HI.
Qed.

Lemma EI_init v0 e o : env_kd v0 -> init orc ctxkeys st v0 = (e, Ok o) -> EI e.
Proof.
  intros Hv Hi. unfold init in Hi. destruct (get_passage st (initial st)); [|discriminate Hi].
  unfold goto_op in Hi.
  match type of Hi with run_nav ?m ?e0 = _ =>
    pose proof (run_nav_EI out_kd m e0 (KdM_goto (initial st))) as Hn; rewrite Hi in Hn end.
  apply Hn. split; [|split; [constructor|split; constructor]].
  split; [apply env_kd_set; [exact env_kd_nil|exact Hv]|]. simpl.
  split; [constructor|]. split; [constructor|]. intros o0 E. discriminate E.
Qed.

(* reachable states whose initial variables (bound by the import lines) are a Python dict of Python values.
   played_kd is StoryWfChoose.played (EngineHooks.reach plus the save slot of OpSave / OpLoad) with that
   requirement on the initial variables; reach_kd is the same for reach. *)
Inductive played_kd : estate -> option core -> Prop :=
| pk_init v0 e o : env_kd v0 -> init orc ctxkeys st v0 = (e, Ok o) -> played_kd e None
| pk_step e slot o : played_kd e slot -> played_kd (fst (step orc ctxkeys st e o)) slot
| pk_save e slot : played_kd e slot -> played_kd e (Some (ec e))
| pk_load e slot c : played_kd e slot -> slot = Some c -> played_kd (mkES c [] [] (escopes e) (elog e)) slot.

Inductive reach_kd : estate -> Prop :=
| rk_init v0 e o : env_kd v0 -> init orc ctxkeys st v0 = (e, Ok o) -> reach_kd e
| rk_step e o : reach_kd e -> reach_kd (fst (step orc ctxkeys st e o)).

Lemma played_kd_played e slot : played_kd e slot -> played orc ctxkeys st e slot.
Proof.
  induction 1 as [v0 e o Hv Hi|e slot o Hp IH|e slot Hp IH|e slot c Hp IH Hc].
  - eapply played_init; eauto.
  - apply played_step; exact IH.
  - eapply played_save; exact IH.
  - eapply played_load; eauto.
Qed.

Lemma reach_kd_reach e : reach_kd e -> reach orc ctxkeys st e.
Proof. induction 1 as [v0 e o Hv Hi|e o Hr IH]; [eapply reach_init; eauto|apply reach_step; exact IH]. Qed.

Lemma reach_kd_played e : reach_kd e -> played_kd e None.
Proof. induction 1 as [v0 e o Hv Hi|e o Hr IH]; [eapply pk_init; eauto|apply pk_step; exact IH]. Qed.

Lemma played_kd_EI e slot : played_kd e slot -> EI e /\ (forall c, slot = Some c -> core_kd c).
Proof.
  induction 1 as [v0 e o Hv Hi|e slot o Hp [IH1 IH2]|e slot Hp [IH1 IH2]|e slot c Hp [IH1 IH2] Hc].
  - split; [eapply EI_init; eauto|intros c Hc; discriminate Hc].
  - split; [apply EI_step; exact IH1|exact IH2].
  - split; [exact IH1|]. intros c Hc. inversion Hc; subst. apply IH1.
  - split; [|exact IH2]. split; [apply IH2; exact Hc|]. split; [constructor|]. split; [constructor|apply IH1].
Qed.

End WithOracle.

(* ---------------------------------------------------------------------------------------- *)
(* the concrete encoder of the displayed output (Engine/SaveOutEnc.v) writes Python data *)

Ltac nodup_strs :=
  repeat (constructor; [cbn [List.In]; intros Hin; repeat (destruct Hin as [Hin|Hin]; [discriminate Hin|]); exact Hin|]);
  constructor.

Lemma vlist_kd {A} (f : A -> value) l : Forall (fun x => value_kd (f x)) l -> value_kd (VList (map f l)).
Proof. intros H. cbn [value_kd]. apply allP_Forall. apply Forall_map. exact H. Qed.

Lemma vstrs_kd l : value_kd (VList (map VStr l)).
Proof. apply vlist_kd. apply Forall_forall. intros x _. exact I. Qed.

Lemma vopt_kd o : value_kd (vopt o).
Proof. destruct o; exact I. Qed.

Lemma attrs_value_kd ty a : value_kd (attrs_value ty a).
Proof.
  unfold attrs_value. apply value_kd_dict. apply env_kd_update.
  - split; [nodup_strs|]. cbn. tauto.
  - unfold vkd. apply Forall_map. apply Forall_forall. intros x _. exact I.
Qed.

Lemma choice_fields_kd (f : token -> value) c :
  Forall (fun t => value_kd (f t)) (ch_text c) -> Forall (fun t => value_kd (f t)) (ch_block c) ->
  env_kd (choice_fields f c).
Proof.
  destruct c as [tx tg ar cd stk sec tgs blk]. simpl. intros Ht Hb. split; [cbn [map fst]; nodup_strs|].
  cbn [allPi]. repeat split; try exact I.
  - apply (vlist_kd f tx Ht).
  - apply vopt_kd.
  - apply vstrs_kd.
  - apply (vlist_kd f blk Hb).
Qed.

Lemma tok_value_kd t : value_kd (tok_value t).
Proof.
  induction t using token_ind'; cbn [tok_value].
  - cbn. split; [nodup_strs|tauto].
  - cbn. split; [nodup_strs|tauto].
  - apply value_kd_dict. split; [cbn [map fst]; nodup_strs|]. cbn [allPi]. repeat split; try exact I.
    + apply (vlist_kd tok_value tr H).
    + apply (vlist_kd tok_value fa H0).
  - apply value_kd_dict. split; [cbn [map fst]; nodup_strs|]. cbn [allPi]. repeat split; try exact I.
    apply vlist_kd. eapply Forall_impl; [|exact H]. intros [c cont chs] [Hc Hch].
    apply value_kd_dict. split; [cbn [map fst]; nodup_strs|]. cbn [allPi]. repeat split; try exact I.
    + apply (vlist_kd tok_value cont Hc).
    + apply vlist_kd. eapply Forall_impl; [|exact Hch]. intros ch [Ht Hb].
      apply value_kd_dict. apply choice_fields_kd; assumption.
  - apply value_kd_dict. split; [cbn [map fst]; nodup_strs|]. cbn [allPi]. repeat split; try exact I.
    + apply (vlist_kd tok_value cont H).
    + apply vlist_kd. eapply Forall_impl; [|exact H0]. intros ch [Ht Hb].
      apply value_kd_dict. apply choice_fields_kd; assumption.
  - cbn. split; [nodup_strs|tauto].
  - cbn. split; [nodup_strs|tauto].
  - cbn. split; [nodup_strs|tauto].
  - cbn. split; [nodup_strs|tauto].
  - apply value_kd_dict. split; [cbn [map fst]; nodup_strs|]. cbn [allPi]. repeat split; try exact I. apply vopt_kd.
  - apply attrs_value_kd.
  - cbn. split; [nodup_strs|tauto].
Qed.

Lemma rchoice_value_kd rc : value_kd (rchoice_value rc).
Proof.
  unfold rchoice_value. apply value_kd_dict. apply env_kd_set; [exact I|].
  apply choice_fields_kd; apply Forall_forall; intros t _; apply tok_value_kd.
Qed.

Lemma rdir_value_kd r : rdir_kd r -> value_kd (rdir_value r).
Proof.
  destruct r as [n data fw|n raw]; simpl; intros H.
  - split; [destruct fw; cbn [app map fst]; nodup_strs|]. destruct fw; cbn [app allPi]; repeat split; try exact I; apply H.
  - split; [nodup_strs|tauto].
Qed.

Lemma ser_field_kd cx fuel v : ctx_kd cx -> value_kd v -> keys_distinct (ser_field cx fuel v).
Proof.
  intros Hcx Hv. unfold ser_field. destruct (ser fuel fixed cx v) as [j|] eqn:E; [|exact I].
  eapply ser_kd; eauto.
Qed.

(* every displayed output whose directive data are Python dicts is written with distinct keys at every depth *)
Theorem out_enc_std_kd cx fuel o : ctx_kd cx -> out_kd o -> keys_distinct (out_enc_std cx fuel o).
Proof.
  intros Hcx Ho. unfold out_enc_std. cbn [keys_distinct map fst allPi]. split; [nodup_strs|].
  split; [exact I|]. split.
  { apply ser_field_kd; [exact Hcx|]. apply vlist_kd. apply Forall_forall. intros rc _. apply rchoice_value_kd. }
  split; [exact I|]. split.
  { apply ser_field_kd; [exact Hcx|]. apply vlist_kd. unfold out_kd in Ho.
    eapply Forall_impl; [|exact Ho]. intros r Hr. apply rdir_value_kd. exact Hr. }
  split.
  { apply ser_field_kd; [exact Hcx|]. apply vlist_kd. apply Forall_forall. intros a _. apply attrs_value_kd. }
  split; [destruct (o_jump o); exact I|exact I].
Qed.

(* ---------------------------------------------------------------------------------------- *)
(* the theorems *)
Section Main.
Variable orc : pyorc.
Variable ctxkeys : list string.
Variable st : story.
Hypothesis Horc : orc_kd orc.

(* the side conditions of save_text_roundtrip are invariants of play (save slot included) *)
Theorem played_state_kd e slot :
  played_kd orc ctxkeys st e slot ->
  env_kd (vars (ec e)) /\ NoDup (map fst (hooks (ec e))) /\ NoDup (map fst (joinidx (ec e))) /\
  (forall o, out (ec e) = Some o -> out_kd o).
Proof. intros H. destruct (played_kd_EI orc ctxkeys st Horc e slot H) as [(Hc & _) _]. exact Hc. Qed.

Theorem reach_state_kd e :
  reach_kd orc ctxkeys st e ->
  env_kd (vars (ec e)) /\ NoDup (map fst (hooks (ec e))) /\ NoDup (map fst (joinidx (ec e))).
Proof.
  intros H. apply reach_kd_played in H. destruct (played_state_kd e None H) as (A & B & C & _). tauto.
Qed.

(* ... also of every restore point and of the content of the save slot *)
Theorem played_stacks_kd e slot :
  played_kd orc ctxkeys st e slot ->
  Forall core_kd (undo_stack e) /\ Forall core_kd (redo_stack e) /\ (forall c, slot = Some c -> core_kd c).
Proof. intros H. destruct (played_kd_EI orc ctxkeys st Horc e slot H) as [(_ & A & B & _) C]. tauto. Qed.

Theorem played_save_text_roundtrip cx fuel now e slot doc :
  ctx_kd cx -> played_kd orc ctxkeys st e slot ->
  save_json st cx fuel (out_enc_std cx fuel) now e = Some doc ->
  loads (dumps doc) = Some (json_rt doc) /\ loads (dumps_indent2 doc) = Some (json_rt doc).
Proof.
  intros Hcx Hp Hs. destruct (played_state_kd e slot Hp) as (A & B & C & D).
  eapply save_text_roundtrip; [exact Hcx|exact A|exact B|exact C| |exact Hs].
  intros o Ho. apply out_enc_std_kd; [exact Hcx|exact (D o Ho)].
Qed.

Theorem reachable_save_text_roundtrip cx fuel now e doc :
  ctx_kd cx -> reach_kd orc ctxkeys st e ->
  save_json st cx fuel (out_enc_std cx fuel) now e = Some doc ->
  loads (dumps doc) = Some (json_rt doc) /\ loads (dumps_indent2 doc) = Some (json_rt doc).
Proof. intros Hcx Hr. apply reach_kd_played in Hr. eapply played_save_text_roundtrip; eauto. Qed.

(* for any other encoder of the displayed output that writes Python data for outputs with Python directive data *)
Theorem played_save_text_roundtrip_gen cx fuel out_enc now e slot doc :
  ctx_kd cx -> (forall o, out_kd o -> keys_distinct (out_enc o)) ->
  played_kd orc ctxkeys st e slot ->
  save_json st cx fuel out_enc now e = Some doc ->
  loads (dumps doc) = Some (json_rt doc) /\ loads (dumps_indent2 doc) = Some (json_rt doc).
Proof.
  intros Hcx He Hp Hs. destruct (played_state_kd e slot Hp) as (A & B & C & D).
  eapply save_text_roundtrip; [exact Hcx|exact A|exact B|exact C| |exact Hs].
  intros o Ho. apply He. exact (D o Ho).
Qed.
End Main.
