(* parse (print_story s) = POk (compile_ref s): the parser model (Compiler/Parse*.v with the real block
   extractors, ParseAllProofs.parse_real) run on the text that the .bard printer (Story/SourcePrint.v) produces
   for a source AST yields exactly the compiled story that compile_ref (Story/Source.v) specifies, for every
   source story satisfying the executable predicate `printable` (Story/SourcePrint.v).

   Layers, each its own theorem:
     (i)   parse_content_line_pieces     a printed content line tokenizes to c_pieces (literal text, {expr},
                                         {expr:spec}, inline conditionals nested up to the compiler's limit of 50)
     (ii)  classify / step_text ... step_header   every printed line kind is classified by the main loop and handled
                                         as compile_ref says: text (with / without glue), blank, ~ statement, jump,
                                         @render, @input, @hook / @unhook, @join marker, choice (condition, arguments,
                                         sticky / one-time, -> @join), passage header with parameters
     (iii) parse_print_gen               the whole story by induction over the main loop (`reaches`), for any block
                                         extractors that do on the printed blocks what compile_ref says
                                         (item_steps / choice_steps); the two whitespace normalisations of the parser
                                         model are the functions of Source.v (normalisations_agree)
     (iv)  py_block_at, extract_join_print, blocks_spec   the real extractors on printed blocks: @py: bodies and the
                                         blocks of `-> @join` choices (detect_and_strip_indentation on the 4-space
                                         indentation), @if / @elif / @else and @for at any indentation and any nesting
                                         (cond_body_print, loop_body_print; mutual induction on the item, fuel and the
                                         depth cap of 100)
           parse_print_flat              stories without @if / @for blocks (corollary kept from the layering)
           parse_print_full              FULL: every printable story *)
From Coq Require Import String Ascii List Bool Arith ZArith Lia.
From Bardic Require Import PyStr Value Compiled Source Lex ParseBase ParseLine ParseMain SourcePrint LexProofs ParseProofs.
From Bardic Require ParseBlocks ParseBlocksInst ParseAllProofs ParseCheck ReferenceProofs Engine EngineBase Reference.
Import ListNotations.

(* ===== part 1 ===== *)
Local Open Scope string_scope.
Local Open Scope nat_scope.

(* ------------------------------------------------------------------------------------------- *)
(* strings: append, length, take, drop                                                          *)
(* ------------------------------------------------------------------------------------------- *)
Lemma sapp_nil_r : forall s : string, s ++ "" = s.
Proof. induction s as [|c s IH]; simpl; [reflexivity | now rewrite IH]. Qed.

Lemma sapp_assoc : forall a b c : string, (a ++ b) ++ c = a ++ (b ++ c).
Proof. induction a as [|x a IH]; intros; simpl; [reflexivity | now rewrite IH]. Qed.

Lemma slen_app : forall a b, String.length (a ++ b) = String.length a + String.length b.
Proof. induction a as [|x a IH]; intros; simpl; [reflexivity | now rewrite IH]. Qed.

Lemma snoc_app : forall a c, snoc a c = a ++ String c "".
Proof. reflexivity. Qed.

Lemma sapp_cons : forall a c b, (a ++ String c "") ++ b = a ++ String c b.
Proof. intros. rewrite sapp_assoc. reflexivity. Qed.

Lemma drop_app : forall a b, drop (String.length a) (a ++ b) = b.
Proof. induction a as [|x a IH]; intros; simpl; [reflexivity | apply IH]. Qed.

Lemma drop_app_plus : forall a b k, drop (String.length a + k) (a ++ b) = drop k b.
Proof. induction a as [|x a IH]; intros; simpl; [reflexivity | apply IH]. Qed.

Lemma take_app : forall a b, take (String.length a) (a ++ b) = a.
Proof. induction a as [|x a IH]; intros; simpl; [reflexivity | now rewrite IH]. Qed.

Lemma take_app_plus : forall a b k, take (String.length a + k) (a ++ b) = a ++ take k b.
Proof. induction a as [|x a IH]; intros; simpl; [reflexivity | now rewrite IH]. Qed.

Lemma take_all : forall a, take (String.length a) a = a.
Proof. induction a as [|x a IH]; simpl; [reflexivity | now rewrite IH]. Qed.

Lemma take_0 : forall a, take 0 a = "".
Proof. reflexivity. Qed.

Lemma drop_all : forall a, drop (String.length a) a = "".
Proof. induction a as [|x a IH]; simpl; [reflexivity | apply IH]. Qed.

(* ------------------------------------------------------------------------------------------- *)
(* all_chars                                                                                    *)
(* ------------------------------------------------------------------------------------------- *)
Lemma all_chars_app : forall p a b, all_chars p (a ++ b) = all_chars p a && all_chars p b.
Proof. induction a as [|x a IH]; intros; simpl; [reflexivity | rewrite IH; apply andb_assoc]. Qed.

Lemma all_chars_app_l : forall p a b, all_chars p (a ++ b) = true -> all_chars p a = true.
Proof. intros p a b H. rewrite all_chars_app in H. apply andb_prop in H. tauto. Qed.

Lemma all_chars_app_r : forall p a b, all_chars p (a ++ b) = true -> all_chars p b = true.
Proof. intros p a b H. rewrite all_chars_app in H. apply andb_prop in H. tauto. Qed.

Lemma all_chars_imp : forall (p q : ascii -> bool) s,
  (forall c, p c = true -> q c = true) -> all_chars p s = true -> all_chars q s = true.
Proof.
  induction s as [|x s IH]; intros Hpq H; simpl in *; [reflexivity|].
  apply andb_prop in H. destruct H as [H1 H2]. rewrite (Hpq _ H1), (IH Hpq H2). reflexivity.
Qed.

(* ------------------------------------------------------------------------------------------- *)
(* startswith / endswith                                                                        *)
(* ------------------------------------------------------------------------------------------- *)
Lemma startswith_app_self : forall p r, startswith (p ++ r) p = true.
Proof.
  induction p as [|x p IH]; intros; simpl; [destruct r; reflexivity|].
  unfold ascii_eqb. rewrite Ascii.eqb_refl. simpl. apply IH.
Qed.

Lemma startswith_head_neq : forall c r x p, Ascii.eqb c x = false -> startswith (String c r) (String x p) = false.
Proof. intros. simpl. unfold ascii_eqb. rewrite H. reflexivity. Qed.

Lemma string_eqb_app_self : forall a, String.eqb a a = true.
Proof. apply String.eqb_refl. Qed.

Lemma endswith_app : forall a b, endswith (a ++ b) b = true.
Proof.
  intros a b. unfold endswith. rewrite slen_app.
  replace (String.length b <=? String.length a + String.length b) with true
    by (symmetry; apply Nat.leb_le; lia).
  replace (String.length a + String.length b - String.length b) with (String.length a + 0) by lia.
  rewrite drop_app_plus. simpl. apply String.eqb_refl.
Qed.

(* the last character decides endswith of a one-character pattern *)
Fixpoint last_is (s : string) (x : ascii) : bool :=
  match s with
  | EmptyString => false
  | String c EmptyString => Ascii.eqb c x
  | String _ r => last_is r x
  end.

Lemma drop_len_minus1 : forall s c, drop (String.length (String c s) - 1) (String c s) =
  match s with EmptyString => String c "" | String d r => drop (String.length (String d r) - 1) (String d r) end.
Proof.
  intros s c. destruct s as [|d r]; [reflexivity|].
  cbn [String.length]. replace (S (S (String.length r)) - 1) with (S (String.length r)) by lia.
  replace (S (String.length r) - 1) with (String.length r) by lia. reflexivity.
Qed.

Lemma endswith_1 : forall s x, endswith s (String x "") = last_is s x.
Proof.
  intros s x. unfold endswith. cbn [String.length].
  induction s as [|c s IH].
  - reflexivity.
  - replace (1 <=? String.length (String c s)) with true by (symmetry; apply Nat.leb_le; simpl; lia).
    rewrite drop_len_minus1. destruct s as [|d r].
    + simpl. destruct (Ascii.eqb c x); reflexivity.
    + replace (1 <=? String.length (String d r)) with true in IH by (symmetry; apply Nat.leb_le; simpl; lia).
      simpl andb in *. rewrite IH. reflexivity.
Qed.

(* ------------------------------------------------------------------------------------------- *)
(* strip                                                                                        *)
(* ------------------------------------------------------------------------------------------- *)
Lemma rstrip_cons_ne : forall c r, is_space c = false -> rstrip (String c r) = String c (rstrip r).
Proof. intros c r H. simpl. destruct (rstrip r); [rewrite H|]; reflexivity. Qed.

Lemma rstrip_app_ne : forall a b, rstrip b <> "" -> rstrip (a ++ b) = a ++ rstrip b.
Proof.
  induction a as [|x a IH]; intros b H; simpl; [reflexivity|].
  rewrite (IH b H). destruct (a ++ rstrip b) eqn:E; [|reflexivity].
  destruct a; simpl in E; [congruence|discriminate].
Qed.

Lemma rstrip_fixed_ne : forall s, s <> "" -> rstrip s = s -> rstrip s <> "".
Proof. intros s H E. rewrite E. exact H. Qed.

Lemma rstrip_idem : forall s, rstrip (rstrip s) = rstrip s.
Proof.
  induction s as [|c s IH]; [reflexivity|].
  simpl. destruct (rstrip s) as [|d r] eqn:E.
  - destruct (is_space c) eqn:Ec; [reflexivity|]. simpl. rewrite Ec. reflexivity.
  - change (rstrip (String c (String d r))) with
      (match rstrip (String d r) with "" => if is_space c then "" else String c "" | r' => String c r' end).
    rewrite IH. reflexivity.
Qed.

(* if a line has no trailing white space then neither has a non-empty suffix of it *)
Lemma rstrip_suffix : forall a b, b <> "" -> rstrip (a ++ b) = a ++ b -> rstrip b = b.
Proof.
  induction a as [|x a IH]; intros b Hb H; [exact H|].
  apply IH; [exact Hb|].
  simpl in H. destruct (rstrip (a ++ b)) eqn:E.
  - destruct a; destruct b; simpl in *; try congruence; destruct (is_space x); discriminate.
  - injection H as H. exact H.
Qed.

Lemma lstrip_ne : forall c r, is_space c = false -> lstrip (String c r) = String c r.
Proof. intros c r H. simpl. rewrite H. reflexivity. Qed.

Definition starts_ns (s : string) : bool :=
  match s with String c _ => negb (is_space c) | EmptyString => false end.

Lemma lstrip_starts_ns : forall s, starts_ns s = true -> lstrip s = s.
Proof. intros [|c r] H; [discriminate|]. simpl in *. destruct (is_space c); [discriminate|reflexivity]. Qed.

Lemma strip_fixed : forall s, starts_ns s = true -> rstrip s = s -> strip s = s.
Proof. intros s H1 H2. unfold strip. rewrite (lstrip_starts_ns s H1). exact H2. Qed.

Lemma starts_ns_app : forall a b, starts_ns a = true -> starts_ns (a ++ b) = true.
Proof. intros [|c r] b H; [discriminate|exact H]. Qed.

Lemma strip_eq_parts : forall s, strip s = s -> s <> "" -> starts_ns s = true /\ rstrip s = s.
Proof.
  intros s H Hne. destruct s as [|c r]; [congruence|]. unfold strip in H.
  destruct (is_space c) eqn:Ec.
  - exfalso. simpl in H. rewrite Ec in H.
    assert (L : String.length (rstrip (lstrip r)) <= String.length r).
    { clear. assert (A : forall s, String.length (rstrip s) <= String.length s).
      { induction s as [|x s IH]; simpl; [lia|]. destruct (rstrip s); [destruct (is_space x)|]; simpl in *; lia. }
      pose proof (A (lstrip r)). pose proof (length_lstrip_le r). lia. }
    rewrite H in L. simpl in L. lia.
  - split; [simpl; rewrite Ec; reflexivity|]. rewrite lstrip_ne in H by exact Ec. exact H.
Qed.

(* ------------------------------------------------------------------------------------------- *)
(* characters                                                                                   *)
(* ------------------------------------------------------------------------------------------- *)
Lemma ch_eq : forall c x, ch c x = true -> c = x.
Proof. intros c x H. unfold ch in H. apply Ascii.eqb_eq in H. exact H. Qed.

Lemma ch_refl : forall c, ch c c = true.
Proof. intros. unfold ch. apply Ascii.eqb_refl. Qed.

(* ===== part 2 ===== *)
Local Open Scope string_scope.
Local Open Scope nat_scope.

(* ------------------------------------------------------------------------------------------- *)
(* induction on pieces                                                                          *)
(* ------------------------------------------------------------------------------------------- *)
Section PieceInd.
Variable P : piece -> Prop.
Hypothesis HT : forall s, P (PText s).
Hypothesis HE : forall c, P (PExpr c).
Hypothesis HC : forall c tr fa, Forall P tr -> Forall P fa -> P (PCond c tr fa).
Fixpoint piece_ind' (p : piece) : P p :=
  match p with
  | PText s => HT s
  | PExpr c => HE c
  | PCond c tr fa =>
      HC c tr fa
         ((fix go (l : list piece) : Forall P l :=
             match l with [] => Forall_nil _ | x :: r => Forall_cons _ (piece_ind' x) (go r) end) tr)
         ((fix go (l : list piece) : Forall P l :=
             match l with [] => Forall_nil _ | x :: r => Forall_cons _ (piece_ind' x) (go r) end) fa)
  end.
End PieceInd.

Lemma print_pieces_cons : forall p r, print_pieces (p :: r) = print_piece p ++ print_pieces r.
Proof. reflexivity. Qed.

Lemma print_pieces_nil : print_pieces [] = "".
Proof. reflexivity. Qed.

Lemma print_cond_eq : forall c tr fa,
  print_piece (PCond c tr fa) = "{" ++ c ++ " ? " ++ print_pieces tr ++ " | " ++ print_pieces fa ++ "}".
Proof. reflexivity. Qed.

(* ------------------------------------------------------------------------------------------- *)
(* the comment scanner and the tag finder on clean text                                         *)
(* ------------------------------------------------------------------------------------------- *)
Lemma clean_slash_free : forall s, clean s = true -> slash_free s = true.
Proof.
  induction s as [|c s IH]; intros H; [reflexivity|]. simpl in *.
  apply andb_prop in H. destruct H as [H1 H2]. rewrite (IH H2), andb_true_r.
  unfold okc in H1. unfold is_slash. unfold ch in H1.
  destruct (Ascii.eqb c "/"); [discriminate|reflexivity].
Qed.

Lemma sic_clean : forall s, clean s = true -> strip_inline_comment s = (s, "").
Proof. intros s H. apply slash_free_identity, clean_slash_free, H. Qed.

Lemma find_tags_clean : forall s, clean s = true -> find_tags TIdle s = [].
Proof.
  induction s as [|c s IH]; intros H; [reflexivity|]. simpl in H.
  apply andb_prop in H. destruct H as [H1 H2]. cbn [find_tags].
  assert (E : ch c "^" = false).
  { unfold okc in H1. destruct (ch c "^"); [rewrite orb_true_r in H1; discriminate|reflexivity]. }
  unfold tag_idle_step. rewrite E. apply IH, H2.
Qed.

Lemma parse_tags_clean : forall s, clean s = true -> parse_tags s = (s, []).
Proof. intros s H. unfold parse_tags. rewrite (find_tags_clean s H). reflexivity. Qed.

Lemma clean_app : forall a b, clean (a ++ b) = clean a && clean b.
Proof. intros. apply all_chars_app. Qed.

(* ------------------------------------------------------------------------------------------- *)
(* split_expressions_with_depth on printed pieces                                               *)
(* ------------------------------------------------------------------------------------------- *)
Lemma not_brace_l : forall c, not_brace c = true -> ch c "{" = false.
Proof. intros c H. unfold not_brace in H. destruct (ch c "{"); [discriminate|reflexivity]. Qed.
Lemma not_brace_r : forall c, not_brace c = true -> ch c "}" = false.
Proof. intros c H. unfold not_brace in H. destruct (ch c "{"), (ch c "}"); try discriminate; reflexivity. Qed.

(* a run without braces is appended to the current part, at any depth *)
Lemma sewd_run : forall s rest result cur d,
  all_chars not_brace s = true ->
  sewd_aux (s ++ rest) result cur d = sewd_aux rest result (cur ++ s) d.
Proof.
  induction s as [|c s IH]; intros rest result cur d H.
  - rewrite sapp_nil_r. reflexivity.
  - simpl in H. apply andb_prop in H. destruct H as [H1 H2].
    cbn [append sewd_aux]. rewrite (not_brace_l c H1), (not_brace_r c H1).
    rewrite (IH rest result (snoc cur c) d H2). rewrite snoc_app, sapp_cons. reflexivity.
Qed.

Lemma text_char_nb : forall inner c, text_char inner c = true -> not_brace c = true.
Proof. intros inner c H. unfold text_char in H. apply andb_prop in H. tauto. Qed.
Lemma code_char_nb : forall c, code_char c = true -> not_brace c = true.
Proof. intros c H. unfold code_char in H. apply andb_prop in H. tauto. Qed.

Lemma text_ok_nb : forall inner s, text_ok inner s = true -> all_chars not_brace s = true.
Proof.
  intros inner s H. unfold text_ok in H. apply andb_prop in H. destruct H as [_ H].
  eapply all_chars_imp; [|exact H]. apply text_char_nb.
Qed.
Lemma code_ok_nb : forall s, code_ok s = true -> all_chars not_brace s = true.
Proof. intros s H. eapply all_chars_imp; [|exact H]. apply code_char_nb. Qed.
Lemma cond_ok_nb : forall s, cond_ok s = true -> all_chars not_brace s = true.
Proof. intros s H. unfold cond_ok in H. apply andb_prop in H. destruct H as [H _]. apply code_ok_nb, H. Qed.

Lemma forallb_Forall : forall A (f : A -> bool) l, forallb f l = true -> Forall (fun x => f x = true) l.
Proof. intros A f l H. apply Forall_forall. intros x Hx. rewrite forallb_forall in H. auto. Qed.

(* the pieces of a PCond *)
Lemma piece_ok_cond : forall inner c tr fa, piece_ok inner (PCond c tr fa) = true ->
  cond_ok c = true /\ pieces_ok true tr = true /\ trimmed (print_pieces tr) = true /\
  pieces_ok true fa = true /\ trimmed (print_pieces fa) = true.
Proof.
  intros inner c tr fa H. cbn [piece_ok] in H. unfold pieces_ok, print_pieces.
  repeat (apply andb_prop in H; destruct H as [H ?]).
  repeat split; try assumption; apply andb_true_intro; split; assumption.
Qed.

Lemma sewd_open_deep : forall rest result cur d,
  sewd_aux ("{" ++ rest) result cur (S d) = sewd_aux rest result (cur ++ "{") (S (S d)).
Proof. reflexivity. Qed.
Lemma sewd_close_deep : forall rest result cur d,
  sewd_aux ("}" ++ rest) result cur (S (S d)) = sewd_aux rest result (cur ++ "}") (S d).
Proof. reflexivity. Qed.
Lemma sewd_open_top : forall rest result cur,
  sewd_aux ("{" ++ rest) result cur 0 = sewd_aux rest (cur :: result) "{" 1.
Proof. reflexivity. Qed.
Lemma sewd_close_top : forall rest result cur,
  sewd_aux ("}" ++ rest) result cur 1 = sewd_aux rest ((cur ++ "}") :: result) "" 0.
Proof. reflexivity. Qed.

(* inside an open brace (depth >= 1) any printed piece list is swallowed into the current part *)
Lemma sewd_inside_piece : forall p,
  (forall inner, piece_ok inner p = true ->
   forall rest result cur d,
     sewd_aux (print_piece p ++ rest) result cur (S d) = sewd_aux rest result (cur ++ print_piece p) (S d)).
Proof.
  induction p using piece_ind'; intros inner Hok rest result cur d.
  - apply sewd_run. eapply text_ok_nb, Hok.
  - cbn [print_piece piece_ok] in *. rewrite !sapp_assoc. rewrite sewd_open_deep.
    rewrite sewd_run by (apply code_ok_nb, Hok).
    rewrite sewd_close_deep. rewrite !sapp_assoc. reflexivity.
  - destruct (piece_ok_cond _ _ _ _ Hok) as [Hc [Htr [_ [Hfa _]]]].
    assert (L : forall l, Forall (fun p => forall inner, piece_ok inner p = true ->
                 forall rest result cur d, sewd_aux (print_piece p ++ rest) result cur (S d) =
                                           sewd_aux rest result (cur ++ print_piece p) (S d)) l ->
               forallb (piece_ok true) l = true ->
               forall rest result cur d, sewd_aux (print_pieces l ++ rest) result cur (S d) =
                                         sewd_aux rest result (cur ++ print_pieces l) (S d)).
    { induction 1 as [|x l Hx Hl IHl]; intros Hall rest' result' cur' d'.
      - rewrite print_pieces_nil, sapp_nil_r. reflexivity.
      - simpl in Hall. apply andb_prop in Hall. destruct Hall as [Hx1 Hl1].
        rewrite print_pieces_cons, sapp_assoc, (Hx true Hx1), (IHl Hl1), sapp_assoc. reflexivity. }
    unfold pieces_ok in Htr, Hfa. apply andb_prop in Htr, Hfa. destruct Htr as [Htr _]. destruct Hfa as [Hfa _].
    rewrite print_cond_eq. rewrite !sapp_assoc. rewrite sewd_open_deep.
    rewrite sewd_run by (apply cond_ok_nb, Hc).
    rewrite (sewd_run " ? ") by reflexivity.
    rewrite (L tr H Htr).
    rewrite (sewd_run " | ") by reflexivity.
    rewrite (L fa H0 Hfa).
    rewrite sewd_close_deep. rewrite !sapp_assoc. reflexivity.
Qed.

Lemma sewd_inside : forall l, forallb (piece_ok true) l = true ->
  forall rest result cur d, sewd_aux (print_pieces l ++ rest) result cur (S d) =
                            sewd_aux rest result (cur ++ print_pieces l) (S d).
Proof.
  induction l as [|x l IH]; intros Hall rest result cur d.
  - rewrite print_pieces_nil, sapp_nil_r. reflexivity.
  - simpl in Hall. apply andb_prop in Hall. destruct Hall as [Hx Hl].
    rewrite print_pieces_cons, sapp_assoc, (sewd_inside_piece x true Hx), (IH Hl), sapp_assoc. reflexivity.
Qed.

(* what is between the braces of a group *)
Definition group_body (p : piece) : string :=
  match p with
  | PText s => s
  | PExpr c => c
  | PCond c tr fa => c ++ " ? " ++ print_pieces tr ++ " | " ++ print_pieces fa
  end.

Lemma print_group : forall p, is_text p = false -> print_piece p = "{" ++ group_body p ++ "}".
Proof.
  intros [s|c|c tr fa] H; try discriminate; [reflexivity|].
  rewrite print_cond_eq. cbn [group_body]. rewrite !sapp_assoc. reflexivity.
Qed.

Lemma sewd_group_body : forall inner p, is_text p = false -> piece_ok inner p = true ->
  forall rest result cur d,
    sewd_aux (group_body p ++ rest) result cur (S d) = sewd_aux rest result (cur ++ group_body p) (S d).
Proof.
  intros inner [s|c|c tr fa] Ht Hok rest result cur d; try discriminate.
  - apply sewd_run, code_ok_nb, Hok.
  - destruct (piece_ok_cond _ _ _ _ Hok) as [Hc [Htr [_ [Hfa _]]]].
    unfold pieces_ok in Htr, Hfa. apply andb_prop in Htr, Hfa. destruct Htr as [Htr _]. destruct Hfa as [Hfa _].
    cbn [group_body]. rewrite !sapp_assoc.
    rewrite sewd_run by (apply cond_ok_nb, Hc).
    rewrite (sewd_run " ? ") by reflexivity.
    rewrite (sewd_inside tr Htr).
    rewrite (sewd_run " | ") by reflexivity.
    rewrite (sewd_inside fa Hfa).
    rewrite !sapp_assoc. reflexivity.
Qed.

(* a group at depth 0: the current part is closed, the group becomes a part of its own *)
Lemma sewd_group : forall inner p, is_text p = false -> piece_ok inner p = true ->
  forall rest result cur,
    sewd_aux (print_piece p ++ rest) result cur 0 = sewd_aux rest (print_piece p :: cur :: result) "" 0.
Proof.
  intros inner p Ht Hok rest result cur.
  rewrite (print_group p Ht). rewrite !sapp_assoc. rewrite sewd_open_top.
  rewrite (sewd_group_body inner p Ht Hok). rewrite sewd_close_top.
  rewrite !sapp_assoc. reflexivity.
Qed.

(* the parts in source order *)
Fixpoint fparts (ps : list piece) (cur : string) : list string :=
  match ps with
  | [] => [cur]
  | p :: r => if is_text p then fparts r (cur ++ print_piece p) else cur :: print_piece p :: fparts r ""
  end.

Lemma piece_text_nb : forall inner p, is_text p = true -> piece_ok inner p = true ->
  all_chars not_brace (print_piece p) = true.
Proof. intros inner [s|c|c tr fa] Ht Hok; try discriminate. eapply text_ok_nb, Hok. Qed.

Lemma sewd_top : forall inner ps, forallb (piece_ok inner) ps = true ->
  forall result cur, exists R C,
    sewd_aux (print_pieces ps) result cur 0 = POk (R, C, 0) /\
    rev (C :: R) = (rev result ++ fparts ps cur)%list.
Proof.
  induction ps as [|p r IH]; intros Hall result cur.
  - exists result, cur. split; reflexivity.
  - simpl in Hall. apply andb_prop in Hall. destruct Hall as [Hp Hr].
    rewrite print_pieces_cons. cbn [fparts]. destruct (is_text p) eqn:Ht.
    + rewrite sewd_run by (eapply piece_text_nb; eauto). apply (IH Hr).
    + rewrite (sewd_group inner p Ht Hp).
      destruct (IH Hr (print_piece p :: cur :: result) "") as [R [C [E1 E2]]].
      exists R, C. split; [exact E1|]. rewrite E2. cbn [rev]. rewrite <- !List.app_assoc. reflexivity.
Qed.

(* ------------------------------------------------------------------------------------------- *)
(* content_parts on those parts                                                                 *)
(* ------------------------------------------------------------------------------------------- *)
Lemma content_parts_app_empty : forall pic l, content_parts pic (l ++ [""]) = content_parts pic l.
Proof.
  induction l as [|x l IH]; [reflexivity|].
  cbn [app content_parts]. rewrite IH. reflexivity.
Qed.

Lemma split_pieces : forall inner ps, forallb (piece_ok inner) ps = true ->
  exists parts, split_expressions_with_depth (print_pieces ps) = POk parts /\
                forall pic, content_parts pic parts = content_parts pic (fparts ps "").
Proof.
  intros inner ps Hall. unfold split_expressions_with_depth.
  destruct (sewd_top inner ps Hall [] "") as [R [C [E1 E2]]]. rewrite E1. cbn [pbind].
  replace (0 <? 0) with false by reflexivity. cbn [rev app] in E2.
  destruct (nonempty C || _) eqn:E.
  - eexists. split; [reflexivity|]. intros pic. cbn [rev]. rewrite E2. reflexivity.
  - eexists. split; [reflexivity|]. intros pic. apply orb_false_elim in E. destruct E as [E _].
    destruct C; [|discriminate]. rewrite <- E2. symmetry. apply content_parts_app_empty.
Qed.

Lemma startswith_nb : forall s, all_chars not_brace s = true -> startswith s "{" = false.
Proof.
  intros [|c s] H; [reflexivity|]. simpl in H. apply andb_prop in H. destruct H as [H _].
  simpl. apply not_brace_l in H. unfold ch in H. unfold ascii_eqb. rewrite H. reflexivity.
Qed.

Lemma slice_group : forall b, slice_1_m1 ("{" ++ b ++ "}") = b.
Proof.
  intros b. unfold slice_1_m1. cbn [append drop String.length]. rewrite slen_app. cbn [String.length].
  replace (S (String.length b + 1) - 2) with (String.length b) by lia. apply take_app.
Qed.

Lemma group_shape : forall b, startswith ("{" ++ b ++ "}") "{" && endswith ("{" ++ b ++ "}") "}" = true.
Proof.
  intros b. cbn [append]. replace (String "{" (b ++ "}")) with (("{" ++ b) ++ "}") by (rewrite sapp_assoc; reflexivity).
  rewrite endswith_app. cbn [append]. simpl. destruct (b ++ "}"); reflexivity.
Qed.

Section Content.
Variable pic : string -> pres (option token).
(* what the inline-conditional parser makes of the inside of each group *)
Variable Q : piece -> Prop.
Hypothesis pic_group : forall inner p, Q p -> is_text p = false -> piece_ok inner p = true ->
  pic (group_body p) = POk (match p with PCond _ _ _ => Some (c_piece p) | _ => None end).

Lemma content_fparts : forall inner ps cur,
  forallb (piece_ok inner) ps = true -> no_adj ps = true -> Forall Q ps ->
  all_chars not_brace cur = true ->
  (nonempty cur = true -> match ps with p :: _ => is_text p = false | [] => True end) ->
  content_parts pic (fparts ps cur) =
  POk ((if nonempty cur then [TText cur] else []) ++ c_pieces ps)%list.
Proof.
  induction ps as [|p r IH]; intros cur Hall Hadj HQ Hcur Hhead.
  - cbn [fparts content_parts]. rewrite (startswith_nb cur Hcur). cbn [andb].
    destruct (nonempty cur); reflexivity.
  - simpl in Hall. apply andb_prop in Hall. destruct Hall as [Hp Hr].
    cbn [no_adj] in Hadj. apply andb_prop in Hadj. destruct Hadj as [Hadj1 Hadj2].
    inversion HQ as [|p' r' HQp HQr]; subst p' r'.
    cbn [fparts]. destruct (is_text p) eqn:Ht.
    + (* text: the current part must be empty *)
      destruct (nonempty cur) eqn:Ec; [specialize (Hhead eq_refl); cbn in Hhead; congruence|].
      destruct cur; [|discriminate]. cbn [append].
      destruct p as [s| |]; try discriminate. cbn [print_piece].
      rewrite IH; try assumption.
      * cbn [piece_ok] in Hp. unfold text_ok in Hp. apply andb_prop in Hp. destruct Hp as [Hne _].
        rewrite Hne. reflexivity.
      * eapply text_ok_nb, Hp.
      * intros _. destruct r as [|q r']; [exact I|]. destruct (is_text q); [discriminate|reflexivity].
    + cbn [content_parts]. rewrite (startswith_nb cur Hcur). cbn [andb].
      rewrite (print_group p Ht), group_shape, slice_group.
      rewrite (pic_group inner p HQp Ht Hp). cbn [pbind].
      rewrite (IH "" Hr Hadj2 HQr eq_refl) by (intros; discriminate).
      cbn [nonempty app pbind].
      assert (Tk : match (match p with PCond _ _ _ => Some (c_piece p) | _ => None end) with
                   | Some t => t | None => TExpr (group_body p) end = c_piece p).
      { destruct p; try discriminate; reflexivity. }
      rewrite Tk. destruct (nonempty cur); reflexivity.
Qed.
End Content.

(* ------------------------------------------------------------------------------------------- *)
(* find_top over printed pieces                                                                 *)
(* ------------------------------------------------------------------------------------------- *)
(* characters that are neither a brace nor the separator are passed over *)
Lemma find_top_run : forall sep s rest i d,
  all_chars (fun c => not_brace c && negb (ch c sep)) s = true ->
  find_top sep (s ++ rest) i d = find_top sep rest (i + String.length s) d.
Proof.
  induction s as [|c s IH]; intros rest i d H.
  - simpl. rewrite Nat.add_0_r. reflexivity.
  - simpl in H. apply andb_prop in H. destruct H as [H1 H2]. apply andb_prop in H1. destruct H1 as [Hb Hs].
    cbn [append find_top String.length]. rewrite (not_brace_l c Hb), (not_brace_r c Hb).
    destruct (ch c sep); [discriminate|]. cbn [andb]. rewrite (IH rest (S i) d H2).
    f_equal. lia.
Qed.

(* below the top level every character that is not a brace is passed over *)
Lemma find_top_run_deep : forall sep s rest i d, (0 < d)%Z ->
  all_chars not_brace s = true ->
  find_top sep (s ++ rest) i d = find_top sep rest (i + String.length s) d.
Proof.
  induction s as [|c s IH]; intros rest i d Hd H.
  - simpl. rewrite Nat.add_0_r. reflexivity.
  - simpl in H. apply andb_prop in H. destruct H as [Hb H2].
    cbn [append find_top String.length]. rewrite (not_brace_l c Hb), (not_brace_r c Hb).
    replace (Z.eqb d 0) with false by (symmetry; apply Z.eqb_neq; lia). rewrite andb_false_r.
    rewrite (IH rest (S i) d Hd H2). f_equal. lia.
Qed.

Lemma find_top_open : forall sep rest i d,
  find_top sep ("{" ++ rest) i d = find_top sep rest (S i) (d + 1).
Proof. reflexivity. Qed.
Lemma find_top_close : forall sep rest i d,
  find_top sep ("}" ++ rest) i d = find_top sep rest (S i) (d - 1).
Proof. reflexivity. Qed.

Ltac slen := repeat (first [rewrite slen_app | progress cbn [String.length append]]); lia.

Lemma find_top_inside_piece : forall p,
  forall inner, piece_ok inner p = true ->
  forall sep rest i d, (0 < d)%Z ->
    find_top sep (print_piece p ++ rest) i d = find_top sep rest (i + String.length (print_piece p)) d.
Proof.
  induction p using piece_ind'; intros inner Hok sep rest i d Hd.
  - apply find_top_run_deep; [exact Hd|]. eapply text_ok_nb, Hok.
  - cbn [print_piece piece_ok] in *. rewrite !sapp_assoc, find_top_open.
    rewrite find_top_run_deep by (try lia; apply code_ok_nb, Hok).
    rewrite find_top_close.
    replace (d + 1 - 1)%Z with d by lia. f_equal. slen.
  - destruct (piece_ok_cond _ _ _ _ Hok) as [Hc [Htr [_ [Hfa _]]]].
    assert (L : forall l, Forall (fun p => forall inner, piece_ok inner p = true ->
                 forall sep rest i d, (0 < d)%Z ->
                   find_top sep (print_piece p ++ rest) i d =
                   find_top sep rest (i + String.length (print_piece p)) d) l ->
               forallb (piece_ok true) l = true ->
               forall sep rest i d, (0 < d)%Z ->
                 find_top sep (print_pieces l ++ rest) i d = find_top sep rest (i + String.length (print_pieces l)) d).
    { induction 1 as [|x l Hx Hl IHl]; intros Hall sep' rest' i' d' Hd'.
      - rewrite print_pieces_nil. simpl. rewrite Nat.add_0_r. reflexivity.
      - simpl in Hall. apply andb_prop in Hall. destruct Hall as [Hx1 Hl1].
        rewrite print_pieces_cons, sapp_assoc, (Hx true Hx1) by exact Hd'.
        rewrite (IHl Hl1) by exact Hd'. rewrite slen_app. f_equal. lia. }
    unfold pieces_ok in Htr, Hfa. apply andb_prop in Htr, Hfa. destruct Htr as [Htr _]. destruct Hfa as [Hfa _].
    rewrite print_cond_eq. rewrite !sapp_assoc, find_top_open.
    rewrite find_top_run_deep by (try lia; apply cond_ok_nb, Hc).
    rewrite (find_top_run_deep sep " ? ") by (try lia; reflexivity).
    rewrite (L tr H Htr) by lia.
    rewrite (find_top_run_deep sep " | ") by (try lia; reflexivity).
    rewrite (L fa H0 Hfa) by lia.
    rewrite find_top_close. replace (d + 1 - 1)%Z with d by lia.
    f_equal. slen.
Qed.

(* at the top level, over the pieces of a branch: literal text has no `|` *)
Lemma find_pipe_pieces : forall l, forallb (piece_ok true) l = true ->
  forall rest i, find_top "|" (print_pieces l ++ rest) i 0 =
                 find_top "|" rest (i + String.length (print_pieces l)) 0.
Proof.
  induction l as [|p l IH]; intros Hall rest i.
  - rewrite print_pieces_nil. simpl. rewrite Nat.add_0_r. reflexivity.
  - simpl in Hall. apply andb_prop in Hall. destruct Hall as [Hp Hl].
    rewrite print_pieces_cons, sapp_assoc, slen_app.
    destruct (is_text p) eqn:Ht.
    + destruct p as [s| |]; try discriminate. cbn [print_piece piece_ok] in *.
      rewrite find_top_run.
      * rewrite (IH Hl). f_equal. lia.
      * unfold text_ok in Hp. apply andb_prop in Hp. destruct Hp as [_ Hp].
        eapply all_chars_imp; [|exact Hp]. intros c Hc. unfold text_char in Hc. exact Hc.
    + rewrite (print_group p Ht), !sapp_assoc, find_top_open.
      assert (B : find_top "|" (group_body p ++ "}" ++ print_pieces l ++ rest) (S i) (0 + 1) =
                  find_top "|" ("}" ++ print_pieces l ++ rest) (S i + String.length (group_body p)) (0 + 1)).
      { destruct p as [s|c|c tr fa]; try discriminate.
        - cbn [group_body]. apply find_top_run_deep; [lia|]. apply code_ok_nb, Hp.
        - pose proof (find_top_inside_piece (PCond c tr fa) true Hp "|" (print_pieces l ++ rest) i 1 ltac:(lia)) as Q.
          rewrite print_cond_eq in Q. rewrite !sapp_assoc in Q. rewrite find_top_open in Q.
          (* strip the closing brace from both sides of Q is awkward: redo the scan *)
          destruct (piece_ok_cond _ _ _ _ Hp) as [Hc [Htr [_ [Hfa _]]]].
          unfold pieces_ok in Htr, Hfa. apply andb_prop in Htr, Hfa. destruct Htr as [Htr _]. destruct Hfa as [Hfa _].
          clear Q. cbn [group_body]. rewrite !sapp_assoc.
          assert (L : forall l0, forallb (piece_ok true) l0 = true -> forall rest0 i0 d0, (0 < d0)%Z ->
                   find_top "|" (print_pieces l0 ++ rest0) i0 d0 =
                   find_top "|" rest0 (i0 + String.length (print_pieces l0)) d0).
          { induction l0 as [|x l0 IHl0]; intros Hall0 rest0 i0 d0 Hd0.
            - rewrite print_pieces_nil. simpl. rewrite Nat.add_0_r. reflexivity.
            - simpl in Hall0. apply andb_prop in Hall0. destruct Hall0 as [Hx0 Hl0].
              rewrite print_pieces_cons, sapp_assoc, (find_top_inside_piece x true Hx0) by exact Hd0.
              rewrite (IHl0 Hl0) by exact Hd0. rewrite slen_app. f_equal. lia. }
          rewrite find_top_run_deep by (try lia; apply cond_ok_nb, Hc).
          rewrite (find_top_run_deep "|" " ? ") by (try lia; reflexivity).
          rewrite (L tr Htr) by lia.
          rewrite (find_top_run_deep "|" " | ") by (try lia; reflexivity).
          rewrite (L fa Hfa) by lia.
          f_equal. slen. }
      rewrite B, find_top_close. replace (0 + 1 - 1)%Z with 0%Z by lia.
      rewrite (IH Hl). f_equal. slen.
Qed.

(* ===== part 3 ===== *)
Local Open Scope string_scope.
Local Open Scope nat_scope.

(* ------------------------------------------------------------------------------------------- *)
(* small facts                                                                                  *)
(* ------------------------------------------------------------------------------------------- *)
Lemma find_char_from_none : forall s x i,
  all_chars (fun c => negb (ch c x)) s = true -> find_char_from s x i = None.
Proof.
  induction s as [|c s IH]; intros x i H; [reflexivity|]. simpl in H.
  apply andb_prop in H. destruct H as [H1 H2]. simpl. unfold ascii_eqb. unfold ch in H1.
  destruct (Ascii.eqb c x); [discriminate|]. apply IH, H2.
Qed.

Lemma find_char_from_app : forall s x rest i,
  all_chars (fun c => negb (ch c x)) s = true ->
  find_char_from (s ++ String x rest) x i = Some (i + String.length s).
Proof.
  induction s as [|c s IH]; intros x rest i H.
  - simpl. unfold ascii_eqb. rewrite Ascii.eqb_refl. f_equal. lia.
  - simpl in H. apply andb_prop in H. destruct H as [H1 H2]. simpl. unfold ascii_eqb. unfold ch in H1.
    destruct (Ascii.eqb c x); [discriminate|]. rewrite (IH x rest (S i) H2). f_equal. lia.
Qed.

Lemma find_char_app : forall s x rest,
  all_chars (fun c => negb (ch c x)) s = true ->
  find_char (s ++ String x rest) x = Some (String.length s).
Proof. intros. unfold find_char. rewrite find_char_from_app by assumption. reflexivity. Qed.

Lemma find_char_none : forall s x,
  all_chars (fun c => negb (ch c x)) s = true -> find_char s x = None.
Proof. intros. apply find_char_from_none. assumption. Qed.

Lemma str_contains_none : forall s x,
  all_chars (fun c => negb (ch c x)) s = true -> str_contains s (String x "") = false.
Proof.
  intros s x H. unfold str_contains, str_find. rewrite find_from_char, (find_char_from_none s x 0 H). reflexivity.
Qed.

Lemma find_char_from_some : forall a x b i, exists k, find_char_from (a ++ String x b) x i = Some k.
Proof.
  induction a as [|c a IH]; intros x b i; simpl; unfold ascii_eqb.
  - rewrite Ascii.eqb_refl. eauto.
  - destruct (Ascii.eqb c x); eauto.
Qed.

Lemma str_contains_app : forall a x b, str_contains (a ++ String x b) (String x "") = true.
Proof.
  intros a x b. unfold str_contains, str_find. rewrite find_from_char.
  destruct (find_char_from_some a x b 0) as [k E]. rewrite E. reflexivity.
Qed.

Lemma trimmed_eq : forall s, trimmed s = true -> strip s = s.
Proof. intros s H. unfold trimmed in H. apply String.eqb_eq in H. exact H. Qed.

Lemma trimmed_parts : forall s, trimmed s = true -> s <> "" -> starts_ns s = true /\ rstrip s = s.
Proof. intros s H Hne. apply strip_eq_parts; [apply trimmed_eq, H|exact Hne]. Qed.

(* strip(s + " ") and strip(" " + s + " ") for trimmed s *)
Lemma strip_pad_r : forall s, trimmed s = true -> strip (s ++ " ") = s.
Proof.
  intros s H. destruct s as [|c r]; [reflexivity|].
  destruct (trimmed_parts _ H ltac:(discriminate)) as [H1 H2].
  unfold strip. rewrite (lstrip_starts_ns _ (starts_ns_app _ " " H1)).
  rewrite rstrip_app_space. exact H2.
Qed.

Lemma strip_pad_l : forall s, strip (" " ++ s) = strip s.
Proof. reflexivity. Qed.

Lemma strip_pad : forall s, trimmed s = true -> strip (" " ++ s ++ " ") = s.
Proof. intros s H. rewrite strip_pad_l. apply strip_pad_r, H. Qed.

(* printed pieces are not empty *)
Lemma print_piece_nonempty : forall inner p, piece_ok inner p = true -> print_piece p <> "".
Proof.
  intros inner [s|c|c tr fa] H; try discriminate.
  cbn [piece_ok print_piece] in *. unfold text_ok in H. apply andb_prop in H. destruct H as [H _].
  destruct s; [discriminate|discriminate].
Qed.

Lemma print_pieces_empty : forall inner ps, forallb (piece_ok inner) ps = true -> print_pieces ps = "" -> ps = [].
Proof.
  intros inner [|p r] H E; [reflexivity|]. exfalso. simpl in H. apply andb_prop in H. destruct H as [H _].
  rewrite print_pieces_cons in E. pose proof (print_piece_nonempty inner p H) as N.
  destruct (print_piece p); [congruence|discriminate].
Qed.

Lemma nest_cons : forall p r, nest (p :: r) = Nat.max (nest_piece p) (nest r).
Proof. reflexivity. Qed.

Lemma nest_cond : forall c tr fa, nest_piece (PCond c tr fa) = S (Nat.max (nest tr) (nest fa)).
Proof. reflexivity. Qed.

Lemma code_char_nq : forall s, all_chars code_char s = true ->
  all_chars (fun c => not_brace c && negb (ch c "?")) s = true.
Proof. intros s H. exact H. Qed.

Lemma code_no_q : forall s, all_chars code_char s = true -> all_chars (fun c => negb (ch c "?")) s = true.
Proof.
  intros s H. eapply all_chars_imp; [|exact H]. intros c Hc. unfold code_char in Hc.
  apply andb_prop in Hc. tauto.
Qed.

(* ------------------------------------------------------------------------------------------- *)
(* parse_inline_conditional on the inside of a group                                            *)
(* ------------------------------------------------------------------------------------------- *)
Lemma pic_expr : forall depth rec c, code_ok c = true ->
  parse_inline_conditional_with depth rec c = POk None.
Proof.
  intros depth rec c H. unfold parse_inline_conditional_with.
  rewrite (str_contains_none c "?" (code_no_q c H)). reflexivity.
Qed.

Lemma find_top_q_hit : forall X i, find_top "?" (" ? " ++ X) i 0 = Some (S i).
Proof. reflexivity. Qed.
Lemma find_top_pipe_hit : forall X i, find_top "|" (" | " ++ X) i 0 = Some (S i).
Proof. reflexivity. Qed.
Lemma find_top_pipe_sp : forall X i, find_top "|" (" " ++ X) i 0 = find_top "|" X (S i) 0.
Proof. reflexivity. Qed.

Lemma pic_cond : forall depth rec inner c tr fa,
  piece_ok inner (PCond c tr fa) = true -> depth < max_inline_depth ->
  (tr <> [] -> rec (print_pieces tr) = POk (c_pieces tr)) ->
  (fa <> [] -> rec (print_pieces fa) = POk (c_pieces fa)) ->
  parse_inline_conditional_with depth rec (group_body (PCond c tr fa)) =
  POk (Some (TInlineCond c (c_pieces tr) (c_pieces fa))).
Proof.
  intros depth rec inner c tr fa Hok Hd Htr Hfa.
  destruct (piece_ok_cond _ _ _ _ Hok) as [Hc [Htr1 [Htr2 [Hfa1 Hfa2]]]].
  unfold cond_ok in Hc. apply andb_prop in Hc. destruct Hc as [Hc1 Hc2].
  unfold pieces_ok in Htr1, Hfa1. apply andb_prop in Htr1, Hfa1.
  destruct Htr1 as [Htr1 _]. destruct Hfa1 as [Hfa1 _].
  unfold parse_inline_conditional_with. cbn [group_body].
  set (T := print_pieces tr) in *. set (F := print_pieces fa) in *.
  set (E := c ++ " ? " ++ T ++ " | " ++ F).
  (* there is a `?` *)
  assert (E0 : str_contains E "?" = true).
  { unfold E. replace (c ++ " ? " ++ T ++ " | " ++ F) with ((c ++ " ") ++ String "?" (" " ++ T ++ " | " ++ F))
      by (rewrite sapp_assoc; reflexivity). apply str_contains_app. }
  rewrite E0. cbn [negb].
  (* the first top-level `?` is the one after the condition *)
  assert (E1 : find_top "?" E 0 0 = Some (String.length c + 1)).
  { unfold E. rewrite (find_top_run "?" c) by exact Hc1. rewrite find_top_q_hit. f_equal. lia. }
  rewrite E1. cbv beta iota.
  assert (E2 : take (String.length c + 1) E = c ++ " ").
  { unfold E. rewrite take_app_plus. reflexivity. }
  assert (E3 : drop (S (String.length c + 1)) E = " " ++ T ++ " | " ++ F).
  { unfold E. replace (S (String.length c + 1)) with (String.length c + 2) by lia. rewrite drop_app_plus. reflexivity. }
  rewrite E2, E3, (strip_pad_r c Hc2).
  (* the pipe *)
  assert (E4 : find_pipe_separator (" " ++ T ++ " | " ++ F) = Some (String.length T + 2)).
  { unfold find_pipe_separator. rewrite find_top_pipe_sp. unfold T. rewrite (find_pipe_pieces tr Htr1).
    rewrite find_top_pipe_hit. f_equal. lia. }
  rewrite E4. cbv beta iota.
  assert (E5 : take (String.length T + 2) (" " ++ T ++ " | " ++ F) = " " ++ T ++ " ").
  { replace (String.length T + 2) with (S (String.length T + 1)) by lia.
    change (" " ++ T ++ " | " ++ F) with (String " " (T ++ " | " ++ F)). cbn [take].
    rewrite take_app_plus. reflexivity. }
  assert (E6 : drop (S (String.length T + 2)) (" " ++ T ++ " | " ++ F) = " " ++ F).
  { replace (S (String.length T + 2)) with (S (String.length T + 2)) by lia.
    change (" " ++ T ++ " | " ++ F) with (String " " (T ++ " | " ++ F)). cbn [drop].
    rewrite drop_app_plus. reflexivity. }
  rewrite E5, E6, (strip_pad _ Htr2), strip_pad_l, (trimmed_eq _ Hfa2).
  replace (max_inline_depth <=? depth) with false by (symmetry; apply Nat.leb_gt; exact Hd).
  assert (TT : (if nonempty T then rec T else POk []) = POk (c_pieces tr)).
  { destruct (nonempty T) eqn:En.
    - apply Htr. intros ->. discriminate En.
    - assert (Ee : print_pieces tr = "") by (fold T; destruct T; [reflexivity|discriminate]).
      rewrite (print_pieces_empty true tr Htr1 Ee). reflexivity. }
  assert (FF : (if nonempty F then rec F else POk []) = POk (c_pieces fa)).
  { destruct (nonempty F) eqn:En.
    - apply Hfa. intros ->. discriminate En.
    - assert (Ee : print_pieces fa = "") by (fold F; destruct F; [reflexivity|discriminate]).
      rewrite (print_pieces_empty true fa Hfa1 Ee). reflexivity. }
  rewrite TT, FF. reflexivity.
Qed.

(* ------------------------------------------------------------------------------------------- *)
(* (i) a printed content line tokenizes to c_pieces                                             *)
(* ------------------------------------------------------------------------------------------- *)
Lemma clean_pieces_cons : forall p r, clean (print_pieces (p :: r)) = true ->
  clean (print_piece p) = true /\ clean (print_pieces r) = true.
Proof. intros p r H. rewrite print_pieces_cons, clean_app in H. apply andb_prop in H. exact H. Qed.

Lemma clean_cond : forall c tr fa, clean (print_piece (PCond c tr fa)) = true ->
  clean (print_pieces tr) = true /\ clean (print_pieces fa) = true.
Proof.
  intros c tr fa H. rewrite print_cond_eq in H. rewrite !clean_app in H.
  repeat (apply andb_prop in H; destruct H as [? H]). split; assumption.
Qed.

Lemma parse_content_line_pieces_d : forall fuel depth inner ps,
  pieces_ok inner ps = true -> clean (print_pieces ps) = true ->
  nest ps < fuel -> nest ps + depth <= max_inline_depth ->
  parse_content_line_d fuel depth (print_pieces ps) = POk (c_pieces ps).
Proof.
  induction fuel as [|f IH]; intros depth inner ps Hok Hcl Hf Hd; [lia|].
  cbn [parse_content_line_d].
  rewrite (sic_clean _ Hcl), (parse_tags_clean _ Hcl).
  unfold pieces_ok in Hok. apply andb_prop in Hok. destruct Hok as [Hall Hadj].
  destruct (split_pieces inner ps Hall) as [parts [E1 E2]]. rewrite E1, E2.
  rewrite (content_fparts _ (fun p => clean (print_piece p) = true /\ nest_piece p <= nest ps) ) with (inner := inner);
    try assumption; try reflexivity.
  - (* the groups *)
    intros inner' p [Hpc Hpn] Ht Hp. destruct p as [s|c|c tr fa]; try discriminate.
    + apply pic_expr, Hp.
    + destruct (clean_cond _ _ _ Hpc) as [Ctr Cfa]. rewrite nest_cond in Hpn.
      destruct (piece_ok_cond _ _ _ _ Hp) as [_ [Htr1 [_ [Hfa1 _]]]].
      apply (pic_cond depth _ inner'); [exact Hp|unfold max_inline_depth in *; lia| |].
      * intros _. apply (IH (S depth) true tr Htr1 Ctr); unfold max_inline_depth in *; lia.
      * intros _. apply (IH (S depth) true fa Hfa1 Cfa); unfold max_inline_depth in *; lia.
  - (* Q holds of every piece *)
    clear - Hcl. assert (G : forall n, nest ps <= n -> Forall (fun p => clean (print_piece p) = true /\ nest_piece p <= n) ps).
    { induction ps as [|p r IHr]; intros n Hn; constructor.
      - destruct (clean_pieces_cons _ _ Hcl) as [A _]. rewrite nest_cons in Hn. split; [exact A|lia].
      - destruct (clean_pieces_cons _ _ Hcl) as [_ B]. rewrite nest_cons in Hn. apply IHr; [exact B|lia]. }
    apply G. lia.
  - intros; discriminate.
Qed.

Theorem parse_content_line_pieces : forall inner ps,
  pieces_ok inner ps = true -> clean (print_pieces ps) = true -> nest ps <= max_inline_depth ->
  parse_content_line (print_pieces ps) = POk (c_pieces ps).
Proof.
  intros inner ps H1 H2 H3. unfold parse_content_line.
  apply (parse_content_line_pieces_d _ 0 inner); try assumption; unfold max_inline_depth in *; lia.
Qed.

(* ===== part 4 ===== *)
Local Open Scope string_scope.
Local Open Scope nat_scope.

(* ------------------------------------------------------------------------------------------- *)
(* line_ok                                                                                      *)
(* ------------------------------------------------------------------------------------------- *)
Lemma line_ok_parts : forall l, line_ok l = true -> clean l = true /\ rstrip l = l.
Proof.
  intros l H. unfold line_ok in H. apply andb_prop in H. destruct H as [H1 H2].
  apply String.eqb_eq in H2. split; assumption.
Qed.

Lemma strip_line : forall l, starts_ns l = true -> rstrip l = l -> strip l = l.
Proof. exact strip_fixed. Qed.

(* ------------------------------------------------------------------------------------------- *)
(* target and arguments                                                                         *)
(* ------------------------------------------------------------------------------------------- *)
Lemma match_paren_run : forall s rest i d, paren_free s = true ->
  match_paren (s ++ rest) i d = match_paren rest (i + String.length s) d.
Proof.
  induction s as [|c s IH]; intros rest i d H.
  - simpl. rewrite Nat.add_0_r. reflexivity.
  - unfold paren_free in H. simpl in H. apply andb_prop in H. destruct H as [H1 H2].
    apply negb_true_iff in H1. apply orb_false_elim in H1. destruct H1 as [Ha Hb].
    cbn [append match_paren String.length]. rewrite Ha, Hb. rewrite (IH rest (S i) d H2). f_equal. lia.
Qed.

Definition no_lparen (s : string) : bool := all_chars (fun c => negb (ch c "(")) s.

Lemma match_paren_open : forall r i d, match_paren (String "(" r) i d = match_paren r (S i) (d + 1).
Proof. reflexivity. Qed.
Lemma match_paren_close1 : forall r i, match_paren (String ")" r) i (0 + 1) = Some i.
Proof. reflexivity. Qed.

Lemma eta_print : forall t a, no_lparen t = true -> paren_free a = true ->
  extract_target_and_args (t ++ print_args a) = (t, a).
Proof.
  intros t a Ht Ha. unfold extract_target_and_args. destruct a as [|c a'].
  - cbn [print_args]. rewrite sapp_nil_r. rewrite (find_char_none t "(" Ht). reflexivity.
  - set (a := String c a') in *.
    assert (E : print_args a = String "(" (a ++ ")")) by reflexivity. rewrite E.
    rewrite (find_char_app t "(" (a ++ ")") Ht). rewrite drop_app.
    rewrite match_paren_open, (match_paren_run a ")" _ _ Ha).
    change ")" with (String ")" ""). rewrite match_paren_close1.
    rewrite take_app. f_equal. unfold slice.
    replace (S (String.length t)) with (String.length t + 1) by lia. rewrite drop_app_plus. cbn [drop].
    replace (String.length t + 1 + String.length a - (String.length t + 1)) with (String.length a) by lia.
    apply take_app.
Qed.

Lemma is_name_char_not_lparen : forall c, is_name_char c = true -> ch c "(" = false.
Proof.
  intros c H. destruct (ch c "(") eqn:E; [|reflexivity]. apply ch_eq in E. subst c. vm_compute in H. discriminate.
Qed.

Lemma is_name_char_not_space : forall c, is_name_char c = true -> is_space c = false.
Proof.
  intros c H. destruct c as [b0 b1 b2 b3 b4 b5 b6 b7].
  destruct b0, b1, b2, b3, b4, b5, b6, b7; vm_compute in H |- *; try reflexivity; discriminate.
Qed.

Lemma valid_name_no_lparen : forall t, valid_passage_pattern t = true -> no_lparen t = true.
Proof.
  intros [|c r] H; [discriminate|]. simpl in H. apply andb_prop in H. destruct H as [H1 H2].
  unfold no_lparen. simpl. apply andb_true_intro. split.
  - destruct (ch c "(") eqn:E; [|reflexivity]. apply ch_eq in E. subst c. vm_compute in H1. discriminate.
  - eapply all_chars_imp; [|exact H2]. intros x Hx. rewrite (is_name_char_not_lparen x Hx). reflexivity.
Qed.

Lemma valid_name_starts_ns : forall t, valid_passage_pattern t = true -> starts_ns t = true.
Proof.
  intros [|c r] H; [discriminate|]. simpl in H. apply andb_prop in H. destruct H as [H1 _].
  simpl. destruct c as [b0 b1 b2 b3 b4 b5 b6 b7].
  destruct b0, b1, b2, b3, b4, b5, b6, b7; vm_compute in H1 |- *; try reflexivity; discriminate.
Qed.

Lemma valid_name_nonempty : forall t, valid_passage_pattern t = true -> t <> "".
Proof. intros [|c r] H; [discriminate|discriminate]. Qed.

(* target of a choice: a passage name or @join *)
Definition ctarget_ok (t : string) : bool := valid_passage_pattern t || String.eqb t "@join".

Lemma ctarget_no_lparen : forall t, ctarget_ok t = true -> no_lparen t = true.
Proof.
  intros t H. apply orb_prop in H. destruct H as [H|H].
  - apply valid_name_no_lparen, H.
  - apply String.eqb_eq in H. subst t. reflexivity.
Qed.

Lemma ctarget_starts_ns : forall t, ctarget_ok t = true -> starts_ns t = true.
Proof.
  intros t H. apply orb_prop in H. destruct H as [H|H].
  - apply valid_name_starts_ns, H.
  - apply String.eqb_eq in H. subst t. reflexivity.
Qed.

(* ------------------------------------------------------------------------------------------- *)
(* `-> target(args)`                                                                            *)
(* ------------------------------------------------------------------------------------------- *)
Lemma arrow_rest_sp : forall X, starts_ns X = true -> arrow_rest (" " ++ X) = Some X.
Proof.
  intros X H. unfold arrow_rest. change (lstrip (" " ++ X)) with (lstrip X).
  rewrite (lstrip_starts_ns X H). destruct X; [discriminate|reflexivity].
Qed.

(* ------------------------------------------------------------------------------------------- *)
(* @render name(args)                                                                           *)
(* ------------------------------------------------------------------------------------------- *)
Lemma span_word : forall n rest, all_chars is_word n = true ->
  match rest with String c _ => is_word c = false | EmptyString => True end ->
  span is_word (n ++ rest) = (n, rest).
Proof.
  induction n as [|c n IH]; intros rest Hn Hr.
  - simpl. destruct rest as [|c r]; [reflexivity|]. simpl. rewrite Hr. reflexivity.
  - simpl in Hn. apply andb_prop in Hn. destruct Hn as [H1 H2].
    cbn [append span]. rewrite H1, (IH rest H2 Hr). reflexivity.
Qed.

Lemma word_starts_ns : forall n, nonempty n = true -> all_chars is_word n = true -> starts_ns n = true.
Proof.
  intros [|c r] H1 H2; [discriminate|]. simpl in H2. apply andb_prop in H2. destruct H2 as [H2 _].
  simpl. destruct c as [b0 b1 b2 b3 b4 b5 b6 b7].
  destruct b0, b1, b2, b3, b4, b5, b6, b7; vm_compute in H2 |- *; try reflexivity; discriminate.
Qed.

Lemma render_directive_print : forall n a, render_ok n a = true ->
  parse_render_directive (n ++ "(" ++ a ++ ")") = Some (n, a).
Proof.
  intros n a H. unfold render_ok in H. apply andb_prop in H. destruct H as [H Ha].
  apply andb_prop in H. destruct H as [Hn1 Hn2].
  unfold parse_render_directive.
  assert (S1 : strip (n ++ "(" ++ a ++ ")") = n ++ "(" ++ a ++ ")").
  { apply strip_fixed.
    - apply starts_ns_app, word_starts_ns; assumption.
    - rewrite rstrip_app_ne.
      + f_equal. change ("(" ++ a ++ ")") with (String "(" (a ++ ")")). rewrite rstrip_cons_ne by reflexivity.
        f_equal. rewrite rstrip_app_ne; [reflexivity|discriminate].
      + change ("(" ++ a ++ ")") with (String "(" (a ++ ")")). rewrite rstrip_cons_ne by reflexivity. discriminate. }
  rewrite S1. unfold match_render_directive.
  rewrite (span_word n ("(" ++ a ++ ")") Hn2) by reflexivity. rewrite Hn1. cbn [negb].
  change ("(" ++ a ++ ")") with (String "(" (a ++ ")")).
  cbn [ch]. cbn [Ascii.eqb Bool.eqb andb].
  replace (String "(" (a ++ ")")) with (("(" ++ a) ++ ")") by (rewrite sapp_assoc; reflexivity).
  rewrite endswith_app.
  replace (2 <=? String.length (("(" ++ a) ++ ")")) with true
    by (symmetry; apply Nat.leb_le; rewrite slen_app; simpl; lia).
  cbn [andb]. rewrite sapp_assoc. change ("(" ++ a ++ ")") with (String "(" (a ++ ")")).
  unfold slice_1_m1. cbn [drop String.length]. rewrite slen_app. cbn [String.length].
  replace (S (String.length a + 1) - 2) with (String.length a) by lia. rewrite take_app.
  replace (ch "(" "(") with true by reflexivity. cbn [andb]. rewrite (trimmed_eq a Ha). reflexivity.
Qed.

(* ------------------------------------------------------------------------------------------- *)
(* @input name="..."                                                                            *)
(* ------------------------------------------------------------------------------------------- *)
Lemma find_attrs_skip_all : forall s acc k, String.length s <= k -> find_attrs s acc k = [].
Proof.
  induction s as [|c s IH]; intros acc k H; [reflexivity|].
  simpl in H. destruct k as [|k]; [lia|]. cbn [find_attrs]. apply IH. lia.
Qed.

Lemma find_attrs_word : forall c r acc, is_word c = true ->
  find_attrs (String c r) acc 0 = find_attrs r (snoc acc c) 0.
Proof. intros c r acc H. cbn [find_attrs]. rewrite H. reflexivity. Qed.

Lemma find_attrs_quoted : forall acc v rest, nonempty acc = true ->
  all_chars (fun c => negb (ch c dquote)) v = true ->
  find_attrs (String "=" (String dquote (v ++ String dquote rest))) acc 0 =
  (acc, v) :: find_attrs (String dquote (v ++ String dquote rest)) "" (String.length v + 2).
Proof.
  intros acc v rest Ha Hv. cbn [find_attrs].
  replace (is_word "=") with false by reflexivity.
  replace (ch "=" "=") with true by reflexivity. rewrite Ha. cbn [andb].
  replace (ch dquote dquote) with true by reflexivity.
  rewrite (find_char_app v dquote rest Hv). rewrite take_app. reflexivity.
Qed.

Lemma find_attrs_name : forall nm, all_chars (fun c => negb (ch c dquote)) nm = true ->
  find_attrs ("name=" ++ String dquote (nm ++ String dquote "")) "" 0 = [("name", nm)].
Proof.
  intros nm H.
  change ("name=" ++ String dquote (nm ++ String dquote ""))
    with (String "n" (String "a" (String "m" (String "e" (String "=" (String dquote (nm ++ String dquote ""))))))).
  rewrite !find_attrs_word by reflexivity.
  rewrite find_attrs_quoted by (try reflexivity; exact H).
  f_equal. apply find_attrs_skip_all. cbn [String.length]. rewrite slen_app. simpl. lia.
Qed.

(* ===== part 5 ===== *)
Local Open Scope string_scope.
Local Open Scope nat_scope.

(* ------------------------------------------------------------------------------------------- *)
(* (ii) how the main loop classifies a line                                                     *)
(* ------------------------------------------------------------------------------------------- *)
Inductive kind :=
| KComment | KPy | KIf | KFor | KRender | KInput | KHook | KUnhook | KJoin | KJump | KStmt | KChoice
| KText | KBlank.

(* the tests of ParseMain.body_step, in its order *)
Definition classify (line : string) : kind :=
  let stripped := strip line in
  if startswith stripped "#" then KComment else
  if startswith stripped "<<py" || startswith stripped "@py" then KPy else
  if startswith stripped "<<if " || startswith stripped "@if " then KIf else
  if startswith stripped "<<for " || startswith stripped "@for " then KFor else
  if startswith stripped "@render" then KRender else
  if startswith stripped "@input" then KInput else
  if startswith stripped "@hook " then KHook else
  if startswith stripped "@unhook " then KUnhook else
  if String.eqb stripped "@join" then KJoin else
  if startswith stripped "->" then KJump else
  if startswith line "~ " then KStmt else
  if startswith line "+ " || startswith line "* " then KChoice else
  if nonempty stripped then KText else KBlank.

(* the line is handled by the passage-body part of parse_step *)
Definition body_line (line : string) : Prop :=
  String.eqb (strip line) "@metadata" = false /\ startswith (strip line) "@start " = false /\
  startswith line ":: " = false.

Ltac chain H :=
  unfold classify in H; unfold body_step; cbv zeta in H |- *;
  repeat match type of H with
  | (if ?b then _ else _) = _ => destruct b eqn:?; try discriminate H
  end.

Section Steps.
Variable pp : pyparse.
Variable xs : extractors.

Definition ready (st : pstate) (cp : ppassage) : Prop :=
  st_in_imports st = false /\ st_in_metadata st = false /\ st_current st = Some cp.

Lemma parse_step_body : forall lines i line st cp,
  ready st cp -> body_line line ->
  parse_step pp xs lines i line st = body_step pp xs lines i line st cp.
Proof.
  intros lines i line st cp [H1 [H2 H3]] [B1 [B2 B3]]. unfold parse_step. cbv zeta.
  rewrite H1, H2, B1, B2, B3, H3. reflexivity.
Qed.

Lemma ready_set_current : forall st cp cp', ready st cp -> ready (set_current st cp') cp'.
Proof. intros st cp cp' [H1 [H2 H3]]. repeat split; assumption. Qed.

Lemma body_step_text : forall lines i line st cp, classify line = KText ->
  body_step pp xs lines i line st cp =
  (if endswith (rstrip line) "<>" then
     let* ts := retag i (parse_content_line (take (String.length (rstrip line) - 2) (rstrip line))) in
     POk (set_current st (with_content cp ts), S i)
   else
     let* ts := retag i (parse_content_line line) in
     POk (set_current st (with_content cp (ts ++ [tok_nl])%list), S i)).
Proof. intros lines i line st cp H. chain H. reflexivity. Qed.

Lemma body_step_blank : forall lines i line st cp, classify line = KBlank ->
  body_step pp xs lines i line st cp = POk (set_current st (with_content cp [tok_nl]), S i).
Proof. intros lines i line st cp H. chain H. reflexivity. Qed.

Lemma body_step_stmt : forall lines i line st cp, classify line = KStmt ->
  body_step pp xs lines i line st cp =
  (let (code, _) := strip_inline_comment (strip (drop 2 line)) in
   let (complete_code, consumed) := extract_multiline_expression lines i code in
   if py_stmt_ok pp complete_code
   then POk (set_current st (with_execute cp (TPyStmt complete_code)), i + consumed)
   else dsyn "stmt:python-syntax" (i + Nat.min (py_stmt_errline pp complete_code) (consumed - 1))).
Proof. intros lines i line st cp H. chain H. reflexivity. Qed.

Lemma body_step_jump : forall lines i line st cp, classify line = KJump ->
  body_step pp xs lines i line st cp =
  match arrow_rest (drop 2 (strip line)) with
  | Some g =>
      let (target, args) := extract_target_and_args (strip g) in
      POk (set_current st (with_content cp [TJump target args]), S i)
  | None => POk (st, S i)
  end.
Proof. intros lines i line st cp H. chain H. reflexivity. Qed.

Lemma body_step_render : forall lines i line st cp, classify line = KRender ->
  body_step pp xs lines i line st cp =
  (let* d := retag i (parse_render_line true line) in
   match d with
   | Some t => POk (set_current st (with_content cp [t]), S i)
   | None => POk (st, S i)
   end).
Proof. intros lines i line st cp H. chain H. reflexivity. Qed.

Lemma body_step_input : forall lines i line st cp, classify line = KInput ->
  body_step pp xs lines i line st cp =
  (let* d := retag i (parse_input_attrs true line) in
   match d with
   | Some a => POk (set_current st (with_input cp a), S i)
   | None => POk (st, S i)
   end).
Proof. intros lines i line st cp H. chain H. reflexivity. Qed.

Lemma body_step_hook : forall lines i line st cp, classify line = KHook ->
  body_step pp xs lines i line st cp =
  match split_ws (strip line) with
  | [_; event; target] => POk (set_current st (with_execute cp (THook true event target)), S i)
  | _ => dsyn "hook:arity" i
  end.
Proof. intros lines i line st cp H. chain H. reflexivity. Qed.

Lemma body_step_unhook : forall lines i line st cp, classify line = KUnhook ->
  body_step pp xs lines i line st cp =
  match split_ws (strip line) with
  | [_; event; target] => POk (set_current st (with_execute cp (THook false event target)), S i)
  | _ => dsyn "unhook:arity" i
  end.
Proof. intros lines i line st cp H. chain H. reflexivity. Qed.

Definition jcount (cp : ppassage) : nat := match pp_join_count cp with Some n => n | None => 0 end.
Definition scount (cp : ppassage) : nat := match pp_section cp with Some n => n | None => 0 end.

Lemma body_step_join : forall lines i line st cp, classify line = KJoin ->
  body_step pp xs lines i line st cp =
  POk (set_current st (with_join (with_content cp [TJoinMarker (jcount cp)]) (S (jcount cp)) (S (scount cp))), S i).
Proof. intros lines i line st cp H. chain H. reflexivity. Qed.

Lemma body_step_choice : forall lines i line st cp, classify line = KChoice ->
  body_step pp xs lines i line st cp =
  (let sec := scount cp in
   let cp := with_section cp sec in
   let* _ := validate_choice_syntax line i in
   let* oc := retag i (parse_choice_line line) in
   match oc with
   | Some (Choice text target args cond sticky _ tags _) =>
       if String.eqb target "@join" then
         let* r := x_join xs lines (S i) (indent_of line) in
         let '(block_content, _, consumed) := r in
         POk (set_current st (with_choice cp (Choice text target args cond sticky sec tags block_content)), S (i + consumed))
       else POk (set_current st (with_choice cp (Choice text target args cond sticky sec tags [])), S i)
   | None => dsyn "choice:validated-but-unparsed" i
   end).
Proof. intros lines i line st cp H. chain H. reflexivity. Qed.

Lemma body_step_py : forall lines i line st cp, classify line = KPy ->
  body_step pp xs lines i line st cp =
  (let* r := x_python xs lines i in
   let (code, consumed) := r in POk (set_current st (with_execute cp (TPyBlock code)), i + consumed)).
Proof. intros lines i line st cp H. chain H. reflexivity. Qed.

Lemma body_step_if : forall lines i line st cp, classify line = KIf ->
  body_step pp xs lines i line st cp =
  (let* r := x_conditional xs lines i in
   let (t, consumed) := r in POk (set_current st (with_content cp [t]), i + consumed)).
Proof. intros lines i line st cp H. chain H. reflexivity. Qed.

Lemma body_step_for : forall lines i line st cp, classify line = KFor ->
  body_step pp xs lines i line st cp =
  (let* r := x_loop xs lines i in
   let (t, consumed) := r in POk (set_current st (with_content cp [t]), i + consumed)).
Proof. intros lines i line st cp H. chain H. reflexivity. Qed.

End Steps.

(* ===== part 6 ===== *)
Local Open Scope string_scope.
Local Open Scope nat_scope.

(* ------------------------------------------------------------------------------------------- *)
(* classification of printed lines                                                              *)
(* ------------------------------------------------------------------------------------------- *)
Lemma bad_start_facts : forall c, bad_start c = false ->
  is_space c = false /\ Ascii.eqb c "#" = false /\ Ascii.eqb c "@" = false /\ Ascii.eqb c "<" = false /\
  Ascii.eqb c "-" = false /\ Ascii.eqb c "~" = false /\ Ascii.eqb c "+" = false /\ Ascii.eqb c "*" = false /\
  Ascii.eqb c ":" = false.
Proof.
  intros c H. unfold bad_start, ch in H.
  do 8 (apply orb_false_elim in H; destruct H as [H ?]). repeat split; assumption.
Qed.

Lemma strip_cons_ne : forall c r, is_space c = false -> strip (String c r) = String c (rstrip r).
Proof. intros c r H. unfold strip. rewrite lstrip_ne by exact H. apply rstrip_cons_ne, H. Qed.

Lemma classify_plain : forall c r, bad_start c = false ->
  classify (String c r) = KText /\ body_line (String c r).
Proof.
  intros c r H. destruct (bad_start_facts c H) as [H0 [H1 [H2 [H3 [H4 [H5 [H6 [H7 H8]]]]]]]].
  unfold classify, body_line. rewrite (strip_cons_ne c r H0).
  cbn [startswith String.eqb nonempty]. unfold ascii_eqb.
  rewrite ?H1, ?H2, ?H3, ?H4, ?H5, ?H6, ?H7, ?H8. cbn [andb orb]. repeat split; reflexivity.
Qed.

Lemma plain_start_cons : forall s, plain_start s = true -> exists c r, s = String c r /\ bad_start c = false.
Proof.
  intros [|c r] H; [discriminate|]. exists c, r. split; [reflexivity|].
  simpl in H. apply negb_true_iff in H. exact H.
Qed.

(* for a line with a known first word: after `strip line = line` everything computes *)
Lemma startswith_nil : forall s, startswith s "" = true.
Proof. intros [|c r]; reflexivity. Qed.

Ltac known_line Hs :=
  split; [unfold classify; rewrite Hs; cbn [startswith append]; rewrite ?startswith_nil; reflexivity
         | unfold body_line; rewrite Hs; cbn [startswith append]; rewrite ?startswith_nil; repeat split; reflexivity].

(* ------------------------------------------------------------------------------------------- *)
(* pieces of the single-line proofs                                                             *)
(* ------------------------------------------------------------------------------------------- *)
Lemma emx_single : forall lines i c, strip c = c -> ends_opener c = false ->
  extract_multiline_expression lines i c = (c, 1).
Proof.
  intros lines i c Hs He. unfold extract_multiline_expression. cbv zeta. rewrite Hs.
  unfold ends_opener in He. rewrite He. reflexivity.
Qed.

Lemma split_ws_aux_word : forall w rest cur, all_chars (fun c => negb (is_space c)) w = true ->
  split_ws_aux (w ++ rest) cur = split_ws_aux rest (cur ++ w).
Proof.
  induction w as [|c w IH]; intros rest cur H.
  - rewrite sapp_nil_r. reflexivity.
  - simpl in H. apply andb_prop in H. destruct H as [H1 H2]. apply negb_true_iff in H1.
    cbn [append split_ws_aux]. rewrite H1. rewrite (IH rest _ H2). rewrite sapp_cons. reflexivity.
Qed.

Lemma split_ws_aux_sp : forall rest c cur, split_ws_aux (String " " rest) (String c cur) = String c cur :: split_ws_aux rest "".
Proof. reflexivity. Qed.

Lemma split_ws_3 : forall a b c, word_ok a = true -> word_ok b = true -> word_ok c = true ->
  split_ws (a ++ " " ++ b ++ " " ++ c) = [a; b; c].
Proof.
  intros a b c Ha Hb Hc. unfold word_ok in *.
  apply andb_prop in Ha, Hb, Hc. destruct Ha as [Ha1 Ha2]. destruct Hb as [Hb1 Hb2]. destruct Hc as [Hc1 Hc2].
  unfold split_ws. rewrite (split_ws_aux_word a _ "" Ha2). cbn [append].
  destruct a as [|a0 a']; [discriminate|]. rewrite split_ws_aux_sp.
  rewrite (split_ws_aux_word b _ "" Hb2). cbn [append].
  destruct b as [|b0 b']; [discriminate|]. rewrite split_ws_aux_sp.
  rewrite <- (sapp_nil_r c) at 1. rewrite (split_ws_aux_word c "" "" Hc2). cbn [append].
  destruct c as [|c0 c']; [discriminate|]. reflexivity.
Qed.

Lemma word_ok_starts_ns : forall w, word_ok w = true -> starts_ns w = true.
Proof.
  intros [|c r] H; [discriminate|]. unfold word_ok in H. simpl in H. apply andb_prop in H. destruct H as [H _].
  simpl. exact H.
Qed.

(* choice lines *)
Lemma lazy_close_run : forall s rest acc, all_chars (fun c => negb (ch c "]")) s = true ->
  ParseLine.lazy_close (s ++ rest) acc = ParseLine.lazy_close rest (acc ++ s).
Proof.
  induction s as [|c s IH]; intros rest acc H.
  - rewrite sapp_nil_r. reflexivity.
  - simpl in H. apply andb_prop in H. destruct H as [H1 H2]. apply negb_true_iff in H1.
    cbn [append ParseLine.lazy_close]. rewrite H1. rewrite (IH rest _ H2). rewrite snoc_app, sapp_cons. reflexivity.
Qed.

Lemma lazy_close_hit : forall X acc, starts_ns X = true ->
  ParseLine.lazy_close ("] -> " ++ X) acc = Some (acc, X).
Proof.
  intros X acc H.
  change ("] -> " ++ X) with (String "]" (" -> " ++ X)). cbn [ParseLine.lazy_close].
  replace (ch "]" "]") with true by reflexivity.
  assert (A : arrow_tail (" -> " ++ X) = Some X).
  { unfold arrow_tail. change (lstrip (" -> " ++ X)) with ("->" ++ " " ++ X).
    rewrite startswith_app_self. change (drop 2 ("->" ++ " " ++ X)) with (" " ++ X). apply arrow_rest_sp, H. }
  rewrite A. reflexivity.
Qed.

Lemma match_plain_print : forall T X, all_chars (fun c => negb (ch c "]")) T = true -> starts_ns X = true ->
  match_plain_choice ("[" ++ T ++ "] -> " ++ X) = Some (T, X).
Proof.
  intros T X HT HX. change ("[" ++ T ++ "] -> " ++ X) with (String "[" (T ++ "] -> " ++ X)).
  cbn [match_plain_choice]. replace (ch "[" "[") with true by reflexivity.
  rewrite (lazy_close_run T _ "" HT). apply lazy_close_hit, HX.
Qed.

Lemma match_cond_print : forall k T X, nonempty k = true ->
  all_chars (fun c => negb (ch c "}")) k = true ->
  all_chars (fun c => negb (ch c "]")) T = true -> starts_ns X = true ->
  match_cond_choice ("{" ++ k ++ "} " ++ "[" ++ T ++ "] -> " ++ X) = Some (k, T, X).
Proof.
  intros k T X Hk1 Hk2 HT HX.
  change ("{" ++ k ++ "} " ++ "[" ++ T ++ "] -> " ++ X) with (String "{" (k ++ String "}" (" [" ++ T ++ "] -> " ++ X))).
  cbn [match_cond_choice]. replace (ch "{" "{") with true by reflexivity.
  rewrite (find_char_app k "}" _ Hk2).
  destruct k as [|k0 k']; [discriminate|]. cbn [String.length].
  change (S (String.length k')) with (String.length (String k0 k')).
  rewrite take_app.
  replace (S (String.length (String k0 k'))) with (String.length (String k0 k') + 1) by lia.
  rewrite drop_app_plus. cbn [drop].
  change (lstrip (" [" ++ T ++ "] -> " ++ X)) with ("[" ++ T ++ "] -> " ++ X).
  rewrite (match_plain_print T X HT HX). reflexivity.
Qed.

(* validate_choice_syntax: the index only goes into the diagnostics *)
Lemma vcs_idx : forall line i j,
  validate_choice_syntax line i = POk tt -> validate_choice_syntax line j = POk tt.
Proof.
  intros line i j. unfold validate_choice_syntax, dsyn, index_char, pbind.
  destruct (strip_inline_comment (strip line)) as [cl cm].
  repeat match goal with
  | |- context [if ?b then _ else _] =>
      lazymatch b with context [i] => fail | context [j] => fail | _ => destruct b; cbv beta iota end
  | |- context [match ?x with _ => _ end] =>
      lazymatch x with context [i] => fail | context [j] => fail | _ => destruct x; cbv beta iota end
  end; intros H; try discriminate H; try reflexivity.
Qed.

Lemma is_ok_unit : forall (m : pres unit), is_ok m = true -> m = POk tt.
Proof. intros [[]| | |] H; try discriminate; reflexivity. Qed.

(* ===== part 7 ===== *)
Local Open Scope string_scope.
Local Open Scope nat_scope.

Lemma NL_tok_nl : NL = tok_nl.
Proof. reflexivity. Qed.

Section ItemSteps.
Variable pp : pyparse.
Variable xs : extractors.

(* ---- text line ---- *)
Lemma step_text : forall lines i st cp ps glue,
  ready st cp -> text_line_ok ps glue = true ->
  line_ok (print_pieces ps ++ (if glue then "<>" else "")) = true ->
  parse_step pp xs lines i (print_pieces ps ++ (if glue then "<>" else "")) st =
  POk (set_current st (with_content cp (c_pieces ps ++ (if glue then [] else [NL]))%list), S i).
Proof.
  intros lines i st cp ps glue Hr Hok Hl.
  unfold text_line_ok in Hok. do 3 (apply andb_prop in Hok; destruct Hok as [Hok ?]).
  rename H into Hglue. rename H0 into Hplain. rename H1 into Hnest. apply Nat.leb_le in Hnest.
  destruct (line_ok_parts _ Hl) as [Hcl Hrs].
  destruct (plain_start_cons _ Hplain) as [c [r [EP Hc]]].
  set (line := print_pieces ps ++ (if glue then "<>" else "")) in *.
  assert (EL : line = String c (r ++ (if glue then "<>" else ""))) by (unfold line; rewrite EP; reflexivity).
  destruct (classify_plain c (r ++ (if glue then "<>" else "")) Hc) as [Hk Hb]. rewrite <- EL in Hk, Hb.
  rewrite (parse_step_body pp xs lines i line st cp Hr Hb).
  rewrite (body_step_text pp xs lines i line st cp Hk). rewrite Hrs.
  assert (Hcp : clean (print_pieces ps) = true).
  { unfold line in Hcl. rewrite clean_app in Hcl. apply andb_prop in Hcl. tauto. }
  pose proof (parse_content_line_pieces false ps Hok Hcp Hnest) as Hpc.
  destruct glue.
  - unfold line. rewrite endswith_app. rewrite slen_app. cbn [String.length].
    replace (String.length (print_pieces ps) + 2 - 2) with (String.length (print_pieces ps)) by lia.
    rewrite take_app, Hpc. cbn [retag pbind]. rewrite List.app_nil_r. reflexivity.
  - unfold line in *. rewrite sapp_nil_r in *. cbn [orb] in Hglue. apply negb_true_iff in Hglue.
    rewrite Hglue, Hpc. reflexivity.
Qed.

Lemma step_blank : forall lines i st cp, ready st cp ->
  parse_step pp xs lines i "" st = POk (set_current st (with_content cp [NL]), S i).
Proof.
  intros lines i st cp Hr.
  rewrite (parse_step_body pp xs lines i "" st cp Hr) by (repeat split; reflexivity).
  rewrite body_step_blank by reflexivity. reflexivity.
Qed.

(* ---- ~ statement ---- *)
Lemma step_stmt : forall lines i st cp c,
  ready st cp -> stmt_ok pp c = true -> line_ok ("~ " ++ c) = true ->
  parse_step pp xs lines i ("~ " ++ c) st = POk (set_current st (with_execute cp (TPyStmt c)), S i).
Proof.
  intros lines i st cp c Hr Hok Hl.
  unfold stmt_ok in Hok. do 3 (apply andb_prop in Hok; destruct Hok as [Hok ?]).
  rename H into Hpy. rename H0 into Hop. rename H1 into Htr. apply negb_true_iff in Hop.
  destruct (line_ok_parts _ Hl) as [Hcl Hrs].
  assert (Hs : strip ("~ " ++ c) = "~ " ++ c) by (apply strip_fixed; [reflexivity|exact Hrs]).
  assert (K : classify ("~ " ++ c) = KStmt /\ body_line ("~ " ++ c)) by (known_line Hs).
  destruct K as [Hk Hb].
  rewrite (parse_step_body pp xs lines i _ st cp Hr Hb).
  rewrite (body_step_stmt pp xs lines i _ st cp Hk).
  change (drop 2 ("~ " ++ c)) with c. rewrite (trimmed_eq c Htr).
  assert (Hcc : clean c = true) by (rewrite clean_app in Hcl; apply andb_prop in Hcl; tauto).
  rewrite (sic_clean c Hcc). rewrite (emx_single lines i c (trimmed_eq c Htr) Hop). rewrite Hpy.
  rewrite Nat.add_1_r. reflexivity.
Qed.

(* ---- -> jump ---- *)
Lemma step_jump : forall lines i st cp t a,
  ready st cp -> valid_passage_pattern t = true -> paren_free a = true ->
  line_ok ("-> " ++ t ++ print_args a) = true ->
  parse_step pp xs lines i ("-> " ++ t ++ print_args a) st =
  POk (set_current st (with_content cp [TJump t a]), S i).
Proof.
  intros lines i st cp t a Hr Ht Ha Hl.
  destruct (line_ok_parts _ Hl) as [Hcl Hrs].
  set (X := t ++ print_args a) in *.
  assert (HX : starts_ns X = true) by (apply starts_ns_app, valid_name_starts_ns, Ht).
  assert (Hs : strip ("-> " ++ X) = "-> " ++ X) by (apply strip_fixed; [reflexivity|exact Hrs]).
  assert (K : classify ("-> " ++ X) = KJump /\ body_line ("-> " ++ X)) by (known_line Hs).
  destruct K as [Hk Hb].
  rewrite (parse_step_body pp xs lines i _ st cp Hr Hb).
  rewrite (body_step_jump pp xs lines i _ st cp Hk). rewrite Hs.
  change (drop 2 ("-> " ++ X)) with (" " ++ X). rewrite (arrow_rest_sp X HX).
  assert (HXs : strip X = X).
  { apply strip_fixed; [exact HX|]. apply (rstrip_suffix "-> "); [|exact Hrs].
    destruct X; [discriminate|discriminate]. }
  rewrite HXs. unfold X. rewrite (eta_print t a (valid_name_no_lparen t Ht) Ha). reflexivity.
Qed.

(* ---- @render ---- *)
Lemma step_render : forall lines i st cp n a,
  ready st cp -> render_ok n a = true -> line_ok ("@render " ++ n ++ "(" ++ a ++ ")") = true ->
  parse_step pp xs lines i ("@render " ++ n ++ "(" ++ a ++ ")") st =
  POk (set_current st (with_content cp [TRender n a None]), S i).
Proof.
  intros lines i st cp n a Hr Hok Hl.
  destruct (line_ok_parts _ Hl) as [Hcl Hrs].
  set (X := n ++ "(" ++ a ++ ")") in *.
  assert (Hs : strip ("@render " ++ X) = "@render " ++ X) by (apply strip_fixed; [reflexivity|exact Hrs]).
  assert (K : classify ("@render " ++ X) = KRender /\ body_line ("@render " ++ X)) by (known_line Hs).
  destruct K as [Hk Hb].
  rewrite (parse_step_body pp xs lines i _ st cp Hr Hb).
  rewrite (body_step_render pp xs lines i _ st cp Hk).
  unfold parse_render_line. rewrite (sic_clean _ Hcl), Hs.
  replace (startswith ("@render " ++ X) "@render") with true by reflexivity. cbn [negb].
  change (drop 7 ("@render " ++ X)) with (" " ++ X).
  replace (startswith (" " ++ X) ":") with false by reflexivity.
  assert (HX : starts_ns X = true).
  { unfold render_ok in Hok. apply andb_prop in Hok. destruct Hok as [Hok _]. apply andb_prop in Hok.
    destruct Hok as [N1 N2]. apply starts_ns_app, word_starts_ns; assumption. }
  assert (HXs : strip (" " ++ X) = X).
  { rewrite strip_pad_l. apply strip_fixed; [exact HX|]. apply (rstrip_suffix "@render "); [|exact Hrs].
    destruct X; [discriminate|discriminate]. }
  rewrite HXs.
  assert (NE : nonempty X = true) by (destruct X; [discriminate HX|reflexivity]).
  rewrite NE. unfold X. rewrite (render_directive_print n a Hok). reflexivity.
Qed.

(* ---- @input ---- *)
Lemma step_input : forall lines i st cp attrs,
  ready st cp -> input_ok attrs = true ->
  line_ok ("@input name=" ++ String dquote (input_name attrs ++ String dquote "")) = true ->
  parse_step pp xs lines i ("@input name=" ++ String dquote (input_name attrs ++ String dquote "")) st =
  POk (set_current st (with_input cp attrs), S i).
Proof.
  intros lines i st cp attrs Hr Hok Hl.
  destruct (line_ok_parts _ Hl) as [Hcl Hrs].
  unfold input_ok in Hok.
  destruct attrs as [|[k1 nm] [|[k2 lb] [|[k3 ph] [|]]]]; try discriminate.
  do 5 (apply andb_prop in Hok; destruct Hok as [Hok ?]).
  apply String.eqb_eq in Hok, H0, H1, H2, H3. subst k1 k2 k3 lb ph.
  rename H into Hq.
  change (input_name [("name", nm); ("label", title (replace_char nm "_" " ")); ("placeholder", "")]) with nm in *.
  set (V := "name=" ++ String dquote (nm ++ String dquote "")) in *.
  change ("@input name=" ++ String dquote (nm ++ String dquote "")) with ("@input " ++ V) in *.
  assert (Hs : strip ("@input " ++ V) = "@input " ++ V) by (apply strip_fixed; [reflexivity|exact Hrs]).
  assert (K : classify ("@input " ++ V) = KInput /\ body_line ("@input " ++ V)) by (known_line Hs).
  destruct K as [Hk Hb].
  rewrite (parse_step_body pp xs lines i _ st cp Hr Hb).
  rewrite (body_step_input pp xs lines i _ st cp Hk).
  unfold parse_input_attrs. rewrite (sic_clean _ Hcl), Hs.
  replace (startswith ("@input " ++ V) "@input") with true by reflexivity. cbn [negb].
  change (drop 6 ("@input " ++ V)) with (" " ++ V).
  assert (HVs : strip (" " ++ V) = V).
  { rewrite strip_pad_l. apply strip_fixed; [reflexivity|]. apply (rstrip_suffix "@input "); [discriminate|exact Hrs]. }
  rewrite HVs. replace (nonempty V) with true by reflexivity. cbn [negb].
  unfold V. rewrite (find_attrs_name nm Hq). reflexivity.
Qed.

(* ---- @hook / @unhook ---- *)
Lemma step_hook : forall lines i st cp (add : bool) e t,
  ready st cp -> word_ok e = true -> word_ok t = true ->
  line_ok ((if add then "@hook " else "@unhook ") ++ e ++ " " ++ t) = true ->
  parse_step pp xs lines i ((if add then "@hook " else "@unhook ") ++ e ++ " " ++ t) st =
  POk (set_current st (with_execute cp (THook add e t)), S i).
Proof.
  intros lines i st cp add e t Hr He Ht Hl.
  destruct (line_ok_parts _ Hl) as [Hcl Hrs].
  destruct add.
  - assert (Hs : strip ("@hook " ++ e ++ " " ++ t) = "@hook " ++ e ++ " " ++ t)
      by (apply strip_fixed; [reflexivity|exact Hrs]).
    assert (K : classify ("@hook " ++ e ++ " " ++ t) = KHook /\ body_line ("@hook " ++ e ++ " " ++ t))
      by (known_line Hs).
    destruct K as [Hk Hb].
    rewrite (parse_step_body pp xs lines i _ st cp Hr Hb).
    rewrite (body_step_hook pp xs lines i _ st cp Hk). rewrite Hs.
    change ("@hook " ++ e ++ " " ++ t) with ("@hook" ++ " " ++ e ++ " " ++ t).
    rewrite (split_ws_3 "@hook" e t eq_refl He Ht). reflexivity.
  - assert (Hs : strip ("@unhook " ++ e ++ " " ++ t) = "@unhook " ++ e ++ " " ++ t)
      by (apply strip_fixed; [reflexivity|exact Hrs]).
    assert (K : classify ("@unhook " ++ e ++ " " ++ t) = KUnhook /\ body_line ("@unhook " ++ e ++ " " ++ t))
      by (known_line Hs).
    destruct K as [Hk Hb].
    rewrite (parse_step_body pp xs lines i _ st cp Hr Hb).
    rewrite (body_step_unhook pp xs lines i _ st cp Hk). rewrite Hs.
    change ("@unhook " ++ e ++ " " ++ t) with ("@unhook" ++ " " ++ e ++ " " ++ t).
    rewrite (split_ws_3 "@unhook" e t eq_refl He Ht). reflexivity.
Qed.

(* ---- @join marker ---- *)
Lemma step_join : forall lines i st cp, ready st cp ->
  parse_step pp xs lines i "@join" st =
  POk (set_current st (with_join (with_content cp [TJoinMarker (jcount cp)]) (S (jcount cp)) (S (scount cp))), S i).
Proof.
  intros lines i st cp Hr.
  rewrite (parse_step_body pp xs lines i "@join" st cp Hr) by (repeat split; reflexivity).
  rewrite body_step_join by reflexivity. reflexivity.
Qed.

(* ---- choice line ---- *)
Definition cond_part (cd : option string) : string :=
  match cd with
  | Some c => match c with EmptyString => "" | _ => "{" ++ c ++ "} " end
  | None => ""
  end.

Lemma choice_line_eq : forall tx tg ar cd stk,
  choice_line tx tg ar cd stk =
  (if stk then "+ " else "* ") ++ cond_part cd ++ "[" ++ print_pieces tx ++ "] -> " ++ tg ++ print_args ar.
Proof. intros. unfold choice_line, cond_part. destruct stk; reflexivity. Qed.

Lemma parse_choice_line_print : forall tx tg ar cd stk,
  choice_head_ok tx tg ar cd stk = true -> line_ok (choice_line tx tg ar cd stk) = true ->
  parse_choice_line (choice_line tx tg ar cd stk) =
  POk (Some (Choice (c_pieces tx) tg ar cd stk 0 [] [])).
Proof.
  intros tx tg ar cd stk Hok Hl.
  unfold choice_head_ok in Hok. do 6 (apply andb_prop in Hok; destruct Hok as [Hok ?]).
  rename H into Hv. rename H0 into Har. rename H1 into Htg. rename H2 into Hcd. rename H3 into Hbr.
  rename H4 into Hnest. apply Nat.leb_le in Hnest.
  destruct (line_ok_parts _ Hl) as [Hcl Hrs].
  rewrite choice_line_eq in *.
  set (T := print_pieces tx) in *. set (X := tg ++ print_args ar) in *.
  set (rest := cond_part cd ++ "[" ++ T ++ "] -> " ++ X) in *.
  assert (HX : starts_ns X = true) by (apply starts_ns_app, ctarget_starts_ns, Htg).
  assert (Hrest_ns : starts_ns rest = true).
  { unfold rest, cond_part. destruct cd as [[|k0 k]|]; reflexivity. }
  assert (Hrest_ne : rest <> "").
  { intros E. rewrite E in Hrest_ns. discriminate. }
  assert (Hrest : strip rest = rest).
  { apply strip_fixed; [exact Hrest_ns|]. destruct stk.
    - apply (rstrip_suffix "+ "); assumption.
    - apply (rstrip_suffix "* "); assumption. }
  assert (HXs : strip X = X).
  { apply strip_fixed; [exact HX|].
    assert (XN : X <> "") by (intros E; rewrite E in HX; discriminate).
    unfold rest in Hrs. destruct stk.
    + apply (rstrip_suffix ("+ " ++ cond_part cd ++ "[" ++ T ++ "] -> ")); [exact XN|].
      rewrite !sapp_assoc. exact Hrs.
    + apply (rstrip_suffix ("* " ++ cond_part cd ++ "[" ++ T ++ "] -> ")); [exact XN|].
      rewrite !sapp_assoc. exact Hrs. }
  assert (HclT : clean T = true).
  { unfold rest in Hcl. rewrite !clean_app in Hcl. repeat (apply andb_prop in Hcl; destruct Hcl as [? Hcl]).
    assumption. }
  unfold parse_choice_line. rewrite (sic_clean _ Hcl), (parse_tags_clean _ Hcl).
  assert (SL : (if startswith ((if stk then "+ " else "* ") ++ rest) "+ "
                then Some (true, strip (drop 2 ((if stk then "+ " else "* ") ++ rest)))
                else if startswith ((if stk then "+ " else "* ") ++ rest) "* "
                     then Some (false, strip (drop 2 ((if stk then "+ " else "* ") ++ rest))) else None)
               = Some (stk, rest)).
  { destruct stk.
    - change (startswith ("+ " ++ rest) "+ ") with (startswith rest ""). rewrite startswith_nil.
      change (drop 2 ("+ " ++ rest)) with rest. rewrite Hrest. reflexivity.
    - change (startswith ("* " ++ rest) "+ ") with false. cbv iota.
      change (startswith ("* " ++ rest) "* ") with (startswith rest ""). rewrite startswith_nil.
      change (drop 2 ("* " ++ rest)) with rest. rewrite Hrest. reflexivity. }
  rewrite SL.
  assert (M : (if startswith rest "{"
               then match match_cond_choice rest with Some (c, t, g) => Some (Some c, t, g) | None => None end
               else match match_plain_choice rest with Some (t, g) => Some (None, t, g) | None => None end)
              = Some (cd, T, X)).
  { unfold rest, cond_part. destruct cd as [k|].
    - apply andb_prop in Hcd. destruct Hcd as [Hk1 Hk2]. destruct k as [|k0 k']; [discriminate|].
      set (k := String k0 k') in *.
      replace (startswith (("{" ++ k ++ "} ") ++ "[" ++ T ++ "] -> " ++ X) "{") with true by reflexivity.
      rewrite !sapp_assoc. change (("{" ++ k ++ "} " ++ "[" ++ T ++ "] -> " ++ X))
        with ("{" ++ k ++ "} " ++ "[" ++ T ++ "] -> " ++ X).
      rewrite (match_cond_print k T X Hk1 Hk2 Hbr HX). reflexivity.
    - change ("" ++ "[" ++ T ++ "] -> " ++ X) with ("[" ++ T ++ "] -> " ++ X).
      replace (startswith ("[" ++ T ++ "] -> " ++ X) "{") with false by reflexivity.
      rewrite (match_plain_print T X Hbr HX). reflexivity. }
  rewrite M. rewrite HXs. unfold X. rewrite (eta_print tg ar (ctarget_no_lparen tg Htg) Har).
  unfold T. rewrite (parse_content_line_pieces false tx Hok HclT Hnest). reflexivity.
Qed.

Lemma choice_line_kind : forall tx tg ar cd stk, line_ok (choice_line tx tg ar cd stk) = true ->
  classify (choice_line tx tg ar cd stk) = KChoice /\ body_line (choice_line tx tg ar cd stk) /\
  indent_of (choice_line tx tg ar cd stk) = 0.
Proof.
  intros tx tg ar cd stk Hl. destruct (line_ok_parts _ Hl) as [_ Hrs].
  rewrite choice_line_eq in *. set (rest := cond_part cd ++ _) in *.
  destruct stk.
  - assert (Hs : strip ("+ " ++ rest) = "+ " ++ rest) by (apply strip_fixed; [reflexivity|exact Hrs]).
    destruct (ltac:(known_line Hs) : classify _ = KChoice /\ body_line _) as [K1 K2].
    split; [exact K1|split; [exact K2|]].
    match goal with |- indent_of (String ?c ?r) = 0 => rewrite (indent_of_cons c r); reflexivity
                  | |- indent_of (?p ++ ?r) = 0 => change (indent_of (String (match p with String c _ => c | _ => " "%char end)
                                                                   (match p with String _ q => q ++ r | _ => r end)) = 0);
                                                 rewrite indent_of_cons; reflexivity end.
  - assert (Hs : strip ("* " ++ rest) = "* " ++ rest) by (apply strip_fixed; [reflexivity|exact Hrs]).
    destruct (ltac:(known_line Hs) : classify _ = KChoice /\ body_line _) as [K1 K2].
    split; [exact K1|split; [exact K2|]].
    match goal with |- indent_of (String ?c ?r) = 0 => rewrite (indent_of_cons c r); reflexivity
                  | |- indent_of (?p ++ ?r) = 0 => change (indent_of (String (match p with String c _ => c | _ => " "%char end)
                                                                   (match p with String _ q => q ++ r | _ => r end)) = 0);
                                                 rewrite indent_of_cons; reflexivity end.
Qed.

(* a choice that does not lead to @join *)
Lemma step_choice_plain : forall lines i st cp tx tg ar cd stk,
  ready st cp -> choice_head_ok tx tg ar cd stk = true -> String.eqb tg "@join" = false ->
  line_ok (choice_line tx tg ar cd stk) = true ->
  parse_step pp xs lines i (choice_line tx tg ar cd stk) st =
  POk (set_current st (with_choice (with_section cp (scount cp))
                         (Choice (c_pieces tx) tg ar cd stk (scount cp) [] [])), S i).
Proof.
  intros lines i st cp tx tg ar cd stk Hr Hok Hj Hl.
  destruct (choice_line_kind tx tg ar cd stk Hl) as [Hk [Hb _]].
  rewrite (parse_step_body pp xs lines i _ st cp Hr Hb).
  rewrite (body_step_choice pp xs lines i _ st cp Hk). cbv zeta.
  assert (V : validate_choice_syntax (choice_line tx tg ar cd stk) i = POk tt).
  { apply (vcs_idx _ 0). apply is_ok_unit. unfold choice_head_ok in Hok.
    apply andb_prop in Hok. tauto. }
  rewrite V. cbn [pbind]. rewrite (parse_choice_line_print tx tg ar cd stk Hok Hl). cbn [retag pbind].
  rewrite Hj. reflexivity.
Qed.

(* a `-> @join` choice: the block comes from the extractor *)
Lemma step_choice_join : forall lines i st cp tx ar cd stk bc be n,
  ready st cp -> choice_head_ok tx "@join" ar cd stk = true ->
  line_ok (choice_line tx "@join" ar cd stk) = true ->
  x_join xs lines (S i) 0 = POk (bc, be, n) ->
  parse_step pp xs lines i (choice_line tx "@join" ar cd stk) st =
  POk (set_current st (with_choice (with_section cp (scount cp))
                         (Choice (c_pieces tx) "@join" ar cd stk (scount cp) [] bc)), S (i + n)).
Proof.
  intros lines i st cp tx ar cd stk bc be n Hr Hok Hl Hx.
  destruct (choice_line_kind tx "@join" ar cd stk Hl) as [Hk [Hb Hi]].
  rewrite (parse_step_body pp xs lines i _ st cp Hr Hb).
  rewrite (body_step_choice pp xs lines i _ st cp Hk). cbv zeta.
  assert (V : validate_choice_syntax (choice_line tx "@join" ar cd stk) i = POk tt).
  { apply (vcs_idx _ 0). apply is_ok_unit. unfold choice_head_ok in Hok.
    apply andb_prop in Hok. tauto. }
  rewrite V. cbn [pbind]. rewrite (parse_choice_line_print tx "@join" ar cd stk Hok Hl). cbn [retag pbind].
  replace (String.eqb "@join" "@join") with true by reflexivity. rewrite Hi, Hx. reflexivity.
Qed.

End ItemSteps.

(* ===== part 8 ===== *)
Local Open Scope string_scope.
Local Open Scope nat_scope.

(* ------------------------------------------------------------------------------------------- *)
(* the two whitespace normalisations: Source.v's and the parser model's are the same functions  *)
(* ------------------------------------------------------------------------------------------- *)
Lemma is_nl_same : forall t, Source.is_nl t = is_nl_tok t.
Proof. intros t. reflexivity. Qed.
Lemma is_cond_same : forall t, Source.is_cond t = is_cond_tok t.
Proof. intros t. reflexivity. Qed.

Lemma cleanup_ws_same : forall l k, Source.cleanup_ws l k = ParseMain.cleanup_ws l k.
Proof.
  induction l as [|t r IH]; intros k; [reflexivity|].
  cbn [Source.cleanup_ws ParseMain.cleanup_ws]. rewrite !IH.
  assert (A : forall p (x : list token), match x with y :: _ => p y | [] => false end = head_is p x) by reflexivity.
  unfold last_is. rewrite !A. reflexivity.
Qed.

Lemma drop_nls_same : forall l, Source.drop_nls l = drop_nl l.
Proof. induction l as [|t r IH]; [reflexivity|]. cbn [Source.drop_nls drop_nl]. rewrite IH. reflexivity. Qed.

Lemma trim_trailing_same : forall l, Source.trim_trailing l = trim_trailing_newlines l.
Proof.
  intros l. unfold Source.trim_trailing, trim_trailing_newlines.
  destruct (rev l) as [|x [|y r]] eqn:E.
  - reflexivity.
  - assert (L : l = [x]) by (rewrite <- (rev_involutive l), E; reflexivity).
    subst l. cbn [Source.drop_nls]. destruct (Source.is_nl x); reflexivity.
  - assert (L : l = rev (x :: y :: r)) by (rewrite <- (rev_involutive l), E; reflexivity).
    change (is_nl_tok x) with (Source.is_nl x). change (is_nl_tok y) with (Source.is_nl y).
    cbn [Source.drop_nls]. destruct (Source.is_nl x); [|reflexivity].
    destruct (Source.is_nl y); cbn [andb].
    + rewrite drop_nls_same. reflexivity.
    + symmetry. exact L.
Qed.

Theorem normalisations_agree : forall l,
  trim_trailing_newlines (cleanup_whitespace l) = Source.trim_trailing (Source.cleanup_ws l []).
Proof.
  intros l. unfold cleanup_whitespace. symmetry.
  rewrite <- (cleanup_ws_same l []). apply trim_trailing_same.
Qed.

(* ------------------------------------------------------------------------------------------- *)
(* the parameter list of a header                                                               *)
(* ------------------------------------------------------------------------------------------- *)
Definition plain_char (c : ascii) : bool := negb (ch c "," || is_opener c || is_closer c).
Definition plainp (s : string) : bool := all_chars plain_char s.

Lemma soc_plain : forall P rest parts cur, plainp P = true ->
  split_on_commas_aux (P ++ rest) parts cur 0 = split_on_commas_aux rest parts (cur ++ P) 0.
Proof.
  induction P as [|c P IH]; intros rest parts cur H.
  - rewrite sapp_nil_r. reflexivity.
  - unfold plainp in H. simpl in H. apply andb_prop in H. destruct H as [H1 H2].
    unfold plain_char in H1. apply negb_true_iff in H1. apply orb_false_elim in H1. destruct H1 as [H1 Hc].
    apply orb_false_elim in H1. destruct H1 as [Hcomma Ho].
    cbn [append split_on_commas_aux]. rewrite Ho, Hc, Hcomma. cbn [andb].
    rewrite (IH rest parts _ H2). rewrite snoc_app, sapp_cons. reflexivity.
Qed.

Lemma soc_join : forall Ps P parts cur, plainp P = true -> Forall (fun x => plainp x = true) Ps ->
  nonempty (cur ++ P) = true -> Forall (fun x => nonempty x = true) Ps ->
  split_on_commas_aux (join ", " (P :: Ps)) parts cur 0 =
  (rev parts ++ (cur ++ P)%string :: map (fun x => (" " ++ x)%string) Ps)%list.
Proof.
  induction Ps as [|Q Ps IH]; intros P parts cur HP HPs Hne HnePs.
  - cbn [join map]. rewrite <- (sapp_nil_r P) at 1. rewrite (soc_plain P "" parts cur HP).
    cbn [split_on_commas_aux]. rewrite Hne. cbn [rev]. reflexivity.
  - inversion HPs as [|? ? HQ HPs']; subst. inversion HnePs as [|? ? HQne HnePs']; subst.
    change (join ", " (P :: Q :: Ps)) with (P ++ ", " ++ join ", " (Q :: Ps)).
    rewrite (soc_plain P _ parts cur HP).
    change (", " ++ join ", " (Q :: Ps)) with (String "," (String " " (join ", " (Q :: Ps)))).
    cbn [split_on_commas_aux]. replace (is_opener ",") with false by reflexivity.
    replace (is_closer ",") with false by reflexivity. replace (ch "," "," && (0 =? 0)%Z) with true by reflexivity.
    replace (is_opener " ") with false by reflexivity. replace (is_closer " ") with false by reflexivity.
    replace (ch " " "," && (0 =? 0)%Z) with false by reflexivity.
    rewrite (IH Q ((cur ++ P) :: parts) (snoc "" " ") HQ HPs').
    + cbn [rev map]. rewrite <- List.app_assoc. reflexivity.
    + reflexivity.
    + exact HnePs'.
Qed.

Lemma word_plain : forall s, all_chars is_word s = true -> plainp s = true.
Proof.
  intros s H. eapply all_chars_imp; [|exact H]. intros c Hc. destruct c as [b0 b1 b2 b3 b4 b5 b6 b7].
  destruct b0, b1, b2, b3, b4, b5, b6, b7; vm_compute in Hc |- *; try reflexivity; discriminate.
Qed.

Lemma identifier_facts : forall s, is_identifier s = true ->
  nonempty s = true /\ all_chars is_word s = true /\ starts_ns s = true.
Proof.
  intros [|c r] H; [discriminate|]. simpl in H. apply andb_prop in H. destruct H as [H1 H2].
  assert (W : is_word c = true /\ is_space c = false).
  { destruct c as [b0 b1 b2 b3 b4 b5 b6 b7].
    destruct b0, b1, b2, b3, b4, b5, b6, b7; vm_compute in H1 |- *; try (split; reflexivity); discriminate. }
  destruct W as [W1 W2]. repeat split.
  - simpl. rewrite W1, H2. reflexivity.
  - simpl. rewrite W2. reflexivity.
Qed.

Lemma word_not_space : forall c, is_word c = true -> is_space c = false.
Proof.
  intros c H. destruct c as [b0 b1 b2 b3 b4 b5 b6 b7].
  destruct b0, b1, b2, b3, b4, b5, b6, b7; vm_compute in H |- *; try reflexivity; discriminate.
Qed.

Lemma word_rstrip : forall s, all_chars is_word s = true -> rstrip s = s.
Proof.
  induction s as [|x s IH]; intros H; [reflexivity|]. simpl in H. apply andb_prop in H. destruct H as [H1 H2].
  rewrite rstrip_cons_ne by (apply word_not_space, H1). rewrite (IH H2). reflexivity.
Qed.

Lemma word_no_eq : forall s, all_chars is_word s = true -> all_chars (fun c => negb (ch c "=")) s = true.
Proof.
  intros s H. eapply all_chars_imp; [|exact H]. intros c Hc. destruct (ch c "=") eqn:E; [|reflexivity].
  apply ch_eq in E. subst c. vm_compute in Hc. discriminate.
Qed.

Lemma default_ok_parts : forall d, default_ok d = true -> trimmed d = true /\ plainp d = true.
Proof. intros d H. unfold default_ok in H. apply andb_prop in H. exact H. Qed.

(* one printed parameter *)
Lemma print_param_facts : forall p, param_ok p = true ->
  plainp (print_param p) = true /\ nonempty (print_param p) = true /\ strip (print_param p) = print_param p /\
  starts_ns (print_param p) = true /\ rstrip (print_param p) = print_param p.
Proof.
  intros [n d] H. unfold param_ok in H. cbn [pname pdefault] in H.
  do 3 (apply andb_prop in H; destruct H as [H ?]). rename H into Hid. rename H0 into Hd. rename H2 into Hkw.
  destruct (identifier_facts n Hid) as [Hne [Hw Hns]]. unfold print_param. cbn [pname pdefault].
  assert (R : rstrip (match d with Some d0 => (n ++ "=" ++ d0)%string | None => n end) =
              (match d with Some d0 => (n ++ "=" ++ d0)%string | None => n end)).
  { destruct d as [d|]; [|apply word_rstrip, Hw].
    destruct (default_ok_parts d Hd) as [Ht _]. destruct d as [|d0 dr].
    - rewrite rstrip_app_ne; [reflexivity|discriminate].
    - destruct (trimmed_parts _ Ht ltac:(discriminate)) as [_ Hr].
      rewrite rstrip_app_ne; [f_equal; change ("=" ++ String d0 dr)%string with (String "=" (String d0 dr));
                               rewrite rstrip_cons_ne by reflexivity; rewrite Hr; reflexivity|].
      change ("=" ++ String d0 dr)%string with (String "=" (String d0 dr)). rewrite rstrip_cons_ne by reflexivity. discriminate. }
  assert (N : starts_ns (match d with Some d0 => (n ++ "=" ++ d0)%string | None => n end) = true).
  { destruct d; [apply starts_ns_app, Hns|exact Hns]. }
  split; [|split; [|split; [apply strip_fixed; assumption|split; assumption]]].
  - destruct d as [d|]; [|apply word_plain, Hw]. destruct (default_ok_parts d Hd) as [_ Hp].
    unfold plainp. rewrite !all_chars_app. fold (plainp n). rewrite (word_plain n Hw). fold (plainp d). rewrite Hp. reflexivity.
  - destruct d; destruct n; try discriminate; reflexivity.
Qed.

Lemma str_in_In : forall x l, str_in x l = true <-> In x l.
Proof.
  induction l as [|y l IH]; [split; [discriminate|intros []]|]. cbn [str_in In]. split.
  - intros H. apply orb_prop in H. destruct H as [H|H]; [left; apply String.eqb_eq in H; congruence|right; apply IH, H].
  - intros [->|H]; [rewrite String.eqb_refl; reflexivity|]. apply IH in H. rewrite H. apply orb_true_r.
Qed.

(* one iteration of the loop of parse_passage_params on the printed parameter (with or without the blank that
   follows a comma) *)
Lemma ppp_step_print : forall (sp : bool) p acc seen names,
  param_ok p = true -> str_in (pname p) names = false ->
  (pdefault p = None -> seen = false) ->
  ppp_step (acc, seen, names) ((if sp then " " else "") ++ print_param p)%string =
  POk (p :: acc, match pdefault p with Some _ => true | None => seen end, pname p :: names).
Proof.
  intros sp [n d] acc seen names Hok Hnin Hseen.
  destruct (print_param_facts _ Hok) as [Hpl [Hne [Hst _]]].
  unfold param_ok in Hok. cbn [pname pdefault] in *.
  do 3 (apply andb_prop in Hok; destruct Hok as [Hok ?]). rename Hok into Hid. rename H into Hd. rename H0 into Hmk.
  rename H1 into Hkw. apply negb_true_iff in Hmk.
  apply negb_true_iff in Hkw. destruct (identifier_facts n Hid) as [Hnn [Hw Hns]].
  unfold ppp_step.
  assert (S1 : strip ((if sp then " " else "") ++ print_param (mkParam n d))%string = print_param (mkParam n d)).
  { destruct sp; [rewrite strip_pad_l|cbn [append]]; exact Hst. }
  rewrite S1, Hne. cbn [negb]. unfold print_param in *. cbn [pname pdefault] in *. destruct d as [d|].
  - destruct (default_ok_parts d Hd) as [Ht _].
    change (n ++ "=" ++ d)%string with (n ++ String "=" d)%string.
    rewrite (find_char_app n "=" d (word_no_eq n Hw)). rewrite take_app.
    replace (S (String.length n)) with (String.length n + 1) by lia. rewrite drop_app_plus.
    change (drop 1 (String "=" d)) with d.
    rewrite (strip_fixed n Hns (word_rstrip n Hw)), (trimmed_eq d Ht). rewrite Hid, Hkw, Hmk, Hnin. reflexivity.
  - rewrite (find_char_none n "=" (word_no_eq n Hw)). rewrite (Hseen eq_refl), Hid, Hkw, Hmk, Hnin. reflexivity.
Qed.

Lemma ppp_loop_print : forall ps acc seen names,
  forallb param_ok ps = true -> required_first ps seen = true ->
  NoDup (map pname ps) -> (forall p, In p ps -> ~ In (pname p) names) ->
  exists seen' names',
    ppp_loop (map (fun x => (" " ++ x)%string) (map print_param ps)) (acc, seen, names) =
    POk ((rev ps ++ acc)%list, seen', names').
Proof.
  induction ps as [|p ps IH]; intros acc seen names Hok Hreq Hnd Hnin; [eexists _, _; reflexivity|].
  cbn [forallb] in Hok. apply andb_prop in Hok. destruct Hok as [Hp Hok].
  cbn [map] in Hnd. inversion Hnd as [|? ? Hp_nin Hnd']; subst.
  cbn [map ppp_loop].
  assert (Hs : pdefault p = None -> seen = false).
  { intros E. cbn [required_first] in Hreq. rewrite E in Hreq. apply andb_prop in Hreq. destruct Hreq as [Hr _].
    apply negb_true_iff in Hr. exact Hr. }
  assert (Hn : str_in (pname p) names = false).
  { apply not_true_iff_false. intros E. apply str_in_In in E. apply (Hnin p (or_introl eq_refl)), E. }
  rewrite (ppp_step_print true p acc seen names Hp Hn Hs). cbn [pbind].
  destruct (IH (p :: acc) (match pdefault p with Some _ => true | None => seen end) (pname p :: names) Hok) as [s' [n' E]].
  - cbn [required_first] in Hreq. destruct (pdefault p); [exact Hreq|apply andb_prop in Hreq; tauto].
  - exact Hnd'.
  - intros q Hq [E|E]; [apply Hp_nin; rewrite E; apply in_map, Hq|apply (Hnin q (or_intror Hq)), E].
  - exists s', n'. rewrite E. cbn [rev]. rewrite <- List.app_assoc. reflexivity.
Qed.

Lemma names_nodup_NoDup0 : forall l, names_nodup l = true -> NoDup l.
Proof.
  induction l as [|x r IH]; intros H; constructor.
  - cbn [names_nodup] in H. apply andb_prop in H. destruct H as [H _]. apply negb_true_iff in H.
    intros Hin. apply str_in_In in Hin. congruence.
  - apply IH. cbn [names_nodup] in H. apply andb_prop in H. tauto.
Qed.

Lemma plain_paren_free : forall s, plainp s = true -> paren_free s = true.
Proof.
  intros s H. eapply all_chars_imp; [|exact H]. intros c Hc. unfold plain_char in Hc.
  apply negb_true_iff in Hc. apply orb_false_elim in Hc. destruct Hc as [Hc Hcl]. apply orb_false_elim in Hc.
  destruct Hc as [_ Ho]. unfold is_opener in Ho. unfold is_closer in Hcl.
  destruct (ch c "("); [discriminate|]. destruct (ch c ")"); [discriminate|]. reflexivity.
Qed.

Lemma join_facts : forall Qs X,
  paren_free X = true -> starts_ns X = true -> rstrip X = X ->
  Forall (fun q => paren_free q = true /\ starts_ns q = true /\ rstrip q = q) Qs ->
  paren_free (join ", " (X :: Qs)) = true /\ starts_ns (join ", " (X :: Qs)) = true /\
  rstrip (join ", " (X :: Qs)) = join ", " (X :: Qs).
Proof.
  induction Qs as [|Q Qs IH]; intros X H1 H2 H3 HQ; [repeat split; assumption|].
  inversion HQ as [|? ? [Q1 [Q2 Q3]] HQ']; subst. destruct (IH Q Q1 Q2 Q3 HQ') as [J1 [J2 J3]].
  change (join ", " (X :: Q :: Qs)) with (X ++ ", " ++ join ", " (Q :: Qs))%string.
  split; [|split].
  - unfold paren_free in *. rewrite !all_chars_app, H1, J1. reflexivity.
  - apply starts_ns_app, H2.
  - assert (N : join ", " (Q :: Qs) <> ""%string) by (intros E; rewrite E in J2; discriminate).
    rewrite rstrip_app_ne.
    + f_equal. rewrite rstrip_app_ne; [rewrite J3; reflexivity|rewrite J3; exact N].
    + rewrite rstrip_app_ne; [|rewrite J3; exact N]. discriminate.
Qed.

Lemma params_print_facts : forall p0 ps', params_ok (p0 :: ps') = true ->
  paren_free (join ", " (map print_param (p0 :: ps'))) = true /\
  trimmed (join ", " (map print_param (p0 :: ps'))) = true /\
  nonempty (join ", " (map print_param (p0 :: ps'))) = true /\
  parse_passage_params (join ", " (map print_param (p0 :: ps'))) = POk (p0 :: ps').
Proof.
  intros p0 ps' H. set (P := join ", " (map print_param (p0 :: ps'))).
  unfold params_ok in H. do 2 (apply andb_prop in H; destruct H as [H ?]).
  rename H into Hall. rename H0 into Hreq. rename H1 into Hnd. apply names_nodup_NoDup0 in Hnd.
  cbn [forallb] in Hall. apply andb_prop in Hall. destruct Hall as [Hp0 Hall].
  destruct (print_param_facts p0 Hp0) as [A0 [B0 [C0 [D0 E0]]]].
  assert (Fq : Forall (fun q => paren_free q = true /\ starts_ns q = true /\ rstrip q = q) (map print_param ps')).
  { apply Forall_forall. intros x Hx. apply in_map_iff in Hx. destruct Hx as [p [<- Hp]].
    rewrite forallb_forall in Hall. destruct (print_param_facts p (Hall p Hp)) as [A [_ [_ [D E]]]].
    split; [apply plain_paren_free, A|split; assumption]. }
  destruct (join_facts (map print_param ps') (print_param p0) (plain_paren_free _ A0) D0 E0 Fq) as [J1 [J2 J3]].
  change (join ", " (print_param p0 :: map print_param ps')) with P in J1, J2, J3.
  assert (PN : nonempty P = true) by (destruct P; [discriminate|reflexivity]).
  split; [exact J1|split; [|split; [exact PN|]]].
  - unfold trimmed. rewrite (strip_fixed P J2 J3). apply String.eqb_refl.
  - assert (Fpl : Forall (fun x => plainp x = true) (map print_param ps') /\
                  Forall (fun x => nonempty x = true) (map print_param ps')).
    { split; apply Forall_forall; intros x Hx; apply in_map_iff in Hx; destruct Hx as [p [<- Hp]];
        rewrite forallb_forall in Hall; destruct (print_param_facts p (Hall p Hp)) as [A [B _]]; assumption. }
    destruct Fpl as [Fpl Fne].
    unfold parse_passage_params. rewrite PN. cbn [negb]. unfold split_on_commas, P. cbn [map].
    rewrite (soc_join _ (print_param p0) [] "" A0 Fpl B0 Fne). cbn [rev app ppp_loop].
    change ("" ++ print_param p0)%string with (print_param p0).
    cbn [map] in Hnd. inversion Hnd as [|? ? Hn0 Hnd']; subst.
    pose proof (ppp_step_print false p0 [] false [] Hp0 eq_refl (fun _ => eq_refl)) as S0. cbn [append] in S0.
    rewrite S0. cbn [pbind].
    destruct (ppp_loop_print ps' [p0] (match pdefault p0 with Some _ => true | None => false end) [pname p0] Hall) as [s' [n' E]].
    + cbn [required_first] in Hreq. destruct (pdefault p0); [exact Hreq|apply andb_prop in Hreq; tauto].
    + exact Hnd'.
    + intros q Hq [E|[]]. apply Hn0. rewrite E. apply in_map, Hq.
    + rewrite E. cbn [pbind]. rewrite rev_app_distr, rev_involutive. reflexivity.
Qed.

(* ------------------------------------------------------------------------------------------- *)
(* the header line                                                                              *)
(* ------------------------------------------------------------------------------------------- *)
Definition params_part (ps : list param) : string :=
  match ps with [] => "" | _ => "(" ++ join ", " (map print_param ps) ++ ")" end.

Lemma print_header_eq : forall name ps, print_header name ps = ":: " ++ name ++ params_part ps.
Proof. reflexivity. Qed.

Lemma starts_ns_not_all_space : forall s, starts_ns s = true -> all_space s = false.
Proof. intros [|c r] H; [discriminate|]. simpl in *. destruct (is_space c); [discriminate|reflexivity]. Qed.

Lemma validate_name_ok : forall name i, valid_passage_pattern name = true -> validate_passage_name name i = POk tt.
Proof.
  intros name i H. unfold validate_passage_name.
  assert (N : nonempty name = true) by (destruct name; [discriminate|reflexivity]).
  unfold isspace. rewrite N, (starts_ns_not_all_space name (valid_name_starts_ns name H)), H. reflexivity.
Qed.

Lemma extract_params_print : forall name ps, header_ok name ps = true ->
  rstrip (name ++ params_part ps) = name ++ params_part ps ->
  extract_passage_params (name ++ params_part ps) =
  (name, match ps with [] => "" | _ => join ", " (map print_param ps) end).
Proof.
  intros name ps H Hrs. unfold header_ok in H. apply andb_prop in H. destruct H as [Hn Hp0].
  pose proof (valid_name_no_lparen name Hn) as Hnl.
  pose proof (valid_name_starts_ns name Hn) as Hns.
  unfold extract_passage_params. destruct ps as [|p0 ps'].
  - cbn [params_part]. rewrite sapp_nil_r. rewrite (find_char_none name "(" Hnl). reflexivity.
  - destruct (params_print_facts p0 ps' Hp0) as [Hpf [Htr _]].
    set (P := join ", " (map print_param (p0 :: ps'))) in *.
    assert (E : params_part (p0 :: ps') = String "(" (P ++ ")")) by reflexivity. rewrite E in *.
    rewrite (find_char_app name "(" (P ++ ")") Hnl). rewrite drop_app.
    rewrite match_paren_open, (match_paren_run P ")" _ _ Hpf).
    change ")" with (String ")" ""). rewrite match_paren_close1.
    rewrite take_app.
    assert (E1 : slice (S (String.length name)) (S (String.length name) + String.length P)
                       (name ++ String "(" (P ++ String ")" "")) = P).
    { unfold slice. replace (S (String.length name)) with (String.length name + 1) by lia.
      rewrite drop_app_plus. change (drop 1 (String "(" (P ++ String ")" ""))) with (P ++ String ")" "").
      match goal with |- take ?k _ = _ => replace k with (String.length P) by lia end.
      apply take_app. }
    assert (E2 : drop (S (S (String.length name) + String.length P)) (name ++ String "(" (P ++ String ")" "")) = "").
    { replace (S (S (String.length name) + String.length P)) with (String.length name + (S (String.length P + 1))) by lia.
      rewrite drop_app_plus. change (drop (S (String.length P + 1)) (String "(" (P ++ String ")" "")))
        with (drop (String.length P + 1) (P ++ String ")" "")). rewrite drop_app_plus. reflexivity. }
    rewrite E1, E2. rewrite sapp_nil_r. rewrite (trimmed_eq P Htr).
    f_equal. apply strip_fixed; [exact Hns|].
    (* name has no trailing white space: its characters are name characters *)
    clear - Hn. destruct name as [|c r]; [discriminate|]. simpl in Hn. apply andb_prop in Hn. destruct Hn as [H1 H2].
    assert (A : forall s, all_chars is_name_char s = true -> rstrip s = s).
    { induction s as [|x s IH]; intros Hs; [reflexivity|]. simpl in Hs. apply andb_prop in Hs. destruct Hs as [Hx Hs].
      rewrite rstrip_cons_ne by (apply is_name_char_not_space, Hx). rewrite (IH Hs). reflexivity. }
    rewrite rstrip_cons_ne.
    + rewrite (A r H2). reflexivity.
    + destruct c as [b0 b1 b2 b3 b4 b5 b6 b7].
      destruct b0, b1, b2, b3, b4, b5, b6, b7; vm_compute in H1 |- *; try reflexivity; discriminate.
Qed.

Section Header.
Variable pp : pyparse.
Variable xs : extractors.

Definition header_state (st : pstate) (name : string) (ps : list param) (i : nat) : pstate :=
  mkPS (st_imports st) (st_metadata st) (flush_current st)
       (match lookup name (st_locations st) with
        | Some l => set_key name (S i :: l) (st_locations st)
        | None => set_key name [S i] (st_locations st)
        end)
       (Some (mkPP name ps [] [] [] [] [] None None)) (st_explicit_start st) false false.

Lemma step_header : forall lines i st name ps,
  st_in_metadata st = false -> header_ok name ps = true -> line_ok (print_header name ps) = true ->
  parse_step pp xs lines i (print_header name ps) st = POk (header_state st name ps i, S i).
Proof.
  intros lines i st name ps Hm Hok Hl.
  destruct (line_ok_parts _ Hl) as [Hcl Hrs]. rewrite print_header_eq in *.
  set (H := name ++ params_part ps) in *.
  assert (Hn : valid_passage_pattern name = true) by (unfold header_ok in Hok; apply andb_prop in Hok; tauto).
  assert (HH : starts_ns H = true) by (apply starts_ns_app, valid_name_starts_ns, Hn).
  assert (HHne : H <> "") by (intros E; rewrite E in HH; discriminate).
  assert (HHr : rstrip H = H) by (apply (rstrip_suffix ":: "); assumption).
  assert (HHs : strip H = H) by (apply strip_fixed; assumption).
  assert (HHc : clean H = true) by (rewrite clean_app in Hcl; apply andb_prop in Hcl; tauto).
  assert (Hs : strip (":: " ++ H) = ":: " ++ H) by (apply strip_fixed; [reflexivity|exact Hrs]).
  assert (Hnc : clean name = true) by (unfold H in HHc; rewrite clean_app in HHc; apply andb_prop in HHc; tauto).
  unfold parse_step. cbv zeta. rewrite Hs.
  replace (nonempty (":: " ++ H)) with true by reflexivity.
  replace (startswith (":: " ++ H) "#") with false by reflexivity.
  replace (startswith (":: " ++ H) "import ") with false by reflexivity.
  replace (startswith (":: " ++ H) "from ") with false by reflexivity.
  replace (String.eqb (":: " ++ H) "@metadata") with false by reflexivity.
  replace (startswith (":: " ++ H) "@start ") with false by reflexivity.
  replace (startswith (":: " ++ H) ":: ") with true
    by (symmetry; change (startswith (":: " ++ H) ":: ") with (startswith H ""); apply startswith_nil).
  change (drop 3 (":: " ++ H)) with H.
  cbn [negb orb].
  assert (Fin : (let (passage_header, _) := strip_inline_comment (strip H) in
                 let (name_with_params, params_str) := extract_passage_params passage_header in
                 let (passage_name, passage_tags) := parse_tags name_with_params in
                 let* _ := validate_passage_name passage_name i in
                 let* ps0 := (if nonempty params_str then retag i (parse_passage_params params_str) else POk []) in
                 POk (passage_name, ps0, passage_tags)) = POk (name, ps, [])).
  { rewrite HHs, (sic_clean H HHc). unfold H. rewrite (extract_params_print name ps Hok HHr).
    rewrite (parse_tags_clean name Hnc). rewrite (validate_name_ok name i Hn). cbn [pbind].
    unfold header_ok in Hok. apply andb_prop in Hok. destruct Hok as [_ Hp].
    destruct ps as [|p0 ps']; [reflexivity|].
    destruct (params_print_facts p0 ps' Hp) as [_ [_ [Pn Pp]]]. rewrite Pn, Pp. reflexivity. }
  destruct (strip_inline_comment (strip H)) as [ph cm].
  destruct (extract_passage_params ph) as [nwp pstr].
  destruct (parse_tags nwp) as [pn pt].
  destruct (validate_passage_name pn i) as [[]| | |]; cbn [pbind] in Fin |- *; try discriminate Fin.
  destruct (if nonempty pstr then retag i (parse_passage_params pstr) else POk []) as [ps0| | |];
    cbn [pbind] in Fin |- *; try discriminate Fin.
  injection Fin as -> -> ->.
  destruct (st_in_imports st) eqn:Ei; cbn [st_in_metadata set_in_imports]; rewrite Hm;
    unfold new_passage, header_state, flush_current; cbn [st_imports st_metadata st_passages st_locations st_current
      st_explicit_start st_in_imports st_in_metadata set_in_imports]; rewrite ?Hm, ?Ei; reflexivity.
Qed.
End Header.

(* ------------------------------------------------------------------------------------------- *)
(* the loop                                                                                     *)
(* ------------------------------------------------------------------------------------------- *)
Section Loop.
Variable pp : pyparse.
Variable xs : extractors.

Definition reaches (lines : list string) (i : nat) (st : pstate) (i' : nat) (st' : pstate) : Prop :=
  i <= i' /\ exists k, k <= i' - i /\
  forall f, parse_loop pp xs (k + f) lines (List.length lines) i st = parse_loop pp xs f lines (List.length lines) i' st'.

Lemma reaches_refl : forall lines i st, reaches lines i st i st.
Proof. intros. split; [lia|]. exists 0. split; [lia|]. reflexivity. Qed.

Lemma reaches_trans : forall lines i1 s1 i2 s2 i3 s3,
  reaches lines i1 s1 i2 s2 -> reaches lines i2 s2 i3 s3 -> reaches lines i1 s1 i3 s3.
Proof.
  intros lines i1 s1 i2 s2 i3 s3 [L1 [k1 [K1 E1]]] [L2 [k2 [K2 E2]]]. split; [lia|].
  exists (k1 + k2). split; [lia|]. intros f. rewrite <- Nat.add_assoc, E1, E2. reflexivity.
Qed.

Lemma reaches_step : forall lines i line st st' i',
  nth_error lines i = Some line -> parse_step pp xs lines i line st = POk (st', i') -> i < i' ->
  reaches lines i st i' st'.
Proof.
  intros lines i line st st' i' Hn Hs Hlt. split; [lia|]. exists 1. split; [lia|]. intros f.
  cbn [Nat.add parse_loop].
  assert (Hi : i < List.length lines) by (apply nth_error_Some; congruence).
  replace (List.length lines <=? i) with false by (symmetry; apply Nat.leb_gt; exact Hi).
  rewrite Hn, Hs. reflexivity.
Qed.

Lemma nth_error_mid : forall (pre : list string) l post, nth_error (pre ++ l :: post) (List.length pre) = Some l.
Proof. intros. rewrite nth_error_app2 by lia. rewrite Nat.sub_diag. reflexivity. Qed.

End Loop.

(* ===== part 9 ===== *)
Local Open Scope string_scope.
Local Open Scope nat_scope.
Local Open Scope list_scope.

(* ------------------------------------------------------------------------------------------- *)
(* the pre-pass leaves comment-free lines without trailing white space alone                    *)
(* (fix F17k right-strips every story line: the identity on printed lines)                      *)
(* ------------------------------------------------------------------------------------------- *)
Lemma prepass_identity : forall lines closer in_story skip,
  Forall (fun l => clean l = true /\ rstrip l = l) lines ->
  strip_comments_outside_python lines closer in_story skip = lines.
Proof.
  induction lines as [|l r IH]; intros closer in_story skip H; [reflexivity|].
  inversion H as [|? ? [Hl Hrs] Hr]; subst.
  cbn [strip_comments_outside_python]. destruct skip as [|k].
  - rewrite (sic_clean l Hl). cbn [snd nonempty]. cbv zeta. rewrite Hrs.
    destruct closer as [c|].
    + destruct (String.eqb (strip l) c); rewrite IH by exact Hr; reflexivity.
    + destruct (in_story || startswith l ":: " || startswith (strip l) "@start ").
      * destruct (startswith (strip l) "@py"); [rewrite IH by exact Hr; reflexivity|].
        destruct (startswith (strip l) "<<py"); [rewrite IH by exact Hr; reflexivity|].
        destruct (startswith (strip l) "~ "); rewrite IH by exact Hr; reflexivity.
      * rewrite IH by exact Hr. reflexivity.
  - rewrite IH by exact Hr. reflexivity.
Qed.

(* ------------------------------------------------------------------------------------------- *)
(* what an item / a choice does to the passage being built                                      *)
(* ------------------------------------------------------------------------------------------- *)
Definition app_item (it : item) (cp : ppassage) : ppassage :=
  match it with
  | IText ps glue => with_content cp (c_pieces ps ++ (if glue then [] else [NL]))%list
  | IBlank => with_content cp [NL]
  | IStmt c => with_execute cp (TPyStmt c)
  | IPy c => with_execute cp (TPyBlock c)
  | IIf _ => with_content cp (c_item it)
  | IFor _ _ _ _ => with_content cp (c_item it)
  | IJump t a => with_content cp [TJump t a]
  | IRender n a => with_content cp [TRender n a None]
  | IInput a => with_input cp a
  | IHook a e t => with_execute cp (THook a e t)
  | IJoin => with_join (with_content cp [TJoinMarker (jcount cp)]) (S (jcount cp)) (S (scount cp))
  end.

Definition it_joins (it : item) : nat := match it with IJoin => 1 | _ => 0 end.

Definition grows (cp cp' : ppassage) (ct : list token) (chs : list choice) (ex : list token)
                 (ins : list (list (string * string))) : Prop :=
  pp_id cp' = pp_id cp /\ pp_params cp' = pp_params cp /\ pp_tags cp' = pp_tags cp /\
  pp_content cp' = (rev ct ++ pp_content cp)%list /\ pp_choices cp' = (rev chs ++ pp_choices cp)%list /\
  pp_execute cp' = (rev ex ++ pp_execute cp)%list /\ pp_inputs cp' = (rev ins ++ pp_inputs cp)%list.

Lemma grows_refl : forall cp, grows cp cp [] [] [] [].
Proof. intros cp. repeat split; reflexivity. Qed.

Lemma grows_trans : forall a b c ct1 ch1 ex1 in1 ct2 ch2 ex2 in2,
  grows a b ct1 ch1 ex1 in1 -> grows b c ct2 ch2 ex2 in2 ->
  grows a c (ct1 ++ ct2) (ch1 ++ ch2) (ex1 ++ ex2) (in1 ++ in2).
Proof.
  intros a b c ct1 ch1 ex1 in1 ct2 ch2 ex2 in2 [A1 [A2 [A3 [A4 [A5 [A6 A7]]]]]] [B1 [B2 [B3 [B4 [B5 [B6 B7]]]]]].
  repeat split; try congruence.
  - rewrite B4, A4, rev_app_distr, List.app_assoc. reflexivity.
  - rewrite B5, A5, rev_app_distr, List.app_assoc. reflexivity.
  - rewrite B6, A6, rev_app_distr, List.app_assoc. reflexivity.
  - rewrite B7, A7, rev_app_distr, List.app_assoc. reflexivity.
Qed.

Lemma top_content_raw_cons : forall it r k,
  top_content_raw (it :: r) k = (top_content_raw [it] k ++ top_content_raw r (k + it_joins it))%list.
Proof.
  intros it r k. destruct it; cbn [top_content_raw it_joins app]; rewrite ?Nat.add_0_r, ?Nat.add_1_r, ?List.app_nil_r;
    try reflexivity.
Qed.

Lemma c_items_app : forall a b, c_items (a ++ b) = (c_items a ++ c_items b)%list.
Proof. induction a as [|x a IH]; intros b; [reflexivity|]. cbn [app c_items]. rewrite IH, List.app_assoc. reflexivity. Qed.

Lemma top_execute_cons : forall it r, top_execute (it :: r) = (top_execute [it] ++ top_execute r)%list.
Proof.
  intros it r. unfold top_execute. cbn [filter]. destruct (is_command it).
  - cbn [c_items]. rewrite List.app_nil_r. reflexivity.
  - reflexivity.
Qed.

Lemma top_inputs_cons : forall it r, top_inputs (it :: r) = (top_inputs [it] ++ top_inputs r)%list.
Proof. intros it r. unfold top_inputs. cbn [flat_map]. rewrite List.app_nil_r. reflexivity. Qed.

Lemma app_item_grows : forall it cp,
  grows cp (app_item it cp) (top_content_raw [it] (jcount cp)) [] (top_execute [it]) (top_inputs [it]) /\
  jcount (app_item it cp) = jcount cp + it_joins it /\ scount (app_item it cp) = scount cp + it_joins it.
Proof.
  intros it cp. destruct cp as [id prm ct chs ex tg ins jc sc].
  destruct it; unfold grows, app_item, with_content, with_execute, with_input, with_join, jcount, scount, top_execute, top_inputs;
    cbn [pp_id pp_params pp_content pp_choices pp_execute pp_tags pp_inputs pp_join_count pp_section
         top_content_raw filter is_command c_items c_item flat_map it_joins app rev];
    rewrite ?List.app_nil_r, ?Nat.add_0_r, ?Nat.add_1_r; repeat split; try reflexivity.
Qed.

Lemma choice_grows : forall cp ch,
  grows cp (with_choice (with_section cp (scount cp)) ch) [] [ch] [] [] /\
  jcount (with_choice (with_section cp (scount cp)) ch) = jcount cp /\
  scount (with_choice (with_section cp (scount cp)) ch) = scount cp.
Proof.
  intros cp ch. destruct cp as [id prm ct chs ex tg ins jc sc].
  unfold grows, with_choice, with_section, jcount, scount. cbn. repeat split; reflexivity.
Qed.

(* ------------------------------------------------------------------------------------------- *)
(* what follows a choice: nothing, or a line that ends the block of a `-> @join` choice         *)
(* ------------------------------------------------------------------------------------------- *)
Definition post_ok (post : list string) : Prop :=
  match post with [] => True | l :: _ => ParseBlocks.is_join_block_terminator l = true end.

Lemma choice_line_terminator : forall tx tg ar cd stk, line_ok (choice_line tx tg ar cd stk) = true ->
  ParseBlocks.is_join_block_terminator (choice_line tx tg ar cd stk) = true.
Proof.
  intros tx tg ar cd stk Hl. destruct (line_ok_parts _ Hl) as [_ Hrs].
  rewrite choice_line_eq in *. unfold ParseBlocks.is_join_block_terminator.
  destruct stk.
  - rewrite strip_fixed; [|reflexivity|exact Hrs]. unfold cond_part.
    destruct cd as [[|k0 k]|]; cbn [startswith append]; rewrite ?startswith_nil; reflexivity.
  - rewrite strip_fixed; [|reflexivity|exact Hrs]. unfold cond_part.
    destruct cd as [[|k0 k]|]; cbn [startswith append]; rewrite ?startswith_nil; reflexivity.
Qed.

Lemma header_terminator : forall name ps, line_ok (print_header name ps) = true ->
  ParseBlocks.is_join_block_terminator (print_header name ps) = true.
Proof.
  intros name ps Hl. destruct (line_ok_parts _ Hl) as [_ Hrs]. rewrite print_header_eq in *.
  unfold ParseBlocks.is_join_block_terminator. rewrite strip_fixed; [|reflexivity|exact Hrs].
  cbn [startswith append]; rewrite ?startswith_nil; reflexivity.
Qed.

Definition lines_ok (ls : list string) : Prop := Forall (fun l => line_ok l = true) ls.

Lemma lines_ok_app : forall a b, lines_ok (a ++ b) <-> lines_ok a /\ lines_ok b.
Proof. intros. apply Forall_app. Qed.

Section Assembly.
Variable pp : pyparse.
Variable xs : extractors.

Notation reach := (reaches pp xs).

(* an item's lines, wherever they stand, take the loop past them with the item's effect *)
Definition item_steps (it : item) : Prop :=
  forall pre post st cp, ready st cp -> lines_ok (print_item it) ->
    reach (pre ++ print_item it ++ post) (List.length pre) st
          (List.length pre + List.length (print_item it)) (set_current st (app_item it cp)).

Definition choice_steps (c : schoice) : Prop :=
  forall pre post st cp, ready st cp -> lines_ok (print_choice c) -> post_ok post ->
    reach (pre ++ print_choice c ++ post) (List.length pre) st
          (List.length pre + List.length (print_choice c))
          (set_current st (with_choice (with_section cp (scount cp)) (c_choice (scount cp) c))).

Lemma one_line_reach : forall pre l post st st',
  parse_step pp xs (pre ++ [l] ++ post) (List.length pre) l st = POk (st', S (List.length pre)) ->
  reach (pre ++ [l] ++ post) (List.length pre) st (List.length pre + 1) st'.
Proof.
  intros pre l post st st' H. rewrite Nat.add_1_r.
  eapply reaches_step; [apply nth_error_mid|exact H|lia].
Qed.

(* (ii) the single-line items *)
Definition single_line (it : item) : bool :=
  match it with IPy _ | IIf _ | IFor _ _ _ _ => false | _ => true end.

Lemma single_line_item_steps : forall it, single_line it = true -> item_ok pp true it = true -> item_steps it.
Proof.
  intros it Hs Hok pre post st cp Hr Hl.
  destruct it as [ps glue| |c|c|brs|v c body chs|t a|n a|attrs|add e t|]; try discriminate;
    cbn [print_item List.length app_item item_ok] in *; inversion Hl as [|? ? Hl1 _]; subst;
    apply one_line_reach.
  - apply step_text; assumption.
  - apply step_blank; assumption.
  - apply step_stmt; assumption.
  - apply andb_prop in Hok. destruct Hok. apply step_jump; assumption.
  - apply step_render; assumption.
  - apply step_input; assumption.
  - apply andb_prop in Hok. destruct Hok. apply step_hook; assumption.
  - apply step_join; assumption.
Qed.

(* a choice that does not lead to @join (its block is empty) *)
Lemma plain_choice_steps : forall tx tg ar cd stk,
  choice_head_ok tx tg ar cd stk = true -> String.eqb tg "@join" = false ->
  choice_steps (SChoice tx tg ar cd stk []).
Proof.
  intros tx tg ar cd stk Hok Hj pre post st cp Hr Hl _.
  cbn [print_choice print_items map List.length c_choice c_items] in *.
  inversion Hl as [|? ? Hl1 _]; subst. apply one_line_reach. apply step_choice_plain; assumption.
Qed.

(* ---- running the choices of one section ---- *)
Ltac norm_reach :=
  repeat match goal with
  | H : reaches _ _ _ _ _ _ _ |- _ => progress (rewrite <- ?List.app_assoc, ?app_length, ?Nat.add_assoc in H)
  end;
  rewrite <- ?List.app_assoc, ?app_length, ?Nat.add_assoc.

Lemma set_current_twice : forall st a b, set_current (set_current st a) b = set_current st b.
Proof. reflexivity. Qed.

Lemma post_ok_choices : forall cs post, lines_ok (print_choices cs) -> post_ok post ->
  post_ok (print_choices cs ++ post).
Proof.
  intros [|[tx tg ar cd stk blk] r] post Hl Hp; [exact Hp|].
  cbn [print_choices print_choice app] in *. inversion Hl as [|? ? Hl1 _]; subst.
  apply choice_line_terminator, Hl1.
Qed.

Definition cc (x : nat * schoice) : choice := c_choice (fst x) (snd x).

Lemma app_pre : forall (pre a b post : list string), (pre ++ (a ++ b) ++ post = (pre ++ a) ++ b ++ post)%list.
Proof. intros. rewrite <- !List.app_assoc. reflexivity. Qed.

Lemma choices_run : forall cs pre post st cp sec,
  ready st cp -> scount cp = sec -> Forall choice_steps (map snd cs) ->
  forallb (in_section sec) cs = true -> lines_ok (print_choices (map snd cs)) -> post_ok post ->
  exists cp', reach (pre ++ print_choices (map snd cs) ++ post) (List.length pre) st
                    (List.length pre + List.length (print_choices (map snd cs))) (set_current st cp') /\
              grows cp cp' [] (map cc cs) [] [] /\ jcount cp' = jcount cp /\ scount cp' = scount cp.
Proof.
  induction cs as [|[k c] r IH]; intros pre post st cp sec Hr Hsec Hst Hin Hl Hp.
  - exists cp. cbn [map print_choices List.length app]. rewrite Nat.add_0_r. split.
    + assert (E : set_current st cp = st).
      { destruct Hr as [_ [_ H3]]. destruct st; cbn in *. rewrite H3. reflexivity. }
      rewrite E. apply reaches_refl.
    + split; [apply grows_refl|split; reflexivity].
  - cbn [map snd print_choices] in *. inversion Hst as [|? ? Hc Hst']; subst.
    cbn [forallb] in Hin. apply andb_prop in Hin. destruct Hin as [Hk Hin].
    unfold in_section in Hk. cbn [fst] in Hk. apply Nat.eqb_eq in Hk. subst k.
    apply lines_ok_app in Hl. destruct Hl as [Hl1 Hl2].
    pose proof (Hc pre (print_choices (map snd r) ++ post) st cp Hr Hl1 (post_ok_choices _ _ Hl2 Hp)) as R1.
    set (cp1 := with_choice (with_section cp (scount cp)) (c_choice (scount cp) c)) in *.
    destruct (choice_grows cp (c_choice (scount cp) c)) as [G1 [J1 S1]]. fold cp1 in G1, J1, S1.
    assert (Hr1 : ready (set_current st cp1) cp1) by (eapply ready_set_current; exact Hr).
    destruct (IH (pre ++ print_choice c)%list post (set_current st cp1) cp1 (scount cp) Hr1 S1 Hst' Hin Hl2 Hp)
      as [cp' [R2 [G2 [J2 S2]]]].
    exists cp'. rewrite set_current_twice in R2. split; [|split; [|split]].
    + norm_reach. eapply reaches_trans; [exact R1|exact R2].
    + pose proof (grows_trans _ _ _ _ _ _ _ _ _ _ _ G1 G2) as G. cbn [app] in G. exact G.
    + congruence.
    + congruence.
Qed.

(* ---- the body of a passage ---- *)
Lemma span_sec_spec : forall sec l a b, span_sec sec l = (a, b) ->
  forallb (fun x => negb (in_section sec x)) b = true ->
  l = (a ++ b)%list /\ filter (in_section sec) l = a /\ filter (fun x => negb (in_section sec x)) l = b /\
  forallb (in_section sec) a = true.
Proof.
  induction l as [|x r IH]; intros a b E Hb.
  - injection E as <- <-. repeat split; reflexivity.
  - cbn [span_sec] in E. destruct (in_section sec x) eqn:Ex.
    + destruct (span_sec sec r) as [a' b'] eqn:Er. injection E as <- <-.
      destruct (IH a' b' eq_refl Hb) as [E1 [E2 [E3 E4]]].
      cbn [filter]. rewrite Ex. cbn [negb]. repeat split; cbn [app forallb]; try congruence.
      rewrite Ex, E4. reflexivity.
    + injection E as <- <-. cbn [app]. split; [reflexivity|].
      assert (F1 : forall m, forallb (fun x => negb (in_section sec x)) m = true -> filter (in_section sec) m = []).
      { induction m as [|y m IHm]; intros Hm; [reflexivity|]. cbn [forallb] in Hm. apply andb_prop in Hm.
        destruct Hm as [Hy Hm]. cbn [filter]. apply negb_true_iff in Hy. rewrite Hy. apply IHm, Hm. }
      assert (F2 : forall m, forallb (fun x => negb (in_section sec x)) m = true ->
                             filter (fun x => negb (in_section sec x)) m = m).
      { induction m as [|y m IHm]; intros Hm; [reflexivity|]. cbn [forallb] in Hm. apply andb_prop in Hm.
        destruct Hm as [Hy Hm]. cbn [filter]. rewrite Hy. f_equal. apply IHm, Hm. }
      rewrite (F1 _ Hb), (F2 _ Hb). repeat split; reflexivity.
Qed.

Lemma body_run : forall body sec pending pre post st cp,
  ready st cp -> jcount cp = sec -> scount cp = sec ->
  Forall item_steps body -> Forall choice_steps (map snd pending) ->
  sections_ok body sec pending = true -> lines_ok (print_body body sec pending) -> post_ok post ->
  exists cp', reach (pre ++ print_body body sec pending ++ post) (List.length pre) st
                    (List.length pre + List.length (print_body body sec pending)) (set_current st cp') /\
              grows cp cp' (top_content_raw body sec) (map cc pending) (top_execute body) (top_inputs body).
Proof.
  induction body as [|it r IH]; intros sec pending pre post st cp Hr Hj Hs Hit Hch Hsec Hl Hp.
  - cbn [print_body sections_ok] in *.
    destruct (choices_run pending pre post st cp sec Hr Hs Hch Hsec Hl Hp) as [cp' [R [G _]]].
    exists cp'. split; [exact R|exact G].
  - inversion Hit as [|? ? Hi Hit']; subst.
    assert (Generic : it_joins it = 0 -> sections_ok r (jcount cp) pending = true ->
              lines_ok (print_item it ++ print_body r (jcount cp) pending) ->
              exists cp', reach (pre ++ (print_item it ++ print_body r (jcount cp) pending) ++ post) (List.length pre) st
                (List.length pre + List.length (print_item it ++ print_body r (jcount cp) pending)) (set_current st cp') /\
                grows cp cp' (top_content_raw (it :: r) (jcount cp)) (map cc pending) (top_execute (it :: r)) (top_inputs (it :: r))).
    { intros J0 Hsec' Hl'. apply lines_ok_app in Hl'. destruct Hl' as [Hl1 Hl2].
      pose proof (Hi pre (print_body r (jcount cp) pending ++ post) st cp Hr Hl1) as R1.
      destruct (app_item_grows it cp) as [G1 [J1 S1]]. rewrite J0, Nat.add_0_r in J1, S1.
      set (cp1 := app_item it cp) in *.
      assert (Hr1 : ready (set_current st cp1) cp1) by (eapply ready_set_current; exact Hr).
      destruct (IH (jcount cp) pending (pre ++ print_item it)%list post (set_current st cp1) cp1 Hr1 J1
                   ltac:(congruence) Hit' Hch Hsec' Hl2 Hp) as [cp' [R2 G2]].
      exists cp'. rewrite set_current_twice in R2. split.
      - norm_reach. eapply reaches_trans; [exact R1|exact R2].
      - pose proof (grows_trans _ _ _ _ _ _ _ _ _ _ _ G1 G2) as G. cbn [app] in G.
        rewrite top_content_raw_cons, top_execute_cons, top_inputs_cons, J0, Nat.add_0_r. exact G. }
    try subst sec.
    destruct it as [ps glue| |c|c|brs|v c body chs|t a|n a|attrs|add e t|];
      try (cbn [print_body sections_ok] in Hsec, Hl |- *; apply Generic; [reflexivity|assumption|assumption]).
    (* @join marker: the choices of this section, the marker, the rest *)
    clear Generic. cbn [print_body sections_ok] in Hsec, Hl |- *.
    destruct (span_sec (jcount cp) pending) as [a b] eqn:Esp.
    apply andb_prop in Hsec. destruct Hsec as [Hb Hsec].
    destruct (span_sec_spec _ _ _ _ Esp Hb) as [Epen [Fa [Fb Ha]]]. rewrite Fa, Fb in *.
    apply lines_ok_app in Hl. destruct Hl as [Hla Hl]. apply lines_ok_app in Hl. destruct Hl as [Hlj Hlb].
    assert (Hcha : Forall choice_steps (map snd a) /\ Forall choice_steps (map snd b)).
    { rewrite Epen, map_app in Hch. apply Forall_app in Hch. exact Hch. }
    destruct Hcha as [Hcha Hchb].
    (* 1. the choices *)
    assert (Pj : post_ok (print_item IJoin ++ print_body r (S (jcount cp)) b ++ post)) by reflexivity.
    destruct (choices_run a pre _ st cp (jcount cp) Hr Hs Hcha Ha Hla Pj) as [cp1 [R1 [G1 [J1 S1]]]].
    assert (Hr1 : ready (set_current st cp1) cp1) by (eapply ready_set_current; exact Hr).
    (* 2. the marker *)
    pose proof (Hi (pre ++ print_choices (map snd a))%list (print_body r (S (jcount cp)) b ++ post)
                   (set_current st cp1) cp1 Hr1 Hlj) as R2.
    rewrite set_current_twice in R2.
    destruct (app_item_grows IJoin cp1) as [G2 [J2 S2]]. set (cp2 := app_item IJoin cp1) in *.
    cbn [it_joins] in J2, S2. rewrite Nat.add_1_r in J2, S2.
    assert (Hr2 : ready (set_current st cp2) cp2) by (eapply ready_set_current; exact Hr).
    (* 3. the rest *)
    destruct (IH (S (jcount cp)) b ((pre ++ print_choices (map snd a)) ++ print_item IJoin)%list post
                 (set_current st cp2) cp2 Hr2 ltac:(congruence) ltac:(congruence) Hit' Hchb Hsec Hlb Hp)
      as [cp' [R3 G3]].
    rewrite set_current_twice in R3.
    exists cp'. split.
    + norm_reach. eapply reaches_trans; [exact R1|eapply reaches_trans; [exact R2|exact R3]].
    + pose proof (grows_trans _ _ _ _ _ _ _ _ _ _ _ G1 (grows_trans _ _ _ _ _ _ _ _ _ _ _ G2 G3)) as G.
      cbn [app] in G. rewrite J1 in G.
      rewrite top_content_raw_cons, top_execute_cons, top_inputs_cons. cbn [it_joins]. rewrite Nat.add_1_r.
      rewrite Epen, map_app. exact G.
Qed.

End Assembly.

(* ===== part 10 ===== *)
Local Open Scope string_scope.
Local Open Scope nat_scope.
Local Open Scope list_scope.

(* ------------------------------------------------------------------------------------------- *)
(* dictionaries                                                                                 *)
(* ------------------------------------------------------------------------------------------- *)
Lemma lookup_notin : forall A k (l : list (string * A)), ~ In k (map fst l) -> lookup k l = None.
Proof.
  induction l as [|[k' v] l IH]; intros H; [reflexivity|]. cbn [lookup].
  destruct (String.eqb k k') eqn:E.
  - apply String.eqb_eq in E. subst. exfalso. apply H. left. reflexivity.
  - apply IH. intros Hin. apply H. right. exact Hin.
Qed.

Lemma set_key_fresh : forall A k (v : A) l, lookup k l = None -> set_key k v l = l ++ [(k, v)].
Proof.
  induction l as [|[k' v'] l IH]; intros H; [reflexivity|]. cbn [lookup set_key] in *.
  destruct (String.eqb k k'); [discriminate|]. rewrite (IH H). reflexivity.
Qed.

Lemma names_nodup_NoDup : forall l, names_nodup l = true -> NoDup l.
Proof.
  induction l as [|x r IH]; intros H; constructor.
  - cbn [names_nodup] in H. apply andb_prop in H. destruct H as [H _]. apply negb_true_iff in H.
    intros Hin. clear IH. induction r as [|y r IHr]; [destruct Hin|]. cbn [str_in] in H.
    apply orb_false_elim in H. destruct H as [H1 H2]. destruct Hin as [->|Hin].
    + rewrite String.eqb_refl in H1. discriminate.
    + apply IHr; assumption.
  - apply IH. cbn [names_nodup] in H. apply andb_prop in H. tauto.
Qed.

Section Story.
Variable pp : pyparse.
Variable is_call : string -> bool.
Variable xs : extractors.

Notation reach := (reaches pp xs).

Definition passage_steps (p : spassage) : Prop :=
  Forall (item_steps pp xs) (sp_body p) /\ Forall (choice_steps pp xs) (map snd (sp_choices p)).

Lemma passage_ok_parts : forall p, passage_ok pp p = true ->
  header_ok (sp_name p) (sp_params p) = true /\ sections_ok (sp_body p) 0 (sp_choices p) = true.
Proof.
  intros p H. unfold passage_ok in H. do 4 (apply andb_prop in H; destruct H as [H ?]). split; assumption.
Qed.

Lemma passage_run : forall p pre post st,
  st_in_metadata st = false -> passage_ok pp p = true -> passage_steps p ->
  lines_ok (print_passage p) -> post_ok post ->
  exists cp', reach (pre ++ print_passage p ++ post) (List.length pre) st
                    (List.length pre + List.length (print_passage p))
                    (set_current (header_state st (sp_name p) (sp_params p) (List.length pre)) cp') /\
              finish_passage cp' = compile_passage p /\ pp_id cp' = sp_name p.
Proof.
  intros p pre post st Hm Hok [Hit Hch] Hl Hp.
  destruct (passage_ok_parts p Hok) as [Hh Hsec].
  unfold print_passage in *. inversion Hl as [|? ? Hl1 Hl2]; subst.
  set (hd := print_header (sp_name p) (sp_params p)) in *.
  set (B := print_body (sp_body p) 0 (sp_choices p)) in *.
  set (st1 := header_state st (sp_name p) (sp_params p) (List.length pre)).
  set (cp0 := mkPP (sp_name p) (sp_params p) [] [] [] [] [] None None).
  (* the header *)
  assert (R1 : reach (pre ++ (hd :: B) ++ post) (List.length pre) st (S (List.length pre)) st1).
  { eapply reaches_step; [apply (nth_error_mid pre hd (B ++ post))| |lia].
    apply step_header; assumption. }
  (* the body *)
  assert (Hr : ready st1 cp0) by (repeat split; reflexivity).
  destruct (body_run pp xs (sp_body p) 0 (sp_choices p) (pre ++ [hd]) post st1 cp0 Hr eq_refl eq_refl
                     Hit Hch Hsec Hl2 Hp) as [cp' [R2 G]].
  fold B in R2. exists cp'. split; [|split].
  - replace (pre ++ (hd :: B) ++ post) with ((pre ++ [hd]) ++ B ++ post) in * by (rewrite <- List.app_assoc; reflexivity).
    rewrite app_length in R2. cbn [List.length] in R2 |- *.
    replace (List.length pre + S (List.length B)) with (List.length pre + 1 + List.length B) by lia.
    rewrite Nat.add_1_r in *. eapply reaches_trans; [exact R1|exact R2].
  - destruct G as [G1 [G2 [G3 [G4 [G5 [G6 G7]]]]]]. unfold finish_passage, compile_passage.
    rewrite G1, G2, G3, G4, G5, G6, G7. cbn [pp_id pp_params pp_tags pp_content pp_choices pp_execute pp_inputs cp0].
    rewrite !List.app_nil_r, !rev_involutive. rewrite normalisations_agree. reflexivity.
  - destruct G as [G1 _]. rewrite G1. reflexivity.
Qed.

(* ---- the passages one after the other ---- *)
Definition fin (kv : string * ppassage) : string * passage := (fst kv, finish_passage (snd kv)).
Definition cmp (p : spassage) : string * passage := (sp_name p, compile_passage p).

Definition story_inv (done : list spassage) (st : pstate) : Prop :=
  st_imports st = [] /\ st_metadata st = [] /\ st_explicit_start st = None /\ st_in_metadata st = false /\
  map fin (flush_current st) = map cmp done /\
  map fst (st_locations st) = map sp_name done /\
  Forall (fun kv => List.length (snd kv) = 1) (st_locations st).

Lemma story_inv_init : story_inv [] init_state.
Proof. repeat split; try reflexivity. constructor. Qed.

Lemma post_ok_passages : forall l, lines_ok (print_passages l) -> post_ok (print_passages l).
Proof.
  intros [|p r] H; [exact I|]. cbn [print_passages print_passage app] in *.
  inversion H as [|? ? H1 _]; subst. apply header_terminator, H1.
Qed.

Lemma passages_run : forall todo done pre st,
  story_inv done st -> NoDup (map sp_name (done ++ todo)) ->
  Forall (fun p => passage_ok pp p = true /\ passage_steps p) todo -> lines_ok (print_passages todo) ->
  exists st', reach (pre ++ print_passages todo) (List.length pre) st
                    (List.length pre + List.length (print_passages todo)) st' /\
              story_inv (done ++ todo) st'.
Proof.
  induction todo as [|p r IH]; intros done pre st Inv Hnd Hall Hl.
  - exists st. cbn [print_passages List.length]. rewrite Nat.add_0_r, !List.app_nil_r. split; [apply reaches_refl|exact Inv].
  - inversion Hall as [|? ? [Hok Hst] Hall']; subst.
    cbn [print_passages] in *. apply lines_ok_app in Hl. destruct Hl as [Hl1 Hl2].
    destruct Inv as [I1 [I2 [I3 [I4 [I5 [I6 I7]]]]]].
    destruct (passage_run p pre (print_passages r) st I4 Hok Hst Hl1 (post_ok_passages r Hl2)) as [cp' [R1 [F1 F2]]].
    set (st1 := set_current (header_state st (sp_name p) (sp_params p) (List.length pre)) cp') in *.
    (* the name is new *)
    assert (Hnew : ~ In (sp_name p) (map sp_name done)).
    { rewrite map_app in Hnd. cbn [map] in Hnd. apply NoDup_remove_2 in Hnd. intros Hin. apply Hnd.
      apply in_or_app. left. exact Hin. }
    assert (Inv1 : story_inv (done ++ [p]) st1).
    { unfold st1, story_inv, set_current, header_state, flush_current.
      cbn [st_imports st_metadata st_passages st_locations st_current st_explicit_start st_in_imports st_in_metadata].
      repeat split; try assumption.
      - fold (flush_current st). rewrite F2.
        assert (K : map fst (flush_current st) = map sp_name done).
        { transitivity (map fst (map fin (flush_current st))); [rewrite map_map; reflexivity|].
          rewrite I5, map_map. reflexivity. }
        rewrite set_key_fresh by (apply lookup_notin; rewrite K; exact Hnew).
        rewrite !map_app, I5. cbn [map]. unfold fin at 1, cmp at 3. cbn [fst snd]. rewrite F1. reflexivity.
      - rewrite (lookup_notin _ _ _ ltac:(rewrite I6; exact Hnew)).
        rewrite set_key_fresh by (apply lookup_notin; rewrite I6; exact Hnew).
        rewrite !map_app, I6. reflexivity.
      - rewrite (lookup_notin _ _ _ ltac:(rewrite I6; exact Hnew)).
        rewrite set_key_fresh by (apply lookup_notin; rewrite I6; exact Hnew).
        apply Forall_app. split; [exact I7|]. constructor; [reflexivity|constructor]. }
    destruct (IH (done ++ [p]) (pre ++ print_passage p) st1 Inv1
                 ltac:(rewrite <- List.app_assoc; exact Hnd) Hall' Hl2) as [st' [R2 Inv2]].
    exists st'. split.
    + rewrite <- ?List.app_assoc in R2. rewrite ?app_length in R2. rewrite ?app_length.
      rewrite ?Nat.add_assoc in R2. rewrite ?Nat.add_assoc.
      eapply reaches_trans; [exact R1|exact R2].
    + rewrite <- List.app_assoc in Inv2. exact Inv2.
Qed.

(* ---- the post passes ---- *)
Lemma has_key_start : forall l,
  has_key "Start" (map cmp l) = existsb (fun p => String.eqb (sp_name p) "Start") l.
Proof.
  induction l as [|p r IH]; [reflexivity|]. unfold has_key in *. cbn [map lookup cmp fst existsb].
  rewrite (String.eqb_sym (sp_name p) "Start"). destruct (String.eqb "Start" (sp_name p)); [reflexivity|exact IH].
Qed.

Lemma initial_of_spec : forall s x, ss_start s = None ->
  determine_initial_passage (map cmp (ss_passages s)) None = POk x -> x = initial_of s.
Proof.
  intros s x Hs H. unfold determine_initial_passage, initial_of in *. rewrite Hs.
  destruct (ss_passages s) as [|p r] eqn:E; [discriminate|].
  change (map cmp (p :: r)) with ((sp_name p, compile_passage p) :: map cmp r) in H. cbv beta iota in H.
  change ((sp_name p, compile_passage p) :: map cmp r) with (map cmp (p :: r)) in H.
  rewrite has_key_start in H.
  destruct (existsb (fun p0 => String.eqb (sp_name p0) "Start") (p :: r)).
  - unfold startable in H. destruct (lookup "Start" (map cmp (p :: r))); [|discriminate].
    destruct (existsb _ _); [discriminate|]. injection H as <-. reflexivity.
  - unfold startable in H. destruct (lookup (sp_name p) (map cmp (p :: r))); [|discriminate].
    destruct (existsb _ _); [discriminate|]. injection H as <-. reflexivity.
Qed.

Lemma is_ok_exists : forall A (m : pres A), is_ok m = true -> exists a, m = POk a.
Proof. intros A [a| | |] H; try discriminate. eauto. Qed.

Lemma parse_loop_end : forall f lines st, parse_loop pp xs f lines (List.length lines) (List.length lines) st = POk st.
Proof. intros [|f] lines st; cbn [parse_loop]; rewrite Nat.leb_refl; reflexivity. Qed.

(* the theorem, for any extractors that do what the printed blocks need *)
Theorem parse_print_gen : forall s,
  printable pp is_call s = true ->
  (forall p, In p (ss_passages s) -> passage_steps p) ->
  parse pp is_call xs (print_story s) = POk (compile_ref s).
Proof.
  intros s Hp Hsteps. unfold printable in Hp.
  do 5 (apply andb_prop in Hp; destruct Hp as [Hp ?]).
  rename H into Hinit. rename H0 into Hval. rename H1 into Hlines. rename H2 into Hnd. rename H3 into Hpass.
  assert (Hstart : ss_start s = None) by (destruct (ss_start s); [discriminate|reflexivity]).
  assert (Hl : lines_ok (print_story s)) by (apply forallb_Forall, Hlines).
  unfold parse.
  rewrite prepass_identity
    by (eapply Forall_impl; [|exact Hl]; intros l H; apply line_ok_parts in H; exact H).
  unfold print_story in *. set (lines := print_passages (ss_passages s)) in *.
  assert (Hall : Forall (fun p => passage_ok pp p = true /\ passage_steps p) (ss_passages s)).
  { apply Forall_forall. intros p Hin. split; [|apply Hsteps, Hin].
    rewrite forallb_forall in Hpass. apply Hpass, Hin. }
  destruct (passages_run (ss_passages s) [] [] init_state story_inv_init
              (names_nodup_NoDup _ Hnd) Hall Hl) as [st' [[_ [k [Hk R]]] Inv]].
  cbn [List.length app Nat.add] in R, Hk. fold lines in R, Hk.
  replace (S (List.length lines)) with (k + (S (List.length lines) - k)) by lia.
  rewrite R, parse_loop_end. cbn [pbind].
  destruct Inv as [I1 [I2 [I3 [I4 [I5 [I6 I7]]]]]]. cbn [app] in I5.
  change (map (fun kv => (fst kv, finish_passage (snd kv))) (flush_current st')) with (map fin (flush_current st')).
  rewrite I5.
  assert (D : check_duplicate_passages (st_locations st') = POk tt).
  { unfold check_duplicate_passages.
    replace (existsb (fun kv => 1 <? List.length (snd kv)) (st_locations st')) with false; [reflexivity|].
    symmetry. clear - I7. induction I7 as [|kv l H _ IH]; [reflexivity|]. cbn [existsb]. rewrite H, IH. reflexivity. }
  rewrite D. cbn [pbind].
  change (map cmp (ss_passages s)) with (passages (compile_ref s)) at 1.
  rewrite (is_ok_unit _ Hval). cbn [pbind].
  rewrite I3. destruct (is_ok_exists _ _ Hinit) as [x Ex].
  change (passages (compile_ref s)) with (map cmp (ss_passages s)) in *.
  rewrite Ex. cbn [pbind]. rewrite (initial_of_spec s x Hstart Ex), I1, I2. reflexivity.
Qed.

End Story.

(* ===== part 11 ===== *)
Local Open Scope string_scope.
Local Open Scope nat_scope.
Local Open Scope list_scope.

Module PB := ParseBlocks.

(* ------------------------------------------------------------------------------------------- *)
(* white space in front of a line                                                               *)
(* ------------------------------------------------------------------------------------------- *)
Lemma lstrip_app_ws : forall w s, all_space w = true -> lstrip (w ++ s)%string = lstrip s.
Proof.
  induction w as [|c w IH]; intros s H; [reflexivity|]. simpl in H. apply andb_prop in H. destruct H as [H1 H2].
  cbn [append lstrip]. rewrite H1. apply IH, H2.
Qed.

Lemma strip_app_ws : forall w s, all_space w = true -> strip (w ++ s)%string = strip s.
Proof. intros w s H. unfold strip. rewrite (lstrip_app_ws w s H). reflexivity. Qed.

Lemma ws_run_app : forall w s, all_space w = true -> PB.ws_run (w ++ s)%string = String.length w + PB.ws_run s.
Proof.
  intros w s H. unfold PB.ws_run. rewrite (lstrip_app_ws w s H), slen_app.
  pose proof (length_lstrip_le s). lia.
Qed.

Lemma all_space_false_strip : forall l, all_space l = false -> nonempty (strip l) = true.
Proof.
  induction l as [|c r IH]; intros H; [discriminate|]. simpl in H. unfold strip. cbn [lstrip].
  destruct (is_space c) eqn:E.
  - apply IH. exact H.
  - rewrite rstrip_cons_ne by exact E. reflexivity.
Qed.

Lemma ind4_space : all_space ind4 = true.
Proof. reflexivity. Qed.

(* ------------------------------------------------------------------------------------------- *)
(* A. @py: blocks                                                                               *)
(* ------------------------------------------------------------------------------------------- *)
Lemma split_char_aux_nonnil : forall s c cur, split_char_aux s c cur <> [].
Proof. induction s as [|a r IH]; intros c cur; simpl; [discriminate|]. destruct (ascii_eqb a c); [discriminate|apply IH]. Qed.

Lemma join_cons2 : forall sep x l, l <> [] -> join sep (x :: l) = (x ++ sep ++ join sep l)%string.
Proof. intros sep x [|y l] H; [congruence|reflexivity]. Qed.

Lemma join_split_aux : forall s cur, join PB.nl (split_char_aux s nlc cur) = (cur ++ s)%string.
Proof.
  induction s as [|a r IH]; intros cur.
  - simpl. rewrite sapp_nil_r. reflexivity.
  - cbn [split_char_aux]. destruct (ascii_eqb a nlc) eqn:E.
    + rewrite join_cons2 by apply split_char_aux_nonnil. rewrite IH. cbn [append].
      unfold ascii_eqb in E. apply Ascii.eqb_eq in E. subst a. reflexivity.
    + rewrite IH. rewrite sapp_cons. reflexivity.
Qed.

Lemma join_split : forall s, join PB.nl (split_char s nlc) = s.
Proof. intros s. unfold split_char. rewrite join_split_aux. reflexivity. Qed.

Lemma blank_to_empty_id : forall l, py_line_ok l = true -> PB.blank_to_empty l = l.
Proof.
  intros l H. unfold py_line_ok in H. do 4 (apply andb_prop in H; destruct H as [H _]).
  unfold PB.blank_to_empty. destruct l as [|c r]; [reflexivity|]. cbn [nonempty negb orb] in H.
  apply negb_true_iff in H. pose proof (all_space_false_strip _ H) as N.
  change PB.nonempty with nonempty. rewrite N. reflexivity.
Qed.

Lemma map_id_Forall : forall A (f : A -> A) l, Forall (fun x => f x = x) l -> map f l = l.
Proof. induction 1 as [|x l Hx _ IH]; [reflexivity|]. cbn [map]. rewrite Hx, IH. reflexivity. Qed.

(* an opener at column 0 takes nothing off the body lines (fix F17j) *)
Lemma without_opener_indent_col0 : forall l op, PB.ws_run op = 0 -> PB.without_opener_indent l op = l.
Proof. intros l op H. unfold PB.without_opener_indent. rewrite H. reflexivity. Qed.

Lemma py_new_go_run : forall fx start code acc k rest,
  Forall (fun l => String.eqb (strip l) "@endpy" = false) code ->
  PB.py_new_go fx "@py:" start (code ++ "@endpy" :: rest) acc k =
  POk (join PB.nl (if fx then map PB.blank_to_empty (detect_and_strip_indentation (acc ++ code))
                   else detect_and_strip_indentation (acc ++ code)), S (k + List.length code)).
Proof.
  induction code as [|l code IH]; intros acc k rest H.
  - cbn [app PB.py_new_go]. replace (String.eqb (strip "@endpy") "@endpy") with true by reflexivity.
    rewrite List.app_nil_r, Nat.add_0_r. reflexivity.
  - inversion H as [|? ? Hl Hc]; subst. cbn [app PB.py_new_go]. rewrite Hl.
    rewrite (without_opener_indent_col0 l "@py:") by reflexivity.
    rewrite (IH (acc ++ [l]) (S k) rest Hc). rewrite <- List.app_assoc. cbn [app List.length].
    replace (S k + List.length code) with (k + S (List.length code)) by lia. reflexivity.
Qed.

Lemma py_code_roundtrip : forall c, py_ok c = true ->
  join PB.nl (map PB.blank_to_empty (detect_and_strip_indentation (split_char c nlc))) = c.
Proof.
  intros c H. unfold py_ok in H. cbv zeta in H. apply andb_prop in H. destruct H as [H1 H2].
  assert (D : detect_and_strip_indentation (split_char c nlc) = split_char c nlc).
  { destruct (base_indent (split_char c nlc)) as [[|n]|] eqn:E; try discriminate.
    - apply dedent_fixed, E.
    - unfold detect_and_strip_indentation. rewrite E. reflexivity. }
  rewrite D. rewrite map_id_Forall.
  - apply join_split.
  - apply Forall_forall. intros l Hl. rewrite forallb_forall in H1. apply blank_to_empty_id, H1, Hl.
Qed.

Lemma skipn_mid : forall (pre : list string) x rest, skipn (S (List.length pre)) (pre ++ x :: rest) = rest.
Proof.
  induction pre as [|y pre IH]; intros x rest; [reflexivity|]. cbn [List.length app]. apply IH.
Qed.

Lemma extract_python_block_print : forall c pre post, py_ok c = true ->
  PB.extract_python_block (pre ++ print_item (IPy c) ++ post) (List.length pre) =
  POk (c, List.length (print_item (IPy c))).
Proof.
  intros c pre post H. cbn [print_item]. set (code := split_char c nlc).
  replace (pre ++ (["@py:"] ++ code ++ ["@endpy"]) ++ post) with (pre ++ "@py:" :: (code ++ "@endpy" :: post))
    by (cbn [app]; rewrite <- List.app_assoc; reflexivity).
  unfold PB.extract_python_block, PB.extract_python_block_v. rewrite nth_error_mid.
  replace (startswith (strip "@py:") "<<py") with false by reflexivity.
  replace (startswith (strip "@py:") "@py") with true by reflexivity.
  unfold PB.extract_py_new_syntax_v. rewrite nth_error_mid.
  replace (String.eqb (strip "@py:") "@py:") with true by reflexivity. cbn [negb].
  rewrite skipn_mid. rewrite py_new_go_run.
  - cbn [app]. fold code. unfold code at 1. rewrite (py_code_roundtrip c H).
    cbn [List.length]. rewrite app_length. cbn [List.length]. f_equal. f_equal. lia.
  - unfold py_ok in H. cbv zeta in H. apply andb_prop in H. destruct H as [H _].
    apply Forall_forall. intros l Hl. rewrite forallb_forall in H. specialize (H l Hl).
    unfold py_line_ok in H. do 3 (apply andb_prop in H; destruct H as [H _]).
    apply andb_prop in H. destruct H as [_ H]. apply negb_true_iff in H. exact H.
Qed.

Section PyItem.
Variable pp : pyparse.
Variable xs : extractors.
Hypothesis xs_python : x_python xs = PB.extract_python_block.

Lemma py_item_steps : forall c, py_ok c = true -> item_steps pp xs (IPy c).
Proof.
  intros c Hok pre post st cp Hr Hl.
  set (lines := pre ++ print_item (IPy c) ++ post).
  assert (N : nth_error lines (List.length pre) = Some "@py:").
  { unfold lines. cbn [print_item app]. apply nth_error_mid. }
  eapply reaches_step; [exact N| |].
  - rewrite (parse_step_body pp xs lines _ "@py:" st cp Hr) by (repeat split; reflexivity).
    rewrite body_step_py by reflexivity. rewrite xs_python. unfold lines.
    rewrite (extract_python_block_print c pre post Hok). cbn [pbind]. reflexivity.
  - cbn [print_item app List.length]. lia.
Qed.
End PyItem.

(* ------------------------------------------------------------------------------------------- *)
(* B. the block of a `-> @join` choice                                                          *)
(* ------------------------------------------------------------------------------------------- *)
(* a line of such a block, as written (without the 4 spaces) *)
Definition join_line (l : string) : Prop :=
  starts_ns l = true /\ rstrip l = l /\ PB.is_join_block_terminator l = false /\ startswith l "#" = false.

Lemma marker_heads : forall m, In m PB.block_markers ->
  (exists q, m = String "@" q) /\ (exists q, PB.rstrip_colons m = String "@" q).
Proof.
  intros m H. unfold PB.block_markers in H.
  repeat (destruct H as [<-|H]; [split; eexists; vm_compute; reflexivity|]). destruct H.
Qed.

Lemma not_marker_head : forall c r, Ascii.eqb c "@" = false ->
  existsb (fun m => startswith (String c r) m || String.eqb (String c r) (PB.rstrip_colons m)) PB.block_markers = false.
Proof.
  intros c r H. apply not_true_iff_false. intros E. apply existsb_exists in E. destruct E as [m [Hin Hm]].
  destruct (marker_heads m Hin) as [[q ->] [q' E']]. rewrite E' in Hm.
  cbn [startswith String.eqb] in Hm. unfold ascii_eqb in Hm. rewrite H in Hm. discriminate.
Qed.

(* fix F17n: the legacy markers all begin with `<` *)
Lemma not_legacy_head : forall c r, Ascii.eqb c "<" = false ->
  existsb (fun m => startswith (String c r) m) PB.legacy_markers = false.
Proof.
  intros c r H. unfold PB.legacy_markers. cbn [existsb startswith]. unfold ascii_eqb. rewrite H. reflexivity.
Qed.

Lemma plain_not_terminator : forall c r, bad_start c = false -> rstrip (String c r) = String c r ->
  PB.is_join_block_terminator (String c r) = false.
Proof.
  intros c r H Hrs. destruct (bad_start_facts c H) as [H0 [H1 [H2 [H3 [H4 [H5 [H6 [H7 H8]]]]]]]].
  unfold PB.is_join_block_terminator. rewrite strip_fixed; [|simpl; rewrite H0; reflexivity|exact Hrs].
  cbn [PB.nonempty negb startswith String.eqb]. unfold ascii_eqb. rewrite H6, H7, H2, H8. cbn [andb orb].
  match goal with |- (if ?e then true else ?f) = false =>
    replace e with false by (symmetry; apply not_marker_head, H2);
    replace f with false by (symmetry; apply not_legacy_head, H3) end.
  reflexivity.
Qed.

Lemma join_item_lines : forall it l, join_item_ok it = true -> In l (print_item it) -> line_ok (indent_always l) = true ->
  join_line l.
Proof.
  intros it l Hok Hin Hl. destruct (line_ok_parts _ Hl) as [_ Hrs]. unfold indent_always in Hrs.
  destruct it as [ps glue| |c|c|brs|v c body chs|t a|n a|attrs|add e t|]; try discriminate;
    cbn [print_item] in Hin; destruct Hin as [<-|[]]; cbn [join_item_ok] in Hok.
  - apply andb_prop in Hok. destruct Hok as [Hg Hok]. apply negb_true_iff in Hg. subst glue.
    rewrite sapp_nil_r in *. unfold text_line_ok in Hok. do 3 (apply andb_prop in Hok; destruct Hok as [Hok ?]).
    destruct (plain_start_cons _ H0) as [c [r [E Hc]]]. rewrite E in *.
    assert (R : rstrip (String c r) = String c r) by (apply (rstrip_suffix ind4); [discriminate|exact Hrs]).
    split; [|split; [exact R|split; [apply plain_not_terminator; assumption|]]].
    + destruct (bad_start_facts c Hc) as [H0' _]. simpl. rewrite H0'. reflexivity.
    + destruct (bad_start_facts c Hc) as [_ [H1' _]]. cbn [startswith]. unfold ascii_eqb. rewrite H1'. reflexivity.
  - apply andb_prop in Hok. destruct Hok as [Hne Htr].
    assert (R : rstrip ("~ " ++ c)%string = ("~ " ++ c)%string) by (apply (rstrip_suffix ind4); [discriminate|exact Hrs]).
    split; [reflexivity|split; [exact R|split; [|reflexivity]]].
    unfold PB.is_join_block_terminator. rewrite strip_fixed; [|reflexivity|exact R]. reflexivity.
  - apply andb_prop in Hok. destruct Hok as [He Ht]. destruct add.
    + assert (R : rstrip ("@hook " ++ e ++ " " ++ t)%string = ("@hook " ++ e ++ " " ++ t)%string)
        by (apply (rstrip_suffix ind4); [discriminate|exact Hrs]).
      split; [reflexivity|split; [exact R|split; [|reflexivity]]].
      unfold PB.is_join_block_terminator. rewrite strip_fixed; [|reflexivity|exact R]. reflexivity.
    + assert (R : rstrip ("@unhook " ++ e ++ " " ++ t)%string = ("@unhook " ++ e ++ " " ++ t)%string)
        by (apply (rstrip_suffix ind4); [discriminate|exact Hrs]).
      split; [reflexivity|split; [exact R|split; [|reflexivity]]].
      unfold PB.is_join_block_terminator. rewrite strip_fixed; [|reflexivity|exact R]. reflexivity.
Qed.

Lemma strip_join_line : forall l, join_line l -> strip (indent_always l) = l /\ strip l = l.
Proof.
  intros l [H1 [H2 _]]. unfold indent_always. rewrite (strip_app_ws ind4 l ind4_space).
  rewrite (strip_fixed l H1 H2). split; reflexivity.
Qed.

Lemma join_collect_run : forall BL acc k post,
  Forall join_line BL -> post_ok post ->
  PB.join_collect 0 (map indent_always BL ++ post) acc k = (acc ++ map indent_always BL, k + List.length BL).
Proof.
  induction BL as [|l BL IH]; intros acc k post H Hp.
  - cbn [map app List.length]. rewrite List.app_nil_r, Nat.add_0_r.
    destruct post as [|p post]; [reflexivity|]. cbn [PB.join_collect]. cbn in Hp. rewrite Hp. reflexivity.
  - inversion H as [|? ? Hl HBL]; subst. cbn [map app PB.join_collect].
    destruct (strip_join_line l Hl) as [S1 S2]. destruct Hl as [L1 [L2 [L3 L4]]].
    assert (T : PB.is_join_block_terminator (indent_always l) = false).
    { unfold PB.is_join_block_terminator in *. rewrite S1. rewrite S2 in L3. exact L3. }
    unfold PB.is_comment_line.
    rewrite T, S1, L4. assert (N : PB.nonempty l = true) by (destruct l; [discriminate|reflexivity]). rewrite N. cbn [negb orb].
    unfold indent_always at 1. rewrite (ws_run_app ind4 l ind4_space).
    replace (String.length ind4 + PB.ws_run l <=? 0) with false by (symmetry; apply Nat.leb_gt; cbn; lia).
    rewrite (IH (acc ++ [indent_always l]) (S k) post HBL Hp). rewrite <- List.app_assoc. cbn [app List.length].
    f_equal. lia.
Qed.

Lemma dedent_indent_always : forall BL, BL <> [] -> Forall (fun l => starts_ns l = true) BL ->
  detect_and_strip_indentation (map indent_always BL) = BL.
Proof.
  intros BL Hne H.
  assert (I0 : forall l, starts_ns l = true -> is_blank l = false /\ indent_of l = 0).
  { intros [|c r] Hl; [discriminate|]. simpl in Hl. apply negb_true_iff in Hl. unfold is_blank. simpl. rewrite Hl.
    split; [reflexivity|]. rewrite indent_of_cons, Hl. reflexivity. }
  assert (B : base_indent (map indent_always BL) = Some 4).
  { destruct BL as [|l BL']; [congruence|]. inversion H as [|? ? Hl _]; subst. cbn [map base_indent].
    unfold indent_always. rewrite (is_blank_app ind4 l ind4_space). destruct (I0 l Hl) as [E1 E2].
    rewrite E1, (indent_of_app ind4 l ind4_space), E2. reflexivity. }
  unfold detect_and_strip_indentation. rewrite B. rewrite map_map. apply map_id_Forall.
  eapply Forall_impl; [|exact H]. intros l Hl. cbv beta. destruct (I0 l Hl) as [E1 E2].
  unfold dedent_line, indent_always. rewrite (is_blank_app ind4 l ind4_space), E1.
  rewrite (indent_of_app ind4 l ind4_space), E2. cbn [String.length ind4 Nat.add Nat.leb]. reflexivity.
Qed.

(* the second loop of extract_join_choice_block on the lines of the items *)
(* fix F17m: the lines of a printed block are not comment lines, so all of them are kept, each with its index *)
Lemma join_kept_plain : forall BL j, Forall (fun l => PB.is_comment_line l = false) BL ->
  map snd (PB.join_kept BL j) = BL /\ List.length (map fst (PB.join_kept BL j)) = List.length BL.
Proof.
  induction BL as [|l BL IH]; intros j H; [split; reflexivity|].
  inversion H as [|? ? Hl HBL]; subst. cbn [PB.join_kept]. rewrite Hl. cbn [map snd fst List.length].
  destruct (IH (S j) HBL) as [E1 E2]. rewrite E1, E2. split; reflexivity.
Qed.

Lemma join_parse_items : forall blk start js content exec,
  forallb join_item_ok blk = true -> Forall join_line (print_items blk) ->
  Forall (fun l => clean l = true) (print_items blk) ->
  List.length js = List.length (print_items blk) ->
  exists exec', PB.join_parse ParseBlocksInst.real_linefns start (combine js (print_items blk)) content exec =
                POk (content ++ c_items blk, exec').
Proof.
  induction blk as [|it blk IH]; intros start js content exec Hok Hjl Hcl Hjs.
  - exists exec. cbn [print_items]. destruct js; cbn [combine PB.join_parse c_items]; rewrite List.app_nil_r; reflexivity.
  - cbn [forallb] in Hok. apply andb_prop in Hok. destruct Hok as [Hit Hok].
    assert (Hjs' : exists j js', js = j :: js' /\ List.length js' = List.length (print_items blk)).
    { cbn [print_items] in Hjs. rewrite app_length in Hjs.
      destruct it; try discriminate; cbn [print_item List.length] in Hjs;
        (destruct js as [|j js']; [discriminate|]); exists j, js'; (split; [reflexivity|]);
        cbn [List.length] in Hjs; lia. }
    destruct Hjs' as [j [js' [-> Hjs']]].
    cbn [print_items] in Hjl, Hcl. apply Forall_app in Hjl. destruct Hjl as [Hj1 Hj2].
    apply Forall_app in Hcl. destruct Hcl as [Hc1 Hc2].
    cbn [print_items c_items].
    destruct it as [ps glue| |c|c|brs|v c body chs|t a|n a|attrs|add e t|]; try discriminate;
      cbn [print_item app] in *; inversion Hj1 as [|? ? Hl _]; subst; inversion Hc1 as [|? ? Hcl1 _]; subst;
      destruct (strip_join_line _ Hl) as [_ Hs]; cbn [combine PB.join_parse];
      match goal with |- context [strip ?x] => replace (strip x) with x by (symmetry; exact Hs) end.
    + (* text *)
      cbn [join_item_ok] in Hit. apply andb_prop in Hit. destruct Hit as [Hg Hit]. apply negb_true_iff in Hg. subst glue.
      rewrite sapp_nil_r in *. unfold text_line_ok in Hit. do 3 (apply andb_prop in Hit; destruct Hit as [Hit ?]).
      apply Nat.leb_le in H1.
      destruct (plain_start_cons _ H0) as [c [r [E Hc]]].
      destruct (bad_start_facts c Hc) as [H0' [H1' [H2' [H3' [H4' [H5' _]]]]]].
      rewrite E. cbn [PB.nonempty negb startswith]. unfold ascii_eqb. rewrite H1', H5', H2'. cbn [andb].
      rewrite <- E. cbn [PB.lf_content ParseBlocksInst.real_linefns].
      rewrite (parse_content_line_pieces false ps Hit Hcl1 H1). cbn [PB.at_line pbind].
      destruct (IH start js' (content ++ c_pieces ps ++ [PB.tnl]) exec Hok Hj2 Hc2 Hjs') as [exec' E'].
      exists exec'. rewrite E'. cbn [c_item]. rewrite <- !List.app_assoc. reflexivity.
    + (* ~ statement *)
      cbn [join_item_ok] in Hit. apply andb_prop in Hit. destruct Hit as [Hne Htr].
      replace (PB.nonempty ("~ " ++ c)%string) with true by reflexivity. cbn [negb].
      replace (startswith ("~ " ++ c)%string "#") with false by reflexivity.
      replace (startswith ("~ " ++ c)%string "~") with true
        by (symmetry; change (startswith ("~ " ++ c)%string "~") with (startswith (" " ++ c)%string ""); reflexivity).
      change (drop 2 ("~ " ++ c)%string) with c. rewrite (trimmed_eq c Htr).
      assert (Hcc : clean c = true)
        by (change (clean ("~ " ++ c)%string = true) in Hcl1; rewrite clean_app in Hcl1; apply andb_prop in Hcl1; tauto).
      rewrite (sic_clean c Hcc). cbn [fst].
      destruct (IH start js' (content ++ [TPyStmt c]) (exec ++ [TPyStmt c]) Hok Hj2 Hc2 Hjs') as [exec' E'].
      exists exec'. rewrite E'. cbn [c_item]. rewrite <- !List.app_assoc. reflexivity.
    + (* hook *)
      cbn [join_item_ok] in Hit. apply andb_prop in Hit. destruct Hit as [He Ht].
      destruct add.
      * replace (PB.nonempty ("@hook " ++ e ++ " " ++ t)%string) with true by reflexivity. cbn [negb].
        replace (startswith ("@hook " ++ e ++ " " ++ t)%string "#") with false by reflexivity.
        replace (startswith ("@hook " ++ e ++ " " ++ t)%string "~") with false by reflexivity.
        replace (startswith ("@hook " ++ e ++ " " ++ t)%string "@hook ") with true
          by (symmetry; cbn [startswith append]; rewrite ?startswith_nil; reflexivity).
        unfold PB.hook_parts. change ("@hook " ++ e ++ " " ++ t)%string with ("@hook" ++ " " ++ e ++ " " ++ t)%string.
        rewrite (split_ws_3 "@hook" e t eq_refl He Ht).
        destruct (IH start js' (content ++ [THook true e t]) (exec ++ [THook true e t]) Hok Hj2 Hc2 Hjs') as [exec' E'].
        exists exec'. rewrite E'. cbn [c_item]. rewrite <- !List.app_assoc. reflexivity.
      * replace (PB.nonempty ("@unhook " ++ e ++ " " ++ t)%string) with true by reflexivity. cbn [negb].
        replace (startswith ("@unhook " ++ e ++ " " ++ t)%string "#") with false by reflexivity.
        replace (startswith ("@unhook " ++ e ++ " " ++ t)%string "~") with false by reflexivity.
        replace (startswith ("@unhook " ++ e ++ " " ++ t)%string "@hook ") with false by reflexivity.
        replace (startswith ("@unhook " ++ e ++ " " ++ t)%string "@unhook ") with true
          by (symmetry; cbn [startswith append]; rewrite ?startswith_nil; reflexivity).
        unfold PB.hook_parts. change ("@unhook " ++ e ++ " " ++ t)%string with ("@unhook" ++ " " ++ e ++ " " ++ t)%string.
        rewrite (split_ws_3 "@unhook" e t eq_refl He Ht).
        destruct (IH start js' (content ++ [THook false e t]) (exec ++ [THook false e t]) Hok Hj2 Hc2 Hjs') as [exec' E'].
        exists exec'. rewrite E'. cbn [c_item]. rewrite <- !List.app_assoc. reflexivity.
Qed.

Lemma in_print_items : forall blk l, In l (print_items blk) -> exists it, In it blk /\ In l (print_item it).
Proof.
  induction blk as [|it blk IH]; intros l H; [destruct H|]. cbn [print_items] in H. apply in_app_or in H.
  destruct H as [H|H].
  - exists it. split; [left; reflexivity|exact H].
  - destruct (IH l H) as [it' [A B]]. exists it'. split; [right; exact A|exact B].
Qed.

Lemma extract_join_print : forall blk pre line post,
  forallb join_item_ok blk = true -> lines_ok (map indent_always (print_items blk)) -> post_ok post ->
  exists exec, PB.extract_join_choice_block ParseBlocksInst.real_linefns
                 (pre ++ (line :: map indent_always (print_items blk)) ++ post) (S (List.length pre)) 0 =
               POk (c_items blk, exec, List.length (print_items blk)).
Proof.
  intros blk pre line post Hok Hl Hp.
  assert (Hjl : Forall join_line (print_items blk)).
  { apply Forall_forall. intros l Hin. destruct (in_print_items blk l Hin) as [it [Hit Hli]].
    rewrite forallb_forall in Hok. apply (join_item_lines it l (Hok it Hit) Hli).
    unfold lines_ok in Hl. rewrite Forall_forall in Hl. apply Hl. apply in_map, Hin. }
  assert (Hcl : Forall (fun l => clean l = true) (print_items blk)).
  { apply Forall_forall. intros l Hin. unfold lines_ok in Hl. rewrite Forall_forall in Hl.
    specialize (Hl (indent_always l) (in_map _ _ _ Hin)). apply line_ok_parts in Hl. destruct Hl as [Hc _].
    unfold indent_always in Hc. rewrite clean_app in Hc. apply andb_prop in Hc. tauto. }
  unfold PB.extract_join_choice_block. cbn [app]. rewrite skipn_mid.
  rewrite (join_collect_run (print_items blk) [] 0 post Hjl Hp). cbn [app Nat.add].
  destruct (print_items blk) as [|l0 BL] eqn:E.
  - assert (B : blk = [] \/ exists it r, blk = it :: r) by (destruct blk; eauto).
    destruct B as [->|[it [r ->]]]; [exists []; reflexivity|].
    exfalso. cbn [print_items] in E. cbn [forallb] in Hok. apply andb_prop in Hok. destruct Hok as [Hit _].
    destruct it; try discriminate; cbn [print_item app] in E; discriminate.
  - rewrite <- E in *.
    assert (Hne : map indent_always (print_items blk) <> []) by (rewrite E; discriminate).
    destruct (map indent_always (print_items blk)) as [|m0 ML] eqn:EM; [congruence|]. rewrite <- EM.
    assert (Hnc : Forall (fun l => PB.is_comment_line l = false) (map indent_always (print_items blk))).
    { apply Forall_forall. intros l' Hin'. apply in_map_iff in Hin'. destruct Hin' as [l [<- Hin]].
      rewrite Forall_forall in Hjl. specialize (Hjl l Hin). destruct (strip_join_line l Hjl) as [S1 _].
      unfold PB.is_comment_line. rewrite S1. destruct Hjl as [_ [_ [_ L4]]]. exact L4. }
    destruct (join_kept_plain _ 0 Hnc) as [K1 K2]. cbv zeta. rewrite K1.
    rewrite dedent_indent_always; [|rewrite E; discriminate|].
    + rewrite (map_length indent_always) in K2.
      destruct (join_parse_items blk (S (List.length pre)) _ [] [] Hok Hjl Hcl K2) as [exec' E'].
      rewrite E'. cbn [pbind fst snd app]. exists exec'. reflexivity.
    + eapply Forall_impl; [|exact Hjl]. intros l [H1 _]. exact H1.
Qed.

Section JoinChoice.
Variable pp : pyparse.
Variable xs : extractors.
Hypothesis xs_join : x_join xs = PB.extract_join_choice_block ParseBlocksInst.real_linefns.

Lemma join_choice_steps : forall tx ar cd stk blk,
  top_choice_ok (SChoice tx "@join" ar cd stk blk) = true ->
  choice_steps pp xs (SChoice tx "@join" ar cd stk blk).
Proof.
  intros tx ar cd stk blk Hok pre post st cp Hr Hl Hp.
  cbn [top_choice_ok] in Hok. apply andb_prop in Hok. destruct Hok as [Hh Hb].
  replace (String.eqb "@join" "@join") with true in Hb by reflexivity.
  cbn [print_choice] in *. inversion Hl as [|? ? Hl1 Hl2]; subst.
  destruct (extract_join_print blk pre (choice_line tx "@join" ar cd stk) post Hb Hl2 Hp) as [exec E].
  set (lines := pre ++ (choice_line tx "@join" ar cd stk :: map indent_always (print_items blk)) ++ post) in *.
  replace (List.length pre + List.length (choice_line tx "@join" ar cd stk :: map indent_always (print_items blk)))
    with (S (List.length pre + List.length (print_items blk))) by (cbn [List.length]; rewrite map_length; lia).
  eapply reaches_step; [apply (nth_error_mid pre _ (map indent_always (print_items blk) ++ post))| |].
  - apply (step_choice_join pp xs lines (List.length pre) st cp tx ar cd stk (c_items blk) exec
                            (List.length (print_items blk)) Hr Hh Hl1).
    rewrite xs_join. exact E.
  - lia.
Qed.
End JoinChoice.

(* ===== part 12 ===== *)
Local Open Scope string_scope.
Local Open Scope nat_scope.
Local Open Scope list_scope.

Definition no_if_for (it : item) : bool := match it with IIf _ | IFor _ _ _ _ => false | _ => true end.
(* no @if / @for block at the top level of a passage (everything else is allowed: text, glue, blank lines,
   ~ statements, @py: blocks, jumps, @render, @input, @hook, @join markers, choices with conditions, arguments,
   one-time / sticky, `-> @join` choices with their blocks) *)
Definition flat_story (s : sstory) : bool := forallb (fun p => forallb no_if_for (sp_body p)) (ss_passages s).

Section Real.
Variable pp : pyparse.
Variable is_call : string -> bool.
Notation rx := ParseAllProofs.real_extractors.

Lemma top_choice_steps : forall c, top_choice_ok c = true -> choice_steps pp rx c.
Proof.
  intros [tx tg ar cd stk blk] H. destruct (String.eqb tg "@join") eqn:E.
  - apply String.eqb_eq in E. subst tg. apply join_choice_steps; [reflexivity|exact H].
  - cbn [top_choice_ok] in H. rewrite E in H. apply andb_prop in H. destruct H as [Hh Hb].
    destruct blk; [|discriminate]. apply plain_choice_steps; assumption.
Qed.

Lemma flat_item_steps : forall it, item_ok pp true it = true -> no_if_for it = true -> item_steps pp rx it.
Proof.
  intros it Hok Hn. destruct (single_line it) eqn:E.
  - apply single_line_item_steps; assumption.
  - destruct it; try discriminate. apply py_item_steps; [reflexivity|exact Hok].
Qed.

Lemma choices_all_steps : forall p, passage_ok pp p = true ->
  Forall (choice_steps pp rx) (map snd (sp_choices p)).
Proof.
  intros p H. unfold passage_ok in H. apply andb_prop in H. destruct H as [H _].
  apply andb_prop in H. destruct H as [_ Hc].
  apply Forall_forall. intros c Hin. apply in_map_iff in Hin. destruct Hin as [x [<- Hx]].
  rewrite forallb_forall in Hc. apply top_choice_steps, Hc, Hx.
Qed.

Lemma items_ok_of_passage : forall p, passage_ok pp p = true -> forallb (item_ok pp true) (sp_body p) = true.
Proof. intros p H. unfold passage_ok in H. do 4 (apply andb_prop in H; destruct H as [H ?]). assumption. Qed.

Lemma printable_passages : forall s, printable pp is_call s = true -> forallb (passage_ok pp) (ss_passages s) = true.
Proof. intros s H. unfold printable in H. do 5 (apply andb_prop in H; destruct H as [H ?]). assumption. Qed.

(* (iii) + py blocks + join-choice blocks: FULL for stories whose passages have no @if / @for block *)
Theorem parse_print_flat : forall s,
  printable pp is_call s = true -> flat_story s = true ->
  ParseAllProofs.parse_real pp is_call (print_story s) = POk (compile_ref s).
Proof.
  intros s Hp Hf. unfold ParseAllProofs.parse_real. apply parse_print_gen; [exact Hp|].
  intros p Hin. pose proof (printable_passages s Hp) as Hps. rewrite forallb_forall in Hps.
  specialize (Hps p Hin). unfold flat_story in Hf. rewrite forallb_forall in Hf. specialize (Hf p Hin).
  split; [|apply choices_all_steps, Hps].
  apply Forall_forall. intros it Hit. pose proof (items_ok_of_passage p Hps) as Hi.
  rewrite forallb_forall in Hi, Hf. apply flat_item_steps; [apply Hi, Hit|apply Hf, Hit].
Qed.

End Real.

(* ===== part 13 ===== *)
Local Open Scope string_scope.
Local Open Scope nat_scope.
Local Open Scope list_scope.

(* ------------------------------------------------------------------------------------------- *)
(* (iv) @if / @for blocks: printing equations                                                   *)
(* ------------------------------------------------------------------------------------------- *)
Lemma print_item_if : forall brs, print_item (IIf brs) = print_branches brs true ++ ["@endif"].
Proof.
  intros brs. reflexivity.
Qed.

Lemma print_item_for : forall v c body chs,
  print_item (IFor v c body chs) =
  ("@for " ++ v ++ " in " ++ c ++ ":")%string :: map indent_nonempty (print_items body) ++
  map indent_always (print_choices chs) ++ ["@endfor"].
Proof. reflexivity. Qed.

Definition c_branches (brs : list (string * list item * list schoice)) : list branch :=
  map (fun b => match b with (c, body, chs) => Branch c (c_items body) (map (c_choice 0) chs) end) brs.

Lemma c_item_if : forall brs, c_item (IIf brs) = [TCond (c_branches brs)].
Proof. exact ReferenceProofs.c_item_if. Qed.

Lemma print_items_app : forall a b, print_items (a ++ b) = print_items a ++ print_items b.
Proof. induction a as [|x a IH]; intros b; [reflexivity|]. cbn [app print_items]. rewrite IH, List.app_assoc. reflexivity. Qed.

(* ------------------------------------------------------------------------------------------- *)
(* indentation prefixes                                                                         *)
(* ------------------------------------------------------------------------------------------- *)
(* "    " * k in front of every non-empty line *)
Definition indp (q : string) (l : string) : string := match l with EmptyString => l | _ => (q ++ l)%string end.

(* a prefix: blanks only *)
Definition pfx (q : string) : Prop := all_space q = true /\ clean q = true.

Lemma pfx_nil : pfx "".
Proof. split; reflexivity. Qed.

Lemma all_space_app : forall a b, all_space (a ++ b)%string = all_space a && all_space b.
Proof. induction a as [|c a IH]; intros b; [reflexivity|]. simpl. rewrite IH, andb_assoc. reflexivity. Qed.

Lemma pfx_ind4 : forall q, pfx q -> pfx (q ++ ind4)%string.
Proof.
  intros q [H1 H2]. split.
  - rewrite all_space_app, H1. reflexivity.
  - rewrite clean_app, H2. reflexivity.
Qed.

Lemma indent_nonempty_indp : forall l, indent_nonempty l = indp ind4 l.
Proof. reflexivity. Qed.

Lemma indp_indp : forall q l, indp q (indp ind4 l) = indp (q ++ ind4)%string l.
Proof. intros q [|c r]; [reflexivity|]. cbn [indp]. unfold ind4. cbn [append]. rewrite sapp_assoc. reflexivity. Qed.

Lemma indp_always : forall q l, indp q (indent_always l) = ((q ++ ind4) ++ l)%string.
Proof. intros q l. unfold indent_always, ind4. cbn [append indp]. rewrite sapp_assoc. reflexivity. Qed.

Lemma map_indp_nonempty : forall q L, map (indp q) (map indent_nonempty L) = map (indp (q ++ ind4)%string) L.
Proof. intros q L. rewrite map_map. apply map_ext. intros l. rewrite indent_nonempty_indp. apply indp_indp. Qed.

Lemma map_indp_always : forall q L, map (indp q) (map indent_always L) = map (fun l => ((q ++ ind4) ++ l)%string) L.
Proof. intros q L. rewrite map_map. apply map_ext. intros l. apply indp_always. Qed.

Lemma indp_ne : forall q l, l <> ""%string -> indp q l = (q ++ l)%string.
Proof. intros q [|c r] H; [congruence|reflexivity]. Qed.

Lemma indp_nil_prefix : forall l, indp "" l = l.
Proof. intros [|c r]; reflexivity. Qed.

(* a line as written, without its prefix: clean, no trailing white space *)
Definition uline_ok (l : string) : Prop := clean l = true /\ rstrip l = l.

Lemma uline_of_indp : forall q l, line_ok (indp q l) = true -> uline_ok l.
Proof.
  intros q [|c r] H; [split; reflexivity|]. cbn [indp] in H. destruct (line_ok_parts _ H) as [H1 H2].
  split.
  - rewrite clean_app in H1. apply andb_prop in H1. tauto.
  - apply (rstrip_suffix q); [discriminate|exact H2].
Qed.

Lemma ulines_of_map : forall q L, lines_ok (map (indp q) L) -> Forall uline_ok L.
Proof.
  intros q L H. apply Forall_forall. intros l Hl. unfold lines_ok in H. rewrite Forall_forall in H.
  apply (uline_of_indp q). apply H, in_map, Hl.
Qed.

Lemma ulines_of_always : forall L, Forall uline_ok (map indent_always L) -> Forall uline_ok L.
Proof.
  intros L H. apply Forall_forall. intros l Hl. rewrite Forall_forall in H.
  destruct (H (indent_always l) (in_map _ _ _ Hl)) as [H1 H2]. unfold indent_always in *. split.
  - rewrite clean_app in H1. apply andb_prop in H1. tauto.
  - destruct l as [|c r]; [reflexivity|]. apply (rstrip_suffix ind4); [discriminate|exact H2].
Qed.

Lemma ulines_of_nonempty : forall L, Forall uline_ok (map indent_nonempty L) -> Forall uline_ok L.
Proof.
  intros L H. apply Forall_forall. intros l Hl. rewrite Forall_forall in H.
  destruct (H (indent_nonempty l) (in_map _ _ _ Hl)) as [H1 H2]. destruct l as [|c r]; [split; reflexivity|].
  cbn [indent_nonempty] in *. split.
  - rewrite clean_app in H1. apply andb_prop in H1. tauto.
  - apply (rstrip_suffix ind4); [discriminate|exact H2].
Qed.

(* strip of a prefixed line *)
Lemma strip_pfx : forall q l, pfx q -> starts_ns l = true -> rstrip l = l -> strip (q ++ l)%string = l.
Proof. intros q l [Hq _] H1 H2. rewrite (strip_app_ws q l Hq). apply strip_fixed; assumption. Qed.

Lemma clean_pfx : forall q l, pfx q -> clean l = true -> clean (q ++ l)%string = true.
Proof. intros q l [_ Hq] H. rewrite clean_app, Hq, H. reflexivity. Qed.

(* ------------------------------------------------------------------------------------------- *)
(* dedenting prefixed lines                                                                     *)
(* ------------------------------------------------------------------------------------------- *)
(* the first non-empty line starts at column 0 *)
Fixpoint first_ns (L : list string) : Prop :=
  match L with
  | [] => True
  | l :: r => match l with EmptyString => first_ns r | _ => starts_ns l = true end
  end.

(* every line is empty or not blank *)
Definition solid (l : string) : Prop := l = ""%string \/ is_blank l = false.

Lemma starts_ns_solid : forall l, starts_ns l = true -> is_blank l = false /\ indent_of l = 0.
Proof.
  intros [|c r] Hl; [discriminate|]. simpl in Hl. apply negb_true_iff in Hl. unfold is_blank. simpl. rewrite Hl.
  split; [reflexivity|]. rewrite indent_of_cons, Hl. reflexivity.
Qed.

Lemma base_indent_indp : forall q L, pfx q -> Forall solid L -> first_ns L ->
  base_indent (map (indp q) L) = None \/ base_indent (map (indp q) L) = Some (String.length q).
Proof.
  intros q L [Hq _]. induction L as [|l r IH]; intros Hs Hf; [left; reflexivity|].
  inversion Hs as [|? ? Hl Hr]; subst. destruct l as [|c s].
  - cbn [map indp base_indent]. replace (is_blank "") with true by reflexivity. apply IH; [exact Hr|exact Hf].
  - right. cbn [first_ns] in Hf. cbn [map indp base_indent]. destruct (starts_ns_solid _ Hf) as [E1 E2].
    rewrite (is_blank_app q _ Hq), E1, (indent_of_app q _ Hq), E2, Nat.add_0_r. reflexivity.
Qed.

Lemma dedent_indp : forall q L, pfx q -> Forall solid L -> first_ns L ->
  detect_and_strip_indentation (map (indp q) L) = L.
Proof.
  intros q L Hq Hs Hf. unfold detect_and_strip_indentation.
  destruct (base_indent_indp q L Hq Hs Hf) as [E|E]; rewrite E.
  - (* all blank: every line is empty *)
    assert (A : forall M, Forall solid M -> base_indent (map (indp q) M) = None -> map (indp q) M = M).
    { induction M as [|l r IH]; intros HM Hb; [reflexivity|]. inversion HM as [|? ? Hl Hr]; subst.
      cbn [map base_indent] in Hb |- *. destruct l as [|c s].
      - cbn [indp] in *. replace (is_blank "") with true in Hb by reflexivity. rewrite (IH Hr Hb). reflexivity.
      - exfalso. cbn [indp] in Hb. destruct Hq as [Hq _]. rewrite (is_blank_app q _ Hq) in Hb.
        destruct Hl as [Hl|Hl]; [discriminate|]. rewrite Hl in Hb. discriminate. }
    apply A; assumption.
  - rewrite map_map. apply map_id_Forall. eapply Forall_impl; [|exact Hs]. intros l Hl. cbv beta.
    destruct l as [|c s]; [reflexivity|]. cbn [indp]. destruct Hq as [Hq _].
    unfold dedent_line. rewrite (is_blank_app q _ Hq). destruct Hl as [Hl|Hl]; [discriminate|]. rewrite Hl.
    rewrite (indent_of_app q _ Hq).
    replace (String.length q <=? String.length q + indent_of (String c s)) with true by (symmetry; apply Nat.leb_le; lia).
    rewrite <- (Nat.add_0_r (String.length q)) at 1. apply drop_app_plus.
Qed.

Lemma uline_solid : forall l, uline_ok l -> solid l.
Proof.
  intros [|c r] [_ H]; [left; reflexivity|]. right. unfold is_blank.
  destruct (all_space (String c r)) eqn:E; [|reflexivity]. exfalso.
  assert (A : forall s, all_space s = true -> rstrip s = ""%string).
  { induction s as [|x s IH]; intros Hs; [reflexivity|]. simpl in Hs. apply andb_prop in Hs. destruct Hs as [Hx Hs].
    simpl. rewrite (IH Hs), Hx. reflexivity. }
  rewrite (A _ E) in H. discriminate.
Qed.

(* ------------------------------------------------------------------------------------------- *)
(* text lines in a block: _append_text_lines                                                    *)
(* ------------------------------------------------------------------------------------------- *)
Definition textish (it : item) : bool := match it with IText _ _ | IBlank => true | _ => false end.

Notation rlf := ParseBlocksInst.real_linefns.

Lemma text_line_parts : forall ps glue, text_line_ok ps glue = true ->
  uline_ok (print_pieces ps ++ (if glue then "<>" else ""))%string ->
  pieces_ok false ps = true /\ nest ps <= max_inline_depth /\ clean (print_pieces ps) = true /\
  (exists c r, print_pieces ps = String c r /\ bad_start c = false) /\
  (glue = false -> endswith (print_pieces ps) "<>" = false /\ rstrip (print_pieces ps) = print_pieces ps).
Proof.
  intros ps glue Hok [Hcl Hrs]. unfold text_line_ok in Hok. do 3 (apply andb_prop in Hok; destruct Hok as [Hok ?]).
  apply Nat.leb_le in H1. rewrite clean_app in Hcl. apply andb_prop in Hcl. destruct Hcl as [Hcl _].
  split; [exact Hok|split; [exact H1|split; [exact Hcl|split]]].
  - apply plain_start_cons, H0.
  - intros ->. split.
    + cbn [orb] in H. apply negb_true_iff in H. exact H.
    + rewrite sapp_nil_r in Hrs. exact Hrs.
Qed.

Lemma glue_split_glued : forall P, PB.glue_split (P ++ "<>")%string = Some P.
Proof.
  intros P. unfold PB.glue_split.
  assert (E : rstrip (P ++ "<>")%string = (P ++ "<>")%string) by (rewrite rstrip_app_ne by discriminate; reflexivity).
  rewrite E, endswith_app, slen_app. cbn [String.length].
  replace (String.length P + 2 - 2) with (String.length P) by lia. rewrite take_app. reflexivity.
Qed.

(* one text / blank line through content_line_glue *)
Lemma content_line_glue_text : forall ps glue content, text_line_ok ps glue = true ->
  uline_ok (print_pieces ps ++ (if glue then "<>" else ""))%string ->
  PB.content_line_glue rlf content (print_pieces ps ++ (if glue then "<>" else ""))%string =
  POk (content ++ c_item (IText ps glue)).
Proof.
  intros ps glue content Hok Hu. destruct (text_line_parts ps glue Hok Hu) as [Hp [Hn [Hc [_ Hg]]]].
  unfold PB.content_line_glue. destruct glue.
  - rewrite glue_split_glued. cbn [PB.lf_content rlf]. rewrite (parse_content_line_pieces false ps Hp Hc Hn).
    cbn [pbind c_item]. rewrite List.app_nil_r. reflexivity.
  - rewrite sapp_nil_r. destruct (Hg eq_refl) as [G1 G2]. unfold PB.glue_split. rewrite G2, G1.
    cbn [PB.lf_content rlf]. rewrite (parse_content_line_pieces false ps Hp Hc Hn). cbn [pbind c_item]. reflexivity.
Qed.

Lemma content_line_glue_blank : forall content,
  PB.content_line_glue rlf content "" = POk (content ++ c_item IBlank).
Proof. intros. reflexivity. Qed.

(* the items of a run of text / blank lines *)
Definition text_run (T : list item) : Prop :=
  Forall (fun it => textish it = true /\ (forall ps g, it = IText ps g -> text_line_ok ps g = true)) T.

Lemma flush_glue_lines_run : forall T content, text_run T -> Forall uline_ok (print_items T) ->
  PB.flush_glue_lines rlf content (print_items T) = POk (content ++ c_items T).
Proof.
  induction T as [|it T IH]; intros content HT Hu.
  - cbn [print_items PB.flush_glue_lines c_items]. rewrite List.app_nil_r. reflexivity.
  - inversion HT as [|? ? [Ht Hok] HT']; subst. cbn [print_items] in Hu. apply Forall_app in Hu. destruct Hu as [Hu1 Hu2].
    cbn [print_items c_items]. destruct it; try discriminate.
    + cbn [print_item app PB.flush_glue_lines]. inversion Hu1 as [|? ? Hl _]; subst.
      rewrite (content_line_glue_text ps glue content (Hok _ _ eq_refl) Hl). cbn [pbind].
      rewrite (IH _ HT' Hu2). rewrite <- List.app_assoc. reflexivity.
    + cbn [print_item app PB.flush_glue_lines]. rewrite content_line_glue_blank. cbn [pbind].
      rewrite (IH _ HT' Hu2). rewrite <- List.app_assoc. reflexivity.
Qed.

Lemma text_run_first_ns : forall T, text_run T -> Forall uline_ok (print_items T) -> first_ns (print_items T).
Proof.
  induction T as [|it T IH]; intros HT Hu; [exact I|].
  inversion HT as [|? ? [Ht Hok] HT']; subst. cbn [print_items] in *. apply Forall_app in Hu. destruct Hu as [Hu1 Hu2].
  destruct it; try discriminate.
  - cbn [print_item app]. inversion Hu1 as [|? ? Hl _]; subst.
    destruct (text_line_parts ps glue (Hok _ _ eq_refl) Hl) as [_ [_ [_ [[c [r [E Hc]]] _]]]].
    rewrite E. cbn [append first_ns]. destruct (bad_start_facts c Hc) as [H0 _]. simpl. rewrite H0. reflexivity.
  - cbn [print_item app first_ns]. apply IH; assumption.
Qed.

(* the flush of the pending text lines of a branch (prefix q) *)
Lemma flush_glue_run : forall q T content, pfx q -> text_run T -> Forall uline_ok (print_items T) ->
  PB.flush_glue rlf content (map (indp q) (print_items T)) = POk (content ++ c_items T).
Proof.
  intros q T content Hq HT Hu. unfold PB.flush_glue.
  rewrite dedent_indp; [apply flush_glue_lines_run; assumption|exact Hq| |apply text_run_first_ns; assumption].
  eapply Forall_impl; [|exact Hu]. apply uline_solid.
Qed.

(* ===== part 14 ===== *)
Local Open Scope string_scope.
Local Open Scope nat_scope.
Local Open Scope list_scope.


(* ------------------------------------------------------------------------------------------- *)
(* @py: at any indentation                                                                      *)
(* ------------------------------------------------------------------------------------------- *)
Lemma base0_first_ns : forall L, Forall solid L ->
  match base_indent L with Some 0 => True | None => True | _ => False end -> first_ns L.
Proof.
  induction L as [|l r IH]; intros Hs Hb; [exact I|]. inversion Hs as [|? ? Hl Hr]; subst.
  destruct l as [|c s].
  - cbn [first_ns]. apply IH; [exact Hr|]. cbn [base_indent] in Hb. exact Hb.
  - cbn [first_ns]. cbn [base_indent] in Hb. destruct Hl as [Hl|Hl]; [discriminate|]. rewrite Hl in Hb.
    rewrite indent_of_cons in Hb. simpl. destruct (is_space c); [destruct Hb|reflexivity].
Qed.

Lemma py_code_solid : forall c, py_ok c = true ->
  Forall solid (split_char c nlc) /\ first_ns (split_char c nlc) /\
  Forall (fun l => String.eqb (strip l) "@endpy" = false) (split_char c nlc).
Proof.
  intros c H. unfold py_ok in H. cbv zeta in H. apply andb_prop in H. destruct H as [H1 H2].
  assert (S : Forall solid (split_char c nlc)).
  { apply Forall_forall. intros l Hl. rewrite forallb_forall in H1. specialize (H1 l Hl).
    unfold py_line_ok in H1. do 4 (apply andb_prop in H1; destruct H1 as [H1 _]).
    destruct l as [|x s]; [left; reflexivity|]. right. cbn [nonempty negb orb] in H1. apply negb_true_iff in H1. exact H1. }
  split; [exact S|split].
  - apply base0_first_ns; [exact S|]. destruct (base_indent (split_char c nlc)) as [[|n]|]; try exact I. discriminate.
  - apply Forall_forall. intros l Hl. rewrite forallb_forall in H1. specialize (H1 l Hl).
    unfold py_line_ok in H1. do 3 (apply andb_prop in H1; destruct H1 as [H1 _]).
    apply andb_prop in H1. destruct H1 as [_ H1]. apply negb_true_iff in H1. exact H1.
Qed.

Lemma strip_indp : forall q l, pfx q -> strip (indp q l) = strip l.
Proof. intros q [|c r] [Hq _]; [reflexivity|]. cbn [indp]. apply strip_app_ws, Hq. Qed.

(* fix F17j: the opener's own indentation q comes off every body line that has it, i.e. the body is
   read as it was written at column 0 *)
Lemma without_opener_indp : forall q l op, all_space q = true -> PB.ws_run op = 0 ->
  PB.without_opener_indent (indp q l) (q ++ op)%string = l.
Proof.
  intros q l op Hq Hop. unfold PB.without_opener_indent.
  rewrite (ws_run_app q op Hq), Hop, Nat.add_0_r, take_app.
  destruct q as [|a q']; [destruct l; reflexivity|]. cbn [PB.nonempty andb].
  destruct l as [|c r]; [reflexivity|]. cbn [indp].
  rewrite startswith_app_self. apply drop_app.
Qed.

Lemma py_new_go_run_q : forall q start code acc k rest,
  pfx q -> Forall (fun l => String.eqb (strip l) "@endpy" = false) code ->
  PB.py_new_go true (q ++ "@py:")%string start (map (indp q) code ++ (q ++ "@endpy")%string :: rest) acc k =
  POk (join PB.nl (map PB.blank_to_empty (detect_and_strip_indentation (acc ++ code))),
       S (k + List.length code)).
Proof.
  intros q start code. induction code as [|l code IH]; intros acc k rest Hq H.
  - cbn [map app PB.py_new_go]. destruct Hq as [Hq1 Hq2]. rewrite (strip_app_ws q "@endpy" Hq1).
    replace (String.eqb (strip "@endpy") "@endpy") with true by reflexivity.
    rewrite List.app_nil_r, Nat.add_0_r. reflexivity.
  - inversion H as [|? ? Hl Hc]; subst. cbn [map app PB.py_new_go]. rewrite (strip_indp q l Hq), Hl.
    rewrite (without_opener_indp q l "@py:" (proj1 Hq) eq_refl).
    rewrite (IH (acc ++ [l]) (S k) rest Hq Hc). rewrite <- List.app_assoc. cbn [app List.length].
    replace (S k + List.length code) with (k + S (List.length code)) by lia. reflexivity.
Qed.

Lemma py_block_at : forall q c pre post, pfx q -> py_ok c = true ->
  PB.extract_python_block_v true (pre ++ map (indp q) (print_item (IPy c)) ++ post) (List.length pre) =
  POk (c, List.length (print_item (IPy c))).
Proof.
  intros q c pre post Hq H. cbn [print_item]. set (code := split_char c nlc).
  destruct (py_code_solid c H) as [Hs [Hf He]]. fold code in Hs, Hf, He.
  replace (pre ++ map (indp q) (["@py:"] ++ code ++ ["@endpy"]) ++ post)
    with (pre ++ (q ++ "@py:")%string :: (map (indp q) code ++ (q ++ "@endpy")%string :: post))
    by (cbn [app map]; rewrite map_app; cbn [map indp]; rewrite <- List.app_assoc; reflexivity).
  unfold PB.extract_python_block_v. rewrite nth_error_mid.
  destruct Hq as [Hq1 Hq2]. rewrite (strip_app_ws q "@py:" Hq1).
  replace (startswith (strip "@py:") "<<py") with false by reflexivity.
  replace (startswith (strip "@py:") "@py") with true by reflexivity.
  unfold PB.extract_py_new_syntax_v. rewrite nth_error_mid. rewrite (strip_app_ws q "@py:" Hq1).
  replace (String.eqb (strip "@py:") "@py:") with true by reflexivity. cbn [negb].
  rewrite skipn_mid. rewrite (py_new_go_run_q q _ code [] 1 post (conj Hq1 Hq2) He). cbn [app].
  replace (detect_and_strip_indentation code) with code.
  2:{ symmetry. rewrite <- (dedent_indp "" code pfx_nil Hs Hf) at 2. f_equal.
      symmetry. apply map_id_Forall. apply Forall_forall. intros l _. destruct l; reflexivity. }
  assert (B : map PB.blank_to_empty code = code).
  { apply map_id_Forall. apply Forall_forall. intros l Hl. unfold py_ok in H. cbv zeta in H.
    apply andb_prop in H. destruct H as [H _]. rewrite forallb_forall in H. apply blank_to_empty_id, H, Hl. }
  rewrite B. unfold code. rewrite join_split. cbn [List.length]. rewrite app_length. cbn [List.length].
  f_equal. f_equal. lia.
Qed.

(* ------------------------------------------------------------------------------------------- *)
(* the lines of the single-line items, as the block extractors see them                         *)
(* ------------------------------------------------------------------------------------------- *)
Lemma stmt_line_facts : forall c, nonempty c = true -> trimmed c = true -> uline_ok ("~ " ++ c)%string ->
  starts_ns ("~ " ++ c)%string = true /\ strip c = c /\ clean c = true.
Proof.
  intros c Hn Ht [Hc _]. split; [reflexivity|split; [apply trimmed_eq, Ht|]].
  rewrite clean_app in Hc. apply andb_prop in Hc. tauto.
Qed.

Lemma py_statement_single : forall lines i c, stmt_ok (mkPyparse (fun _ => true) (fun _ => None) (fun _ => 0)) c = true ->
  clean c = true ->
  PB.py_statement rlf lines i c = (c, 1).
Proof.
  intros lines i c H Hc. unfold stmt_ok in H. do 3 (apply andb_prop in H; destruct H as [H ?]).
  apply negb_true_iff in H1. unfold PB.py_statement. rewrite (trimmed_eq c H2), (sic_clean c Hc). cbn [fst PB.lf_emx rlf].
  apply emx_single; [apply trimmed_eq, H2|exact H1].
Qed.

Lemma stmt_ok_weaken : forall pp c, stmt_ok pp c = true ->
  nonempty c = true /\ trimmed c = true /\ ends_opener c = false.
Proof.
  intros pp c H. unfold stmt_ok in H. do 3 (apply andb_prop in H; destruct H as [H ?]).
  apply negb_true_iff in H1. repeat split; assumption.
Qed.

Lemma py_statement_one : forall lines i c, trimmed c = true -> ends_opener c = false -> clean c = true ->
  PB.py_statement rlf lines i c = (c, 1).
Proof.
  intros lines i c H2 H1 Hc. unfold PB.py_statement. rewrite (trimmed_eq c H2), (sic_clean c Hc).
  cbn [fst PB.lf_emx rlf]. apply emx_single; [apply trimmed_eq, H2|exact H1].
Qed.

(* jump *)
Lemma jump_of_print : forall t a, valid_passage_pattern t = true -> paren_free a = true ->
  uline_ok ("-> " ++ t ++ print_args a)%string ->
  PB.jump_of rlf ("-> " ++ t ++ print_args a)%string = Some (t, a).
Proof.
  intros t a Ht Ha [Hc Hr]. set (X := (t ++ print_args a)%string) in *.
  assert (HX : starts_ns X = true) by (apply starts_ns_app, valid_name_starts_ns, Ht).
  assert (XN : X <> ""%string) by (intros E; rewrite E in HX; discriminate).
  assert (HXr : rstrip X = X) by (apply (rstrip_suffix "-> "); assumption).
  unfold PB.jump_of. rewrite (sic_clean _ Hc). cbn [fst].
  rewrite (strip_fixed ("-> " ++ X)%string eq_refl Hr). unfold PB.match_jump.
  replace (startswith ("-> " ++ X)%string "->") with true by reflexivity.
  change (drop 2 ("-> " ++ X)%string) with (" " ++ X)%string. change (lstrip (" " ++ X)%string) with (lstrip X).
  rewrite (lstrip_starts_ns X HX). assert (N : PB.nonempty X = true) by (destruct X; [congruence|reflexivity]).
  rewrite N, (strip_fixed X HX HXr). cbn [PB.lf_eta rlf]. unfold X.
  rewrite (eta_print t a (valid_name_no_lparen t Ht) Ha). reflexivity.
Qed.

(* @render through parse_render_line without line context, on the prefixed line *)
Lemma render_line_print : forall q n a, pfx q -> render_ok n a = true ->
  uline_ok ("@render " ++ n ++ "(" ++ a ++ ")")%string ->
  parse_render_line false (q ++ "@render " ++ n ++ "(" ++ a ++ ")")%string = POk (Some (TRender n a None)).
Proof.
  intros q n a Hq Hok [Hc Hr]. set (X := (n ++ "(" ++ a ++ ")")%string) in *.
  unfold parse_render_line. rewrite (sic_clean _ (clean_pfx q _ Hq Hc)).
  rewrite (strip_pfx q ("@render " ++ X)%string Hq eq_refl Hr).
  replace (startswith ("@render " ++ X)%string "@render") with true by reflexivity. cbn [negb].
  change (drop 7 ("@render " ++ X)%string) with (" " ++ X)%string.
  replace (startswith (" " ++ X)%string ":") with false by reflexivity.
  assert (HX : starts_ns X = true).
  { unfold render_ok in Hok. apply andb_prop in Hok. destruct Hok as [Hok _]. apply andb_prop in Hok.
    destruct Hok as [N1 N2]. apply starts_ns_app, word_starts_ns; assumption. }
  assert (XN : X <> ""%string) by (intros E; rewrite E in HX; discriminate).
  assert (HXs : strip (" " ++ X)%string = X).
  { rewrite strip_pad_l. apply strip_fixed; [exact HX|]. apply (rstrip_suffix "@render "); assumption. }
  rewrite HXs. assert (NE : nonempty X = true) by (destruct X; [congruence|reflexivity]).
  rewrite NE. unfold X. rewrite (render_directive_print n a Hok). reflexivity.
Qed.

Lemma input_line_print : forall q attrs, pfx q -> input_ok attrs = true ->
  uline_ok ("@input name=" ++ String dquote (input_name attrs ++ String dquote ""))%string ->
  parse_input_line false (q ++ "@input name=" ++ String dquote (input_name attrs ++ String dquote ""))%string =
  POk (Some (TInput attrs)).
Proof.
  intros q attrs Hq Hok [Hc Hr]. unfold input_ok in Hok.
  destruct attrs as [|[k1 nm] [|[k2 lb] [|[k3 ph] [|]]]]; try discriminate.
  do 5 (apply andb_prop in Hok; destruct Hok as [Hok ?]).
  apply String.eqb_eq in Hok, H0, H1, H2, H3. subst k1 k2 k3 lb ph. rename H into Hqt.
  change (input_name [("name", nm); ("label", title (replace_char nm "_" " ")); ("placeholder", "")]) with nm in *.
  set (V := ("name=" ++ String dquote (nm ++ String dquote ""))%string) in *.
  change ("@input name=" ++ String dquote (nm ++ String dquote ""))%string with ("@input " ++ V)%string in *.
  unfold parse_input_line, parse_input_attrs. rewrite (sic_clean _ (clean_pfx q _ Hq Hc)).
  rewrite (strip_pfx q ("@input " ++ V)%string Hq eq_refl Hr).
  replace (startswith ("@input " ++ V)%string "@input") with true by reflexivity. cbn [negb].
  change (drop 6 ("@input " ++ V)%string) with (" " ++ V)%string.
  assert (HVs : strip (" " ++ V)%string = V).
  { rewrite strip_pad_l. apply strip_fixed; [reflexivity|]. apply (rstrip_suffix "@input "); [discriminate|exact Hr]. }
  rewrite HVs. replace (nonempty V) with true by reflexivity. cbn [negb].
  unfold V. rewrite (find_attrs_name nm Hqt). reflexivity.
Qed.

Lemma hook_parts_print : forall (add : bool) e t, word_ok e = true -> word_ok t = true ->
  PB.hook_parts ((if add then "@hook " else "@unhook ") ++ e ++ " " ++ t)%string = Some (e, t).
Proof.
  intros add e t He Ht. unfold PB.hook_parts. destruct add.
  - change ("@hook " ++ e ++ " " ++ t)%string with ("@hook" ++ " " ++ e ++ " " ++ t)%string.
    rewrite (split_ws_3 "@hook" e t eq_refl He Ht). reflexivity.
  - change ("@unhook " ++ e ++ " " ++ t)%string with ("@unhook" ++ " " ++ e ++ " " ++ t)%string.
    rewrite (split_ws_3 "@unhook" e t eq_refl He Ht). reflexivity.
Qed.

(* a choice inside a block *)
Lemma inner_choice_print : forall c, inner_choice_ok c = true -> lines_ok (print_choice c) ->
  exists l, print_choice c = [l] /\ starts_ns l = true /\ line_ok l = true /\
            parse_choice_line l = POk (Some (c_choice 0 c)).
Proof.
  intros [tx tg ar cd stk blk] H Hl. cbn [inner_choice_ok] in H. apply andb_prop in H. destruct H as [Hh Hb].
  destruct blk; [|discriminate]. cbn [print_choice print_items map] in *. inversion Hl as [|? ? Hl1 _]; subst.
  exists (choice_line tx tg ar cd stk). split; [reflexivity|split; [|split; [exact Hl1|]]].
  - rewrite choice_line_eq. destruct stk; reflexivity.
  - rewrite (parse_choice_line_print tx tg ar cd stk Hh Hl1). reflexivity.
Qed.

(* ===== part 16 ===== *)
Local Open Scope string_scope.
Local Open Scope nat_scope.
Local Open Scope list_scope.

Lemma uline_line_ok : forall l, uline_ok l -> line_ok l = true.
Proof. intros l [H1 H2]. unfold line_ok. rewrite H1, H2, String.eqb_refl. reflexivity. Qed.

(* ------------------------------------------------------------------------------------------- *)
(* how extract_conditional_block classifies the line of a branch                                *)
(* ------------------------------------------------------------------------------------------- *)
Inductive ckind :=
| CComment | CPy | CInput | CRender | CHook | CUnhook | CStmt | CIf | CFor | CEndifColon | CEndif | CElif | CElse
| CJump | CChoice | CText.

(* the tests of cond_step in its order, for a line after the opening one, inside a branch *)
Definition classify_c (stripped : string) : ckind :=
  if startswith stripped "#" then CComment
  else if PB.is_py_line stripped then CPy
  else if startswith stripped "@input" then CInput
  else if startswith stripped "@render" then CRender
  else if startswith stripped "@hook " then CHook
  else if startswith stripped "@unhook " then CUnhook
  else if startswith stripped "~ " then CStmt
  else if PB.is_if_line stripped then CIf
  else if PB.is_for_line stripped then CFor
  else if String.eqb stripped "@endif:" then CEndifColon
  else if startswith stripped "<<endif>>" || String.eqb stripped "@endif" then CEndif
  else if startswith stripped "<<elif " || startswith stripped "@elif " then CElif
  else if startswith stripped "<<else>>" || startswith stripped "@else" then CElse
  else if startswith stripped "->" then CJump
  else if PB.is_choice_line stripped then CChoice
  else CText.

Ltac cchain H Hcur Hi :=
  unfold classify_c in H; unfold PB.cond_step; cbv zeta; rewrite Hcur, Hi;
  rewrite ?andb_true_r, ?andb_false_r; cbn [negb];
  repeat match type of H with
  | (if ?b then _ else _) = _ => destruct b eqn:?; try discriminate H
  end.

Section CondCtx.
Variable rec_cond rec_loop : list string -> nat -> pres (token * nat).
Notation cstep := (PB.cond_step true rlf rec_cond rec_loop).
Notation cgo := (PB.cond_go true rlf rec_cond rec_loop).

Lemma cstep_text : forall lines start i line st,
  PB.has_cur st = true -> (i =? start) = false -> classify_c (strip line) = CText ->
  cstep lines start i line st =
  POk (PB.CNext (PB.mkCstate (PB.cs_branches st) (PB.cs_cur st) (PB.cs_lines st ++ [line]) (PB.cs_condvar st)) 1).
Proof. intros lines start i line st Hcur Hi H. cchain H Hcur Hi. reflexivity. Qed.

Lemma cstep_stmt : forall lines start i line st,
  PB.has_cur st = true -> (i =? start) = false -> classify_c (strip line) = CStmt ->
  cstep lines start i line st =
  (let* st1 := PB.flush_cur true rlf st in
   let ck := PB.cond_py_statement true rlf lines i line (drop 2 (strip line)) in
   POk (PB.CNext (PB.push_tok st1 (TPyStmt (fst ck))) (snd ck))).
Proof. intros lines start i line st Hcur Hi H. cchain H Hcur Hi. reflexivity. Qed.

Lemma cstep_py : forall lines start i line st,
  PB.has_cur st = true -> (i =? start) = false -> classify_c (strip line) = CPy ->
  cstep lines start i line st =
  (let* st1 := PB.flush_cur true rlf st in
   let* ck := PB.extract_python_block_v true lines i in
   POk (PB.CNext (PB.push_tok st1 (TPyBlock (fst ck))) (snd ck))).
Proof. intros lines start i line st Hcur Hi H. cchain H Hcur Hi. reflexivity. Qed.

Lemma cstep_input : forall lines start i line st,
  PB.has_cur st = true -> (i =? start) = false -> classify_c (strip line) = CInput ->
  cstep lines start i line st =
  (let* st1 := PB.flush_cur true rlf st in
   let* d := PB.lf_input rlf line in POk (PB.CNext (PB.push_opt st1 d) 1)).
Proof. intros lines start i line st Hcur Hi H. cchain H Hcur Hi. reflexivity. Qed.

Lemma cstep_render : forall lines start i line st,
  PB.has_cur st = true -> (i =? start) = false -> classify_c (strip line) = CRender ->
  cstep lines start i line st =
  (let* st1 := PB.flush_cur true rlf st in
   let* d := PB.lf_render rlf line in POk (PB.CNext (PB.push_opt st1 d) 1)).
Proof. intros lines start i line st Hcur Hi H. cchain H Hcur Hi. reflexivity. Qed.

Lemma cstep_hook : forall lines start i line st,
  PB.has_cur st = true -> (i =? start) = false -> classify_c (strip line) = CHook ->
  cstep lines start i line st =
  (let* st1 := PB.flush_cur true rlf st in
   POk (PB.CNext (PB.push_opt st1 (option_map (fun et => THook true (fst et) (snd et)) (PB.hook_parts (strip line)))) 1)).
Proof. intros lines start i line st Hcur Hi H. cchain H Hcur Hi. reflexivity. Qed.

Lemma cstep_unhook : forall lines start i line st,
  PB.has_cur st = true -> (i =? start) = false -> classify_c (strip line) = CUnhook ->
  cstep lines start i line st =
  (let* st1 := PB.flush_cur true rlf st in
   POk (PB.CNext (PB.push_opt st1 (option_map (fun et => THook false (fst et) (snd et)) (PB.hook_parts (strip line)))) 1)).
Proof. intros lines start i line st Hcur Hi H. cchain H Hcur Hi. reflexivity. Qed.

Lemma cstep_if : forall lines start i line st,
  PB.has_cur st = true -> (i =? start) = false -> classify_c (strip line) = CIf ->
  cstep lines start i line st =
  (let* st1 := PB.flush_cur true rlf st in
   let* tk := rec_cond lines i in POk (PB.CNext (PB.push_tok st1 (fst tk)) (snd tk))).
Proof. intros lines start i line st Hcur Hi H. cchain H Hcur Hi. reflexivity. Qed.

Lemma cstep_for : forall lines start i line st,
  PB.has_cur st = true -> (i =? start) = false -> classify_c (strip line) = CFor ->
  cstep lines start i line st =
  (let* st1 := PB.flush_cur true rlf st in
   let* tk := rec_loop lines i in POk (PB.CNext (PB.push_tok st1 (fst tk)) (snd tk))).
Proof. intros lines start i line st Hcur Hi H. cchain H Hcur Hi. reflexivity. Qed.

Lemma cstep_jump : forall lines start i line st,
  PB.has_cur st = true -> (i =? start) = false -> classify_c (strip line) = CJump ->
  cstep lines start i line st =
  match PB.jump_of rlf (strip line) with
  | Some ta => let* st1 := PB.flush_cur true rlf st in
               POk (PB.CNext (PB.push_tok st1 (TJump (fst ta) (snd ta))) 1)
  | None => POk (PB.CNext st 1)
  end.
Proof. intros lines start i line st Hcur Hi H. cchain H Hcur Hi. reflexivity. Qed.

Lemma cstep_choice : forall lines start i line st,
  PB.has_cur st = true -> (i =? start) = false -> classify_c (strip line) = CChoice ->
  cstep lines start i line st =
  (let* st1 := PB.flush_cur true rlf st in
   let* ch := PB.lf_choice rlf (strip line) in POk (PB.CNext (PB.push_choice st1 ch) 1)).
Proof. intros lines start i line st Hcur Hi H. cchain H Hcur Hi. reflexivity. Qed.

Lemma cstep_endif : forall lines start i line st,
  PB.has_cur st = true -> (i =? start) = false -> classify_c (strip line) = CEndif ->
  cstep lines start i line st = (let* brs := PB.finalize rlf st in POk (PB.CDone brs)).
Proof. intros lines start i line st Hcur Hi H. cchain H Hcur Hi. reflexivity. Qed.

Lemma cstep_elif : forall lines start i line st,
  PB.has_cur st = true -> (i =? start) = false -> classify_c (strip line) = CElif ->
  startswith (strip line) "@elif " = true ->
  cstep lines start i line st =
  (let* c := match PB.match_colon_tail "@elif" (fst (strip_inline_comment (strip line))) with
             | Some body => POk (strip body)
             | None => PDiag (DSyntax "elif-missing-colon" i)
             end in
   PB.start_new_branch rlf st c (Some c)).
Proof. intros lines start i line st Hcur Hi H He. cchain H Hcur Hi. rewrite He. reflexivity. Qed.

Lemma cstep_else : forall lines start i line st,
  PB.has_cur st = true -> (i =? start) = false -> classify_c (strip line) = CElse ->
  startswith (strip line) "@else" = true ->
  String.eqb (strip (fst (strip_inline_comment (strip line)))) "@else:" = true ->
  cstep lines start i line st = PB.start_new_branch rlf st "True" (PB.cs_condvar st).
Proof. intros lines start i line st Hcur Hi H He Hc. cchain H Hcur Hi. rewrite He, Hc. reflexivity. Qed.

(* ---- the loop ---- *)
Lemma cgo_step : forall lines start line rest i st st' k,
  cstep lines start i line st = POk (PB.CNext st' (S k)) ->
  cgo lines start (line :: rest) i 0 st = cgo lines start rest (S i) k st'.
Proof. intros lines start line rest i st st' k H. cbn [PB.cond_go]. rewrite H. reflexivity. Qed.

Lemma cgo_skip : forall lines start L rest i st,
  cgo lines start (L ++ rest) i (List.length L) st = cgo lines start rest (i + List.length L) 0 st.
Proof.
  intros lines start L. induction L as [|l L IH]; intros rest i st.
  - cbn [app List.length]. rewrite Nat.add_0_r. reflexivity.
  - cbn [app List.length PB.cond_go]. rewrite IH. f_equal. lia.
Qed.

Lemma cgo_done : forall lines start line rest i st brs,
  cstep lines start i line st = POk (PB.CDone brs) ->
  cgo lines start (line :: rest) i 0 st = POk (TCond brs, S i - start).
Proof. intros lines start line rest i st brs H. cbn [PB.cond_go]. rewrite H. reflexivity. Qed.

(* ---- the state inside a branch ---- *)
(* finished branches, condition of the current one, its flushed content, its choices, the pending text items *)
Definition CS (brs : list branch) (c : string) (V : list token) (chs : list choice) (T : list item) (q : string)
              (cv : option string) : PB.cstate :=
  PB.mkCstate brs (Some (c, V, chs)) (map (indp q) (print_items T)) cv.

Lemma CS_has_cur : forall brs c V chs T q cv, PB.has_cur (CS brs c V chs T q cv) = true.
Proof. reflexivity. Qed.

Lemma flush_cur_CS : forall brs c V chs T q cv, pfx q -> text_run T -> Forall uline_ok (print_items T) ->
  PB.flush_cur true rlf (CS brs c V chs T q cv) = POk (CS brs c (V ++ c_items T) chs [] q cv).
Proof.
  intros brs c V chs T q cv Hq HT Hu. unfold PB.flush_cur, CS. cbn [PB.cs_cur PB.cs_lines PB.cs_branches PB.cs_condvar].
  rewrite (flush_glue_run q T V Hq HT Hu). reflexivity.
Qed.

Lemma finalize_CS : forall brs c V chs T q cv, pfx q -> text_run T -> Forall uline_ok (print_items T) ->
  PB.finalize rlf (CS brs c V chs T q cv) = POk (brs ++ [Branch c (V ++ c_items T) chs]).
Proof.
  intros brs c V chs T q cv Hq HT Hu. unfold PB.finalize, CS. cbn [PB.cs_cur PB.cs_lines PB.cs_branches].
  rewrite (flush_glue_run q T V Hq HT Hu). reflexivity.
Qed.

Lemma text_run_nil : text_run [].
Proof. constructor. Qed.

(* an item's lines (at prefix q) take the loop from one branch state to the next; the logical content
   V ++ c_items T grows by c_item it *)
Definition cond_item_steps (q : string) (it : item) : Prop :=
  forall lines start i rest brs c V T cv,
    skipn i lines = map (indp q) (print_item it) ++ rest -> i <= List.length lines -> start < i ->
    text_run T -> Forall uline_ok (print_items T) ->
    exists V' T',
      cgo lines start (map (indp q) (print_item it) ++ rest) i 0 (CS brs c V [] T q cv) =
      cgo lines start rest (i + List.length (print_item it)) 0 (CS brs c V' [] T' q cv) /\
      V' ++ c_items T' = (V ++ c_items T) ++ c_item it /\ text_run T' /\ Forall uline_ok (print_items T').

Lemma classify_c_plain : forall c r, bad_start c = false -> classify_c (String c r) = CText.
Proof.
  intros c r H. destruct (bad_start_facts c H) as [H0 [H1 [H2 [H3 [H4 [H5 [H6 [H7 H8]]]]]]]].
  unfold classify_c, PB.is_py_line, PB.is_if_line, PB.is_for_line, PB.is_choice_line.
  cbn [startswith String.eqb]. unfold ascii_eqb. rewrite ?H1, ?H2, ?H3, ?H4, ?H5, ?H6, ?H7, ?H8. reflexivity.
Qed.

Lemma start_lt_neq : forall start i, start < i -> (i =? start) = false.
Proof. intros. apply Nat.eqb_neq. lia. Qed.

(* a directive-like single line: flush, push one token *)
Lemma cond_single_push : forall q it l tok,
  pfx q -> print_item it = [l] -> l <> ""%string -> c_item it = [tok] ->
  (forall lines start i st, PB.has_cur st = true -> (i =? start) = false ->
     nth_error lines i = Some (q ++ l)%string ->
     cstep lines start i (q ++ l)%string st =
     (let* st1 := PB.flush_cur true rlf st in POk (PB.CNext (PB.push_tok st1 tok) 1))) ->
  cond_item_steps q it.
Proof.
  intros q it l tok Hq Hp Hne Hc Hstep lines start i rest brs c V T cv Hsk Hi Hlt HT Hu.
  rewrite Hp in *. cbn [map app List.length] in *. rewrite (indp_ne q l Hne) in *.
  exists ((V ++ c_items T) ++ [tok]), []. split; [|split; [|split; [apply text_run_nil|constructor]]].
  - assert (N : nth_error lines i = Some (q ++ l)%string).
    { rewrite <- (firstn_skipn i lines) at 1. rewrite Hsk. rewrite nth_error_app2; rewrite firstn_length_le by exact Hi; [|lia].
      rewrite Nat.sub_diag. reflexivity. }
    erewrite cgo_step; [rewrite Nat.add_1_r; reflexivity|].
    rewrite (Hstep lines start i _ (CS_has_cur _ _ _ _ _ _ _) (start_lt_neq _ _ Hlt) N).
    rewrite (flush_cur_CS brs c V [] T q cv Hq HT Hu). reflexivity.
  - rewrite Hc. cbn [c_items]. rewrite List.app_nil_r. reflexivity.
Qed.

End CondCtx.

(* ===== part 17 ===== *)
Local Open Scope string_scope.
Local Open Scope nat_scope.
Local Open Scope list_scope.

Ltac kind_c := unfold classify_c, PB.is_py_line, PB.is_if_line, PB.is_for_line, PB.is_choice_line;
               cbn [startswith append]; rewrite ?startswith_nil; reflexivity.

Lemma nth_of_skipn : forall (lines : list string) i l rest, skipn i lines = l :: rest -> i <= List.length lines ->
  nth_error lines i = Some l.
Proof.
  intros lines i l rest H Hi. rewrite <- (firstn_skipn i lines) at 1. rewrite H.
  rewrite nth_error_app2; rewrite firstn_length_le by exact Hi; [|lia]. rewrite Nat.sub_diag. reflexivity.
Qed.

Lemma split_at : forall (lines : list string) i L rest, skipn i lines = L ++ rest -> i <= List.length lines ->
  lines = firstn i lines ++ L ++ rest /\ List.length (firstn i lines) = i.
Proof.
  intros lines i L rest H Hi. split; [rewrite <- H; symmetry; apply firstn_skipn|apply firstn_length_le, Hi].
Qed.

Section CondItems.
Variable pp : pyparse.
Variable rec_cond rec_loop : list string -> nat -> pres (token * nat).
Notation cstep := (PB.cond_step true rlf rec_cond rec_loop).
Notation cgo := (PB.cond_go true rlf rec_cond rec_loop).
Notation citem := (cond_item_steps rec_cond rec_loop).

(* ---- text and blank lines: appended to the pending lines ---- *)
Lemma cond_textish : forall q it, pfx q -> textish it = true ->
  (forall ps g, it = IText ps g -> text_line_ok ps g = true) -> Forall uline_ok (print_item it) ->
  citem q it.
Proof.
  intros q it Hq Ht Hok Hul lines start i rest brs c V T cv Hsk Hi Hlt HT Hu.
  assert (E : exists l, print_item it = [l] /\ classify_c (strip (indp q l)) = CText).
  { destruct it; try discriminate.
    - eexists. split; [reflexivity|]. inversion Hul as [|? ? Hl _]; subst.
      destruct (text_line_parts ps glue (Hok _ _ eq_refl) Hl) as [_ [_ [_ [[ch [r [E Hc]]] _]]]].
      destruct Hl as [_ Hr]. rewrite E in *. cbn [append indp] in *.
      rewrite (strip_pfx q _ Hq); [apply classify_c_plain, Hc| |exact Hr].
      destruct (bad_start_facts ch Hc) as [H0 _]. simpl. rewrite H0. reflexivity.
    - exists ""%string. split; reflexivity. }
  destruct E as [l [Ep Ek]]. rewrite Ep in *. cbn [map app List.length] in *.
  exists V, (T ++ [it]). split; [|split; [|split]].
  - erewrite cgo_step; [rewrite Nat.add_1_r; reflexivity|].
    rewrite (cstep_text rec_cond rec_loop lines start i _ _ (CS_has_cur _ _ _ _ _ _ _) (start_lt_neq _ _ Hlt) Ek).
    unfold CS. cbn [PB.cs_branches PB.cs_cur PB.cs_lines PB.cs_condvar].
    rewrite print_items_app. cbn [print_items]. rewrite List.app_nil_r, Ep, map_app. reflexivity.
  - rewrite c_items_app. cbn [c_items]. rewrite List.app_nil_r, List.app_assoc. reflexivity.
  - apply Forall_app. split; [exact HT|]. constructor; [|constructor]. split; [exact Ht|exact Hok].
  - rewrite print_items_app. cbn [print_items]. rewrite List.app_nil_r. apply Forall_app. split; [exact Hu|].
    rewrite Ep. exact Hul.
Qed.

(* ---- single-line directives ---- *)
Lemma cond_stmt : forall q c, pfx q -> stmt_ok pp c = true -> Forall uline_ok (print_item (IStmt c)) -> citem q (IStmt c).
Proof.
  intros q c Hq Hok Hul. cbn [print_item] in Hul. inversion Hul as [|? ? Hl _]; subst.
  destruct (stmt_ok_weaken pp c Hok) as [Hn [Ht Ho]]. destruct (stmt_line_facts c Hn Ht Hl) as [F1 [F2 F3]].
  apply (cond_single_push rec_cond rec_loop q (IStmt c) ("~ " ++ c)%string (TPyStmt c) Hq eq_refl ltac:(discriminate) eq_refl).
  intros lines start i st Hcur Hi _. destruct Hl as [_ Hr].
  assert (Sq : strip (q ++ "~ " ++ c)%string = ("~ " ++ c)%string) by (apply strip_pfx; assumption).
  rewrite (cstep_stmt rec_cond rec_loop lines start i _ st Hcur Hi) by (rewrite Sq; kind_c).
  rewrite Sq. change (drop 2 ("~ " ++ c)%string) with c. unfold PB.cond_py_statement.
  rewrite (py_statement_one lines i c Ht Ho F3). cbn [fst snd andb Nat.ltb Nat.leb]. reflexivity.
Qed.

Lemma cond_jump : forall q t a, pfx q -> valid_passage_pattern t = true -> paren_free a = true ->
  Forall uline_ok (print_item (IJump t a)) -> citem q (IJump t a).
Proof.
  intros q t a Hq Ht Ha Hul. cbn [print_item] in Hul. inversion Hul as [|? ? Hl _]; subst.
  apply (cond_single_push rec_cond rec_loop q (IJump t a) ("-> " ++ t ++ print_args a)%string (TJump t a) Hq eq_refl
           ltac:(discriminate) eq_refl).
  intros lines start i st Hcur Hi _. pose proof Hl as [_ Hr].
  assert (Sq : strip (q ++ "-> " ++ t ++ print_args a)%string = ("-> " ++ t ++ print_args a)%string)
    by (apply strip_pfx; [exact Hq|reflexivity|exact Hr]).
  rewrite (cstep_jump rec_cond rec_loop lines start i _ st Hcur Hi) by (rewrite Sq; kind_c).
  rewrite Sq, (jump_of_print t a Ht Ha Hl). reflexivity.
Qed.

Lemma cond_render : forall q n a, pfx q -> render_ok n a = true ->
  Forall uline_ok (print_item (IRender n a)) -> citem q (IRender n a).
Proof.
  intros q n a Hq Hok Hul. cbn [print_item] in Hul. inversion Hul as [|? ? Hl _]; subst.
  apply (cond_single_push rec_cond rec_loop q (IRender n a) ("@render " ++ n ++ "(" ++ a ++ ")")%string (TRender n a None) Hq
           eq_refl ltac:(discriminate) eq_refl).
  intros lines start i st Hcur Hi _. pose proof Hl as [_ Hr].
  assert (Sq : strip (q ++ "@render " ++ n ++ "(" ++ a ++ ")")%string = ("@render " ++ n ++ "(" ++ a ++ ")")%string)
    by (apply strip_pfx; [exact Hq|reflexivity|exact Hr]).
  rewrite (cstep_render rec_cond rec_loop lines start i _ st Hcur Hi) by (rewrite Sq; kind_c).
  cbn [PB.lf_render rlf]. rewrite (render_line_print q n a Hq Hok Hl).
  destruct (PB.flush_cur true rlf st); reflexivity.
Qed.

Lemma cond_input : forall q attrs, pfx q -> input_ok attrs = true ->
  Forall uline_ok (print_item (IInput attrs)) -> citem q (IInput attrs).
Proof.
  intros q attrs Hq Hok Hul. cbn [print_item] in Hul. inversion Hul as [|? ? Hl _]; subst.
  apply (cond_single_push rec_cond rec_loop q (IInput attrs) _ (TInput attrs) Hq eq_refl ltac:(discriminate) eq_refl).
  intros lines start i st Hcur Hi _. pose proof Hl as [_ Hr].
  assert (Sq : strip (q ++ "@input name=" ++ String dquote (input_name attrs ++ String dquote ""))%string =
              ("@input name=" ++ String dquote (input_name attrs ++ String dquote ""))%string)
    by (apply strip_pfx; [exact Hq|reflexivity|exact Hr]).
  rewrite (cstep_input rec_cond rec_loop lines start i _ st Hcur Hi) by (rewrite Sq; kind_c).
  cbn [PB.lf_input rlf]. rewrite (input_line_print q attrs Hq Hok Hl).
  destruct (PB.flush_cur true rlf st); reflexivity.
Qed.

Lemma cond_hook : forall q (add : bool) e t, pfx q -> word_ok e = true -> word_ok t = true ->
  Forall uline_ok (print_item (IHook add e t)) -> citem q (IHook add e t).
Proof.
  intros q add e t Hq He Ht Hul. cbn [print_item] in Hul. inversion Hul as [|? ? Hl _]; subst.
  apply (cond_single_push rec_cond rec_loop q (IHook add e t) _ (THook add e t) Hq eq_refl
           ltac:(destruct add; discriminate) eq_refl).
  intros lines start i st Hcur Hi _. pose proof Hl as [_ Hr].
  assert (Sq : strip (q ++ (if add then "@hook " else "@unhook ") ++ e ++ " " ++ t)%string =
              ((if add then "@hook " else "@unhook ") ++ e ++ " " ++ t)%string)
    by (apply strip_pfx; [exact Hq|destruct add; reflexivity|exact Hr]).
  destruct add.
  - rewrite (cstep_hook rec_cond rec_loop lines start i _ st Hcur Hi) by (rewrite Sq; kind_c).
    rewrite Sq, (hook_parts_print true e t He Ht). destruct (PB.flush_cur true rlf st); reflexivity.
  - rewrite (cstep_unhook rec_cond rec_loop lines start i _ st Hcur Hi) by (rewrite Sq; kind_c).
    rewrite Sq, (hook_parts_print false e t He Ht). destruct (PB.flush_cur true rlf st); reflexivity.
Qed.

(* ---- blocks inside a branch: one step of the loop, then the lines are skipped ---- *)
Lemma cond_block_push : forall q it l more tok,
  pfx q -> print_item it = l :: more -> l <> ""%string -> c_item it = [tok] ->
  (forall lines start i st, PB.has_cur st = true -> (i =? start) = false ->
     (exists pre post, lines = pre ++ map (indp q) (print_item it) ++ post /\ List.length pre = i) ->
     cstep lines start i (q ++ l)%string st =
     (let* st1 := PB.flush_cur true rlf st in POk (PB.CNext (PB.push_tok st1 tok) (List.length (print_item it))))) ->
  citem q it.
Proof.
  intros q it l more tok Hq Hp Hne Hc Hstep lines start i rest brs c V T cv Hsk Hi Hlt HT Hu.
  exists ((V ++ c_items T) ++ [tok]), []. split; [|split; [|split; [apply text_run_nil|constructor]]].
  - destruct (split_at lines i _ _ Hsk Hi) as [EL Elen].
    assert (St : cstep lines start i (q ++ l)%string (CS brs c V [] T q cv) =
                 POk (PB.CNext (CS brs c ((V ++ c_items T) ++ [tok]) [] [] q cv) (List.length (print_item it)))).
    { rewrite (Hstep lines start i _ (CS_has_cur _ _ _ _ _ _ _) (start_lt_neq _ _ Hlt))
        by (exists (firstn i lines), rest; split; assumption).
      rewrite (flush_cur_CS brs c V [] T q cv Hq HT Hu). reflexivity. }
    rewrite Hp in *. cbn [map app List.length] in *. rewrite (indp_ne q l Hne) in *.
    rewrite (cgo_step rec_cond rec_loop lines start _ _ i _ _ _ St).
    rewrite <- (map_length (indp q) more). rewrite cgo_skip. rewrite map_length. f_equal. lia.
  - rewrite Hc. cbn [c_items]. rewrite List.app_nil_r. reflexivity.
Qed.

Lemma cond_py : forall q c, pfx q -> py_ok c = true -> citem q (IPy c).
Proof.
  intros q c Hq Hok.
  apply (cond_block_push q (IPy c) "@py:"%string (split_char c nlc ++ ["@endpy"]) (TPyBlock c) Hq eq_refl
           ltac:(discriminate) eq_refl).
  intros lines start i st Hcur Hi [pre [post [EL Elen]]]. destruct Hq as [Hq1 Hq2].
  assert (Sq : strip (q ++ "@py:")%string = "@py:"%string) by (rewrite (strip_app_ws q _ Hq1); reflexivity).
  rewrite (cstep_py rec_cond rec_loop lines start i _ st Hcur Hi) by (rewrite Sq; reflexivity).
  rewrite EL, <- Elen, (py_block_at q c pre post (conj Hq1 Hq2) Hok). destruct (PB.flush_cur true rlf st); reflexivity.
Qed.

(* nested @if / @for: what the recursive calls must deliver *)
Definition rec_gives (rec : list string -> nat -> pres (token * nat)) (q : string) (it : item) (tok : token) : Prop :=
  forall pre post, rec (pre ++ map (indp q) (print_item it) ++ post) (List.length pre) =
                   POk (tok, List.length (print_item it)).

Lemma if_header_facts : forall (first : bool) cond, cond_header_ok cond = true ->
  exists l, if_header first cond = l /\ l <> ""%string /\ starts_ns l = true.
Proof.
  intros first cond H. unfold if_header. destruct (negb first && String.eqb cond "True").
  - eexists; repeat split; discriminate.
  - destruct first; eexists; repeat split; discriminate.
Qed.

Lemma cond_nested_if : forall q brs tok, pfx q -> brs <> [] ->
  (match brs with (c0, _, _) :: _ => cond_header_ok c0 = true | [] => True end) ->
  Forall uline_ok (print_item (IIf brs)) -> c_item (IIf brs) = [tok] ->
  rec_gives rec_cond q (IIf brs) tok -> citem q (IIf brs).
Proof.
  intros q brs tok Hq Hne Hc0 Hul Hc Hrec. destruct brs as [|[[c0 b0] ch0] r]; [congruence|].
  rewrite print_item_if in *. cbn [print_branches app] in *. unfold if_header at 1 in Hul. cbn [negb andb] in Hul.
  inversion Hul as [|? ? Hl _]; subst.
  eapply (cond_block_push q (IIf ((c0, b0, ch0) :: r)) ("@if " ++ c0 ++ ":")%string _ tok Hq);
    [rewrite print_item_if; reflexivity|discriminate|exact Hc|].
  intros lines start i st Hcur Hi [pre [post [EL Elen]]]. destruct Hl as [_ Hr].
  assert (Sq : strip (q ++ "@if " ++ c0 ++ ":")%string = ("@if " ++ c0 ++ ":")%string)
    by (apply strip_pfx; [exact Hq|reflexivity|exact Hr]).
  rewrite (cstep_if rec_cond rec_loop lines start i _ st Hcur Hi) by (rewrite Sq; kind_c).
  rewrite EL, <- Elen, (Hrec pre post). destruct (PB.flush_cur true rlf st); reflexivity.
Qed.

Lemma cond_nested_for : forall q v c body chs tok, pfx q ->
  Forall uline_ok (print_item (IFor v c body chs)) -> c_item (IFor v c body chs) = [tok] ->
  rec_gives rec_loop q (IFor v c body chs) tok -> citem q (IFor v c body chs).
Proof.
  intros q v c body chs tok Hq Hul Hc Hrec. rewrite print_item_for in Hul. inversion Hul as [|? ? Hl _]; subst.
  eapply (cond_block_push q (IFor v c body chs) ("@for " ++ v ++ " in " ++ c ++ ":")%string _ tok Hq);
    [apply print_item_for|discriminate|exact Hc|].
  intros lines start i st Hcur Hi [pre [post [EL Elen]]]. destruct Hl as [_ Hr].
  assert (Sq : strip (q ++ "@for " ++ v ++ " in " ++ c ++ ":")%string = ("@for " ++ v ++ " in " ++ c ++ ":")%string)
    by (apply strip_pfx; [exact Hq|reflexivity|exact Hr]).
  rewrite (cstep_for rec_cond rec_loop lines start i _ st Hcur Hi) by (rewrite Sq; kind_c).
  rewrite EL, <- Elen, (Hrec pre post). destruct (PB.flush_cur true rlf st); reflexivity.
Qed.

(* ---- the items of a branch, one after the other ---- *)
Lemma skipn_add : forall (A : Type) i n (l : list A), skipn (i + n) l = skipn n (skipn i l).
Proof.
  induction i as [|i IH]; intros n l; [reflexivity|]. destruct l as [|x l]; [destruct n; reflexivity|]. apply IH.
Qed.

Lemma skipn_more : forall (lines : list string) i L rest, skipn i lines = L ++ rest -> i <= List.length lines ->
  skipn (i + List.length L) lines = rest /\ i + List.length L <= List.length lines.
Proof.
  intros lines i L rest H Hi. split.
  - rewrite skipn_add, H. rewrite skipn_app, skipn_all, Nat.sub_diag. reflexivity.
  - assert (E : List.length (skipn i lines) = List.length (L ++ rest)) by (rewrite H; reflexivity).
    rewrite skipn_length, app_length in E. lia.
Qed.

Lemma cond_items_run : forall q body, Forall (citem q) body ->
  forall lines start i rest brs c V T cv,
    skipn i lines = map (indp q) (print_items body) ++ rest -> i <= List.length lines -> start < i ->
    text_run T -> Forall uline_ok (print_items T) ->
    exists V' T',
      cgo lines start (map (indp q) (print_items body) ++ rest) i 0 (CS brs c V [] T q cv) =
      cgo lines start rest (i + List.length (print_items body)) 0 (CS brs c V' [] T' q cv) /\
      V' ++ c_items T' = (V ++ c_items T) ++ c_items body /\ text_run T' /\ Forall uline_ok (print_items T').
Proof.
  intros q body H. induction H as [|it body Hit _ IH]; intros lines start i rest brs c V T cv Hsk Hi Hlt HT Hu.
  - exists V, T. cbn [print_items map app List.length c_items]. rewrite Nat.add_0_r, List.app_nil_r.
    repeat split; assumption.
  - cbn [print_items] in *. rewrite map_app, <- List.app_assoc in Hsk |- *.
    destruct (Hit lines start i _ brs c V T cv Hsk Hi Hlt HT Hu) as [V1 [T1 [E1 [C1 [HT1 Hu1]]]]].
    destruct (skipn_more lines i _ _ Hsk Hi) as [Hsk2 Hi2]. rewrite map_length in Hsk2, Hi2.
    destruct (IH lines start (i + List.length (print_item it)) rest brs c V1 T1 cv Hsk2 Hi2 ltac:(lia) HT1 Hu1)
      as [V2 [T2 [E2 [C2 [HT2 Hu2]]]]].
    exists V2, T2. split; [|split; [|split; assumption]].
    + rewrite E1, E2. rewrite app_length, Nat.add_assoc. reflexivity.
    + rewrite C2, C1. cbn [c_items]. rewrite <- !List.app_assoc. reflexivity.
Qed.

(* ---- the choices of a branch ---- *)
Lemma cond_choices_run : forall q chs, pfx q -> forallb inner_choice_ok chs = true ->
  Forall uline_ok (print_choices chs) ->
  forall lines start i rest brs c V T cv acc,
    skipn i lines = map (fun l => (q ++ l)%string) (print_choices chs) ++ rest -> i <= List.length lines -> start < i ->
    text_run T -> Forall uline_ok (print_items T) ->
    cgo lines start (map (fun l => (q ++ l)%string) (print_choices chs) ++ rest) i 0 (CS brs c V acc T q cv) =
    cgo lines start rest (i + List.length (print_choices chs)) 0
        (CS brs c (V ++ c_items T) (acc ++ map (c_choice 0) chs) [] q cv) \/ chs = [] /\ True.
Proof.
  intros q chs Hq. induction chs as [|ch chs IH]; intros Hok Hul lines start i rest brs c V T cv acc Hsk Hi Hlt HT Hu.
  - right. split; [reflexivity|exact I].
  - left. cbn [forallb] in Hok. apply andb_prop in Hok. destruct Hok as [Hch Hok].
    cbn [print_choices] in *. apply Forall_app in Hul. destruct Hul as [Hu1 Hu2].
    assert (Hl1 : lines_ok (print_choice ch)).
    { eapply Forall_impl; [|exact Hu1]. apply uline_line_ok. }
    destruct (inner_choice_print ch Hch Hl1) as [l [Ep [Hns [Hlo Hpc]]]]. rewrite Ep in *.
    cbn [map app List.length] in *. destruct (line_ok_parts _ Hlo) as [Hcl Hrs].
    assert (Sq : strip (q ++ l)%string = l) by (apply strip_pfx; assumption).
    assert (K : classify_c l = CChoice).
    { destruct ch as [tx tg ar cd stk blk]. cbn [print_choice] in Ep. injection Ep as <-. rewrite choice_line_eq.
      destruct stk; kind_c. }
    assert (St : cstep lines start i (q ++ l)%string (CS brs c V acc T q cv) =
                 POk (PB.CNext (CS brs c (V ++ c_items T) (acc ++ [c_choice 0 ch]) [] q cv) 1)).
    { rewrite (cstep_choice rec_cond rec_loop lines start i _ _ (CS_has_cur _ _ _ _ _ _ _) (start_lt_neq _ _ Hlt))
        by (rewrite Sq; exact K).
      rewrite (flush_cur_CS brs c V acc T q cv Hq HT Hu). cbn [pbind]. rewrite Sq. cbn [PB.lf_choice rlf].
      rewrite Hpc. reflexivity. }
    rewrite (cgo_step rec_cond rec_loop lines start _ _ i _ _ _ St).
    destruct (skipn_more lines i [(q ++ l)%string] _ Hsk Hi) as [Hsk2 Hi2]. cbn [List.length] in Hsk2, Hi2.
    rewrite Nat.add_1_r in Hsk2, Hi2.
    destruct (IH Hok Hu2 lines start (S i) rest brs c (V ++ c_items T) [] cv (acc ++ [c_choice 0 ch]) Hsk2 Hi2
                 ltac:(lia) text_run_nil ltac:(constructor)) as [E|[-> _]].
    + rewrite E. replace ((V ++ c_items T) ++ c_items []) with (V ++ c_items T)
        by (change (c_items []) with (@nil token); rewrite List.app_nil_r; reflexivity).
      rewrite <- List.app_assoc. cbn [app].
      replace (S i + List.length (print_choices chs)) with (i + S (List.length (print_choices chs))) by lia. reflexivity.
    + cbn [print_choices map app List.length]. rewrite Nat.add_1_r. reflexivity.
Qed.

End CondItems.

(* ===== part 18 ===== *)
Local Open Scope string_scope.
Local Open Scope nat_scope.
Local Open Scope list_scope.

(* ------------------------------------------------------------------------------------------- *)
(* the whole @if block                                                                          *)
(* ------------------------------------------------------------------------------------------- *)
Lemma match_colon_tail_print : forall kw cond, cond_header_ok cond = true ->
  rstrip (kw ++ " " ++ cond ++ ":")%string = (kw ++ " " ++ cond ++ ":")%string ->
  option_map strip (PB.match_colon_tail kw (kw ++ " " ++ cond ++ ":")%string) = Some cond.
Proof.
  intros kw cond H Hr. unfold cond_header_ok in H. apply andb_prop in H. destruct H as [Hn Ht].
  unfold PB.match_colon_tail. rewrite Hr, startswith_app_self.
  replace (kw ++ " " ++ cond ++ ":")%string with ((kw ++ " " ++ cond) ++ ":")%string by (rewrite !sapp_assoc; reflexivity).
  rewrite endswith_app. cbn [andb]. rewrite slen_app. cbn [String.length].
  replace (String.length (kw ++ " " ++ cond) + 1 - 1) with (String.length (kw ++ " " ++ cond)) by lia.
  rewrite take_app, drop_app. cbn [append]. replace (is_space " ") with true by reflexivity.
  destruct cond as [|c0 cr]; [discriminate|]. cbn [String.length Nat.leb andb option_map].
  change (String " " (String c0 cr)) with (" " ++ String c0 cr)%string. rewrite strip_pad_l, (trimmed_eq _ Ht). reflexivity.
Qed.

Section CondBlock.
Variable pp : pyparse.
Variable rec_cond rec_loop : list string -> nat -> pres (token * nat).
Notation cstep := (PB.cond_step true rlf rec_cond rec_loop).
Notation cgo := (PB.cond_go true rlf rec_cond rec_loop).
Notation citem := (cond_item_steps rec_cond rec_loop).

(* the opening line *)
Lemma cstep_open : forall lines q cond i, pfx q -> cond_header_ok cond = true ->
  uline_ok ("@if " ++ cond ++ ":")%string ->
  cstep lines i i (q ++ "@if " ++ cond ++ ":")%string PB.cstate0 =
  POk (PB.CNext (CS [] cond [] [] [] (q ++ ind4)%string (Some cond)) 1).
Proof.
  intros lines q cond i Hq Hc [Hcl Hr].
  assert (Sq : strip (q ++ "@if " ++ cond ++ ":")%string = ("@if " ++ cond ++ ":")%string)
    by (apply strip_pfx; [exact Hq|reflexivity|exact Hr]).
  unfold PB.cond_step. cbv zeta. rewrite Sq, Nat.eqb_refl.
  replace (PB.has_cur PB.cstate0) with false by reflexivity. rewrite ?andb_false_r.
  replace (startswith ("@if " ++ cond ++ ":")%string "#") with false by reflexivity.
  replace (PB.is_if_line ("@if " ++ cond ++ ":")%string) with true
    by (symmetry; unfold PB.is_if_line; cbn [startswith append]; rewrite ?startswith_nil; reflexivity).
  cbn [andb]. rewrite (sic_clean _ Hcl). cbn [fst].
  replace (startswith ("@if " ++ cond ++ ":")%string "@if ") with true
    by (symmetry; cbn [startswith append]; rewrite ?startswith_nil; reflexivity).
  pose proof (match_colon_tail_print "@if" cond Hc Hr) as M.
  change ("@if" ++ " " ++ cond ++ ":")%string with ("@if " ++ cond ++ ":")%string in M.
  destruct (PB.match_colon_tail "@if" ("@if " ++ cond ++ ":")%string) as [b|]; [|discriminate].
  cbn [option_map] in M. injection M as M. rewrite M. reflexivity.
Qed.

(* one branch after its header *)
Lemma branch_body_run : forall q body chs, pfx q -> Forall (citem (q ++ ind4)%string) body ->
  forallb inner_choice_ok chs = true -> Forall uline_ok (print_choices chs) ->
  forall lines start i rest brs c cv,
    skipn i lines = map (indp (q ++ ind4)%string) (print_items body) ++
                    map (fun l => ((q ++ ind4) ++ l)%string) (print_choices chs) ++ rest ->
    i <= List.length lines -> start < i ->
    exists V chs' T,
      cgo lines start (map (indp (q ++ ind4)%string) (print_items body) ++
                       map (fun l => ((q ++ ind4) ++ l)%string) (print_choices chs) ++ rest) i 0
          (CS brs c [] [] [] (q ++ ind4)%string cv) =
      cgo lines start rest (i + List.length (print_items body) + List.length (print_choices chs)) 0
          (CS brs c V chs' T (q ++ ind4)%string cv) /\
      V ++ c_items T = c_items body /\ chs' = map (c_choice 0) chs /\ text_run T /\ Forall uline_ok (print_items T).
Proof.
  intros q body chs Hq Hit Hch Hul lines start i rest brs c cv Hsk Hi Hlt.
  pose proof (pfx_ind4 q Hq) as Hq'.
  destruct (cond_items_run rec_cond rec_loop _ body Hit lines start i _ brs c [] [] cv Hsk Hi Hlt text_run_nil
              ltac:(constructor)) as [V1 [T1 [E1 [C1 [HT1 Hu1]]]]].
  destruct (skipn_more lines i _ _ Hsk Hi) as [Hsk2 Hi2]. rewrite map_length in Hsk2, Hi2.
  destruct (cond_choices_run rec_cond rec_loop _ chs Hq' Hch Hul lines start _ rest brs c V1 T1 cv [] Hsk2 Hi2
              ltac:(lia) HT1 Hu1) as [E2|[-> _]].
  - exists (V1 ++ c_items T1), (map (c_choice 0) chs), []. split; [|split; [|split; [reflexivity|split; [apply text_run_nil|constructor]]]].
    + rewrite E1, E2. reflexivity.
    + cbn [c_items]. rewrite List.app_nil_r, C1. reflexivity.
  - exists V1, [], T1. split; [|split; [|split; [reflexivity|split; assumption]]].
    + rewrite E1. cbn [print_choices map app List.length]. rewrite Nat.add_0_r. reflexivity.
    + rewrite C1. reflexivity.
Qed.

Definition branch_ok (q : string) (b : string * list item * list schoice) : Prop :=
  match b with
  | (cond, body, chs) =>
      cond_header_ok cond = true /\ Forall (citem (q ++ ind4)%string) body /\
      forallb inner_choice_ok chs = true /\ Forall uline_ok (print_choices chs)
  end.

Lemma print_branches_cons : forall c body chs r (first : bool),
  print_branches ((c, body, chs) :: r) first =
  if_header first c :: map indent_nonempty (print_items body) ++ map indent_always (print_choices chs) ++
  print_branches r false.
Proof. reflexivity. Qed.

Lemma map_indp_branch : forall q body chs rest,
  map (indp q) (map indent_nonempty (print_items body) ++ map indent_always (print_choices chs) ++ rest) =
  map (indp (q ++ ind4)%string) (print_items body) ++
  map (fun l => ((q ++ ind4) ++ l)%string) (print_choices chs) ++ map (indp q) rest.
Proof. intros. rewrite !map_app, map_indp_nonempty, map_indp_always. reflexivity. Qed.

Lemma branches_lines : forall q c1 b1 ch1 r (first : bool) tail,
  map (indp q) (print_branches ((c1, b1, ch1) :: r) first ++ tail) =
  indp q (if_header first c1) ::
  map (indp (q ++ ind4)%string) (print_items b1) ++
  map (fun l => ((q ++ ind4) ++ l)%string) (print_choices ch1) ++ map (indp q) (print_branches r false ++ tail).
Proof.
  intros. rewrite print_branches_cons. rewrite <- List.app_comm_cons. cbn [map]. f_equal.
  rewrite <- !List.app_assoc. apply map_indp_branch.
Qed.

(* the remaining branches and the closing line *)
Lemma cond_rest_run : forall q r, pfx q -> Forall (branch_ok q) r ->
  Forall uline_ok (print_branches r false) ->
  forall lines start i rest brs c V chs T cv,
    skipn i lines = map (indp q) (print_branches r false ++ ["@endif"]) ++ rest ->
    i <= List.length lines -> start < i -> text_run T -> Forall uline_ok (print_items T) ->
    cgo lines start (map (indp q) (print_branches r false ++ ["@endif"]) ++ rest) i 0
        (CS brs c V chs T (q ++ ind4)%string cv) =
    POk (TCond (brs ++ [Branch c (V ++ c_items T) chs] ++ c_branches r),
         i + List.length (print_branches r false ++ ["@endif"]) - start).
Proof.
  intros q r Hq Hr. pose proof (pfx_ind4 q Hq) as Hq'.
  induction Hr as [|[[c1 b1] ch1] r [Hc1 [Hb1 [Hch1 Hul1]]] _ IH];
    intros Hu lines start i rest brs c V chs T cv Hsk Hi Hlt HT HuT.
  - cbn [print_branches app map indp List.length] in *.
    assert (Sq : strip (q ++ "@endif")%string = "@endif"%string)
      by (destruct Hq as [Hq1 _]; rewrite (strip_app_ws q _ Hq1); reflexivity).
    assert (St : cstep lines start i (q ++ "@endif")%string (CS brs c V chs T (q ++ ind4)%string cv) =
                 POk (PB.CDone (brs ++ [Branch c (V ++ c_items T) chs]))).
    { rewrite (cstep_endif rec_cond rec_loop lines start i _ _ (CS_has_cur _ _ _ _ _ _ _) (start_lt_neq _ _ Hlt))
        by (rewrite Sq; reflexivity).
      rewrite (finalize_CS brs c V chs T _ cv Hq' HT HuT). reflexivity. }
    rewrite (cgo_done rec_cond rec_loop lines start _ _ i _ _ St). rewrite Nat.add_1_r. reflexivity.
  - rewrite print_branches_cons in Hu. inversion Hu as [|? ? Hlh Hu']; subst.
    apply Forall_app in Hu'. destruct Hu' as [Hub Hu']. apply Forall_app in Hu'. destruct Hu' as [Huc Hur].
    rewrite <- Hsk. rewrite branches_lines, <- !List.app_comm_cons, <- !List.app_assoc in Hsk. rewrite Hsk.
    destruct (if_header_facts false c1 Hc1) as [hl [Eh [Hne Hns]]]. rewrite Eh in *. rewrite (indp_ne q hl Hne) in *.
    pose proof Hlh as [Hcl Hrr].
    assert (Sq : strip (q ++ hl)%string = hl) by (apply strip_pfx; assumption).
    (* the header starts a new branch *)
    assert (St : exists cv', cstep lines start i (q ++ hl)%string (CS brs c V chs T (q ++ ind4)%string cv) =
                   POk (PB.CNext (CS (brs ++ [Branch c (V ++ c_items T) chs]) c1 [] [] [] (q ++ ind4)%string cv') 1)).
    { unfold if_header in Eh. cbn [negb andb] in Eh. destruct (String.eqb c1 "True") eqn:Et.
      - apply String.eqb_eq in Et. subst c1 hl. exists cv.
        rewrite (cstep_else rec_cond rec_loop lines start i _ _ (CS_has_cur _ _ _ _ _ _ _) (start_lt_neq _ _ Hlt));
          try (rewrite Sq; reflexivity).
        unfold PB.start_new_branch. rewrite (finalize_CS brs c V chs T _ cv Hq' HT HuT). reflexivity.
      - subst hl. exists (Some c1).
        rewrite (cstep_elif rec_cond rec_loop lines start i _ _ (CS_has_cur _ _ _ _ _ _ _) (start_lt_neq _ _ Hlt));
          try (rewrite Sq; kind_c).
        rewrite Sq, (sic_clean _ Hcl). cbn [fst].
        pose proof (match_colon_tail_print "@elif" c1 Hc1 Hrr) as M.
        change ("@elif" ++ " " ++ c1 ++ ":")%string with ("@elif " ++ c1 ++ ":")%string in M.
        destruct (PB.match_colon_tail "@elif" ("@elif " ++ c1 ++ ":")%string) as [b|]; [|discriminate].
        cbn [option_map] in M. injection M as M. rewrite M. cbn [pbind].
        unfold PB.start_new_branch. rewrite (finalize_CS brs c V chs T _ cv Hq' HT HuT). reflexivity. }
    destruct St as [cv' St]. rewrite (cgo_step rec_cond rec_loop lines start _ _ i _ _ _ St).
    destruct (skipn_more lines i [(q ++ hl)%string] _ Hsk Hi) as [Hsk2 Hi2]. cbn [List.length] in Hsk2, Hi2.
    rewrite Nat.add_1_r in Hsk2, Hi2.
    destruct (branch_body_run q b1 ch1 Hq Hb1 Hch1 (ulines_of_always _ Huc) lines start (S i) _
                (brs ++ [Branch c (V ++ c_items T) chs]) c1 cv' Hsk2 Hi2 ltac:(lia)) as [V2 [chs2 [T2 [E2 [C2 [Ech [HT2 Hu2]]]]]]].
    rewrite E2.
    assert (Hsk3 : skipn (S i + List.length (print_items b1) + List.length (print_choices ch1)) lines =
                   map (indp q) (print_branches r false ++ ["@endif"]) ++ rest /\
                   S i + List.length (print_items b1) + List.length (print_choices ch1) <= List.length lines).
    { rewrite List.app_assoc in Hsk2. destruct (skipn_more lines (S i) _ _ Hsk2 Hi2) as [A B].
      rewrite app_length, !map_length, Nat.add_assoc in A, B. split; assumption. }
    destruct Hsk3 as [Hsk3 Hi3].
    rewrite (IH Hur lines start _ rest _ c1 V2 chs2 T2 cv' Hsk3 Hi3 ltac:(lia) HT2 Hu2).
    f_equal. f_equal.
    + rewrite C2, Ech. cbn [c_branches map app]. rewrite <- !List.app_assoc. reflexivity.
    + rewrite print_branches_cons. rewrite !app_length. cbn [List.length]. rewrite !app_length, !map_length.
      cbn [List.length]. lia.
Qed.

(* the block *)
Lemma cond_body_print : forall q brs pre post, pfx q -> brs <> [] -> Forall (branch_ok q) brs ->
  Forall uline_ok (print_item (IIf brs)) ->
  PB.cond_body true rlf rec_cond rec_loop (pre ++ map (indp q) (print_item (IIf brs)) ++ post) (List.length pre) =
  POk (TCond (c_branches brs), List.length (print_item (IIf brs))).
Proof.
  intros q brs pre post Hq Hne Hbr Hu. destruct brs as [|[[c0 b0] ch0] r]; [congruence|].
  inversion Hbr as [|? ? Hb0' Hr]; subst. cbn [branch_ok] in Hb0'. destruct Hb0' as [Hc0 [Hb0 [Hch0 Hul0]]].
  rewrite print_item_if in *.
  assert (Hparts : uline_ok ("@if " ++ c0 ++ ":")%string /\
                   Forall uline_ok (map indent_always (print_choices ch0)) /\
                   Forall uline_ok (print_branches r false)).
  { rewrite print_branches_cons in Hu. rewrite <- List.app_comm_cons in Hu. inversion Hu as [|? ? Hlh Hu']; subst.
    rewrite <- !List.app_assoc in Hu'.
    apply Forall_app in Hu'. destruct Hu' as [_ Hu']. apply Forall_app in Hu'. destruct Hu' as [Huc Hu'].
    apply Forall_app in Hu'. destruct Hu' as [Hur _]. split; [exact Hlh|split; [exact Huc|exact Hur]]. }
  destruct Hparts as [Hlh [Huc Hur]].
  set (lines := pre ++ map (indp q) (print_branches ((c0, b0, ch0) :: r) true ++ ["@endif"]) ++ post).
  set (start := List.length pre).
  assert (Hsk : skipn start lines =
                (q ++ "@if " ++ c0 ++ ":")%string ::
                map (indp (q ++ ind4)%string) (print_items b0) ++
                map (fun l => ((q ++ ind4) ++ l)%string) (print_choices ch0) ++
                map (indp q) (print_branches r false ++ ["@endif"]) ++ post).
  { unfold lines, start. rewrite skipn_app, skipn_all, Nat.sub_diag. cbn [skipn app].
    rewrite branches_lines. rewrite <- List.app_comm_cons, <- !List.app_assoc. reflexivity. }
  assert (Hlen : start <= List.length lines) by (unfold lines, start; rewrite app_length; lia).
  unfold PB.cond_body. fold start. rewrite Hsk.
  erewrite cgo_step; [|apply (cstep_open lines q c0 start Hq Hc0 Hlh)].
  destruct (skipn_more lines start [(q ++ "@if " ++ c0 ++ ":")%string] _ Hsk Hlen) as [Hsk2 Hi2].
  cbn [List.length] in Hsk2, Hi2. rewrite Nat.add_1_r in Hsk2, Hi2.
  destruct (branch_body_run q b0 ch0 Hq Hb0 Hch0 (ulines_of_always _ Huc) lines start (S start) _ [] c0 (Some c0)
              Hsk2 Hi2 ltac:(lia)) as [V2 [chs2 [T2 [E2 [C2 [Ech [HT2 Hu2]]]]]]].
  rewrite E2.
  assert (Hsk3 : skipn (S start + List.length (print_items b0) + List.length (print_choices ch0)) lines =
                 map (indp q) (print_branches r false ++ ["@endif"]) ++ post /\
                 S start + List.length (print_items b0) + List.length (print_choices ch0) <= List.length lines).
  { rewrite List.app_assoc in Hsk2. destruct (skipn_more lines (S start) _ _ Hsk2 Hi2) as [A B].
    rewrite app_length, !map_length, Nat.add_assoc in A, B. split; assumption. }
  destruct Hsk3 as [Hsk3 Hi3].
  rewrite (cond_rest_run q r Hq Hr Hur lines start _ post [] c0 V2 chs2 T2 (Some c0) Hsk3 Hi3 ltac:(lia) HT2 Hu2).
  f_equal. f_equal.
  - rewrite C2, Ech. reflexivity.
  - rewrite print_branches_cons. rewrite !app_length. cbn [List.length]. rewrite !app_length, !map_length.
    cbn [List.length]. lia.
Qed.

End CondBlock.

(* ===== part 19 ===== *)
Local Open Scope string_scope.
Local Open Scope nat_scope.
Local Open Scope list_scope.

(* ------------------------------------------------------------------------------------------- *)
(* the @for header                                                                              *)
(* ------------------------------------------------------------------------------------------- *)
Lemma ws_run_ns : forall t, starts_ns t = true -> PB.ws_run t = 0.
Proof. intros t H. unfold PB.ws_run. rewrite (lstrip_starts_ns t H). lia. Qed.

Lemma for_tail_colon_ns : forall t, starts_ns t = true -> PB.for_tail_colon t = None.
Proof. intros t H. unfold PB.for_tail_colon. rewrite (ws_run_ns t H). reflexivity. Qed.

Lemma for_scan_word : forall w pre rest, all_chars (fun c => negb (is_space c)) w = true ->
  PB.for_scan PB.for_tail_colon pre (w ++ String " " rest)%string =
  PB.for_scan PB.for_tail_colon (pre ++ w)%string (String " " rest) \/ w = ""%string.
Proof.
  induction w as [|c w IH]; intros pre rest H; [right; reflexivity|]. left.
  simpl in H. apply andb_prop in H. destruct H as [H1 H2]. apply negb_true_iff in H1.
  cbn [append PB.for_scan].
  assert (T : forall t, PB.for_tail_colon (String c t) = None).
  { intros t. apply for_tail_colon_ns. simpl. rewrite H1. reflexivity. }
  rewrite T. replace (if PB.nonempty pre then @None string else None) with (@None string) by (destruct (PB.nonempty pre); reflexivity).
  destruct (IH (pre ++ String c "")%string rest H2) as [E| ->].
  - rewrite E. rewrite sapp_cons. reflexivity.
  - cbn [append]. reflexivity.
Qed.

Lemma match_colon_tail_raw : forall kw X, X <> ""%string ->
  rstrip (kw ++ " " ++ X ++ ":")%string = (kw ++ " " ++ X ++ ":")%string ->
  PB.match_colon_tail kw (kw ++ " " ++ X ++ ":")%string = Some (" " ++ X)%string.
Proof.
  intros kw X Hne Hr. unfold PB.match_colon_tail. rewrite Hr, startswith_app_self.
  replace (kw ++ " " ++ X ++ ":")%string with ((kw ++ " " ++ X) ++ ":")%string by (rewrite !sapp_assoc; reflexivity).
  rewrite endswith_app. cbn [andb]. rewrite slen_app. cbn [String.length].
  replace (String.length (kw ++ " " ++ X) + 1 - 1) with (String.length (kw ++ " " ++ X)) by lia.
  rewrite take_app, drop_app. destruct X as [|x0 xr]; [congruence|]. reflexivity.
Qed.

Lemma rstrip_word : forall s, all_chars (fun c => negb (is_space c)) s = true -> rstrip s = s.
Proof.
  induction s as [|x s IH]; intros H; [reflexivity|].
  simpl in H. apply andb_prop in H. destruct H as [H1 H2]. apply negb_true_iff in H1.
  rewrite rstrip_cons_ne by exact H1. rewrite (IH H2). reflexivity.
Qed.

Lemma for_match_print : forall v c, word_ok v = true -> cond_header_ok c = true ->
  PB.for_match PB.for_tail_colon (" " ++ v ++ " in " ++ c)%string = Some (v, c).
Proof.
  intros v c Hv Hc.
  unfold word_ok in Hv. apply andb_prop in Hv. destruct Hv as [Hv1 Hv2].
  unfold cond_header_ok in Hc. apply andb_prop in Hc. destruct Hc as [Hc1 Hc2].
  assert (Vns : starts_ns v = true).
  { destruct v as [|v0 vr]; [discriminate|]. simpl in Hv2 |- *. apply andb_prop in Hv2. tauto. }
  assert (Cne : c <> ""%string) by (destruct c; [discriminate|discriminate]).
  unfold PB.for_match.
  assert (W : PB.ws_run (" " ++ v ++ " in " ++ c)%string = 1).
  { rewrite (ws_run_app " " _ eq_refl). rewrite (ws_run_ns _ (starts_ns_app v _ Vns)). reflexivity. }
  rewrite W. cbn [PB.for_starts]. change (drop 1 (" " ++ v ++ " in " ++ c)%string) with (v ++ String " " ("in " ++ c))%string.
  destruct (for_scan_word v "" ("in " ++ c)%string Hv2) as [E|E]; [|subst v; discriminate].
  rewrite E. change ("" ++ v)%string with v.
  assert (T : PB.for_tail_colon (String " " ("in " ++ c)%string) = Some c).
  { unfold PB.for_tail_colon. change (String " " ("in " ++ c)%string) with (" " ++ ("in " ++ c))%string.
    rewrite (ws_run_app " " _ eq_refl). change (1 <=? String.length " " + PB.ws_run ("in " ++ c)%string) with true. cbv iota.
    change (lstrip (" " ++ "in " ++ c)%string) with ("in " ++ c)%string.
    replace (startswith ("in " ++ c)%string "in") with true by reflexivity.
    change (drop 2 ("in " ++ c)%string) with (String " " c). replace (is_space " ") with true by reflexivity.
    destruct c as [|c0 cr]; [congruence|]. cbn [String.length Nat.leb andb].
    change (String " " (String c0 cr)) with (" " ++ String c0 cr)%string. rewrite strip_pad_l, (trimmed_eq _ Hc2). reflexivity. }
  destruct v as [|v0 vr]; [discriminate|]. cbn [PB.for_scan PB.nonempty]. rewrite T.
  f_equal. f_equal. apply strip_fixed; [exact Vns|apply rstrip_word, Hv2].
Qed.

Lemma match_for_colon_print : forall v c, word_ok v = true -> cond_header_ok c = true ->
  rstrip ("@for " ++ v ++ " in " ++ c ++ ":")%string = ("@for " ++ v ++ " in " ++ c ++ ":")%string ->
  PB.match_for_colon ("@for " ++ v ++ " in " ++ c ++ ":")%string = Some (v, c).
Proof.
  intros v c Hv Hc Hr. unfold PB.match_for_colon.
  assert (Xne : (v ++ " in " ++ c)%string <> ""%string).
  { unfold word_ok in Hv. apply andb_prop in Hv. destruct Hv as [Hv1 _]. destruct v; [discriminate|discriminate]. }
  pose proof (match_colon_tail_raw "@for" (v ++ " in " ++ c)%string Xne) as M.
  replace ("@for" ++ " " ++ (v ++ " in " ++ c) ++ ":")%string with ("@for " ++ v ++ " in " ++ c ++ ":")%string in M
    by (cbn [append]; rewrite !sapp_assoc; reflexivity).
  rewrite (M Hr). apply for_match_print; assumption.
Qed.

(* ------------------------------------------------------------------------------------------- *)
(* the first loop: collecting the raw body up to the matching @endfor                           *)
(* ------------------------------------------------------------------------------------------- *)
(* a line that is neither a for header nor an @endfor *)
Definition fneutral (l : string) : Prop :=
  String.eqb (strip l) "@endfor:" = false /\ PB.is_for_line (strip l) = false /\
  (startswith (strip l) "<<endfor>>" || String.eqb (strip l) "@endfor") = false.
Definition fheader (l : string) : Prop :=
  String.eqb (strip l) "@endfor:" = false /\ PB.is_for_line (strip l) = true.
Definition fcloser (l : string) : Prop :=
  String.eqb (strip l) "@endfor:" = false /\ PB.is_for_line (strip l) = false /\
  (startswith (strip l) "<<endfor>>" || String.eqb (strip l) "@endfor") = true.

(* balanced with respect to for / endfor *)
Inductive fbal : list string -> Prop :=
| fb_nil : fbal []
| fb_neutral : forall l r, fneutral l -> fbal r -> fbal (l :: r)
| fb_block : forall h body e r, fheader h -> fbal body -> fcloser e -> fbal r -> fbal (h :: body ++ e :: r).

Lemma fbal_app : forall a b, fbal a -> fbal b -> fbal (a ++ b).
Proof.
  intros a b Ha Hb. induction Ha as [|l r Hl _ IH|h body e r Hh Hbody _ He _ IH]; [exact Hb| |].
  - cbn [app]. apply fb_neutral; assumption.
  - cbn [app]. rewrite <- List.app_assoc. cbn [app]. apply fb_block; assumption.
Qed.

Lemma loop_collect_bal : forall L, fbal L -> forall start rest i d raw v c, start < i -> (0 < d)%Z ->
  PB.loop_collect start (L ++ rest) i true d raw v c =
  PB.loop_collect start rest (i + List.length L) true d (raw ++ L) v c.
Proof.
  intros L H. induction H as [|l r [N1 [N2 N3]] _ IH|h body e r [H1 H2] _ IHb [E1 [E2 E3]] _ IHr];
    intros start rest i d raw v c Hlt Hd.
  - cbn [app List.length]. rewrite Nat.add_0_r, List.app_nil_r. reflexivity.
  - cbn [app PB.loop_collect List.length]. rewrite N2, N1, N3. cbn [andb].
    rewrite (IH start rest (S i) d (raw ++ [l]) v c ltac:(lia) Hd). rewrite <- List.app_assoc. cbn [app].
    f_equal. lia.
  - cbn [app PB.loop_collect List.length]. rewrite H2, H1.
    replace (i =? start) with false by (symmetry; apply Nat.eqb_neq; lia). cbn [andb].
    rewrite <- List.app_assoc. cbn [app].
    rewrite (IHb start (e :: r ++ rest) (S i) (d + 1)%Z (raw ++ [h]) v c ltac:(lia) ltac:(lia)).
    cbn [PB.loop_collect]. rewrite E2, E1, E3. cbn [andb].
    replace (d + 1 - 1 =? 0)%Z with false by (symmetry; apply Z.eqb_neq; lia).
    replace (d + 1 - 1)%Z with d by lia.
    rewrite (IHr start rest (S (S i + List.length body)) d (((raw ++ [h]) ++ body) ++ [e]) v c ltac:(lia) Hd).
    rewrite !app_length. cbn [List.length]. rewrite <- !List.app_assoc. cbn [app].
    f_equal. lia.
Qed.

(* ---- every printed item is balanced ---- *)
Lemma fneutral_head : forall c r, Ascii.eqb c "@" = false -> Ascii.eqb c "<" = false ->
  String.eqb (String c r) "@endfor:" = false /\ PB.is_for_line (String c r) = false /\
  (startswith (String c r) "<<endfor>>" || String.eqb (String c r) "@endfor") = false.
Proof.
  intros c r H1 H2. unfold PB.is_for_line. cbn [String.eqb startswith]. unfold ascii_eqb. rewrite H1, H2.
  repeat split; reflexivity.
Qed.

Lemma fneutral_indp : forall q l, pfx q -> fneutral l -> fneutral (indp q l).
Proof. intros q l Hq H. unfold fneutral in *. rewrite (strip_indp q l Hq). exact H. Qed.

Lemma fneutral_of_strip : forall l s, strip l = s ->
  (String.eqb s "@endfor:" = false /\ PB.is_for_line s = false /\
   (startswith s "<<endfor>>" || String.eqb s "@endfor") = false) -> fneutral l.
Proof. intros l s E H. unfold fneutral. rewrite E. exact H. Qed.

Ltac neutral_strip Hr :=
  match type of Hr with rstrip ?x = _ => apply (fneutral_of_strip _ x (strip_fixed x eq_refl Hr)) end.

Ltac neutral_known := unfold PB.is_for_line; cbn [startswith append String.eqb]; repeat split; reflexivity.

Lemma choice_line_neutral : forall tx tg ar cd stk, uline_ok (choice_line tx tg ar cd stk) ->
  fneutral (choice_line tx tg ar cd stk).
Proof.
  intros tx tg ar cd stk [_ Hr]. rewrite choice_line_eq in *. destruct stk.
  - neutral_strip Hr. apply fneutral_head; reflexivity.
  - neutral_strip Hr. apply fneutral_head; reflexivity.
Qed.

Lemma fbal_neutrals : forall L, Forall fneutral L -> fbal L.
Proof. induction 1; [constructor|apply fb_neutral; assumption]. Qed.

Lemma choices_neutral : forall chs, forallb inner_choice_ok chs = true -> Forall uline_ok (print_choices chs) ->
  Forall fneutral (print_choices chs).
Proof.
  induction chs as [|[tx tg ar cd stk blk] chs IH]; intros Hok Hu; [constructor|].
  cbn [forallb] in Hok. apply andb_prop in Hok. destruct Hok as [Hc Hok].
  cbn [inner_choice_ok] in Hc. apply andb_prop in Hc. destruct Hc as [_ Hb]. destruct blk; [|discriminate].
  cbn [print_choices print_choice print_items map app] in *. inversion Hu as [|? ? Hl Hu']; subst.
  constructor; [apply choice_line_neutral, Hl|apply IH; assumption].
Qed.

Lemma py_lines_neutral : forall c, py_ok c = true -> Forall fneutral (split_char c nlc).
Proof.
  intros c H. unfold py_ok in H. cbv zeta in H. apply andb_prop in H. destruct H as [H _].
  apply Forall_forall. intros l Hl. rewrite forallb_forall in H. specialize (H l Hl).
  unfold py_line_ok in H. do 2 (apply andb_prop in H; destruct H as [H ?]).
  apply negb_true_iff in H0, H1. unfold fneutral. destruct (strip l) as [|x s] eqn:E; [neutral_known|].
  cbn [startswith] in H0, H1. unfold ascii_eqb in H0, H1. rewrite startswith_nil, andb_true_r in H0, H1.
  apply fneutral_head; assumption.
Qed.

Definition item_lines_ok (pp : pyparse) (it : item) : Prop :=
  item_ok pp false it = true /\ Forall uline_ok (print_item it).

Lemma text_item_neutral : forall ps glue, text_line_ok ps glue = true ->
  uline_ok (print_pieces ps ++ (if glue then "<>" else ""))%string ->
  fneutral (print_pieces ps ++ (if glue then "<>" else ""))%string.
Proof.
  intros ps glue Hok Hu. destruct (text_line_parts ps glue Hok Hu) as [_ [_ [_ [[c [r [E Hc]]] _]]]].
  destruct Hu as [_ Hr]. rewrite E in *. cbn [append] in *.
  destruct (bad_start_facts c Hc) as [H0 [_ [H2 [H3 _]]]].
  apply (fneutral_of_strip _ (String c (r ++ (if glue then "<>" else ""))%string)).
  - apply strip_fixed; [simpl; rewrite H0; reflexivity|exact Hr].
  - apply fneutral_head; assumption.
Qed.

Section Balanced.
Variable pp : pyparse.

Lemma forall_items_split : forall (P : item -> Prop) body, Forall P body ->
  forallb (item_ok pp false) body = true -> Forall uline_ok (print_items body) ->
  Forall (fun it => P it /\ item_lines_ok pp it) body.
Proof.
  induction 1 as [|it body Hp _ IH]; intros Hok Hu; [constructor|].
  cbn [forallb] in Hok. apply andb_prop in Hok. destruct Hok as [Hi Hok].
  cbn [print_items] in Hu. apply Forall_app in Hu. destruct Hu as [Hu1 Hu2].
  constructor; [split; [exact Hp|split; assumption]|apply IH; assumption].
Qed.

Lemma items_fbal : forall it, item_lines_ok pp it -> forall q, pfx q -> fbal (map (indp q) (print_item it)).
Proof.
  induction it using ReferenceProofs.item_ind'; intros [Hok Hu] q Hq; cbn [item_ok] in Hok.
  - (* text *)
    cbn [print_item map] in *. inversion Hu as [|? ? Hl _]; subst.
    apply fb_neutral; [|constructor]. apply fneutral_indp; [exact Hq|]. apply text_item_neutral; assumption.
  - cbn [print_item map indp]. apply fb_neutral; [|constructor]. neutral_known.
  - cbn [print_item map] in *. inversion Hu as [|? ? [_ Hr] _]; subst.
    apply fb_neutral; [|constructor]. apply fneutral_indp; [exact Hq|].
    neutral_strip Hr. apply fneutral_head; reflexivity.
  - (* py *)
    apply fbal_neutrals. cbn [print_item]. rewrite !map_app. apply Forall_app. split; [|apply Forall_app; split].
    + constructor; [|constructor]. apply fneutral_indp; [exact Hq|]. neutral_known.
    + apply Forall_forall. intros l Hl. apply in_map_iff in Hl. destruct Hl as [l0 [<- Hl0]].
      apply fneutral_indp; [exact Hq|]. pose proof (py_lines_neutral c Hok) as F. rewrite Forall_forall in F. apply F, Hl0.
    + constructor; [|constructor]. apply fneutral_indp; [exact Hq|]. neutral_known.
  - (* if *)
    apply andb_prop in Hok. destruct Hok as [_ Hok]. rewrite print_item_if in *. rewrite map_app.
    apply fbal_app; [|apply fb_neutral; [apply fneutral_indp; [exact Hq|neutral_known]|constructor]].
    apply Forall_app in Hu. destruct Hu as [Hu _].
    assert (G : forall first : bool,
              forallb (fun b : string * list item * list schoice =>
                         match b with (cond, body, chs) =>
                           cond_header_ok cond && forallb (item_ok pp false) body && forallb inner_choice_ok chs end) brs = true ->
              Forall uline_ok (print_branches brs first) -> fbal (map (indp q) (print_branches brs first)));
      [|apply G; assumption].
    clear Hok Hu.
    induction H as [|[[c0 b0] ch0] r Hb _ IHr]; intros first Hok Hu; [constructor|].
    cbn [forallb] in Hok. apply andb_prop in Hok. destruct Hok as [Hb0 Hok].
    do 2 (apply andb_prop in Hb0; destruct Hb0 as [Hb0 ?]). rename H into Hch0. rename H0 into Hbody0.
    rewrite print_branches_cons in Hu |- *. inversion Hu as [|? ? Hlh Hu']; subst.
    apply Forall_app in Hu'. destruct Hu' as [Hub Hu']. apply Forall_app in Hu'. destruct Hu' as [Huc Hur].
    cbn [map]. rewrite !map_app. apply fb_neutral.
    + apply fneutral_indp; [exact Hq|]. destruct Hlh as [_ Hr]. unfold if_header in *.
      destruct (negb first && String.eqb c0 "True"); [neutral_known|].
      destruct first; (neutral_strip Hr; apply conj; [reflexivity|split; reflexivity]).
    + apply fbal_app; [|apply fbal_app; [|apply (IHr false Hok Hur)]].
      * rewrite map_indp_nonempty. pose proof (ulines_of_nonempty _ Hub) as Hub'.
        cbn [snd fst] in Hb. clear - Hb Hbody0 Hub' Hq.
        induction Hb as [|it body Hit _ IHb]; [constructor|]. cbn [forallb] in Hbody0. apply andb_prop in Hbody0.
        destruct Hbody0 as [Hi Hbody0]. cbn [print_items] in *. apply Forall_app in Hub'. destruct Hub' as [U1 U2].
        rewrite map_app. apply fbal_app; [apply Hit; [split; assumption|apply pfx_ind4, Hq]|apply IHb; assumption].
      * rewrite map_indp_always. apply fbal_neutrals.
        pose proof (choices_neutral ch0 Hch0 (ulines_of_always _ Huc)) as F.
        apply Forall_forall. intros l Hl. apply in_map_iff in Hl. destruct Hl as [l0 [<- Hl0]].
        rewrite Forall_forall in F. specialize (F l0 Hl0). unfold fneutral in *.
        destruct (pfx_ind4 q Hq) as [Hq1 _]. rewrite (strip_app_ws _ l0 Hq1). exact F.
  - (* for *)
    do 3 (apply andb_prop in Hok; destruct Hok as [Hok ?]). rename H0 into Hch. rename H1 into Hbody. rename H2 into Hc.
    rewrite print_item_for in *. inversion Hu as [|? ? Hlh Hu']; subst.
    apply Forall_app in Hu'. destruct Hu' as [Hub Hu']. apply Forall_app in Hu'. destruct Hu' as [Huc _].
    cbn [map]. rewrite !map_app. rewrite List.app_assoc. cbn [map indp].
    apply (fb_block _ _ (q ++ "@endfor")%string []).
    + destruct Hlh as [_ Hr]. unfold fheader.
      change (indp q ("@for " ++ v ++ " in " ++ c ++ ":")%string) with (q ++ "@for " ++ v ++ " in " ++ c ++ ":")%string.
      rewrite (strip_pfx q ("@for " ++ v ++ " in " ++ c ++ ":")%string Hq eq_refl Hr).
      split; [reflexivity|unfold PB.is_for_line; cbn [startswith append]; rewrite ?startswith_nil; reflexivity].
    + apply fbal_app.
      * rewrite map_indp_nonempty. pose proof (ulines_of_nonempty _ Hub) as Hub'. clear - H Hbody Hub' Hq.
        induction H as [|it body Hit _ IHb]; [constructor|]. cbn [forallb] in Hbody. apply andb_prop in Hbody.
        destruct Hbody as [Hi Hbody]. cbn [print_items] in *. apply Forall_app in Hub'. destruct Hub' as [U1 U2].
        rewrite map_app. apply fbal_app; [apply Hit; [split; assumption|apply pfx_ind4, Hq]|apply IHb; assumption].
      * rewrite map_indp_always. apply fbal_neutrals.
        pose proof (choices_neutral chs Hch (ulines_of_always _ Huc)) as F.
        apply Forall_forall. intros l Hl. apply in_map_iff in Hl. destruct Hl as [l0 [<- Hl0]].
        rewrite Forall_forall in F. specialize (F l0 Hl0). unfold fneutral in *.
        destruct (pfx_ind4 q Hq) as [Hq1 _]. rewrite (strip_app_ws _ l0 Hq1). exact F.
    + unfold fcloser. destruct Hq as [Hq1 _]. rewrite (strip_app_ws q _ Hq1). repeat split; reflexivity.
    + constructor.
  - (* jump *)
    cbn [print_item map] in *. inversion Hu as [|? ? [_ Hr] _]; subst.
    apply fb_neutral; [|constructor]. apply fneutral_indp; [exact Hq|].
    neutral_strip Hr. apply fneutral_head; reflexivity.
  - cbn [print_item map] in *. inversion Hu as [|? ? [_ Hr] _]; subst.
    apply fb_neutral; [|constructor]. apply fneutral_indp; [exact Hq|].
    neutral_strip Hr. neutral_known.
  - cbn [print_item map] in *. inversion Hu as [|? ? [_ Hr] _]; subst.
    apply fb_neutral; [|constructor]. apply fneutral_indp; [exact Hq|].
    neutral_strip Hr. neutral_known.
  - cbn [print_item map] in *. inversion Hu as [|? ? [_ Hr] _]; subst.
    apply fb_neutral; [|constructor]. apply fneutral_indp; [exact Hq|]. destruct a.
    + neutral_strip Hr. neutral_known.
    + neutral_strip Hr. neutral_known.
  - discriminate.
Qed.

End Balanced.

(* ===== part 20 ===== *)
Local Open Scope string_scope.
Local Open Scope nat_scope.
Local Open Scope list_scope.

(* ------------------------------------------------------------------------------------------- *)
(* the second loop of extract_loop_block, over the dedented body                                *)
(* ------------------------------------------------------------------------------------------- *)
Inductive lkind :=
| LComment | LPy | LInput | LRender | LHook | LUnhook | LStmt | LFor | LIf | LJump | LChoice | LText.

Definition classify_l (line : string) : lkind :=
  let stripped := strip line in
  if startswith stripped "#" then LComment
  else if PB.is_py_line stripped then LPy
  else if startswith stripped "@input" then LInput
  else if startswith stripped "@render" then LRender
  else if startswith stripped "@hook " then LHook
  else if startswith stripped "@unhook " then LUnhook
  else if startswith line "~ " then LStmt
  else if PB.is_for_line stripped then LFor
  else if PB.is_if_line stripped then LIf
  else if startswith stripped "->" then LJump
  else if PB.is_choice_line stripped then LChoice
  else LText.

Ltac lchain H :=
  unfold classify_l in H; unfold PB.body_step; cbv zeta in H |- *;
  repeat match type of H with
  | (if ?b then _ else _) = _ => destruct b eqn:?; try discriminate H
  end.

Ltac kind_l := unfold classify_l, PB.is_py_line, PB.is_if_line, PB.is_for_line, PB.is_choice_line;
               cbv zeta; cbn [startswith append]; rewrite ?startswith_nil; reflexivity.

Section LoopCtx.
Variable pp : pyparse.
Variable rec_cond rec_loop : list string -> nat -> pres (token * nat).
Notation bstep := (PB.body_step true rlf rec_cond rec_loop).
Notation bgo := (PB.body_go true rlf rec_cond rec_loop).

Lemma bstep_text : forall ded j line content chs, classify_l line = LText ->
  bstep ded j line content chs =
  (let* content' := PB.content_line_glue rlf content line in POk (content', chs, 1)).
Proof. intros ded j line content chs H. lchain H. reflexivity. Qed.

Lemma bstep_stmt : forall ded j line content chs, classify_l line = LStmt ->
  bstep ded j line content chs =
  (let ck := PB.py_statement rlf ded j (drop 2 line) in POk (content ++ [TPyStmt (fst ck)], chs, snd ck)).
Proof. intros ded j line content chs H. lchain H. reflexivity. Qed.

Lemma bstep_py : forall ded j line content chs, classify_l line = LPy ->
  bstep ded j line content chs =
  (let* ck := PB.extract_python_block_v true ded j in POk (content ++ [TPyBlock (fst ck)], chs, snd ck)).
Proof. intros ded j line content chs H. lchain H. reflexivity. Qed.

Lemma bstep_input : forall ded j line content chs, classify_l line = LInput ->
  bstep ded j line content chs =
  (let* d := PB.lf_input rlf line in POk (match d with Some t => content ++ [t] | None => content end, chs, 1)).
Proof. intros ded j line content chs H. lchain H. reflexivity. Qed.

Lemma bstep_render : forall ded j line content chs, classify_l line = LRender ->
  bstep ded j line content chs =
  (let* d := PB.lf_render rlf line in POk (match d with Some t => content ++ [t] | None => content end, chs, 1)).
Proof. intros ded j line content chs H. lchain H. reflexivity. Qed.

Lemma bstep_hook : forall ded j line content chs, classify_l line = LHook ->
  bstep ded j line content chs =
  POk (match PB.hook_parts (strip line) with Some (e, t) => content ++ [THook true e t] | None => content end, chs, 1).
Proof. intros ded j line content chs H. lchain H. reflexivity. Qed.

Lemma bstep_unhook : forall ded j line content chs, classify_l line = LUnhook ->
  bstep ded j line content chs =
  POk (match PB.hook_parts (strip line) with Some (e, t) => content ++ [THook false e t] | None => content end, chs, 1).
Proof. intros ded j line content chs H. lchain H. reflexivity. Qed.

Lemma bstep_for : forall ded j line content chs, classify_l line = LFor ->
  bstep ded j line content chs = (let* tk := rec_loop ded j in POk (content ++ [fst tk], chs, snd tk)).
Proof. intros ded j line content chs H. lchain H. reflexivity. Qed.

Lemma bstep_if : forall ded j line content chs, classify_l line = LIf ->
  bstep ded j line content chs = (let* tk := rec_cond ded j in POk (content ++ [fst tk], chs, snd tk)).
Proof. intros ded j line content chs H. lchain H. reflexivity. Qed.

Lemma bstep_jump : forall ded j line content chs, classify_l line = LJump ->
  bstep ded j line content chs =
  POk (match PB.jump_of rlf (strip line) with Some ta => content ++ [TJump (fst ta) (snd ta)] | None => content end, chs, 1).
Proof. intros ded j line content chs H. lchain H. reflexivity. Qed.

Lemma bstep_choice : forall ded j line content chs, classify_l line = LChoice ->
  bstep ded j line content chs =
  (let* ch := PB.lf_choice rlf (strip line) in POk (content, match ch with Some c => chs ++ [c] | None => chs end, 1)).
Proof. intros ded j line content chs H. lchain H. reflexivity. Qed.

Lemma bgo_step : forall ded line rest j content chs content' chs' k,
  bstep ded j line content chs = POk (content', chs', S k) ->
  bgo ded (line :: rest) j 0 content chs = bgo ded rest (S j) k content' chs'.
Proof. intros ded line rest j content chs content' chs' k H. cbn [PB.body_go]. rewrite H. reflexivity. Qed.

Lemma bgo_skip : forall ded L rest j content chs,
  bgo ded (L ++ rest) j (List.length L) content chs = bgo ded rest (j + List.length L) 0 content chs.
Proof.
  intros ded L. induction L as [|l L IH]; intros rest j content chs.
  - cbn [app List.length]. rewrite Nat.add_0_r. reflexivity.
  - cbn [app List.length PB.body_go]. rewrite IH. f_equal. lia.
Qed.

(* an item's lines (at column 0 of the dedented body) append c_item it to the content *)
Definition loop_item_steps (it : item) : Prop :=
  forall ded j rest content chs,
    skipn j ded = print_item it ++ rest -> j <= List.length ded ->
    bgo ded (print_item it ++ rest) j 0 content chs =
    bgo ded rest (j + List.length (print_item it)) 0 (content ++ c_item it) chs.

Notation litem := loop_item_steps.

Lemma loop_single : forall it l, print_item it = [l] ->
  (forall ded j content chs, bstep ded j l content chs = POk (content ++ c_item it, chs, 1)) -> litem it.
Proof.
  intros it l Hp Hs ded j rest content chs Hsk Hj. rewrite Hp. cbn [app List.length].
  rewrite (bgo_step ded l rest j content chs _ _ 0 (Hs ded j content chs)). rewrite Nat.add_1_r. reflexivity.
Qed.

Lemma classify_l_plain : forall c r, bad_start c = false -> rstrip (String c r) = String c r ->
  classify_l (String c r) = LText.
Proof.
  intros c r H Hr. destruct (bad_start_facts c H) as [H0 [H1 [H2 [H3 [H4 [H5 [H6 [H7 H8]]]]]]]].
  unfold classify_l. cbv zeta. rewrite strip_fixed; [|simpl; rewrite H0; reflexivity|exact Hr].
  unfold PB.is_py_line, PB.is_if_line, PB.is_for_line, PB.is_choice_line.
  cbn [startswith String.eqb]. unfold ascii_eqb. rewrite ?H1, ?H2, ?H3, ?H4, ?H5, ?H6, ?H7, ?H8. reflexivity.
Qed.

Lemma loop_textish : forall it, textish it = true ->
  (forall ps g, it = IText ps g -> text_line_ok ps g = true) -> Forall uline_ok (print_item it) -> litem it.
Proof.
  intros it Ht Hok Hul. destruct it; try discriminate.
  - cbn [print_item] in Hul. inversion Hul as [|? ? Hl _]; subst.
    apply (loop_single (IText ps glue) _ eq_refl). intros ded j content chs.
    destruct (text_line_parts ps glue (Hok _ _ eq_refl) Hl) as [_ [_ [_ [[c [r [E Hc]]] _]]]].
    assert (K : classify_l (print_pieces ps ++ (if glue then "<>" else ""))%string = LText).
    { destruct Hl as [_ Hr]. rewrite E in *. cbn [append] in *. apply classify_l_plain; assumption. }
    rewrite (bstep_text ded j _ content chs K).
    rewrite (content_line_glue_text ps glue content (Hok _ _ eq_refl) Hl). reflexivity.
  - apply (loop_single IBlank _ eq_refl). intros ded j content chs.
    rewrite (bstep_text ded j "" content chs eq_refl). reflexivity.
Qed.

Lemma loop_stmt : forall c, stmt_ok pp c = true -> Forall uline_ok (print_item (IStmt c)) -> litem (IStmt c).
Proof.
  intros c Hok Hul. cbn [print_item] in Hul. inversion Hul as [|? ? Hl _]; subst.
  destruct (stmt_ok_weaken pp c Hok) as [Hn [Ht Ho]]. destruct (stmt_line_facts c Hn Ht Hl) as [F1 [F2 F3]].
  apply (loop_single (IStmt c) _ eq_refl). intros ded j content chs. destruct Hl as [_ Hr].
  assert (K : classify_l ("~ " ++ c)%string = LStmt).
  { unfold classify_l. cbv zeta. rewrite (strip_fixed ("~ " ++ c)%string eq_refl Hr).
    unfold PB.is_py_line. cbn [startswith append]. rewrite ?startswith_nil. reflexivity. }
  rewrite (bstep_stmt ded j _ content chs K). change (drop 2 ("~ " ++ c)%string) with c.
  rewrite (py_statement_one ded j c Ht Ho F3). reflexivity.
Qed.

Lemma loop_jump : forall t a, valid_passage_pattern t = true -> paren_free a = true ->
  Forall uline_ok (print_item (IJump t a)) -> litem (IJump t a).
Proof.
  intros t a Ht Ha Hul. cbn [print_item] in Hul. inversion Hul as [|? ? Hl _]; subst.
  apply (loop_single (IJump t a) _ eq_refl). intros ded j content chs. pose proof Hl as [_ Hr].
  assert (Sq : strip ("-> " ++ t ++ print_args a)%string = ("-> " ++ t ++ print_args a)%string)
    by (apply strip_fixed; [reflexivity|exact Hr]).
  rewrite (bstep_jump ded j _ content chs) by (unfold classify_l, PB.is_py_line, PB.is_if_line, PB.is_for_line, PB.is_choice_line; cbv zeta; rewrite Sq; cbn [startswith append]; rewrite ?startswith_nil; reflexivity).
  rewrite Sq, (jump_of_print t a Ht Ha Hl). reflexivity.
Qed.

Lemma loop_render : forall n a, render_ok n a = true -> Forall uline_ok (print_item (IRender n a)) -> litem (IRender n a).
Proof.
  intros n a Hok Hul. cbn [print_item] in Hul. inversion Hul as [|? ? Hl _]; subst.
  apply (loop_single (IRender n a) _ eq_refl). intros ded j content chs. pose proof Hl as [_ Hr].
  assert (Sq : strip ("@render " ++ n ++ "(" ++ a ++ ")")%string = ("@render " ++ n ++ "(" ++ a ++ ")")%string)
    by (apply strip_fixed; [reflexivity|exact Hr]).
  rewrite (bstep_render ded j _ content chs) by (unfold classify_l, PB.is_py_line, PB.is_if_line, PB.is_for_line, PB.is_choice_line; cbv zeta; rewrite Sq; cbn [startswith append]; rewrite ?startswith_nil; reflexivity).
  cbn [PB.lf_render rlf]. pose proof (render_line_print "" n a pfx_nil Hok Hl) as R.
  change (parse_render_line false ("@render " ++ n ++ "(" ++ a ++ ")")%string)
    with (parse_render_line false ("" ++ "@render " ++ n ++ "(" ++ a ++ ")")%string). rewrite R.
  reflexivity.
Qed.

Lemma loop_input : forall attrs, input_ok attrs = true -> Forall uline_ok (print_item (IInput attrs)) -> litem (IInput attrs).
Proof.
  intros attrs Hok Hul. cbn [print_item] in Hul. inversion Hul as [|? ? Hl _]; subst.
  apply (loop_single (IInput attrs) _ eq_refl). intros ded j content chs. pose proof Hl as [_ Hr].
  assert (Sq : strip ("@input name=" ++ String dquote (input_name attrs ++ String dquote ""))%string =
               ("@input name=" ++ String dquote (input_name attrs ++ String dquote ""))%string)
    by (apply strip_fixed; [reflexivity|exact Hr]).
  rewrite (bstep_input ded j _ content chs) by (unfold classify_l, PB.is_py_line, PB.is_if_line, PB.is_for_line, PB.is_choice_line; cbv zeta; rewrite Sq; cbn [startswith append]; rewrite ?startswith_nil; reflexivity).
  cbn [PB.lf_input rlf]. pose proof (input_line_print "" attrs pfx_nil Hok Hl) as R.
  change (parse_input_line false ("@input name=" ++ String dquote (input_name attrs ++ String dquote ""))%string)
    with (parse_input_line false ("" ++ "@input name=" ++ String dquote (input_name attrs ++ String dquote ""))%string).
  rewrite R. reflexivity.
Qed.

Lemma loop_hook : forall (add : bool) e t, word_ok e = true -> word_ok t = true ->
  Forall uline_ok (print_item (IHook add e t)) -> litem (IHook add e t).
Proof.
  intros add e t He Ht Hul. cbn [print_item] in Hul. inversion Hul as [|? ? Hl _]; subst.
  apply (loop_single (IHook add e t) _ eq_refl). intros ded j content chs. pose proof Hl as [_ Hr].
  assert (Sq : strip ((if add then "@hook " else "@unhook ") ++ e ++ " " ++ t)%string =
               ((if add then "@hook " else "@unhook ") ++ e ++ " " ++ t)%string)
    by (apply strip_fixed; [destruct add; reflexivity|exact Hr]).
  destruct add.
  - rewrite (bstep_hook ded j _ content chs) by (unfold classify_l, PB.is_py_line, PB.is_if_line, PB.is_for_line, PB.is_choice_line; cbv zeta; rewrite Sq; cbn [startswith append]; rewrite ?startswith_nil; reflexivity).
    rewrite Sq, (hook_parts_print true e t He Ht). reflexivity.
  - rewrite (bstep_unhook ded j _ content chs) by (unfold classify_l, PB.is_py_line, PB.is_if_line, PB.is_for_line, PB.is_choice_line; cbv zeta; rewrite Sq; cbn [startswith append]; rewrite ?startswith_nil; reflexivity).
    rewrite Sq, (hook_parts_print false e t He Ht). reflexivity.
Qed.

(* blocks in the body: one step, then the lines are skipped *)
Lemma loop_block : forall it l more tok, print_item it = l :: more -> c_item it = [tok] ->
  (forall ded j content chs, (exists pre post, ded = pre ++ print_item it ++ post /\ List.length pre = j) ->
     bstep ded j l content chs = POk (content ++ [tok], chs, List.length (print_item it))) -> litem it.
Proof.
  intros it l more tok Hp Hc Hs ded j rest content chs Hsk Hj.
  destruct (split_at ded j _ _ Hsk Hj) as [EL Elen].
  pose proof (Hs ded j content chs ltac:(exists (firstn j ded), rest; split; assumption)) as St.
  rewrite Hp in *. cbn [app List.length] in *.
  rewrite (bgo_step ded l (more ++ rest) j content chs _ _ _ St). rewrite bgo_skip, Hc. f_equal. lia.
Qed.

Lemma map_indp_nil : forall L, map (indp "") L = L.
Proof. intros L. rewrite <- (map_id L) at 2. apply map_ext. apply indp_nil_prefix. Qed.

Lemma loop_py : forall c, py_ok c = true -> litem (IPy c).
Proof.
  intros c Hok. apply (loop_block (IPy c) "@py:"%string (split_char c nlc ++ ["@endpy"]) (TPyBlock c) eq_refl eq_refl).
  intros ded j content chs [pre [post [EL Elen]]].
  rewrite (bstep_py ded j "@py:" content chs eq_refl).
  pose proof (py_block_at "" c pre post pfx_nil Hok) as P. rewrite map_indp_nil in P.
  rewrite EL, <- Elen, P. reflexivity.
Qed.

Lemma loop_nested_if : forall brs tok, brs <> [] ->
  Forall uline_ok (print_item (IIf brs)) -> c_item (IIf brs) = [tok] ->
  rec_gives rec_cond "" (IIf brs) tok -> litem (IIf brs).
Proof.
  intros brs tok Hne Hul Hc Hrec. destruct brs as [|[[c0 b0] ch0] r]; [congruence|].
  assert (Ep : print_item (IIf ((c0, b0, ch0) :: r)) =
               ("@if " ++ c0 ++ ":")%string :: (map indent_nonempty (print_items b0) ++ map indent_always (print_choices ch0) ++
                                               print_branches r false) ++ ["@endif"]).
  { rewrite print_item_if, print_branches_cons. reflexivity. }
  rewrite Ep in Hul. inversion Hul as [|? ? Hl _]; subst.
  apply (loop_block _ _ _ tok Ep Hc). intros ded j content chs [pre [post [EL Elen]]]. destruct Hl as [_ Hr].
  assert (Sq : strip ("@if " ++ c0 ++ ":")%string = ("@if " ++ c0 ++ ":")%string)
    by (apply strip_fixed; [reflexivity|exact Hr]).
  rewrite (bstep_if ded j _ content chs)
    by (unfold classify_l, PB.is_py_line, PB.is_for_line, PB.is_if_line; cbv zeta; rewrite Sq;
        cbn [startswith append]; rewrite ?startswith_nil; reflexivity).
  pose proof (Hrec pre post) as P. rewrite map_indp_nil in P. rewrite EL, <- Elen, P. reflexivity.
Qed.

Lemma loop_nested_for : forall v c body chs tok,
  Forall uline_ok (print_item (IFor v c body chs)) -> c_item (IFor v c body chs) = [tok] ->
  rec_gives rec_loop "" (IFor v c body chs) tok -> litem (IFor v c body chs).
Proof.
  intros v c body chs tok Hul Hc Hrec. pose proof (print_item_for v c body chs) as Ep.
  rewrite Ep in Hul. inversion Hul as [|? ? Hl _]; subst.
  apply (loop_block _ _ _ tok Ep Hc). intros ded j content chs' [pre [post [EL Elen]]]. destruct Hl as [_ Hr].
  assert (Sq : strip ("@for " ++ v ++ " in " ++ c ++ ":")%string = ("@for " ++ v ++ " in " ++ c ++ ":")%string)
    by (apply strip_fixed; [reflexivity|exact Hr]).
  rewrite (bstep_for ded j _ content chs')
    by (unfold classify_l, PB.is_py_line, PB.is_for_line, PB.is_if_line; cbv zeta; rewrite Sq;
        cbn [startswith append]; rewrite ?startswith_nil; reflexivity).
  pose proof (Hrec pre post) as P. rewrite map_indp_nil in P. rewrite EL, <- Elen, P. reflexivity.
Qed.

(* ---- the items and the choices of the body ---- *)
Lemma loop_items_run : forall body, Forall litem body ->
  forall ded j rest content chs, skipn j ded = print_items body ++ rest -> j <= List.length ded ->
    bgo ded (print_items body ++ rest) j 0 content chs =
    bgo ded rest (j + List.length (print_items body)) 0 (content ++ c_items body) chs.
Proof.
  intros body H. induction H as [|it body Hit _ IH]; intros ded j rest content chs Hsk Hj.
  - cbn [print_items app List.length c_items]. rewrite Nat.add_0_r, List.app_nil_r. reflexivity.
  - cbn [print_items c_items] in *. rewrite <- List.app_assoc in Hsk |- *.
    rewrite (Hit ded j _ content chs Hsk Hj). destruct (skipn_more ded j _ _ Hsk Hj) as [Hsk2 Hj2].
    rewrite (IH ded _ rest _ chs Hsk2 Hj2). rewrite app_length, Nat.add_assoc, <- List.app_assoc. reflexivity.
Qed.

Lemma loop_choices_run : forall chs, forallb inner_choice_ok chs = true -> Forall uline_ok (print_choices chs) ->
  forall ded j rest content acc, skipn j ded = print_choices chs ++ rest -> j <= List.length ded ->
    bgo ded (print_choices chs ++ rest) j 0 content acc =
    bgo ded rest (j + List.length (print_choices chs)) 0 content (acc ++ map (c_choice 0) chs).
Proof.
  induction chs as [|ch chs IH]; intros Hok Hul ded j rest content acc Hsk Hj.
  - cbn [print_choices app List.length map]. rewrite Nat.add_0_r, List.app_nil_r. reflexivity.
  - cbn [forallb] in Hok. apply andb_prop in Hok. destruct Hok as [Hch Hok].
    cbn [print_choices] in *. apply Forall_app in Hul. destruct Hul as [Hu1 Hu2].
    assert (Hl1 : lines_ok (print_choice ch)) by (eapply Forall_impl; [|exact Hu1]; apply uline_line_ok).
    destruct (inner_choice_print ch Hch Hl1) as [l [Ep [Hns [Hlo Hpc]]]]. rewrite Ep in *.
    cbn [app List.length] in *. destruct (line_ok_parts _ Hlo) as [Hcl Hrs].
    assert (Sq : strip l = l) by (apply strip_fixed; assumption).
    assert (K : classify_l l = LChoice).
    { destruct ch as [tx tg ar cd stk blk]. cbn [print_choice] in Ep. injection Ep as <-. rewrite choice_line_eq in *.
      unfold classify_l. cbv zeta. rewrite Sq. destruct stk;
        unfold PB.is_py_line, PB.is_if_line, PB.is_for_line, PB.is_choice_line; cbn [startswith append];
        rewrite ?startswith_nil; reflexivity. }
    assert (St : bstep ded j l content acc = POk (content, acc ++ [c_choice 0 ch], 1)).
    { rewrite (bstep_choice ded j l content acc K). rewrite Sq. cbn [PB.lf_choice rlf]. rewrite Hpc. reflexivity. }
    rewrite (bgo_step ded l _ j content acc _ _ 0 St).
    destruct (skipn_more ded j [l] _ Hsk Hj) as [Hsk2 Hj2]. cbn [List.length] in Hsk2, Hj2. rewrite Nat.add_1_r in Hsk2, Hj2.
    rewrite (IH Hok Hu2 ded (S j) rest content _ Hsk2 Hj2). cbn [map]. rewrite <- List.app_assoc. cbn [app].
    f_equal. lia.
Qed.

End LoopCtx.

(* ===== part 21 ===== *)
Local Open Scope string_scope.
Local Open Scope nat_scope.
Local Open Scope list_scope.

(* ------------------------------------------------------------------------------------------- *)
(* the first non-empty line of a block body                                                     *)
(* ------------------------------------------------------------------------------------------- *)
Fixpoint first_both (L : list string) : Prop :=
  match L with
  | [] => True
  | l :: r => match l with
              | EmptyString => first_both r
              | _ => starts_ns l = true /\ startswith l "#" = false
              end
  end.

Lemma first_both_ns : forall L, first_both L -> first_ns L.
Proof. induction L as [|l r IH]; intros H; [exact I|]. destruct l; cbn in *; [apply IH, H|tauto]. Qed.

Lemma first_both_app : forall a b, first_both a -> (Forall (fun l => l = ""%string) a -> first_both b) -> first_both (a ++ b).
Proof.
  induction a as [|l r IH]; intros b Ha Hb; [apply Hb; constructor|].
  destruct l as [|c s]; cbn [app first_both] in *.
  - apply IH; [exact Ha|]. intros F. apply Hb. constructor; [reflexivity|exact F].
  - exact Ha.
Qed.

Lemma first_both_cons : forall l r, starts_ns l = true -> startswith l "#" = false -> first_both (l :: r).
Proof. intros [|c s] r H1 H2; [discriminate|]. cbn. split; assumption. Qed.

Section FirstLine.
Variable pp : pyparse.

Lemma item_first_line : forall it, item_ok pp false it = true -> Forall uline_ok (print_item it) ->
  first_both (print_item it).
Proof.
  intros it Hok Hu. destruct it as [ps glue| |c|c|brs|v c body chs|t a|n a|attrs|add e t|]; cbn [item_ok] in Hok.
  - cbn [print_item] in *. inversion Hu as [|? ? Hl _]; subst.
    destruct (text_line_parts ps glue Hok Hl) as [_ [_ [_ [[ch [r [E Hc]]] _]]]]. rewrite E. cbn [append].
    destruct (bad_start_facts ch Hc) as [H0 [H1 _]]. cbn. unfold ascii_eqb. rewrite H0, H1. split; reflexivity.
  - exact I.
  - cbn. split; reflexivity.
  - cbn. split; reflexivity.
  - rewrite print_item_if. destruct brs as [|[[c0 b0] ch0] r]; [discriminate|]. rewrite print_branches_cons.
    unfold if_header. cbn [negb andb app]. cbn. split; reflexivity.
  - rewrite print_item_for. cbn. split; reflexivity.
  - cbn. split; reflexivity.
  - cbn. split; reflexivity.
  - cbn. split; reflexivity.
  - destruct add; cbn; split; reflexivity.
  - discriminate.
Qed.

Lemma print_item_nonnil : forall it, print_item it <> [].
Proof.
  intros it. destruct it as [ps glue| |c|c|brs|v c body chs|t a|n a|attrs|add e t|]; cbn [print_item]; try discriminate.
  - destruct brs as [|[[c0 b0] ch0] r]; cbn; discriminate.
Qed.

Lemma all_empty_first : forall L, Forall (fun l => l = ""%string) L -> first_both L.
Proof. induction 1 as [|l r Hl _ IH]; [exact I|]. subst l. exact IH. Qed.

Lemma items_first : forall body X, forallb (item_ok pp false) body = true -> Forall uline_ok (print_items body) ->
  first_both X -> first_both (print_items body ++ X).
Proof.
  induction body as [|it body IH]; intros X Hok Hu HX; [exact HX|].
  cbn [forallb] in Hok. apply andb_prop in Hok. destruct Hok as [Hi Hok].
  cbn [print_items] in *. apply Forall_app in Hu. destruct Hu as [Hu1 Hu2].
  rewrite <- List.app_assoc. apply first_both_app; [apply item_first_line; assumption|].
  intros _. apply IH; assumption.
Qed.

Lemma choices_first : forall chs, forallb inner_choice_ok chs = true -> first_both (print_choices chs).
Proof.
  intros [|[tx tg ar cd stk blk] chs] H; [exact I|]. cbn [print_choices print_choice app].
  rewrite choice_line_eq. destruct stk; cbn; split; reflexivity.
Qed.

End FirstLine.

Lemma dlc_identity : forall q L, pfx q -> Forall solid L -> first_both L ->
  PB.drop_leading_comments (map (indp q) L) = map (indp q) L.
Proof.
  intros q L Hq. induction L as [|l r IH]; intros Hs Hf; [reflexivity|].
  inversion Hs as [|? ? Hl Hr]; subst. destruct l as [|c s].
  - cbn [map indp PB.drop_leading_comments]. replace (startswith (strip "") "#") with false by reflexivity.
    replace (negb (PB.nonempty (strip ""))) with true by reflexivity. cbn [first_both] in Hf. rewrite (IH Hr Hf). reflexivity.
  - cbn [first_both] in Hf. destruct Hf as [F1 F2]. cbn [map indp PB.drop_leading_comments].
    destruct Hq as [Hq1 _]. rewrite (strip_app_ws q _ Hq1).
    assert (E : exists r', strip (String c s) = String c r').
    { simpl in F1. apply negb_true_iff in F1. rewrite (strip_cons_ne c s F1). eauto. }
    destruct E as [r' E]. rewrite E. cbn [startswith] in F2 |- *. cbn [PB.nonempty negb].
    destruct (ascii_eqb c "#"); [|reflexivity]. cbn [andb] in F2. rewrite startswith_nil in F2. discriminate.
Qed.

Lemma map_always_indp : forall q C, Forall (fun l => l <> ""%string) C ->
  map (fun l => (q ++ l)%string) C = map (indp q) C.
Proof.
  intros q C H. apply map_ext_in. intros l Hl. rewrite Forall_forall in H. symmetry. apply indp_ne, H, Hl.
Qed.

Lemma choices_nonempty : forall chs, Forall (fun l => l <> ""%string) (print_choices chs) \/ True.
Proof. right. exact I. Qed.

Lemma first_both_nonempty_lines : forall chs, forallb inner_choice_ok chs = true ->
  Forall (fun l => l <> ""%string) (print_choices chs).
Proof.
  induction chs as [|[tx tg ar cd stk blk] chs IH]; intros H; [constructor|].
  cbn [forallb] in H. apply andb_prop in H. destruct H as [Hc H]. cbn [inner_choice_ok] in Hc.
  apply andb_prop in Hc. destruct Hc as [_ Hb]. destruct blk; [|discriminate].
  cbn [print_choices print_choice print_items map app]. constructor; [|apply IH, H].
  rewrite choice_line_eq. destruct stk; discriminate.
Qed.

(* ------------------------------------------------------------------------------------------- *)
(* the whole @for block                                                                         *)
(* ------------------------------------------------------------------------------------------- *)
Section LoopBlock.
Variable pp : pyparse.
Variable rec_cond rec_loop : list string -> nat -> pres (token * nat).

Lemma loop_body_print : forall q v c body chs pre post, pfx q ->
  word_ok v = true -> cond_header_ok c = true ->
  Forall (loop_item_steps rec_cond rec_loop) body -> forallb (item_ok pp false) body = true ->
  forallb inner_choice_ok chs = true -> Forall uline_ok (print_item (IFor v c body chs)) ->
  fbal (map (indp (q ++ ind4)%string) (print_items body)) ->
  PB.loop_body true rlf rec_cond rec_loop (pre ++ map (indp q) (print_item (IFor v c body chs)) ++ post) (List.length pre) =
  POk (TLoop v c (c_items body) (map (c_choice 0) chs), List.length (print_item (IFor v c body chs))).
Proof.
  intros q v c body chs pre post Hq Hv Hc Hit Hbody Hch Hu Hbal.
  pose proof (pfx_ind4 q Hq) as Hq'. rewrite print_item_for in *.
  inversion Hu as [|? ? Hlh Hu']; subst.
  apply Forall_app in Hu'. destruct Hu' as [Hub Hu']. apply Forall_app in Hu'. destruct Hu' as [Huc _].
  pose proof (ulines_of_nonempty _ Hub) as HuB. pose proof (ulines_of_always _ Huc) as HuC.
  set (hdr := ("@for " ++ v ++ " in " ++ c ++ ":")%string) in *.
  set (B := print_items body) in *. set (C := print_choices chs) in *.
  set (L := B ++ C).
  assert (ERAW : map (indp (q ++ ind4)%string) B ++ map (fun l => ((q ++ ind4) ++ l)%string) C =
                 map (indp (q ++ ind4)%string) L).
  { unfold L. rewrite map_app. f_equal. apply map_always_indp. apply first_both_nonempty_lines, Hch. }
  set (RAW := map (indp (q ++ ind4)%string) L) in *.
  set (lines := pre ++ map (indp q) (hdr :: map indent_nonempty B ++ map indent_always C ++ ["@endfor"]) ++ post).
  set (start := List.length pre).
  assert (Hsk : skipn start lines = (q ++ hdr)%string :: RAW ++ (q ++ "@endfor")%string :: post).
  { unfold lines, start. rewrite skipn_app, skipn_all, Nat.sub_diag. cbn [skipn app map].
    replace (indp q hdr) with (q ++ hdr)%string by reflexivity.
    rewrite !map_app, map_indp_nonempty, map_indp_always. cbn [map indp].
    f_equal. rewrite <- ERAW. rewrite <- !List.app_assoc. reflexivity. }
  (* the first loop *)
  destruct Hlh as [Hcl Hrr].
  assert (Sq : strip (q ++ hdr)%string = hdr) by (apply strip_pfx; [exact Hq|reflexivity|exact Hrr]).
  assert (Bal : fbal RAW).
  { unfold RAW, L. rewrite map_app. apply fbal_app; [exact Hbal|]. apply fbal_neutrals.
    pose proof (choices_neutral chs Hch HuC) as F. fold C in F.
    apply Forall_forall. intros l Hl. apply in_map_iff in Hl. destruct Hl as [l0 [<- Hl0]].
    apply fneutral_indp; [exact Hq'|]. rewrite Forall_forall in F. apply F, Hl0. }
  assert (Coll : PB.loop_collect start (skipn start lines) start false 0 [] "" "" =
                 POk (true, S (S start + List.length RAW), RAW, v, c)).
  { rewrite Hsk. cbn [PB.loop_collect]. rewrite Sq, Nat.eqb_refl.
    replace (PB.is_for_line hdr) with true
      by (symmetry; unfold hdr, PB.is_for_line; cbn [startswith append]; rewrite ?startswith_nil; reflexivity).
    cbn [andb]. rewrite (sic_clean hdr Hcl). cbn [fst].
    replace (startswith hdr "@for ") with true
      by (symmetry; unfold hdr; cbn [startswith append]; rewrite ?startswith_nil; reflexivity).
    unfold hdr at 1. rewrite (match_for_colon_print v c Hv Hc Hrr).
    rewrite (loop_collect_bal RAW Bal start _ (S start) 1%Z [] v c ltac:(lia) ltac:(lia)).
    cbn [PB.loop_collect app].
    assert (Se : strip (q ++ "@endfor")%string = "@endfor"%string)
      by (destruct Hq as [Hq1 _]; rewrite (strip_app_ws q _ Hq1); reflexivity).
    rewrite Se. replace (PB.is_for_line "@endfor") with false by reflexivity.
    replace (String.eqb "@endfor" "@endfor:") with false by reflexivity. rewrite ?andb_false_r.
    replace (startswith "@endfor" "<<endfor>>" || String.eqb "@endfor" "@endfor") with true by reflexivity.
    replace (1 - 1 =? 0)%Z with true by reflexivity. reflexivity. }
  unfold PB.loop_body. fold start. rewrite Coll. cbn [pbind].
  (* the dedented body *)
  assert (Sol : Forall solid L).
  { unfold L. apply Forall_app. split; (eapply Forall_impl; [apply uline_solid|assumption]). }
  assert (Fb : first_both L).
  { unfold L, B. apply items_first with (pp := pp); [exact Hbody|exact HuB|apply choices_first, Hch]. }
  unfold RAW. rewrite (dlc_identity _ L Hq' Sol Fb). rewrite (dedent_indp _ L Hq' Sol (first_both_ns L Fb)).
  (* the second loop *)
  assert (Run : PB.body_go true rlf rec_cond rec_loop L L 0 0 [] [] = POk (c_items body, map (c_choice 0) chs)).
  { unfold L at 2. unfold B at 1.
    rewrite (loop_items_run rec_cond rec_loop body Hit L 0 C [] [] eq_refl ltac:(lia)). fold B.
    assert (Hsk2 : skipn (0 + List.length B) L = C ++ []).
    { unfold L. cbn [Nat.add]. rewrite skipn_app, skipn_all, Nat.sub_diag, List.app_nil_r. reflexivity. }
    rewrite <- (List.app_nil_r C) at 1.
    rewrite (loop_choices_run rec_cond rec_loop chs Hch HuC L _ [] _ [] Hsk2
               ltac:(unfold L; rewrite app_length; lia)).
    reflexivity. }
  rewrite Run. cbn [pbind fst snd]. f_equal. f_equal.
  unfold RAW, L. cbn [List.length]. rewrite !app_length, !map_length. cbn [List.length]. rewrite app_length. lia.
Qed.

End LoopBlock.

(* ===== part 22 ===== *)
Local Open Scope string_scope.
Local Open Scope nat_scope.
Local Open Scope list_scope.

(* ------------------------------------------------------------------------------------------- *)
(* every kind of item inside a branch / a loop body                                             *)
(* ------------------------------------------------------------------------------------------- *)
Section OfItem.
Variable pp : pyparse.
Variable rec_cond rec_loop : list string -> nat -> pres (token * nat).

Lemma citem_of_item : forall q it, pfx q -> item_lines_ok pp it ->
  (forall brs, it = IIf brs -> rec_gives rec_cond q it (TCond (c_branches brs))) ->
  (forall v c body chs, it = IFor v c body chs ->
     rec_gives rec_loop q it (TLoop v c (c_items body) (map (c_choice 0) chs))) ->
  cond_item_steps rec_cond rec_loop q it.
Proof.
  intros q it Hq [Hok Hu] Hif Hfor.
  destruct it as [ps glue| |c|c|brs|v c body chs|t a|n a|attrs|add e t|]; cbn [item_ok] in Hok.
  - apply cond_textish; [exact Hq|reflexivity| |exact Hu]. intros ps0 g E. injection E as <- <-. exact Hok.
  - apply cond_textish; [exact Hq|reflexivity| |exact Hu]. intros ps0 g E. discriminate.
  - apply (cond_stmt pp); assumption.
  - apply cond_py; assumption.
  - apply andb_prop in Hok. destruct Hok as [Hne Hbr].
    apply (cond_nested_if rec_cond rec_loop q brs (TCond (c_branches brs)) Hq).
    + destruct brs; [discriminate|discriminate].
    + destruct brs as [|[[c0 b0] ch0] r]; [exact I|]. cbn [forallb] in Hbr. apply andb_prop in Hbr. destruct Hbr as [Hb _].
      do 2 (apply andb_prop in Hb; destruct Hb as [Hb _]). exact Hb.
    + exact Hu.
    + apply c_item_if.
    + apply Hif. reflexivity.
  - apply (cond_nested_for rec_cond rec_loop q v c body chs _ Hq Hu eq_refl). apply Hfor. reflexivity.
  - apply andb_prop in Hok. destruct Hok. apply cond_jump; assumption.
  - apply cond_render; assumption.
  - apply cond_input; assumption.
  - apply andb_prop in Hok. destruct Hok. apply cond_hook; assumption.
  - discriminate.
Qed.

Lemma litem_of_item : forall it, item_lines_ok pp it ->
  (forall brs, it = IIf brs -> rec_gives rec_cond "" it (TCond (c_branches brs))) ->
  (forall v c body chs, it = IFor v c body chs ->
     rec_gives rec_loop "" it (TLoop v c (c_items body) (map (c_choice 0) chs))) ->
  loop_item_steps rec_cond rec_loop it.
Proof.
  intros it [Hok Hu] Hif Hfor.
  destruct it as [ps glue| |c|c|brs|v c body chs|t a|n a|attrs|add e t|]; cbn [item_ok] in Hok.
  - apply loop_textish; [reflexivity| |exact Hu]. intros ps0 g E. injection E as <- <-. exact Hok.
  - apply loop_textish; [reflexivity| |exact Hu]. intros ps0 g E. discriminate.
  - apply (loop_stmt pp); assumption.
  - apply loop_py; assumption.
  - apply andb_prop in Hok. destruct Hok as [Hne Hbr].
    apply (loop_nested_if rec_cond rec_loop brs (TCond (c_branches brs))).
    + destruct brs; [discriminate|discriminate].
    + exact Hu.
    + apply c_item_if.
    + apply Hif. reflexivity.
  - apply (loop_nested_for rec_cond rec_loop v c body chs _ Hu eq_refl). apply Hfor. reflexivity.
  - apply andb_prop in Hok. destruct Hok. apply loop_jump; assumption.
  - apply loop_render; assumption.
  - apply loop_input; assumption.
  - apply andb_prop in Hok. destruct Hok. apply loop_hook; assumption.
  - discriminate.
Qed.

End OfItem.

(* ------------------------------------------------------------------------------------------- *)
(* the two extractors on printed blocks, at any indentation, any nesting                        *)
(* ------------------------------------------------------------------------------------------- *)
Notation Ec := (PB.extract_conditional_block_f true (Some PB.max_block_depth) rlf).
Notation El := (PB.extract_loop_block_f true (Some PB.max_block_depth) rlf).

Definition block_spec (it : item) : Prop :=
  forall n d q pre post, pfx q -> block_height it <= n -> d + block_height it <= PB.max_block_depth ->
  match it with
  | IIf brs =>
      Ec n d (pre ++ map (indp q) (print_item it) ++ post) (List.length pre) =
      POk (TCond (c_branches brs), List.length (print_item it))
  | IFor v c body chs =>
      El n d (pre ++ map (indp q) (print_item it) ++ post) (List.length pre) =
      POk (TLoop v c (c_items body) (map (c_choice 0) chs), List.length (print_item it))
  | _ => True
  end.

Lemma list_max_in : forall (A : Type) (f : A -> nat) l x, In x l -> f x <= list_max (map f l).
Proof.
  intros A f l x H. induction l as [|y l IH]; [destruct H|]. simpl. destruct H as [->|H]; [apply Nat.le_max_l|].
  eapply Nat.le_trans; [apply IH, H|apply Nat.le_max_r].
Qed.

Lemma height_if_body : forall brs c body chs it, In (c, body, chs) brs -> In it body ->
  S (block_height it) <= block_height (IIf brs).
Proof.
  intros brs c body chs it Hb Hi. cbn [block_height]. apply le_n_S.
  pose proof (list_max_in _ (fun b : string * list item * list schoice =>
                               let '(_, body0, _) := b in list_max (map block_height body0)) brs _ Hb) as A.
  cbv beta iota in A. pose proof (list_max_in _ block_height body it Hi) as B. lia.
Qed.

Lemma height_for_body : forall v c body chs it, In it body -> S (block_height it) <= block_height (IFor v c body chs).
Proof. intros v c body chs it Hi. cbn [block_height]. apply le_n_S. apply (list_max_in _ block_height body it Hi). Qed.

Section Blocks.
Variable pp : pyparse.

Lemma sub_items_ok : forall body, forallb (item_ok pp false) body = true -> Forall uline_ok (print_items body) ->
  forall it, In it body -> item_lines_ok pp it.
Proof.
  induction body as [|x body IH]; intros Hok Hu it Hin; [destruct Hin|].
  cbn [forallb] in Hok. apply andb_prop in Hok. destruct Hok as [Hx Hok].
  cbn [print_items] in Hu. apply Forall_app in Hu. destruct Hu as [Hu1 Hu2].
  destruct Hin as [<-|Hin]; [split; assumption|apply IH; assumption].
Qed.

Theorem blocks_spec : forall it, item_lines_ok pp it -> block_spec it.
Proof.
  induction it using ReferenceProofs.item_ind'; intros [Hok Hu] fuel d q pre post Hq Hn Hd; try exact I.
  - (* @if *)
    destruct fuel as [|fuel']; [cbn [block_height] in Hn; lia|].
    cbn [PB.extract_conditional_block_f]. unfold PB.too_deep.
    replace (PB.max_block_depth <=? d) with false
      by (symmetry; apply Nat.leb_gt; cbn [block_height] in Hd; unfold PB.max_block_depth in *; lia).
    cbn [item_ok] in Hok. apply andb_prop in Hok. destruct Hok as [Hne Hbr].
    apply cond_body_print; [exact Hq|destruct brs; [discriminate|discriminate]| |exact Hu].
    (* every branch *)
    rewrite print_item_if in Hu. apply Forall_app in Hu. destruct Hu as [Hu _].
    assert (G : forall (first : bool) sub, (forall b, In b sub -> In b brs) ->
              Forall (fun b => Forall (fun it => item_lines_ok pp it -> block_spec it) (snd (fst b))) sub ->
              forallb (fun b : string * list item * list schoice =>
                         match b with (cond, body, chs) =>
                           cond_header_ok cond && forallb (item_ok pp false) body && forallb inner_choice_ok chs end) sub = true ->
              Forall uline_ok (print_branches sub first) ->
              Forall (branch_ok (Ec fuel' (S d)) (El fuel' (S d)) q) sub).
    { intros first sub. revert first. induction sub as [|[[c0 b0] ch0] r IHr]; intros first Hsub HF Hb Hul; [constructor|].
      inversion HF as [|? ? HF0 HFr]; subst. cbn [snd fst] in HF0.
      cbn [forallb] in Hb. apply andb_prop in Hb. destruct Hb as [Hb0 Hbr'].
      do 2 (apply andb_prop in Hb0; destruct Hb0 as [Hb0 ?]). rename H0 into Hch0. rename H1 into Hbody0.
      rewrite print_branches_cons in Hul. inversion Hul as [|? ? Hlh Hul']; subst.
      apply Forall_app in Hul'. destruct Hul' as [Hub Hul']. apply Forall_app in Hul'. destruct Hul' as [Huc Hur].
      pose proof (ulines_of_nonempty _ Hub) as HuB.
      constructor; [|apply (IHr false); [intros b Hbin; apply Hsub; right; exact Hbin|assumption|assumption|assumption]].
      cbn [branch_ok]. split; [exact Hb0|split; [|split; [exact Hch0|apply ulines_of_always, Huc]]].
      apply Forall_forall. intros it Hit.
      pose proof (sub_items_ok b0 Hbody0 HuB it Hit) as Hio.
      rewrite Forall_forall in HF0. pose proof (HF0 it Hit Hio) as Spec.
      pose proof (height_if_body brs c0 b0 ch0 it (Hsub _ (or_introl eq_refl)) Hit) as Hh.
      apply (citem_of_item pp); [apply pfx_ind4, Hq|exact Hio| |].
      + intros brs' ->. intros pre' post'.
        apply (Spec fuel' (S d) (q ++ ind4)%string pre' post' (pfx_ind4 q Hq)); lia.
      + intros v' c' body' chs' ->. intros pre' post'.
        apply (Spec fuel' (S d) (q ++ ind4)%string pre' post' (pfx_ind4 q Hq)); lia. }
    apply (G true brs (fun b Hb => Hb) H Hbr Hu).
  - (* @for *)
    destruct fuel as [|fuel']; [cbn [block_height] in Hn; lia|].
    cbn [PB.extract_loop_block_f]. unfold PB.too_deep.
    replace (PB.max_block_depth <=? d) with false
      by (symmetry; apply Nat.leb_gt; cbn [block_height] in Hd; unfold PB.max_block_depth in *; lia).
    cbn [item_ok] in Hok. do 3 (apply andb_prop in Hok; destruct Hok as [Hok ?]).
    rename H0 into Hch. rename H1 into Hbody. rename H2 into Hc.
    pose proof Hu as Hu0. rewrite print_item_for in Hu0. inversion Hu0 as [|? ? Hlh Hu']; subst.
    apply Forall_app in Hu'. destruct Hu' as [Hub _]. pose proof (ulines_of_nonempty _ Hub) as HuB.
    apply (loop_body_print pp); try assumption.
    + apply Forall_forall. intros it Hit.
      pose proof (sub_items_ok body Hbody HuB it Hit) as Hio.
      rewrite Forall_forall in H. pose proof (H it Hit Hio) as Spec.
      pose proof (height_for_body v c body chs it Hit) as Hh.
      apply (litem_of_item pp); [exact Hio| |].
      * intros brs' ->. intros pre' post'. apply (Spec fuel' (S d) ""%string pre' post' pfx_nil); lia.
      * intros v' c' body' chs' ->. intros pre' post'. apply (Spec fuel' (S d) ""%string pre' post' pfx_nil); lia.
    + (* the raw body is balanced *)
      clear - Hbody HuB Hq. induction body as [|it body IHb]; [constructor|].
      cbn [forallb] in Hbody. apply andb_prop in Hbody. destruct Hbody as [Hi Hbody].
      cbn [print_items] in *. apply Forall_app in HuB. destruct HuB as [U1 U2]. rewrite map_app.
      apply fbal_app; [apply (items_fbal pp); [split; assumption|apply pfx_ind4, Hq]|apply IHb; assumption].
Qed.

End Blocks.

(* ------------------------------------------------------------------------------------------- *)
(* blocks at the top level of a passage, and the whole theorem                                  *)
(* ------------------------------------------------------------------------------------------- *)
Lemma list_max_cons : forall x l, list_max (x :: l) = Nat.max x (list_max l).
Proof. reflexivity. Qed.

Lemma body_height_lines : forall body, Forall (fun it => block_height it <= List.length (print_item it)) body ->
  list_max (map block_height body) <= List.length (print_items body).
Proof.
  induction 1 as [|x l Hx _ IH]; [cbn; lia|]. cbn [map print_items]. rewrite list_max_cons, app_length.
  apply Nat.max_lub; lia.
Qed.

Lemma block_height_lines : forall it, block_height it <= List.length (print_item it).
Proof.
  induction it using ReferenceProofs.item_ind'; try (cbn [block_height]; lia).
  - (* if *)
    rewrite print_item_if, app_length. cbn [List.length block_height].
    assert (G : forall (first : bool), list_max (map (fun b : string * list item * list schoice =>
                   let '(_, body, _) := b in list_max (map block_height body)) brs) <= List.length (print_branches brs first)).
    { induction H as [|[[c0 b0] ch0] r Hb _ IHr]; intros first; [cbn; lia|].
      cbn [map]. rewrite list_max_cons. rewrite print_branches_cons. cbn [List.length]. rewrite !app_length, !map_length.
      specialize (IHr false). cbn [snd fst] in Hb. pose proof (body_height_lines b0 Hb) as B.
      apply Nat.max_lub; lia. }
    specialize (G true). lia.
  - rewrite print_item_for. cbn [List.length block_height]. rewrite !app_length, !map_length.
    pose proof (body_height_lines body H) as B. lia.
Qed.

Section Full.
Variable pp : pyparse.
Variable is_call : string -> bool.
Notation rx := ParseAllProofs.real_extractors.

Lemma item_lines_top : forall it, item_ok pp true it = true -> single_line it = false -> lines_ok (print_item it) ->
  (exists c, it = IPy c) \/ item_lines_ok pp it.
Proof.
  intros it Hok Hs Hl. destruct it as [ps glue| |c|c|brs|v c body chs|t a|n a|attrs|add e t|]; try discriminate.
  - left. eauto.
  - right. split; [exact Hok|]. rewrite <- (map_indp_nil (print_item (IIf brs))) in Hl. apply (ulines_of_map "" _ Hl).
  - right. split; [exact Hok|]. rewrite <- (map_indp_nil (print_item (IFor v c body chs))) in Hl. apply (ulines_of_map "" _ Hl).
Qed.

Lemma block_fuel_ge : forall (pre : list string) L post, List.length L <= PB.block_fuel (pre ++ L ++ post) (List.length pre).
Proof. intros. unfold PB.block_fuel. rewrite !app_length. lia. Qed.

Lemma if_item_steps : forall brs, item_ok pp true (IIf brs) = true -> block_height (IIf brs) <= 100 ->
  item_steps pp rx (IIf brs).
Proof.
  intros brs Hok Hh pre post st cp Hr Hl.
  assert (Hio : item_lines_ok pp (IIf brs)).
  { split; [exact Hok|]. rewrite <- (map_indp_nil (print_item (IIf brs))) in Hl. apply (ulines_of_map "" _ Hl). }
  set (lines := pre ++ print_item (IIf brs) ++ post).
  pose proof (blocks_spec pp (IIf brs) Hio (PB.block_fuel lines (List.length pre)) 0 "" pre post pfx_nil) as Spec.
  cbv beta iota in Spec. rewrite map_indp_nil in Spec. fold lines in Spec.
  pose proof (block_height_lines (IIf brs)) as HL. pose proof (block_fuel_ge pre (print_item (IIf brs)) post) as HF.
  fold lines in HF.
  specialize (Spec ltac:(lia) ltac:(unfold PB.max_block_depth; lia)).
  destruct brs as [|[[c0 b0] ch0] r]; [discriminate|].
  assert (E : exists more, print_item (IIf ((c0, b0, ch0) :: r)) = ("@if " ++ c0 ++ ":")%string :: more).
  { rewrite print_item_if, print_branches_cons. eexists. reflexivity. }
  destruct E as [more E]. rewrite E in Hl. inversion Hl as [|? ? H0 _]; subst.
  destruct (line_ok_parts _ H0) as [_ Hrs].
  assert (Hs : strip ("@if " ++ c0 ++ ":")%string = ("@if " ++ c0 ++ ":")%string) by (apply strip_fixed; [reflexivity|exact Hrs]).
  assert (K : classify ("@if " ++ c0 ++ ":")%string = KIf /\ body_line ("@if " ++ c0 ++ ":")%string) by (known_line Hs).
  destruct K as [Hk Hb].
  eapply reaches_step; [unfold lines; rewrite E; apply (nth_error_mid pre _ (more ++ post))| |rewrite E; cbn [List.length]; lia].
  fold lines. rewrite (parse_step_body pp rx lines _ _ st cp Hr Hb). rewrite (body_step_if pp rx lines _ _ st cp Hk).
  change (x_conditional rx lines (List.length pre)) with
    (PB.extract_conditional_block_f true (Some PB.max_block_depth) rlf (PB.block_fuel lines (List.length pre)) 0 lines (List.length pre)).
  rewrite Spec. cbn [pbind]. cbn [app_item]. rewrite c_item_if. reflexivity.
Qed.

Lemma for_item_steps : forall v c body chs, item_ok pp true (IFor v c body chs) = true ->
  block_height (IFor v c body chs) <= 100 -> item_steps pp rx (IFor v c body chs).
Proof.
  intros v c body chs Hok Hh pre post st cp Hr Hl.
  assert (Hio : item_lines_ok pp (IFor v c body chs)).
  { split; [exact Hok|]. rewrite <- (map_indp_nil (print_item (IFor v c body chs))) in Hl. apply (ulines_of_map "" _ Hl). }
  set (lines := pre ++ print_item (IFor v c body chs) ++ post).
  pose proof (blocks_spec pp (IFor v c body chs) Hio (PB.block_fuel lines (List.length pre)) 0 "" pre post pfx_nil) as Spec.
  cbv beta iota in Spec. rewrite map_indp_nil in Spec. fold lines in Spec.
  pose proof (block_height_lines (IFor v c body chs)) as HL.
  pose proof (block_fuel_ge pre (print_item (IFor v c body chs)) post) as HF. fold lines in HF.
  specialize (Spec ltac:(lia) ltac:(unfold PB.max_block_depth; lia)).
  pose proof (print_item_for v c body chs) as E. rewrite E in Hl. inversion Hl as [|? ? H0 _]; subst.
  destruct (line_ok_parts _ H0) as [_ Hrs].
  assert (Hs : strip ("@for " ++ v ++ " in " ++ c ++ ":")%string = ("@for " ++ v ++ " in " ++ c ++ ":")%string)
    by (apply strip_fixed; [reflexivity|exact Hrs]).
  assert (K : classify ("@for " ++ v ++ " in " ++ c ++ ":")%string = KFor /\ body_line ("@for " ++ v ++ " in " ++ c ++ ":")%string)
    by (known_line Hs).
  destruct K as [Hk Hb].
  eapply reaches_step; [unfold lines; rewrite E; apply (nth_error_mid pre _ (_ ++ post))| |rewrite E; cbn [List.length]; lia].
  fold lines. rewrite (parse_step_body pp rx lines _ _ st cp Hr Hb). rewrite (body_step_for pp rx lines _ _ st cp Hk).
  change (x_loop rx lines (List.length pre)) with
    (PB.extract_loop_block_f true (Some PB.max_block_depth) rlf (PB.block_fuel lines (List.length pre)) 0 lines (List.length pre)).
  rewrite Spec. cbn [pbind]. reflexivity.
Qed.

Lemma all_item_steps : forall it, item_ok pp true it = true -> block_height it <= 100 -> item_steps pp rx it.
Proof.
  intros it Hok Hh. destruct (single_line it) eqn:E.
  - apply single_line_item_steps; assumption.
  - destruct it; try discriminate.
    + apply py_item_steps; [reflexivity|exact Hok].
    + apply if_item_steps; assumption.
    + apply for_item_steps; assumption.
Qed.

(* parse (print s) = compile_ref s, for every printable story *)
Theorem parse_print_full : forall s,
  printable pp is_call s = true ->
  ParseAllProofs.parse_real pp is_call (print_story s) = POk (compile_ref s).
Proof.
  intros s Hp. unfold ParseAllProofs.parse_real. apply parse_print_gen; [exact Hp|].
  intros p Hin. pose proof (printable_passages pp is_call s Hp) as Hps. rewrite forallb_forall in Hps.
  specialize (Hps p Hin). split; [|apply choices_all_steps, Hps].
  pose proof (items_ok_of_passage pp p Hps) as Hi.
  assert (Hh : forallb (fun it => Nat.leb (block_height it) 100) (sp_body p) = true).
  { unfold passage_ok in Hps. do 3 (apply andb_prop in Hps; destruct Hps as [Hps ?]). assumption. }
  apply Forall_forall. intros it Hit. rewrite forallb_forall in Hi, Hh.
  apply all_item_steps; [apply Hi, Hit|apply Nat.leb_le, Hh, Hit].
Qed.

End Full.

(* ===== part 23 ===== *)
Local Open Scope string_scope.
Local Open Scope nat_scope.
Local Open Scope list_scope.

(* ------------------------------------------------------------------------------------------- *)
(* end to end: what the parser model makes of the printed text plays with the reference meaning *)
(* ------------------------------------------------------------------------------------------- *)
Lemma printed_story_reference_meaning : forall pp is_call s,
  printable pp is_call s = true ->
  exists st, ParseAllProofs.parse_real pp is_call (print_story s) = POk st /\
    initial st = initial_of s /\
    forall p, In p (ss_passages s) ->
      exists cp, In (sp_name p, cp) (passages st) /\ choices cp = map (fun sc => c_choice (fst sc) (snd sc)) (sp_choices p) /\
        (forall orc ctxkeys s0,
           Engine.exec_commands orc ctxkeys (execute cp) s0 = Reference.sem_enter orc ctxkeys (sp_body p) s0) /\
        (forall orc ctxkeys s0, forallb (fun it => negb (ReferenceProofs.is_join it)) (sp_body p) = true ->
           ReferenceProofs.same_up_to_newlines
             (Reference.sem_items orc ctxkeys (filter ReferenceProofs.shown_item (sp_body p)) s0)
             (Engine.render_content orc ctxkeys (content cp) s0)).
Proof.
  intros pp is_call s H. exists (compile_ref s). split; [apply parse_print_full, H|]. split; [reflexivity|].
  intros p Hin. exists (compile_passage p). split; [|split; [reflexivity|split]].
  - cbn [compile_ref passages]. apply in_map_iff. exists p. split; [reflexivity|exact Hin].
  - intros orc ctxkeys s0. apply ReferenceProofs.compiled_enter_meaning.
  - intros orc ctxkeys s0 Hj. apply ReferenceProofs.passage_content_meaning_full, Hj.
Qed.

(* ===== part 15 ===== *)
Local Open Scope string_scope.
Local Open Scope list_scope.

(* ------------------------------------------------------------------------------------------- *)
(* correspondence helpers (harness/c01.py, pass `mcase`): for a generated AST and the call shapes *)
(* Python's `ast` gives for its argument strings, `printable` is evaluated and, when it holds,   *)
(* the parser model on the printed lines must be compile_ref (all of it, tags / imports /        *)
(* metadata included)                                                                           *)
(* ------------------------------------------------------------------------------------------- *)
Definition mcase := (sstory * ParseCheck.call_table)%type.
Definition mcase_pp (c : mcase) : pyparse := ParseCheck.table_pyparse [] (snd c) true.
Definition mcase_printable (c : mcase) : bool := printable (mcase_pp c) (ParseCheck.table_is_call (snd c)) (fst c).
Definition mcase_unprintable (c : mcase) : bool := negb (mcase_printable c).
Definition mcase_bad (c : mcase) : bool :=
  mcase_printable c &&
  negb (match ParseAllProofs.parse_real (mcase_pp c) (ParseCheck.table_is_call (snd c)) (print_story (fst c)) with
        | POk st => ParseCheck.story_eqb st (compile_ref (fst c))
        | _ => false
        end).
Definition mcase_show (c : mcase) :=
  (mcase_printable c,
   match ParseAllProofs.parse_real (mcase_pp c) (ParseCheck.table_is_call (snd c)) (print_story (fst c)) with
   | POk st => (true, map fst (filter (fun kv => match lookup (fst kv) (passages (compile_ref (fst c))) with
                                                 | Some p => negb (ParseCheck.passage_eqb (snd kv) p)
                                                 | None => true end) (passages st)))
   | _ => (false, [])
   end).
