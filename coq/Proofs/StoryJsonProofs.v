(* Proofs about Story/StoryJson.v: the reader inverts the writer on every tree (any nesting depth), the
   written dict has pairwise distinct keys, the engine's view survives, and - with the text codec of
   Codec/JsonText.v - the file written by `json.dump(story, f, indent=2)` reads back as the story. *)
From Coq Require Import String Ascii List Bool ZArith Lia.
From Bardic Require Import PyStr Value Compiled Codec JsonText JsonTextProofs StoryJson.
From Bardic Require Import Engine EngineCheck EngineBase.
Import ListNotations.
Local Open Scope list_scope.
Local Open Scope string_scope.

(* ---------------------------------------------------------------------------------------- *)
(* induction on the dict AST (nested through lists, options, branches and choices) *)
Section JTokenInd.
Variable P : jtoken -> Prop.
Definition JPL (l : list jtoken) : Prop := Forall P l.
Definition JPOL (o : option (list jtoken)) : Prop := match o with Some l => JPL l | None => True end.
Definition JPC (c : jchoice) : Prop :=
  match c with JChoice tx _ _ _ _ _ _ blk bex => JPL tx /\ JPOL blk /\ JPOL bex end.
Definition JPOC (o : option (list jchoice)) : Prop := match o with Some l => Forall JPC l | None => True end.
Definition JPB (b : jbranch) : Prop := match b with JBranch _ cont chs => JPL cont /\ JPOC chs end.

Hypothesis H_text : forall v tg, P (JTText v tg).
Hypothesis H_expr : forall c tg, P (JTExpr c tg).
Hypothesis H_ic : forall c tr fa tg, JPL tr -> JPL fa -> P (JTInlineCond c tr fa tg).
Hypothesis H_cond : forall brs, Forall JPB brs -> P (JTCond brs).
Hypothesis H_loop : forall v c cont chs, JPL cont -> JPOC chs -> P (JTLoop v c cont chs).
Hypothesis H_jump : forall t a, P (JTJump t a).
Hypothesis H_stmt : forall c, P (JTPyStmt c).
Hypothesis H_block : forall c, P (JTPyBlock c).
Hypothesis H_hook : forall a e t, P (JTHook a e t).
Hypothesis H_render : forall n a f, P (JTRender n a f).
Hypothesis H_input : forall a, P (JTInput a).
Hypothesis H_join : forall i, P (JTJoinMarker i).

Fixpoint jtoken_ind' (t : jtoken) : P t :=
  let toks := fix toks (l : list jtoken) : Forall P l :=
      match l with
      | [] => Forall_nil P
      | x :: r => Forall_cons x (jtoken_ind' x) (toks r)
      end in
  let otoks := fun (o : option (list jtoken)) =>
      match o return JPOL o with Some l => toks l | None => I end in
  let chs := fix chs (l : list jchoice) : Forall JPC l :=
      match l with
      | [] => Forall_nil JPC
      | c :: r =>
          Forall_cons c
            (match c return JPC c with
             | JChoice tx tg ar cd stk tgs sec blk bex => conj (toks tx) (conj (otoks blk) (otoks bex))
             end) (chs r)
      end in
  let ochs := fun (o : option (list jchoice)) =>
      match o return JPOC o with Some l => chs l | None => I end in
  let brs := fix brs (l : list jbranch) : Forall JPB l :=
      match l with
      | [] => Forall_nil JPB
      | b :: r =>
          Forall_cons b
            (match b return JPB b with
             | JBranch c cont ch => conj (toks cont) (ochs ch)
             end) (brs r)
      end in
  match t with
  | JTText v tg => H_text v tg
  | JTExpr c tg => H_expr c tg
  | JTInlineCond c tr fa tg => H_ic c tr fa tg (toks tr) (toks fa)
  | JTCond b => H_cond b (brs b)
  | JTLoop v c cont ch => H_loop v c cont ch (toks cont) (ochs ch)
  | JTJump t a => H_jump t a
  | JTPyStmt c => H_stmt c
  | JTPyBlock c => H_block c
  | JTHook a e t => H_hook a e t
  | JTRender n a f => H_render n a f
  | JTInput a => H_input a
  | JTJoinMarker i => H_join i
  end.

Lemma jtokens_ind' (l : list jtoken) : Forall P l.
Proof. induction l; constructor; auto using jtoken_ind'. Qed.
End JTokenInd.

(* ---------------------------------------------------------------------------------------- *)
(* small inverses *)

Lemma mapM_map_rt {A B} (f : B -> option A) (g : A -> B) (l : list A) :
  Forall (fun a => f (g a) = Some a) l -> mapM f (map g l) = Some l.
Proof.
  induction 1 as [|a r Ha _ IH]; simpl; [reflexivity|].
  rewrite Ha, IH. reflexivity.
Qed.

Lemma mapM_map_all {A B} (f : B -> option A) (g : A -> B) (l : list A) :
  (forall a, f (g a) = Some a) -> mapM f (map g l) = Some l.
Proof. intros H. apply mapM_map_rt. apply Forall_forall. intros a _. apply H. Qed.

Lemma strs_rt l : strs_of_json (map JStr l) = Some l.
Proof. unfold strs_of_json. apply mapM_map_all. reflexivity. Qed.

Lemma str_members_rt l : str_members_of (str_members l) = Some l.
Proof.
  induction l as [|[k v] r IH]; [reflexivity|].
  change (str_members ((k, v) :: r)) with ((k, JStr v) :: str_members r).
  cbn [str_members_of]. rewrite IH. reflexivity.
Qed.

Lemma nat_nonneg n : (0 <=? Z.of_nat n)%Z = true.
Proof. apply Z.leb_le. lia. Qed.

Lemma input_rt attrs : input_of_json (input_to_json attrs) = Some attrs.
Proof. unfold input_of_json, input_to_json. cbn. apply str_members_rt. Qed.

Lemma param_rt p : param_of_json (param_to_json p) = Some p.
Proof. destruct p as [n [d|]]; reflexivity. Qed.

Lemma pextra_rt x : pextra_of_member (pextra_to_member x) = Some x.
Proof.
  destruct x as [n|n|l]; cbn.
  - unfold jnat. rewrite nat_nonneg, Nat2Z.id. reflexivity.
  - unfold jnat. rewrite nat_nonneg, Nat2Z.id. reflexivity.
  - rewrite (mapM_map_all input_of_json input_to_json l input_rt). reflexivity.
Qed.

(* ---------------------------------------------------------------------------------------- *)
(* unfolding equations of the reader on written objects (by computation on the fixed keys) *)

Definition on2 {A B C} (a : option A) (b : option B) (f : A -> B -> C) : option C :=
  match a, b with Some x, Some y => Some (f x y) | _, _ => None end.

Lemma tok_of_text v tg : tok_of_json (tok_to_json (JTText v tg)) = Some (JTText v tg).
Proof. destruct tg as [tg|]; cbn; [unfold rd_opt_strs; cbn; rewrite strs_rt|]; reflexivity. Qed.

Lemma tok_of_expr c tg : tok_of_json (tok_to_json (JTExpr c tg)) = Some (JTExpr c tg).
Proof. destruct tg as [tg|]; cbn; [unfold rd_opt_strs; cbn; rewrite strs_rt|]; reflexivity. Qed.

Lemma tok_of_ic c tr fa tg :
  tok_of_json (tok_to_json (JTInlineCond c tr fa tg)) =
  match mapM tok_of_json (map tok_to_json tr), mapM tok_of_json (map tok_to_json fa) with
  | Some tr', Some fa' => Some (JTInlineCond c tr' fa' tg)
  | _, _ => None
  end.
Proof. destruct tg as [tg|]; cbn; [unfold rd_opt_strs; cbn; rewrite strs_rt|]; reflexivity. Qed.

Lemma tok_of_cond brs :
  tok_of_json (tok_to_json (JTCond brs)) =
  match mapM br_of_json (map br_to_json brs) with Some b' => Some (JTCond b') | None => None end.
Proof. reflexivity. Qed.

Lemma tok_of_loop v c cont chs :
  tok_of_json (tok_to_json (JTLoop v c cont chs)) =
  match mapM tok_of_json (map tok_to_json cont) with
  | Some cont' =>
      match chs with
      | None => Some (JTLoop v c cont' None)
      | Some l => match mapM ch_of_json (map ch_to_json l) with
                  | Some l' => Some (JTLoop v c cont' (Some l'))
                  | None => None
                  end
      end
  | None => None
  end.
Proof. destruct chs; reflexivity. Qed.

Lemma br_of_branch c cont chs :
  br_of_json (br_to_json (JBranch c cont chs)) =
  match mapM tok_of_json (map tok_to_json cont) with
  | Some cont' =>
      match chs with
      | None => Some (JBranch c cont' None)
      | Some l => match mapM ch_of_json (map ch_to_json l) with
                  | Some l' => Some (JBranch c cont' (Some l'))
                  | None => None
                  end
      end
  | None => None
  end.
Proof. destruct chs; reflexivity. Qed.

Definition omapM_toks (o : option (list jtoken)) : option (option (list jtoken)) :=
  match o with
  | None => Some None
  | Some l => option_map Some (mapM tok_of_json (map tok_to_json l))
  end.

Lemma ch_of_choice tx tg ar cd sk tags sec blk bex :
  ch_of_json (ch_to_json (JChoice tx tg ar cd sk tags sec blk bex)) =
  match mapM tok_of_json (map tok_to_json tx) with
  | Some tx' =>
      match omapM_toks blk, omapM_toks bex with
      | Some blk', Some bex' => Some (JChoice tx' tg ar cd sk tags sec blk' bex')
      | _, _ => None
      end
  | None => None
  end.
Proof.
  destruct cd as [cd|], sec as [sec|], blk as [blk|], bex as [bex|]; cbn;
    unfold rd_strs; cbn; rewrite strs_rt; cbn;
    rewrite ?nat_nonneg, ?Nat2Z.id; reflexivity.
Qed.

(* ---------------------------------------------------------------------------------------- *)
(* reader after writer, token trees *)

Definition Prt (t : jtoken) : Prop := tok_of_json (tok_to_json t) = Some t.

Lemma omapM_toks_rt o : JPOL Prt o -> omapM_toks o = Some o.
Proof.
  destruct o as [l|]; simpl; intros H; [|reflexivity].
  rewrite (mapM_map_rt _ _ _ H). reflexivity.
Qed.

Lemma ch_rt_of c : JPC Prt c -> ch_of_json (ch_to_json c) = Some c.
Proof.
  destruct c as [tx tg ar cd sk tags sec blk bex]. intros (Htx & Hblk & Hbex).
  rewrite ch_of_choice, (mapM_map_rt _ _ _ Htx), (omapM_toks_rt _ Hblk), (omapM_toks_rt _ Hbex).
  reflexivity.
Qed.

Lemma chs_rt_of l : Forall (JPC Prt) l -> mapM ch_of_json (map ch_to_json l) = Some l.
Proof.
  intros H. apply mapM_map_rt. revert H. apply Forall_impl. exact ch_rt_of.
Qed.

Lemma br_rt_of b : JPB Prt b -> br_of_json (br_to_json b) = Some b.
Proof.
  destruct b as [c cont chs]. intros (Hcont & Hchs).
  rewrite br_of_branch, (mapM_map_rt _ _ _ Hcont).
  destruct chs as [l|]; [|reflexivity].
  rewrite (chs_rt_of _ Hchs). reflexivity.
Qed.

Theorem tok_rt : forall t, tok_of_json (tok_to_json t) = Some t.
Proof.
  induction t using jtoken_ind'; fold (Prt) in *.
  - apply tok_of_text.
  - apply tok_of_expr.
  - rewrite tok_of_ic.
    rewrite (mapM_map_rt tok_of_json tok_to_json tr), (mapM_map_rt tok_of_json tok_to_json fa); auto.
  - rewrite tok_of_cond.
    rewrite (mapM_map_rt br_of_json br_to_json brs); [reflexivity|].
    revert H. apply Forall_impl. exact br_rt_of.
  - rewrite tok_of_loop. rewrite (mapM_map_rt tok_of_json tok_to_json cont) by assumption.
    destruct chs as [l|]; [|reflexivity].
    rewrite (chs_rt_of l) by assumption. reflexivity.
  - reflexivity.
  - reflexivity.
  - reflexivity.
  - reflexivity.
  - destruct f; reflexivity.
  - cbn. fold (str_members a). rewrite str_members_rt. reflexivity.
  - cbn. unfold jnat. rewrite nat_nonneg, Nat2Z.id. reflexivity.
Qed.

Lemma toks_rt l : mapM tok_of_json (map tok_to_json l) = Some l.
Proof. apply mapM_map_all. exact tok_rt. Qed.

Lemma JPC_all c : JPC Prt c.
Proof.
  destruct c as [tx tg ar cd sk tags sec blk bex]. simpl.
  repeat split; try (destruct blk); try (destruct bex); simpl; try exact I;
    apply Forall_forall; intros t _; apply tok_rt.
Qed.

Theorem ch_rt : forall c, ch_of_json (ch_to_json c) = Some c.
Proof. intros c. apply ch_rt_of, JPC_all. Qed.

Theorem br_rt : forall b, br_of_json (br_to_json b) = Some b.
Proof.
  intros [c cont chs]. apply br_rt_of. simpl. split.
  - apply Forall_forall; intros t _; apply tok_rt.
  - destruct chs as [l|]; simpl; [|exact I]. apply Forall_forall; intros x _; apply JPC_all.
Qed.

Lemma chs_rt l : mapM ch_of_json (map ch_to_json l) = Some l.
Proof. apply mapM_map_all. exact ch_rt. Qed.

(* ---------------------------------------------------------------------------------------- *)
(* passages and the story *)

Lemma passage_of_eq id ps cont chs ex tags xs :
  passage_of_json (passage_to_json (mkJPassage id ps cont chs ex tags xs)) =
  match mapM param_of_json (map param_to_json ps), mapM tok_of_json (map tok_to_json cont),
        mapM ch_of_json (map ch_to_json chs), mapM tok_of_json (map tok_to_json ex),
        mapM pextra_of_member (map pextra_to_member xs) with
  | Some ps', Some cont', Some chs', Some ex', Some xs' => Some (mkJPassage id ps' cont' chs' ex' tags xs')
  | _, _, _, _, _ => None
  end.
Proof. cbn. unfold rd_strs. cbn. rewrite strs_rt. reflexivity. Qed.

Theorem passage_rt : forall p, passage_of_json (passage_to_json p) = Some p.
Proof.
  intros [id ps cont chs ex tags xs]. rewrite passage_of_eq.
  rewrite (mapM_map_all _ _ ps param_rt), !toks_rt, chs_rt, (mapM_map_all _ _ xs pextra_rt).
  reflexivity.
Qed.

Lemma passages_rt ps :
  mapMi passage_of_json (map (fun kp : string * jpassage => (fst kp, passage_to_json (snd kp))) ps) = Some ps.
Proof.
  induction ps as [|[k p] r IH]; [reflexivity|].
  cbn [map mapMi fst snd]. rewrite passage_rt, IH. reflexivity.
Qed.

Theorem jstory_rt : forall s, jstory_of_json (jstory_to_json s) = Some s.
Proof.
  intros [ver init md imps ps].
  destruct init as [init|]; cbn; unfold rd_strs; cbn; rewrite strs_rt;
    fold (str_members md); rewrite str_members_rt;
    cbn; rewrite passages_rt; reflexivity.
Qed.

(* ---------------------------------------------------------------------------------------- *)
(* the engine's view of the dict of a Story/Compiled.v story is that story *)

Lemma map_map_id {A B} (f : A -> B) (g : B -> A) l :
  Forall (fun a => g (f a) = a) l -> map g (map f l) = l.
Proof. induction 1 as [|a r Ha _ IH]; simpl; [reflexivity|]. rewrite Ha, IH. reflexivity. Qed.

Definition Pfe (t : token) : Prop := forget_tok (embed_tok t) = t.

Lemma forget_embed_ch_of c : PC Pfe c -> forget_ch (embed_ch c) = c.
Proof.
  destruct c as [tx tg ar cd sk sec tags blk]. unfold PC, PL. simpl. intros (Htx & Hblk).
  rewrite (map_map_id _ _ _ Htx).
  destruct blk as [|b r]; [reflexivity|].
  rewrite (map_map_id _ _ _ Hblk). reflexivity.
Qed.

Lemma forget_embed_chs_of l : Forall (PC Pfe) l ->
  match (match l with [] => None | _ => Some (map embed_ch l) end) with
  | Some l' => map forget_ch l' | None => [] end = l.
Proof.
  intros H. destruct l as [|c r]; [reflexivity|].
  apply map_map_id. revert H. apply Forall_impl. exact forget_embed_ch_of.
Qed.

Theorem forget_embed_tok : forall t, forget_tok (embed_tok t) = t.
Proof.
  induction t using token_ind'; fold Pfe in *; simpl; try reflexivity.
  - unfold PL in *. rewrite (map_map_id _ _ _ H), (map_map_id _ _ _ H0). reflexivity.
  - f_equal. apply map_map_id. revert H. apply Forall_impl.
    intros [c cont chs]. unfold PB, PL. intros (Hcont & Hchs). simpl.
    rewrite (map_map_id _ _ _ Hcont), (forget_embed_chs_of _ Hchs). reflexivity.
  - unfold PL in *. rewrite (map_map_id _ _ _ H), (forget_embed_chs_of _ H0). reflexivity.
  - destruct a; reflexivity.
Qed.

Lemma forget_embed_toks l : map forget_tok (map embed_tok l) = l.
Proof. apply map_map_id, Forall_forall. intros t _. apply forget_embed_tok. Qed.

Theorem forget_embed_ch : forall c, forget_ch (embed_ch c) = c.
Proof.
  intros c. apply forget_embed_ch_of. destruct c as [tx tg ar cd sk sec tags blk]. unfold PC, PL. simpl.
  split; apply Forall_forall; intros t _; apply forget_embed_tok.
Qed.

Theorem forget_embed_passage : forall p, forget_passage (embed_passage p) = p.
Proof.
  intros [id ps cont chs ex tags ins]. unfold forget_passage, embed_passage. simpl.
  rewrite !forget_embed_toks.
  rewrite (map_map_id embed_ch forget_ch chs) by (apply Forall_forall; intros c _; apply forget_embed_ch).
  destruct ins; reflexivity.
Qed.

Theorem forget_embed : forall s, forget (embed s) = s.
Proof.
  intros [init ps imps md]. unfold forget, embed. simpl. f_equal.
  induction ps as [|[k p] r IH]; simpl; [reflexivity|].
  rewrite forget_embed_passage, IH. reflexivity.
Qed.

(* ---------------------------------------------------------------------------------------- *)
(* the theorem of the task: reader after writer is the identity, for every story *)

Theorem story_json_roundtrip : forall st, story_of_json (story_to_json st) = Some st.
Proof.
  intros st. unfold story_of_json, story_to_json. rewrite jstory_rt. simpl. rewrite forget_embed. reflexivity.
Qed.

(* ---------------------------------------------------------------------------------------- *)
(* distinct keys *)

Lemma existsb_eqb_false x l : existsb (String.eqb x) l = false -> ~ In x l.
Proof.
  intros H Hin. assert (E : existsb (String.eqb x) l = true).
  { apply existsb_exists. exists x. split; [exact Hin|apply String.eqb_refl]. }
  rewrite E in H. discriminate.
Qed.

Lemma nodupb_sound l : nodupb l = true -> NoDup l.
Proof.
  induction l as [|x r IH]; simpl; intros H; [constructor|].
  apply andb_true_iff in H. destruct H as [Hx Hr]. apply negb_true_iff in Hx.
  constructor; [apply existsb_eqb_false; exact Hx|apply IH; exact Hr].
Qed.

Lemma allP_map {A} (P : json -> Prop) (g : A -> json) l :
  Forall (fun a => P (g a)) l -> allP P (map g l).
Proof. induction 1; simpl; auto. Qed.

Lemma allP_strs l : allP keys_distinct (map JStr l).
Proof. induction l; simpl; auto. Qed.

Lemma jstrs_kd l : keys_distinct (jstrs l).
Proof. unfold jstrs. simpl. apply allP_strs. Qed.

Lemma allPi_str_members l : allPi keys_distinct (str_members l).
Proof. induction l as [|[k v] r IH]; simpl; auto. Qed.

Lemma str_members_keys l : map fst (str_members l) = map fst l.
Proof. unfold str_members. rewrite map_map. reflexivity. Qed.

Lemma input_kd attrs : input_kdb attrs = true -> keys_distinct (input_to_json attrs).
Proof.
  unfold input_kdb, input_to_json. intros H. apply nodupb_sound in H.
  simpl. rewrite str_members_keys. split; [exact H|]. split; [exact I|apply allPi_str_members].
Qed.

Lemma allPi_app {A} (P : A -> Prop) (a b : list (string * A)) : allPi P a -> allPi P b -> allPi P (a ++ b).
Proof. induction a as [|[k x] r IH]; simpl; intros Ha Hb; [exact Hb|]. destruct Ha. split; auto. Qed.

Lemma jopt_str_kd o : keys_distinct (jopt_str o).
Proof. destruct o; exact I. Qed.

Lemma opt_tags_kd tg : allPi keys_distinct (opt_member "tags" jstrs tg).
Proof. destruct tg; simpl; auto using allP_strs. Qed.

Lemma forallb_Forall {A} (f : A -> bool) (P : A -> Prop) l :
  Forall (fun a => f a = true -> P a) l -> forallb f l = true -> Forall P l.
Proof.
  induction 1 as [|a r Ha _ IH]; simpl; intros H; constructor;
    apply andb_true_iff in H; destruct H; auto.
Qed.

Definition Pkd (t : jtoken) : Prop := tok_kdb t = true -> keys_distinct (tok_to_json t).

Ltac fixed_keys := apply nodupb_sound; reflexivity.

Lemma toks_kd l : JPL Pkd l -> forallb tok_kdb l = true -> allP keys_distinct (map tok_to_json l).
Proof. intros H Hb. apply allP_map. exact (forallb_Forall _ _ _ H Hb). Qed.

Lemma otoks_kd o : JPOL Pkd o -> match o with Some l => forallb tok_kdb l | None => true end = true ->
  match o with Some l => allP keys_distinct (map tok_to_json l) | None => True end.
Proof. destruct o as [l|]; simpl; intros H Hb; [apply toks_kd; assumption|exact I]. Qed.

Lemma ch_kd_of c : JPC Pkd c -> ch_kdb c = true -> keys_distinct (ch_to_json c).
Proof.
  destruct c as [tx tg ar cd sk tags sec blk bex]. intros (Htx & Hblk & Hbex) Hb. simpl in Hb.
  apply andb_true_iff in Hb. destruct Hb as [Hb Hb3]. apply andb_true_iff in Hb. destruct Hb as [Hb1 Hb2].
  pose proof (toks_kd _ Htx Hb1) as K1. pose proof (otoks_kd _ Hblk Hb2) as K2. pose proof (otoks_kd _ Hbex Hb3) as K3.
  pose proof (jopt_str_kd cd) as K4. pose proof (allP_strs tags) as K5.
  destruct sec, blk, bex; simpl; (split; [fixed_keys|]); simpl in K2, K3; tauto.
Qed.

Lemma ochs_kd o : JPOC Pkd o -> match o with Some l => forallb ch_kdb l | None => true end = true ->
  match o with Some l => allP keys_distinct (map ch_to_json l) | None => True end.
Proof.
  destruct o as [l|]; simpl; intros H Hb; [|exact I].
  apply allP_map. apply (forallb_Forall ch_kdb); [|exact Hb].
  revert H. apply Forall_impl. exact ch_kd_of.
Qed.

Lemma br_kd_of b : JPB Pkd b -> br_kdb b = true -> keys_distinct (br_to_json b).
Proof.
  destruct b as [c cont chs]. intros (Hcont & Hchs) Hb. simpl in Hb.
  apply andb_true_iff in Hb. destruct Hb as [Hb1 Hb2].
  pose proof (toks_kd _ Hcont Hb1) as K1. pose proof (ochs_kd _ Hchs Hb2) as K2.
  destruct chs; simpl; (split; [fixed_keys|]); simpl in K2; tauto.
Qed.

Theorem tok_kd : forall t, tok_kdb t = true -> keys_distinct (tok_to_json t).
Proof.
  induction t using jtoken_ind'; fold Pkd in *; intros Hb.
  - destruct tg; simpl; (split; [fixed_keys|]); auto using allP_strs.
  - destruct tg; simpl; (split; [fixed_keys|]); auto using allP_strs.
  - simpl in Hb. apply andb_true_iff in Hb. destruct Hb as [Hb1 Hb2].
    pose proof (toks_kd _ H Hb1) as K1. pose proof (toks_kd _ H0 Hb2) as K2. pose proof allP_strs as K3.
    destruct tg; simpl; (split; [fixed_keys|]); auto 8.
  - simpl in Hb. simpl. split; [fixed_keys|]. split; [exact I|]. split; [|exact I].
    apply allP_map. apply (forallb_Forall br_kdb); [|exact Hb].
    revert H. apply Forall_impl. exact br_kd_of.
  - simpl in Hb. apply andb_true_iff in Hb. destruct Hb as [Hb1 Hb2].
    pose proof (toks_kd _ H Hb1) as K1. pose proof (ochs_kd _ H0 Hb2) as K2.
    destruct chs; simpl; (split; [fixed_keys|]); simpl in K2; tauto.
  - simpl. split; [fixed_keys|]. tauto.
  - simpl. split; [fixed_keys|]. tauto.
  - simpl. split; [fixed_keys|]. tauto.
  - simpl. split; [fixed_keys|]. tauto.
  - pose proof (jopt_str_kd f). simpl. split; [fixed_keys|]. tauto.
  - apply input_kd. exact Hb.
  - simpl. split; [fixed_keys|]. tauto.
Qed.

Lemma toks_kd_all l : forallb tok_kdb l = true -> allP keys_distinct (map tok_to_json l).
Proof.
  intros Hb. apply allP_map. apply (forallb_Forall tok_kdb); [|exact Hb].
  apply Forall_forall. intros t _. apply tok_kd.
Qed.

Theorem ch_kd : forall c, ch_kdb c = true -> keys_distinct (ch_to_json c).
Proof.
  intros c. apply ch_kd_of. destruct c as [tx tg ar cd sk tags sec blk bex]. simpl.
  repeat split; try (destruct blk); try (destruct bex); simpl; try exact I;
    apply Forall_forall; intros t _; exact (tok_kd t).
Qed.

Lemma param_kd p : keys_distinct (param_to_json p).
Proof. pose proof (jopt_str_kd (pdefault p)). simpl. split; [fixed_keys|]. tauto. Qed.

Lemma pextras_kd xs : forallb pextra_kdb xs = true -> allPi keys_distinct (map pextra_to_member xs).
Proof.
  induction xs as [|x r IH]; simpl; intros Hb; [exact I|].
  apply andb_true_iff in Hb. destruct Hb as [Hx Hr].
  destruct x as [n|n|l]; simpl; (split; [|apply IH; exact Hr]); try exact I.
  simpl in Hx. apply allP_map. apply (forallb_Forall input_kdb); [|exact Hx].
  apply Forall_forall. intros a _. apply input_kd.
Qed.

Theorem passage_kd : forall p, passage_kdb p = true -> keys_distinct (passage_to_json p).
Proof.
  intros [id ps cont chs ex tags xs]. unfold passage_kdb, passage_to_json. simpl jp_id. simpl jp_params.
  simpl jp_content. simpl jp_choices. simpl jp_execute. simpl jp_tags. simpl jp_extras.
  intros Hb.
  apply andb_true_iff in Hb. destruct Hb as [Hb Hk]. apply andb_true_iff in Hb. destruct Hb as [Hb Hx].
  apply andb_true_iff in Hb. destruct Hb as [Hb He]. apply andb_true_iff in Hb. destruct Hb as [Hc Hch].
  split.
  - rewrite map_app, map_map. apply nodupb_sound. exact Hk.
  - apply allPi_app; [|apply pextras_kd; exact Hx].
    simpl. repeat split; try exact I.
    + apply allP_map, Forall_forall. intros p _. apply param_kd.
    + apply toks_kd_all; exact Hc.
    + apply allP_map. apply (forallb_Forall ch_kdb); [|exact Hch].
      apply Forall_forall. intros c _. apply ch_kd.
    + apply toks_kd_all; exact He.
    + apply allP_strs.
Qed.

Theorem jstory_kd : forall s, jstory_kdb s = true -> keys_distinct (jstory_to_json s).
Proof.
  intros [ver init md imps ps]. unfold jstory_kdb, jstory_to_json.
  simpl js_version. simpl js_initial. simpl js_metadata. simpl js_imports. simpl js_passages.
  intros Hb. apply andb_true_iff in Hb. destruct Hb as [Hb Hp]. apply andb_true_iff in Hb. destruct Hb as [Hm Hk].
  pose proof (jopt_str_kd init) as Ki.
  split; [fixed_keys|].
  simpl. repeat split; try exact I; try exact Ki.
  - rewrite str_members_keys. apply nodupb_sound; exact Hm.
  - apply allPi_str_members.
  - apply allP_strs.
  - rewrite map_map. simpl. apply nodupb_sound; exact Hk.
  - clear Hk. induction ps as [|[k p] r IH]; simpl; [exact I|].
    simpl in Hp. apply andb_true_iff in Hp. destruct Hp as [Hp1 Hp2].
    split; [apply passage_kd; exact Hp1|apply IH; exact Hp2].
Qed.

Theorem story_json_keys_distinct : forall st, story_kdb st = true -> keys_distinct (story_to_json st).
Proof. intros st. apply jstory_kd. Qed.

(* the boolean test on a JSON tree (the tie applies it to the real dict) *)
Theorem json_kdb_sound : forall j, json_kdb j = true -> keys_distinct j.
Proof.
  fix IH 1. intros [| b | z | s | l | o]; simpl; intros Hb; try exact I.
  - induction l as [|x r IHl]; simpl; [exact I|].
    simpl in Hb. apply andb_true_iff in Hb. destruct Hb as [Hx Hr]. split; [apply IH; exact Hx|apply IHl; exact Hr].
  - apply andb_true_iff in Hb. destruct Hb as [Hk Ho]. split; [apply nodupb_sound; exact Hk|].
    clear Hk. induction o as [|[k x] r IHo]; simpl; [exact I|].
    simpl in Ho. apply andb_true_iff in Ho. destruct Ho as [Hx Hr]. split; [apply IH; exact Hx|apply IHo; exact Hr].
Qed.

(* ---------------------------------------------------------------------------------------- *)
(* with the text codec: the file written by compile, read back, is the story *)

(* for the dict as the compiler builds it (every optional member as it is) *)
Theorem compiled_dict_file_reads_back : forall js, jstory_kdb js = true ->
  loads (dumps_indent2 (jstory_to_json js)) = Some (jstory_to_json js) /\
  jstory_of_json (jstory_to_json js) = Some js /\
  story_of_json (jstory_to_json js) = Some (forget js).
Proof.
  intros js Hk. split; [apply loads_dumps_indent2_kd, jstory_kd; exact Hk|].
  split; [apply jstory_rt|]. unfold story_of_json. rewrite jstory_rt. reflexivity.
Qed.

(* for any JSON tree that is a Python dict and that the reader accepts: what the reader makes of the
   re-read file is what it makes of the in-memory dict *)
Theorem file_reads_as_memory : forall j, keys_distinct j ->
  exists j', loads (dumps_indent2 j) = Some j' /\ jstory_of_json j' = jstory_of_json j /\
             story_of_json j' = story_of_json j.
Proof.
  intros j Hk. exists j. split; [apply loads_dumps_indent2_kd; exact Hk|]. split; reflexivity.
Qed.

Theorem compiled_file_reads_back : forall st, story_kdb st = true ->
  exists j, loads (dumps_indent2 (story_to_json st)) = Some j /\ story_of_json j = Some st.
Proof.
  intros st Hk. exists (story_to_json st). split.
  - apply loads_dumps_indent2_kd, story_json_keys_distinct; exact Hk.
  - apply story_json_roundtrip.
Qed.

(* the layout does not matter (compact json.dumps as well) *)
Theorem compiled_text_reads_back : forall st, story_kdb st = true ->
  exists j, loads (dumps (story_to_json st)) = Some j /\ story_of_json j = Some st.
Proof.
  intros st Hk. exists (story_to_json st). split.
  - apply loads_dumps_kd, story_json_keys_distinct; exact Hk.
  - apply story_json_roundtrip.
Qed.

(* play: anything computed from the story is computed equally from the re-read story *)
Theorem anything_after_roundtrip : forall (X : Type) (F : story -> X) st, story_kdb st = true ->
  exists j st', loads (dumps_indent2 (story_to_json st)) = Some j /\ story_of_json j = Some st' /\ F st' = F st.
Proof.
  intros X F st Hk. destruct (compiled_file_reads_back st Hk) as (j & Hl & Hs).
  exists j, st. repeat split; assumption.
Qed.

Theorem play_after_roundtrip : forall orc ctxkeys st v0 ops, story_kdb st = true ->
  exists j st', loads (dumps_indent2 (story_to_json st)) = Some j /\ story_of_json j = Some st' /\
                run_all orc ctxkeys st' v0 ops = run_all orc ctxkeys st v0 ops.
Proof.
  intros orc ctxkeys st v0 ops Hk.
  exact (anything_after_roundtrip _ (fun s => run_all orc ctxkeys s v0 ops) st Hk).
Qed.

(* the same for the real dict js (optional members as the compiler wrote them): the engine model plays the
   re-read file as it plays the in-memory dict *)
Theorem play_after_roundtrip_dict : forall orc ctxkeys js v0 ops, jstory_kdb js = true ->
  exists j st', loads (dumps_indent2 (jstory_to_json js)) = Some j /\ story_of_json j = Some st' /\
                run_all orc ctxkeys st' v0 ops = run_all orc ctxkeys (forget js) v0 ops.
Proof.
  intros orc ctxkeys js v0 ops Hk. destruct (compiled_dict_file_reads_back js Hk) as (Hl & _ & Hs).
  exists (jstory_to_json js), (forget js). repeat split; assumption.
Qed.

(* the writer loses nothing: two stories with the same dict are the same story (so the tie may compare
   stories through their dicts with json_eqb) *)
Theorem story_to_json_injective : forall a b, story_to_json a = story_to_json b -> a = b.
Proof.
  intros a b E. pose proof (story_json_roundtrip a) as Ha. rewrite E, story_json_roundtrip in Ha.
  inversion Ha. reflexivity.
Qed.

Theorem jstory_to_json_injective : forall a b, jstory_to_json a = jstory_to_json b -> a = b.
Proof.
  intros a b E. pose proof (jstory_rt a) as Ha. rewrite E, jstory_rt in Ha. inversion Ha. reflexivity.
Qed.
