(* C12, navigation half, for the player's operations: in a story whose targets are all defined, NO operation of
   NO history reaches the "Cannot navigate to unknown passage" raise site of goto_rec.

   Proofs/StoryWfProofs.v makes that one raise site a parameter of the jump chain (goto_rec_g unknown) and shows
   that the chain does not depend on it.  Here the same parameter is threaded through everything the player
   and the host application can call: choose_nav_g / choose_g / goto_op_g / init_g / step_g / run_all_g are
   Engine.choose_nav / choose / goto_op / init and EngineCheck.step / run_all with `unknown` at that site
   (step_is_g, run_all_is_g: the real functions are the instances `raise ValueError`), and the theorems say that
   the result is the same whatever `unknown` is.

   What makes it true for choose(): the target of every choice the engine has cached (the shown output, and the
   outputs stored in the undo/redo snapshots and in the save slot, which undo/redo/load put back) is "@join" or a
   defined passage.  That is an invariant (TInv) of every operation: outputs are only ever built by
   render_passage / render_from_join_marker, whose offered choices sit at positions of the passage that the
   graph walk of C18 visits (GraphProofs.render_passage_positions: the passage's own choices, and the choices of
   conditional branches and loops at any depth of its content), and the validator has checked exactly those
   positions (tok_choices_targets, induction on token trees). *)
From Coq Require Import String Ascii List Bool ZArith Arith Lia.
From Bardic Require Import PyStr Value Compiled Engine EngineBase EngineNav EngineUndo EngineHooks EngineReach
     EngineCheck Graph GraphProofs StoryWfProofs.
From Bardic Require Import ParseBase ParseMain ParseProofs ParseAllProofs.
Import ListNotations.
Local Open Scope string_scope.
Local Open Scope list_scope.

(* ---------------------------------------------------------------------------------------- *)
(* vocabulary *)

(* every choice target (the passage's own choices, and the choices of conditional branches and loops at any
   depth of its content) is "@join" or a defined passage, and every jump target at any depth is a defined
   passage: what Props/C12.v validated_targets_defined gives for every story the compiler returns *)
Definition story_targets_defined (st : story) : Prop :=
  forall k p, List.In (k, p) (passages st) ->
    choices_targets_ok (passages st) (choices p) /\ tokens_targets_ok (passages st) (content p).

Lemma targets_jumps_defined st : story_targets_defined st -> story_jumps_defined st.
Proof.
  intros H k p Hin. destruct (H k p Hin) as [_ Ht]. unfold tokens_targets_ok in Ht.
  eapply Forall_impl; [|exact Ht]. intros t. apply targets_ok_jumps_defined.
Qed.

(* the operations whose argument is a passage spec: the host names a defined passage *)
Definition op_defined (st : story) (o : op) : Prop :=
  match o with OpGoto spec => name_defined st spec | _ => True end.

(* ---------------------------------------------------------------------------------------- *)
(* Part 1: the block choices the renderer can report have validated targets *)

Lemma targets_ok_cond ps brs : targets_ok ps (TCond brs) ->
  Forall (fun b => match b with
                   | Branch _ cont chs => choices_targets_ok ps chs /\ tokens_targets_ok ps cont
                   end) brs.
Proof.
  induction brs as [|[c cont chs] r IH]; intros H; constructor.
  - simpl in H. destruct H as (A & B & _). split; [exact A|]. apply toks_ok_fix_eq. exact B.
  - apply IH. simpl in H. simpl. apply H.
Qed.

Lemma targets_ok_loop ps v c cont chs :
  targets_ok ps (TLoop v c cont chs) -> choices_targets_ok ps chs /\ tokens_targets_ok ps cont.
Proof. simpl. intros [A B]. split; [exact A|]. apply toks_ok_fix_eq. exact B. Qed.

Lemma tok_choices_targets ps t : targets_ok ps t ->
  forall c k, List.In (c, k) (tok_choices t) -> target_defined ps (ch_target c).
Proof.
  induction t using token_ind'; intros Ht c0 k Hin; simpl in Hin; try contradiction.
  - (* TCond *)
    apply targets_ok_cond in Ht. apply br_choices_in in Hin.
    destruct Hin as (cond & cont & chs & Hb & [Hc|Hc]).
    + rewrite Forall_forall in Ht. specialize (Ht _ Hb). simpl in Ht. destruct Ht as [A _].
      apply in_map_iff in Hc. destruct Hc as (c1 & E & Hc1). inversion E; subst.
      unfold choices_targets_ok in A. rewrite Forall_forall in A. apply A. exact Hc1.
    + apply flatl_in in Hc. destruct Hc as (t & Hti & Hc).
      rewrite Forall_forall in Ht. specialize (Ht _ Hb). simpl in Ht. destruct Ht as [_ B].
      rewrite Forall_forall in H. specialize (H _ Hb). simpl in H. destruct H as [Hcont _].
      unfold PL in Hcont. rewrite Forall_forall in Hcont.
      unfold tokens_targets_ok in B. rewrite Forall_forall in B.
      eapply Hcont; eauto.
  - (* TLoop *)
    apply targets_ok_loop in Ht. destruct Ht as [A B]. apply in_app_or in Hin. destruct Hin as [Hc|Hc].
    + apply in_map_iff in Hc. destruct Hc as (c1 & E & Hc1). inversion E; subst.
      unfold choices_targets_ok in A. rewrite Forall_forall in A. apply A. exact Hc1.
    + apply flatl_in in Hc. destruct Hc as (t & Hti & Hc).
      unfold PL in H. rewrite Forall_forall in H.
      unfold tokens_targets_ok in B. rewrite Forall_forall in B.
      eapply H; eauto.
Qed.

(* every choice at a position of a passage the walk visits has a validated target *)
Lemma passage_choice_target st pid p c k :
  story_targets_defined st -> get_passage st pid = Some p -> passage_choice p c k ->
  target_defined (passages st) (ch_target c).
Proof.
  intros Hs Hp Hc. destruct (Hs _ _ (get_passage_in _ _ _ Hp)) as [A B].
  destruct Hc as [[Hin _]|Hin].
  - unfold choices_targets_ok in A. rewrite Forall_forall in A. apply A. exact Hin.
  - unfold content_choices in Hin. apply flatl_in in Hin. destruct Hin as (t & Ht & Hin).
    unfold tokens_targets_ok in B. rewrite Forall_forall in B. eapply tok_choices_targets; eauto.
Qed.

(* ---------------------------------------------------------------------------------------- *)
(* Part 2: the invariant "every cached choice has a defined target" *)

Lemma KeepOut_lift {A} (x : res A) : KeepOut (lift_res x).
Proof. intros s s' r H. inversion H; reflexivity. Qed.
Lemma KeepOut_set_cur p : KeepOut (set_cur p).
Proof. intros s s' r H. inversion H; reflexivity. Qed.
Lemma KeepOut_set_joinidx j : KeepOut (set_joinidx j).
Proof. intros s s' r H. inversion H; reflexivity. Qed.

Section Inv.
Variable orc : pyorc.
Variable ctxkeys : list string.
Variable st : story.

Definition out_tok (o : output) : Prop :=
  forall rc, List.In rc (o_choices o) -> target_defined (passages st) (ch_target (rc_choice rc)).

Definition core_tok (c : core) : Prop := forall o, out c = Some o -> out_tok o.

(* m keeps the invariant on the cached output (whether it returns or raises) and its results satisfy Q *)
Definition HT {A} (m : M A) (Q : A -> Prop) : Prop :=
  forall s s' r, m s = (s', r) -> core_tok (nc s) -> core_tok (nc s') /\ (forall a, r = Ok a -> Q a).

Lemma HT_bind {A B} (m : M A) (f : A -> M B) (Q : A -> Prop) (R : B -> Prop) :
  HT m Q -> (forall a, Q a -> HT (f a) R) -> HT (bind m f) R.
Proof.
  intros Hm Hf s s' r H Hc. unfold bind in H. destruct (m s) as [s1 [a|e]] eqn:E.
  - destruct (Hm _ _ _ E Hc) as [C1 Q1]. eapply Hf; eauto.
  - inversion H; subst. destruct (Hm _ _ _ E Hc) as [C1 _]. split; [exact C1|]. intros a Ha. discriminate.
Qed.

Lemma HT_keep {A} (m : M A) : KeepOut m -> HT m (fun _ => True).
Proof.
  intros Hk s s' r H Hc. split; [|auto]. intros o Ho. apply Hc. rewrite <- (Hk _ _ _ H). exact Ho.
Qed.

Lemma HT_ret {A} (a : A) (Q : A -> Prop) : Q a -> HT (ret a) Q.
Proof.
  intros Hq s s' r H Hc. inversion H; subst. split; [exact Hc|]. intros b Hb. inversion Hb; subst. exact Hq.
Qed.

Lemma HT_raise {A} e (Q : A -> Prop) : HT (@raise A e) Q.
Proof. intros s s' r H Hc. inversion H; subst. split; [exact Hc|]. intros b Hb. discriminate. Qed.

Lemma HT_set_out o : out_tok o -> HT (set_out o) (fun _ => True).
Proof.
  intros Ho s s' r H _. inversion H; subst. split; [|auto]. intros o' E. simpl in E. inversion E; subst. exact Ho.
Qed.

Lemma HT_with_scope {A} p args (body : M A) (Q : A -> Prop) :
  HT body Q -> HT (with_scope orc p args body) Q.
Proof.
  intros Hb s s' r H Hc. unfold with_scope, bind in H.
  destruct (enter_scope orc p args s) as [s1 [[]|e]] eqn:E.
  - apply enter_scope_spec in E. destruct E as (Enc & _ & _).
    unfold finally in H. destruct (body s1) as [s2 r2] eqn:Eb.
    assert (Hn : nc s' = nc s2 /\ r = r2) by (destruct (has_scope p args); inversion H; split; reflexivity).
    destruct Hn as [Hn ->]. rewrite Hn. eapply Hb; eauto. rewrite Enc. exact Hc.
  - inversion H; subst. apply enter_scope_spec in E. destruct E as (Enc & _ & _). rewrite Enc.
    split; [exact Hc|]. intros a Ha. discriminate.
Qed.

Lemma out_tok_hook o h : out_tok o -> out_tok (with_hook_output o h).
Proof.
  intros Ho. unfold with_hook_output. destruct (String.eqb h ""); [exact Ho|].
  intros rc Hin. simpl in Hin. apply Ho. exact Hin.
Qed.

Lemma KeepOut_trigger_event ev : KeepOut (trigger_event orc ctxkeys st ev).
Proof. intros s s' r H. apply trigger_event_spec in H. tauto. Qed.

Lemma HT_after_hooks o : out_tok o -> HT (after_hooks orc ctxkeys st o) (fun _ => True).
Proof.
  intros Ho. unfold after_hooks.
  eapply HT_bind; [apply HT_keep, KeepOut_trigger_event|]. intros h _.
  destruct (String.eqb h ""); [apply HT_ret; exact I|].
  eapply HT_bind; [apply HT_set_out, out_tok_hook, Ho|]. intros _ _. apply HT_ret. exact I.
Qed.

Hypothesis Htg : story_targets_defined st.

(* the renderer offers only choices with validated targets *)
Lemma HT_render_passage pid : HT (render_passage orc ctxkeys st pid) out_tok.
Proof.
  intros s s' r H Hc. split.
  - intros o Ho. apply Hc.
    rewrite <- (FrameM_KeepOut _ (FrameM_render_passage orc ctxkeys st pid) _ _ _ H). exact Ho.
  - intros o ->. destruct (render_passage_positions _ _ _ _ _ _ _ H) as (p & Hp & _ & _ & B).
    intros rc Hin. destruct (B _ Hin) as [k Hk]. eapply passage_choice_target; eauto.
Qed.

Lemma HT_render_from_join_marker pid idx : HT (render_from_join_marker orc ctxkeys st pid idx) out_tok.
Proof.
  intros s s' r H Hc. split.
  - intros o Ho. apply Hc.
    rewrite <- (FrameM_KeepOut _ (FrameM_render_from_join_marker orc ctxkeys st pid idx) _ _ _ H). exact Ho.
  - intros post ->. destruct (render_from_join_marker_offered _ _ _ _ _ _ _ _ H) as [Hpid Hoff].
    intros rc Hin. destruct (Hoff _ Hin) as (p & k & Hp & Hk). eapply passage_choice_target; eauto.
Qed.

Lemma HT_goto_tail f pid vis :
  (forall spec vis', HT (goto_rec orc ctxkeys st f spec vis') out_tok) ->
  HT (goto_tail orc ctxkeys st f pid vis) out_tok.
Proof.
  intros IH. unfold goto_tail.
  eapply HT_bind; [apply HT_keep, KeepOut_get|]. intros sg _.
  eapply HT_bind; [apply HT_keep, KeepOut_set_joinidx|]. intros _ _.
  eapply HT_bind; [apply HT_keep, KeepOut_execute_passage|]. intros _ _.
  eapply HT_bind; [apply HT_render_passage|]. intros o Ho.
  eapply HT_bind with (Q := out_tok).
  - destruct (o_jump o); [|apply HT_ret; exact Ho].
    eapply HT_bind; [apply IH|]. intros jo Hjo. apply HT_ret.
    intros rc Hin. simpl in Hin. apply Hjo. exact Hin.
  - intros o' Ho'. eapply HT_bind; [apply HT_set_out; exact Ho'|]. intros _ _. apply HT_ret. exact Ho'.
Qed.

(* navigation: every output it caches (at any hop, also when the chain fails later) and the output it returns *)
Lemma HT_goto_rec f : forall spec vis, HT (goto_rec orc ctxkeys st f spec vis) out_tok.
Proof.
  induction f as [|f IH]; intros spec vis; [apply HT_raise|]. rewrite goto_rec_S.
  eapply HT_bind; [apply HT_keep, KeepOut_lift|]. intros [pid args] _.
  destruct (get_passage st pid) as [p|]; [|apply HT_raise].
  apply HT_with_scope.
  destruct (str_in pid vis); [apply HT_raise|].
  eapply HT_bind; [apply HT_keep, KeepOut_set_cur|]. intros _ _.
  apply HT_goto_tail. exact IH.
Qed.

Lemma HT_execute_join_choice c : HT (execute_join_choice orc ctxkeys st c) (fun _ => True).
Proof.
  unfold execute_join_choice.
  eapply HT_bind; [apply HT_keep, KeepOut_get|]. intros sg _. cbv zeta.
  eapply HT_bind.
  { apply HT_keep. destruct (ch_block (rc_choice c)); [apply KeepOut_ret|].
    apply KeepOut_bind; [apply FrameM_KeepOut, FrameM_render_content|]. intros [[? ?] ?]. apply KeepOut_ret. }
  intros [btxt bds] _.
  eapply HT_bind; [apply HT_keep, KeepOut_get|]. intros s1 _. cbv zeta.
  eapply HT_bind; [apply HT_render_from_join_marker|]. intros post Hpost.
  eapply HT_bind; [apply HT_keep, KeepOut_get|]. intros s2 _.
  eapply HT_bind; [apply HT_keep, KeepOut_set_joinidx|]. intros _ _. cbv zeta.
  eapply HT_bind; [apply HT_set_out|].
  - intros rc Hin. simpl in Hin. apply Hpost. exact Hin.
  - intros _ _. apply HT_after_hooks. intros rc Hin. simpl in Hin. apply Hpost. exact Hin.
Qed.

Lemma HT_choose_nav ch o : HT (choose_nav orc ctxkeys st ch o) (fun _ => True).
Proof.
  unfold choose_nav.
  eapply HT_bind with (Q := fun _ => True).
  - apply HT_keep. destruct (ch_sticky (rc_choice ch)); [apply KeepOut_ret|].
    intros s s' r H. inversion H; reflexivity.
  - intros _ _. destruct (String.eqb (ch_target (rc_choice ch)) "@join"); [apply HT_execute_join_choice|].
    eapply HT_bind; [unfold goto; apply HT_goto_rec|]. intros r Hr. apply HT_after_hooks. exact Hr.
Qed.

(* ---- whole engine states ---- *)
Definition TInv (e : estate) : Prop :=
  core_tok (ec e) /\ Forall core_tok (undo_stack e) /\ Forall core_tok (redo_stack e).

Lemma current_out_tok e : core_tok (ec e) -> out_tok (current_out e).
Proof.
  unfold current_out, core_tok. intros H. destruct (out (ec e)) as [o|]; [apply H; reflexivity|].
  intros rc [].
Qed.

Lemma run_nav_TInv {A} (m : M A) (Q : A -> Prop) e : HT m Q -> TInv e -> TInv (fst (run_nav m e)).
Proof.
  intros Hm (H1 & H2 & H3). unfold run_nav. destruct (m _) as [s r] eqn:E. simpl.
  destruct (Hm _ _ _ E H1) as [C _]. split; [exact C|]. split; assumption.
Qed.

Lemma TInv_choose e i : TInv e -> TInv (fst (choose orc ctxkeys st e i)).
Proof.
  intros HI. unfold choose.
  destruct ((i <? 0)%Z || (Z.of_nat (List.length (o_choices (current_out e))) <=? i)%Z); [exact HI|].
  destruct (nth_error (o_choices (current_out e)) (Z.to_nat i)) as [ch|]; [|exact HI].
  apply (run_nav_TInv _ (fun _ => True)); [apply HT_choose_nav|].
  destruct HI as (H1 & H2 & H3). split; [exact H1|]. split; [|constructor].
  unfold push50. apply Forall_firstn. constructor; assumption.
Qed.

Lemma TInv_goto_op e spec : TInv e -> TInv (fst (goto_op orc ctxkeys st e spec)).
Proof. intros HI. unfold goto_op, goto. apply (run_nav_TInv _ out_tok); [apply HT_goto_rec|exact HI]. Qed.

Lemma fst_obs {A} (x : estate * res A) :
  fst (match x with (e', Ok _) => (e', ObsOk) | (e', Exc y) => (e', ObsExc y) end) = fst x.
Proof. destruct x as [e' [a|y]]; reflexivity. Qed.

Lemma TInv_step e o : TInv e -> TInv (fst (step orc ctxkeys st e o)).
Proof.
  intros HI. destruct o; unfold step.
  - rewrite fst_obs. apply TInv_choose. exact HI.
  - destruct HI as (H1 & H2 & H3). unfold undo. destruct (undo_stack e) as [|p rest] eqn:Eu; simpl.
    + split; [assumption|]. split; [rewrite Eu; constructor|assumption].
    + inversion H2; subst. split; [assumption|]. split; [assumption|constructor; assumption].
  - destruct HI as (H1 & H2 & H3). unfold redo. destruct (redo_stack e) as [|p rest] eqn:Er; simpl.
    + split; [assumption|]. split; [assumption|rewrite Er; constructor].
    + inversion H3; subst. split; [assumption|]. split; [|assumption].
      unfold push50. apply Forall_firstn. constructor; assumption.
  - rewrite fst_obs. apply TInv_goto_op. exact HI.
  - exact HI.
  - exact HI.
  - destruct HI as (H1 & H2 & H3). split; [exact H1|]. split; constructor.
  - exact HI.
  - exact HI.
  - exact HI.
  - exact HI.
Qed.

Lemma TInv_init v0 : TInv (fst (init orc ctxkeys st v0)).
Proof.
  unfold init.
  set (e0 := mkES (empty_core (set_key "_inputs" (VDict []) v0)) [] [] [] []).
  assert (I0 : TInv e0).
  { split; [|split; constructor]. intros o Ho. discriminate. }
  destruct (get_passage st (initial st)); [|exact I0].
  apply TInv_goto_op. exact I0.
Qed.

Lemma TInv_reach e : reach orc ctxkeys st e -> TInv e.
Proof.
  induction 1 as [v0 e o Hi|e o Hr IH]; [|apply TInv_step; exact IH].
  replace e with (fst (init orc ctxkeys st v0)) by (rewrite Hi; reflexivity). apply TInv_init.
Qed.

End Inv.

(* ---------------------------------------------------------------------------------------- *)
(* Part 3: the engine operations with the unknown-passage raise site of goto_rec made a parameter *)

Section G.
Variable orc : pyorc.
Variable ctxkeys : list string.
Variable st : story.

Definition goto_g (unknown : M output) (spec : string) : M output :=
  goto_rec_g orc ctxkeys st unknown (S (List.length (passages st))) spec [].

Definition choose_nav_g (unknown : M output) (ch : rchoice) (o : output) : M output :=
  do _ <- (if ch_sticky (rc_choice ch) then ret tt else
             fun s => set_used (add_used (choice_id (o_pid o) (rc_text ch) (ch_target (rc_choice ch)))
                                         (used (nc s))) s);
  if String.eqb (ch_target (rc_choice ch)) "@join" then execute_join_choice orc ctxkeys st ch
  else
    do r <- goto_g unknown (jump_spec (ch_target (rc_choice ch)) (ch_args (rc_choice ch)));
    after_hooks orc ctxkeys st r.

Definition choose_g (unknown : M output) (e : estate) (i : Z) : estate * res output :=
  let o := current_out e in
  if (i <? 0)%Z || (Z.of_nat (List.length (o_choices o)) <=? i)%Z then (e, Exc IndexError) else
  match nth_error (o_choices o) (Z.to_nat i) with
  | None => (e, Exc IndexError)
  | Some ch =>
      let e1 := mkES (ec e) (push50 (ec e) (undo_stack e)) [] (escopes e) (elog e) in
      run_nav (choose_nav_g unknown ch o) e1
  end.

Definition goto_op_g (unknown : M output) (e : estate) (spec : string) : estate * res output :=
  run_nav (goto_g unknown spec) e.

(* __init__: `noinit` stands at the other place where a passage name can turn out to be undefined, "Initial
   passage ... not found in story" *)
Definition init_g (unknown : M output) (noinit : estate -> estate * res output) (v0 : env)
  : estate * res output :=
  let e0 := mkES (empty_core (set_key "_inputs" (VDict []) v0)) [] [] [] [] in
  match get_passage st (initial st) with
  | None => noinit e0
  | Some _ => goto_op_g unknown e0 (initial st)
  end.

Definition step_g (unknown : M output) (e : estate) (o : op) : estate * obs :=
  match o with
  | OpChoose i => match choose_g unknown e i with
                  | (e', Ok _) => (e', ObsOk)
                  | (e', Exc x) => (e', ObsExc x)
                  end
  | OpGoto spec => match goto_op_g unknown e spec with
                   | (e', Ok _) => (e', ObsOk)
                   | (e', Exc x) => (e', ObsExc x)
                   end
  | _ => step orc ctxkeys st e o      (* undo, redo, reset, read, reload, input, bad load, save, load: no navigation *)
  end.

(* EngineCheck.run_slot / run / run_all (whole histories, with the save slot) over step_g *)
Fixpoint run_slot_g (unknown : M output) (e : estate) (slot : option core) (ops : list op)
  : list (obs * view) :=
  match ops with
  | [] => []
  | OpSave :: r => (ObsOk, view_of e) :: run_slot_g unknown e (Some (ec e)) r
  | OpLoad :: r =>
      match slot with
      | Some c => let e' := mkES c [] [] (escopes e) (elog e) in
                  (ObsOk, view_of e') :: run_slot_g unknown e' slot r
      | None => (ObsOk, view_of e) :: run_slot_g unknown e slot r
      end
  | o :: r => let '(e', b) := step_g unknown e o in (b, view_of e') :: run_slot_g unknown e' slot r
  end.

Definition run_all_g (unknown : M output) (noinit : estate -> estate * res output) (v0 : env) (ops : list op)
  : list (obs * view) :=
  match init_g unknown noinit v0 with
  | (e0, Ok _) => (ObsOk, view_of e0) :: run_slot_g unknown e0 None ops
  | (e0, Exc x) => [(ObsExc x, view_of e0)]
  end.

(* the states (with the content of the save slot) that histories of EngineCheck.run_all go through: like
   EngineHooks.reach, plus what run_slot does for OpSave / OpLoad *)
Inductive played : estate -> option core -> Prop :=
| played_init v0 e o : init orc ctxkeys st v0 = (e, Ok o) -> played e None
| played_step e slot o : played e slot -> played (fst (step orc ctxkeys st e o)) slot
| played_save e slot : played e slot -> played e (Some (ec e))
| played_load e slot c : played e slot -> slot = Some c -> played (mkES c [] [] (escopes e) (elog e)) slot.

Lemma reach_played e : reach orc ctxkeys st e -> played e None.
Proof. induction 1 as [v0 e o Hi|e o Hr IH]; [eapply played_init; eauto|apply played_step; exact IH]. Qed.

(* ---- the real operations are the instances with the real raise ---- *)
Lemma goto_is_g spec s : goto orc ctxkeys st spec s = goto_g (raise ValueError) spec s.
Proof. unfold goto, goto_g. apply goto_rec_is_g. Qed.

Lemma choose_nav_is_g ch o s :
  choose_nav orc ctxkeys st ch o s = choose_nav_g (raise ValueError) ch o s.
Proof.
  unfold choose_nav, choose_nav_g. apply bind_ext. intros s1 _ _.
  destruct (String.eqb (ch_target (rc_choice ch)) "@join"); [reflexivity|].
  apply bind_ext_m. apply goto_is_g.
Qed.

Lemma choose_is_g e i : choose orc ctxkeys st e i = choose_g (raise ValueError) e i.
Proof.
  unfold choose, choose_g.
  destruct ((i <? 0)%Z || (Z.of_nat (List.length (o_choices (current_out e))) <=? i)%Z); [reflexivity|].
  destruct (nth_error (o_choices (current_out e)) (Z.to_nat i)) as [ch|]; [|reflexivity].
  unfold run_nav. rewrite choose_nav_is_g. reflexivity.
Qed.

Lemma goto_op_is_g e spec : goto_op orc ctxkeys st e spec = goto_op_g (raise ValueError) e spec.
Proof. unfold goto_op, goto_op_g, run_nav. rewrite goto_is_g. reflexivity. Qed.

Lemma init_is_g v0 :
  init orc ctxkeys st v0 = init_g (raise ValueError) (fun e0 => (e0, Exc ValueError)) v0.
Proof.
  unfold init, init_g. destruct (get_passage st (initial st)); [|reflexivity]. apply goto_op_is_g.
Qed.

Lemma step_is_g e o : step orc ctxkeys st e o = step_g (raise ValueError) e o.
Proof.
  destruct o; try reflexivity; unfold step, step_g.
  - rewrite choose_is_g. reflexivity.
  - rewrite goto_op_is_g. reflexivity.
Qed.

Lemma run_slot_is_g ops : forall e slot,
  run_slot orc ctxkeys st e slot ops = run_slot_g (raise ValueError) e slot ops.
Proof.
  induction ops as [|o r IH]; intros e slot; [reflexivity|].
  destruct o; cbn [run_slot run_slot_g];
    try (rewrite <- step_is_g; destruct (step orc ctxkeys st e _) as [e' b]; f_equal; apply IH).
  - f_equal. apply IH.
  - destruct slot; cbv zeta; f_equal; apply IH.
Qed.

Lemma run_all_is_g v0 ops :
  run_all orc ctxkeys st v0 ops =
  run_all_g (raise ValueError) (fun e0 => (e0, Exc ValueError)) v0 ops.
Proof.
  unfold run_all, run_all_g, run. rewrite <- init_is_g.
  destruct (init orc ctxkeys st v0) as [e0 [o|x]]; [|reflexivity]. f_equal. apply run_slot_is_g.
Qed.

(* ---- the unknown-passage site is never reached ---- *)
Hypothesis Hn : names_plain st.
Hypothesis Htg : story_targets_defined st.
Variable unknown : M output.

Lemma goto_g_eq spec s : name_defined st spec -> goto_g unknown spec s = goto orc ctxkeys st spec s.
Proof.
  intros Hd. unfold goto_g, goto. apply wf_never_unknown_passage_lemma; auto.
  apply targets_jumps_defined. exact Htg.
Qed.

(* a choice whose target is "@join" or a defined passage *)
Lemma choose_nav_g_eq ch o s :
  target_defined (passages st) (ch_target (rc_choice ch)) ->
  choose_nav_g unknown ch o s = choose_nav orc ctxkeys st ch o s.
Proof.
  intros Ht. unfold choose_nav_g, choose_nav. apply bind_ext. intros s1 _ _.
  destruct (String.eqb (ch_target (rc_choice ch)) "@join") eqn:E; [reflexivity|].
  apply bind_ext_m. apply goto_g_eq.
  apply from_jump_name_defined; [exact Hn|].
  exists (ch_target (rc_choice ch)), (ch_args (rc_choice ch)). split; [reflexivity|].
  destruct Ht as [Ht|Ht]; [|exact Ht]. rewrite Ht, String.eqb_refl in E. discriminate.
Qed.

(* choose with ANY integer, in any state that satisfies the invariant *)
Lemma choose_g_eq e i : TInv st e -> choose_g unknown e i = choose orc ctxkeys st e i.
Proof.
  intros (H1 & _ & _). unfold choose_g, choose.
  destruct ((i <? 0)%Z || (Z.of_nat (List.length (o_choices (current_out e))) <=? i)%Z); [reflexivity|].
  destruct (nth_error (o_choices (current_out e)) (Z.to_nat i)) as [ch|] eqn:En; [|reflexivity].
  unfold run_nav. rewrite choose_nav_g_eq; [reflexivity|].
  apply (current_out_tok st e H1). eapply nth_error_In; eauto.
Qed.

Lemma goto_op_g_eq e spec : name_defined st spec -> goto_op_g unknown e spec = goto_op orc ctxkeys st e spec.
Proof. intros Hd. unfold goto_op_g, goto_op, run_nav. rewrite goto_g_eq by exact Hd. reflexivity. Qed.

Lemma step_g_eq e o : TInv st e -> op_defined st o -> step_g unknown e o = step orc ctxkeys st e o.
Proof.
  intros HI Hd. destruct o; try reflexivity; unfold step_g, step.
  - rewrite choose_g_eq by exact HI. reflexivity.
  - rewrite goto_op_g_eq by exact Hd. reflexivity.
Qed.

Lemma init_g_eq noinit v0 :
  has_key (initial st) (passages st) = true -> init_g unknown noinit v0 = init orc ctxkeys st v0.
Proof.
  intros Hk. unfold init_g, init. destruct (get_passage st (initial st)) eqn:Ep.
  - apply goto_op_g_eq. apply plain_name_defined; assumption.
  - unfold has_key in Hk. unfold get_passage in Ep. rewrite Ep in Hk. discriminate.
Qed.

(* whole histories, the save slot included: what OpLoad puts back satisfies the invariant as well *)
Lemma run_slot_g_eq ops : forall e slot,
  TInv st e -> (forall c, slot = Some c -> core_tok st c) -> Forall (op_defined st) ops ->
  run_slot_g unknown e slot ops = run_slot orc ctxkeys st e slot ops.
Proof.
  induction ops as [|o r IH]; intros e slot HI Hs Hd; [reflexivity|].
  inversion Hd as [|? ? Ho Hr]; subst.
  pose proof (step_g_eq e o HI Ho) as Hstep.
  pose proof (TInv_step orc ctxkeys st Htg e o HI) as Hnext.
  destruct o; cbn [run_slot_g run_slot];
    try (rewrite Hstep; destruct (step orc ctxkeys st e _) as [e' b];
         f_equal; apply IH; [exact Hnext|exact Hs|exact Hr]).
  - (* save *) f_equal. apply IH; [exact HI| |exact Hr].
    intros c Hc. inversion Hc; subst. apply HI.
  - (* load *) destruct slot as [c|]; cbv zeta; f_equal; (apply IH; [|exact Hs|exact Hr]).
    + split; [apply Hs; reflexivity|]. split; constructor.
    + exact HI.
Qed.

Lemma played_TInv e slot : played e slot -> TInv st e /\ (forall c, slot = Some c -> core_tok st c).
Proof.
  induction 1 as [v0 e o Hi|e slot o Hp [IH1 IH2]|e slot Hp [IH1 IH2]|e slot c Hp [IH1 IH2] Hc].
  - split; [|intros c Hc; discriminate].
    replace e with (fst (init orc ctxkeys st v0)) by (rewrite Hi; reflexivity). apply TInv_init. exact Htg.
  - split; [apply TInv_step; assumption|exact IH2].
  - split; [exact IH1|]. intros c Hc. inversion Hc; subst. apply IH1.
  - split; [|exact IH2]. split; [apply IH2; exact Hc|]. split; constructor.
Qed.

Lemma played_step_g_eq e slot o :
  played e slot -> op_defined st o -> step_g unknown e o = step orc ctxkeys st e o.
Proof. intros Hp Hd. apply step_g_eq; [|exact Hd]. exact (proj1 (played_TInv e slot Hp)). Qed.

Lemma run_all_g_eq noinit v0 ops :
  has_key (initial st) (passages st) = true -> Forall (op_defined st) ops ->
  run_all_g unknown noinit v0 ops = run_all orc ctxkeys st v0 ops.
Proof.
  intros Hk Hd. unfold run_all_g, run_all, run. rewrite (init_g_eq noinit v0 Hk).
  pose proof (TInv_init orc ctxkeys st Htg v0) as HI.
  destruct (init orc ctxkeys st v0) as [e0 [o|x]]; [|reflexivity]. f_equal.
  apply run_slot_g_eq; [exact HI| |exact Hd]. intros c Hc. discriminate.
Qed.

End G.

(* ---------------------------------------------------------------------------------------- *)
(* Part 4: the statements of Props/C12.v *)

(* every choice offered in a reachable state leads somewhere: its target is "@join" or a defined passage *)
Lemma reach_offered_targets_defined_lemma : forall orc ctxkeys st,
  story_targets_defined st ->
  forall e rc, reach orc ctxkeys st e -> List.In rc (o_choices (current_out e)) ->
    target_defined (passages st) (ch_target (rc_choice rc)).
Proof.
  intros orc ctxkeys st Htg e rc Hr Hin.
  destruct (TInv_reach orc ctxkeys st Htg e Hr) as [H1 _]. exact (current_out_tok st e H1 rc Hin).
Qed.

Lemma wf_choose_never_unknown_lemma : forall orc ctxkeys st,
  names_plain st -> story_targets_defined st ->
  forall unknown e i, reach orc ctxkeys st e ->
    choose_g orc ctxkeys st unknown e i = choose orc ctxkeys st e i.
Proof.
  intros orc ctxkeys st Hn Htg unknown e i Hr. apply choose_g_eq; auto.
  exact (TInv_reach orc ctxkeys st Htg e Hr).
Qed.

Lemma wf_goto_op_never_unknown_lemma : forall orc ctxkeys st,
  names_plain st -> story_targets_defined st ->
  forall unknown e spec, name_defined st spec ->
    goto_op_g orc ctxkeys st unknown e spec = goto_op orc ctxkeys st e spec.
Proof. intros orc ctxkeys st Hn Htg unknown e spec Hd. apply goto_op_g_eq; auto. Qed.

Lemma wf_step_never_unknown_lemma : forall orc ctxkeys st,
  names_plain st -> story_targets_defined st ->
  forall unknown e o, reach orc ctxkeys st e -> op_defined st o ->
    step_g orc ctxkeys st unknown e o = step orc ctxkeys st e o.
Proof.
  intros orc ctxkeys st Hn Htg unknown e o Hr Hd. apply step_g_eq; auto.
  exact (TInv_reach orc ctxkeys st Htg e Hr).
Qed.

Lemma wf_played_never_unknown_lemma : forall orc ctxkeys st,
  names_plain st -> story_targets_defined st ->
  forall unknown e slot o, played orc ctxkeys st e slot -> op_defined st o ->
    step_g orc ctxkeys st unknown e o = step orc ctxkeys st e o.
Proof. intros orc ctxkeys st Hn Htg unknown e slot o Hp Hd. eapply played_step_g_eq; eauto. Qed.

Lemma wf_run_never_unknown_lemma : forall orc ctxkeys st,
  names_plain st -> story_targets_defined st -> has_key (initial st) (passages st) = true ->
  forall unknown noinit v0 ops, Forall (op_defined st) ops ->
    run_all_g orc ctxkeys st unknown noinit v0 ops = run_all orc ctxkeys st v0 ops.
Proof. intros orc ctxkeys st Hn Htg Hk unknown noinit v0 ops Hd. apply run_all_g_eq; auto. Qed.

(* ---- every story the compiler model returns ---- *)
Lemma parse_ok_story_wf : forall pp is_call xs lines0 story,
  parse pp is_call xs lines0 = POk story ->
  names_plain story /\ story_targets_defined story /\ has_key (initial story) (passages story) = true.
Proof.
  intros pp is_call xs lines0 story H. split; [|split].
  - exact (proj2 (parse_ok_nav_lemma _ _ _ _ _ H)).
  - intros k p Hin. eapply validated_targets_lemma; eauto.
  - exact (proj1 (parse_ok_initial_lemma _ _ _ _ _ H)).
Qed.

Lemma parse_ok_offered_targets_defined_lemma : forall pp is_call xs lines0 story,
  parse pp is_call xs lines0 = POk story ->
  forall orc ctxkeys e rc, reach orc ctxkeys story e -> List.In rc (o_choices (current_out e)) ->
    target_defined (passages story) (ch_target (rc_choice rc)).
Proof.
  intros pp is_call xs lines0 story H orc ctxkeys e rc.
  destruct (parse_ok_story_wf _ _ _ _ _ H) as (_ & Htg & _).
  apply reach_offered_targets_defined_lemma. exact Htg.
Qed.

Lemma parse_ok_choose_never_unknown_lemma : forall pp is_call xs lines0 story,
  parse pp is_call xs lines0 = POk story ->
  forall orc ctxkeys unknown e i, reach orc ctxkeys story e ->
    choose_g orc ctxkeys story unknown e i = choose orc ctxkeys story e i.
Proof.
  intros pp is_call xs lines0 story H orc ctxkeys unknown e i.
  destruct (parse_ok_story_wf _ _ _ _ _ H) as (Hn & Htg & _).
  apply wf_choose_never_unknown_lemma; assumption.
Qed.

Lemma parse_ok_step_never_unknown_lemma : forall pp is_call xs lines0 story,
  parse pp is_call xs lines0 = POk story ->
  forall orc ctxkeys unknown e o, reach orc ctxkeys story e -> op_defined story o ->
    step_g orc ctxkeys story unknown e o = step orc ctxkeys story e o.
Proof.
  intros pp is_call xs lines0 story H orc ctxkeys unknown e o.
  destruct (parse_ok_story_wf _ _ _ _ _ H) as (Hn & Htg & _).
  apply wf_step_never_unknown_lemma; assumption.
Qed.

Lemma parse_ok_played_never_unknown_lemma : forall pp is_call xs lines0 story,
  parse pp is_call xs lines0 = POk story ->
  forall orc ctxkeys unknown e slot o, played orc ctxkeys story e slot -> op_defined story o ->
    step_g orc ctxkeys story unknown e o = step orc ctxkeys story e o.
Proof.
  intros pp is_call xs lines0 story H orc ctxkeys unknown e slot o.
  destruct (parse_ok_story_wf _ _ _ _ _ H) as (Hn & Htg & _).
  apply wf_played_never_unknown_lemma; assumption.
Qed.

Lemma parse_ok_run_never_unknown_lemma : forall pp is_call xs lines0 story,
  parse pp is_call xs lines0 = POk story ->
  forall orc ctxkeys unknown noinit v0 ops, Forall (op_defined story) ops ->
    run_all_g orc ctxkeys story unknown noinit v0 ops = run_all orc ctxkeys story v0 ops.
Proof.
  intros pp is_call xs lines0 story H orc ctxkeys unknown noinit v0 ops.
  destruct (parse_ok_story_wf _ _ _ _ _ H) as (Hn & Htg & Hk).
  apply wf_run_never_unknown_lemma; assumption.
Qed.
