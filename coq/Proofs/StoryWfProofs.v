(* C12, navigation half: in a story whose jump targets are all defined passages, following a jump
   chain (Engine.goto_rec) never reaches the "unknown passage" raise site.

   The engine model's exceptions carry a kind, not a message, and ValueError is raised at three
   places of goto_rec (malformed spec, unknown passage, argument binding).  To speak about ONE raise
   site, `goto_rec_g unknown` is goto_rec with the computation `unknown` put at the unknown-passage
   site (goto_rec_is_g: goto_rec is goto_rec_g (raise ValueError)); the theorem says that the
   result does not depend on `unknown`, i.e. that site is never reached, at any hop of the chain. *)
From Coq Require Import String Ascii List Bool ZArith Arith Lia.
From Bardic Require Import PyStr Value Compiled Engine EngineBase.
Import ListNotations.
Local Open Scope list_scope.

(* ---- vocabulary ---- *)

(* every jump token at any depth of conditionals and loops targets a defined passage *)
Fixpoint jumps_defined (ps : list (string * passage)) (t : token) {struct t} : Prop :=
  let toks := fix toks (l : list token) : Prop :=
      match l with [] => True | x :: r => jumps_defined ps x /\ toks r end in
  let brs := fix brs (l : list branch) : Prop :=
      match l with
      | [] => True
      | Branch _ cont _ :: r => toks cont /\ brs r
      end in
  match t with
  | TJump tg _ => has_key tg ps = true
  | TCond branches => brs branches
  | TLoop _ _ cont _ => toks cont
  | _ => True
  end.

Definition story_jumps_defined (st : story) : Prop :=
  forall k p, In (k, p) (passages st) -> Forall (jumps_defined (passages st)) (content p).

Fixpoint no_paren (s : string) : bool :=
  match s with
  | EmptyString => true
  | String c r => negb (ascii_eqb c "("%char) && no_paren r
  end.

(* passage names contain no "(" (validate_passage_name guarantees much more) *)
Definition names_plain (st : story) : Prop := forall k p, In (k, p) (passages st) -> no_paren k = true.

(* ---- strings ---- *)

Lemma find_char_from_no_paren : forall s i, no_paren s = true -> find_char_from s "("%char i = None.
Proof.
  induction s as [|c r IH]; intros i H; simpl in *; auto.
  apply andb_prop in H. destruct H as [H1 H2]. destruct (ascii_eqb c "("%char); [discriminate|auto].
Qed.

Lemma find_char_from_app : forall x y i, no_paren x = true ->
  find_char_from (x ++ String "("%char y) "("%char i = Some (i + String.length x).
Proof.
  induction x as [|c r IH]; intros y i H; simpl in *.
  - f_equal. lia.
  - apply andb_prop in H. destruct H as [H1 H2]. destruct (ascii_eqb c "("%char); [discriminate|].
    rewrite IH; auto. f_equal. lia.
Qed.

Lemma take_app_length : forall x y, take (String.length x) (x ++ y) = x.
Proof. induction x as [|c r IH]; intros y; simpl; auto. f_equal. apply IH. Qed.

Section Nav.
Variable orc : pyorc.
Variable ctxkeys : list string.
Variable st : story.

Local Notation ps := (passages st).

(* the spec's passage name is defined whenever the spec parses *)
Definition name_defined (spec : string) : Prop :=
  forall pid args, parse_spec spec = Ok (pid, args) -> get_passage st pid <> None.

(* a spec built from a jump token with a defined target *)
Definition from_jump (spec : string) : Prop :=
  exists tg a, spec = jump_spec tg a /\ has_key tg ps = true.

Lemma in_no_paren : names_plain st -> forall tg, has_key tg ps = true -> no_paren tg = true.
Proof.
  intros Hn tg H. unfold has_key in H. destruct (lookup tg ps) as [p|] eqn:E; [|discriminate].
  assert (In (tg, p) ps).
  { clear H Hn. induction ps as [|[k q] r IH]; simpl in *; [discriminate|].
    destruct (String.eqb tg k) eqn:Ek.
    - apply String.eqb_eq in Ek. inversion E; subst. left; auto.
    - right. auto. }
  eapply Hn; eauto.
Qed.

Lemma from_jump_name_defined : names_plain st -> forall spec, from_jump spec -> name_defined spec.
Proof.
  intros Hn spec [tg [a [Hs Hk]]] pid args Hp. subst spec.
  pose proof (in_no_paren Hn tg Hk) as Hnp.
  assert (pid = tg).
  { unfold jump_spec in Hp. destruct (String.eqb a "").
    - unfold parse_spec, find_char in Hp. rewrite find_char_from_no_paren in Hp; auto. inversion Hp; auto.
    - unfold parse_spec, find_char in Hp.
      change (tg ++ "(" ++ a ++ ")")%string with (tg ++ String "("%char (a ++ ")"))%string in Hp.
      rewrite find_char_from_app in Hp; auto. simpl in Hp.
      destruct (match_paren _ _ _); [|discriminate]. inversion Hp. apply take_app_length. }
  subst pid. unfold get_passage. unfold has_key in Hk. destruct (lookup tg ps); [discriminate|discriminate].
Qed.

(* ---- a jump that rendering returns comes from a jump token ---- *)

Lemma bind_inv : forall A B (m : M A) (k : A -> M B) s s' b,
  bind m k s = (s', Ok b) -> exists s1 a, m s = (s1, Ok a) /\ k a s1 = (s', Ok b).
Proof.
  intros A B m k s s' b H. unfold bind in H. destruct (m s) as [s1 [a|e]]; [eauto|discriminate].
Qed.

Definition tok_jump_ok (f : token -> M tok_out) (t : token) : Prop :=
  forall s s' txt sp ds, f t s = (s', Ok (txt, CJump sp, ds)) -> from_jump sp.

Lemma seqr_jump : forall f l,
  Forall (tok_jump_ok f) l ->
  forall s s' txt sp ds, seqr f l s = (s', Ok (txt, Some sp, ds)) -> from_jump sp.
Proof.
  intros f l H. induction H as [|t r Ht Hr IH]; intros s s' txt sp ds E; simpl in E.
  - unfold ret, raise in E; inversion E.
  - apply bind_inv in E. destruct E as [s1 [[[txt1 c] ds1] [E1 E2]]]. simpl in E2.
    destruct c.
    + apply bind_inv in E2. destruct E2 as [s2 [[[txt2 j] ds2] [E2 E3]]]. simpl in E3.
      unfold ret, raise in E3; inversion E3; subst. eapply IH; eauto.
    + unfold ret, raise in E2; inversion E2; subst. eapply Ht; eauto.
    + unfold ret, raise in E2; inversion E2.
Qed.

Lemma branches_jump : forall f ctx brs,
  Forall (fun b => match b with Branch _ cont _ => Forall (tok_jump_ok f) cont end) brs ->
  forall s s' txt sp ds, render_branches orc f ctx brs s = (s', Ok (txt, CJump sp, ds)) -> from_jump sp.
Proof.
  intros f ctx brs H. induction H as [|[c cont chs] r Hb Hr IH]; intros s s' txt sp ds E; simpl in E.
  - unfold ret, raise in E; inversion E.
  - destruct (o_eval orc ctx c) as [b|e]; [|eapply IH; eauto].
    destruct (truthy b); [|eapply IH; eauto].
    apply bind_inv in E. destruct E as [s1 [[[txt1 j] ds1] [E1 E2]]]. simpl in E2.
    destruct j as [sp1|]; unfold ret, raise in E2; inversion E2; subst. eapply seqr_jump; eauto.
Qed.

Lemma loop_items_jump : forall f vs cont chs,
  Forall (tok_jump_ok f) cont ->
  forall items s s' txt sp ds,
    render_loop_items f vs cont chs items s = (s', Ok (txt, CJump sp, ds)) -> from_jump sp.
Proof.
  intros f vs cont chs Hc. induction items as [|item rest IH]; intros s s' txt sp ds E; simpl in E.
  - unfold ret, raise in E; inversion E.
  - apply bind_inv in E. destruct E as [s1 [s0 [E0 E]]].
    destruct (loop_bind vs item (vars (nc s0))) as [v1 orig].
    apply bind_inv in E. destruct E as [s2 [[] [_ E]]].
    apply bind_inv in E. destruct E as [s3 [[[txt1 j] ds1] [E1 E]]]. simpl in E.
    apply bind_inv in E. destruct E as [s4 [chds [_ E]]].
    apply bind_inv in E. destruct E as [s5 [s1' [_ E]]].
    apply bind_inv in E. destruct E as [s6 [[] [_ E]]].
    destruct j as [sp1|].
    + unfold ret, raise in E; inversion E; subst. eapply seqr_jump; eauto.
    + apply bind_inv in E. destruct E as [s7 [[[txt2 c2] ds2] [E2 E3]]]. simpl in E3.
      unfold ret, raise in E3; inversion E3; subst. eapply IH; eauto.
Qed.

Definition jtoks_fix := fix toks (l : list token) : Prop :=
  match l with [] => True | x :: r => jumps_defined ps x /\ toks r end.

Lemma jtoks_fix_Forall : forall l, jtoks_fix l -> Forall (jumps_defined ps) l.
Proof. induction l as [|x r IH]; simpl; intros H; constructor; [apply H|apply IH; apply H]. Qed.

Lemma Forall_mp : forall A (P Q : A -> Prop) l, Forall (fun x => P x -> Q x) l -> Forall P l -> Forall Q l.
Proof. induction 1; intros H1; inversion H1; subst; constructor; auto. Qed.

Ltac fin E := cbv beta in E; simpl in E; unfold ret, raise in E; inversion E.

Lemma render_tok_jump : forall t, jumps_defined ps t -> tok_jump_ok (render_tok orc ctxkeys) t.
Proof.
  induction t using token_ind'; intros Hd s s' txt sp ds E; simpl in E.
  - (* TText *) fin E.
  - (* TExpr *) apply bind_inv in E. destruct E as [? [? [_ E]]]. fin E.
  - (* TInlineCond *)
    apply bind_inv in E. destruct E as [s1 [ctx [_ E]]].
    destruct (o_eval orc ctx c); [|fin E].
    unfold catch in E.
    match type of E with (match ?m with _ => _ end) = _ => destruct m as [s2 [a0|e0]] eqn:Em end.
    + apply bind_inv in Em. destruct Em as [s3 [[[t1 j1] d1] [_ Em]]].
      fin Em; subst. fin E.
    + fin E.
  - (* TCond *)
    apply bind_inv in E. destruct E as [s1 [ctx [_ E]]].
    eapply branches_jump; [|exact E].
    simpl in Hd. clear E. induction H as [|[c cont chs] r [Hcont _] Hr IH]; constructor.
    + destruct Hd as [Hd1 _]. apply (Forall_mp _ _ _ _ Hcont). apply jtoks_fix_Forall. exact Hd1.
    + apply IH. apply Hd.
  - (* TLoop *)
    destruct (String.eqb v "" || String.eqb c ""); [fin E|].
    apply bind_inv in E. destruct E as [s1 [ctx [_ E]]].
    destruct (match o_eval orc ctx c with Ok c0 => py_iter c0 | Exc e => Exc e end) as [items|e]; [|fin E].
    eapply loop_items_jump; [|exact E].
    apply (Forall_mp _ _ _ _ H). apply jtoks_fix_Forall. exact Hd.
  - (* TJump *) fin E; subst. exists t, a. split; auto.
  - (* TPyStmt *) apply bind_inv in E. destruct E as [? [? [_ E]]]. fin E.
  - (* TPyBlock *) apply bind_inv in E. destruct E as [? [? [_ E]]]. fin E.
  - (* THook *) apply bind_inv in E. destruct E as [? [? [_ E]]]. fin E.
  - (* TRender *) apply bind_inv in E. destruct E as [? [? [_ E]]]. fin E.
  - (* TInput *) fin E.
  - (* TJoinMarker *) fin E.
Qed.

Lemma lookup_In : forall A k (v : A) l, lookup k l = Some v -> In (k, v) l.
Proof.
  induction l as [|[k0 v0] r IH]; simpl; intros H; [discriminate|].
  destruct (String.eqb k k0) eqn:E.
  - apply String.eqb_eq in E. inversion H; subst. left; auto.
  - right; auto.
Qed.

Lemma render_passage_jump : story_jumps_defined st ->
  forall pid s s' o sp, render_passage orc ctxkeys st pid s = (s', Ok o) -> o_jump o = Some sp -> from_jump sp.
Proof.
  intros Hst pid s s' o sp E Hj. unfold render_passage in E.
  destruct (get_passage st pid) as [p|] eqn:Ep; [|inversion E].
  apply bind_inv in E. destruct E as [s1 [[] [_ E]]].
  apply bind_inv in E. destruct E as [s2 [[[txt j] ds] [E1 E]]]. simpl in E.
  destruct (split_dirs ds) as [[cds ins] rds].
  apply bind_inv in E. destruct E as [s3 [s3' [_ E]]].
  apply bind_inv in E. destruct E as [s4 [chs [_ E]]].
  inversion E; subst. simpl in Hj. subst j.
  unfold render_content in E1. eapply seqr_jump; [|exact E1].
  unfold get_passage in Ep. apply lookup_In in Ep. apply Hst in Ep.
  eapply Forall_impl; [|exact Ep]. intros t Ht. apply render_tok_jump; auto.
Qed.

(* ---- goto_rec with the unknown-passage site made a parameter ---- *)

Fixpoint goto_rec_g (unknown : M output) (fuel : nat) (spec : string) (visited : list string) : M output :=
  match fuel with
  | O => raise OtherError
  | S fuel' =>
      do '(pid, args) <- lift_res (parse_spec spec);
      match get_passage st pid with
      | None => unknown
      | Some p =>
          with_scope orc p args
            (if str_in pid visited then raise RuntimeError else
             do _ <- set_cur pid;
             do s <- get;
             do _ <- set_joinidx (set_key pid 0 (joinidx (nc s)));
             do _ <- execute_passage orc ctxkeys st pid;
             do o <- render_passage orc ctxkeys st pid;
             do o' <- match o_jump o with
                      | Some target =>
                          do jo <- goto_rec_g unknown fuel' target (visited ++ [pid])%list;
                          ret (chain_output o jo)
                      | None => ret o
                      end;
             do _ <- set_out o';
             ret o')
      end
  end.

Lemma bind_ext : forall A B (m : M A) (k1 k2 : A -> M B) s,
  (forall s1 a, m s = (s1, Ok a) -> k1 a s1 = k2 a s1) -> bind m k1 s = bind m k2 s.
Proof. intros A B m k1 k2 s H. unfold bind. destruct (m s) as [s1 [a|e]]; auto. Qed.

Lemma with_scope_ext : forall A p args (b1 b2 : M A) s,
  (forall s1, b1 s1 = b2 s1) -> with_scope orc p args b1 s = with_scope orc p args b2 s.
Proof.
  intros A p args b1 b2 s H. unfold with_scope. apply bind_ext. intros s1 _ _.
  unfold finally. rewrite H. reflexivity.
Qed.

Lemma bind_ext_m : forall A B (m1 m2 : M A) (k : A -> M B) s, m1 s = m2 s -> bind m1 k s = bind m2 k s.
Proof. intros A B m1 m2 k s H. unfold bind. rewrite H. reflexivity. Qed.

(* goto_rec is the instance with the real raise *)
Lemma goto_rec_is_g : forall fuel spec visited s,
  goto_rec orc ctxkeys st fuel spec visited s = goto_rec_g (raise ValueError) fuel spec visited s.
Proof.
  induction fuel as [|f IH]; intros spec visited s; [reflexivity|].
  cbn [goto_rec goto_rec_g]. apply bind_ext. intros s1 [pid args] _. simpl.
  destruct (get_passage st pid) as [p|]; [|reflexivity].
  apply with_scope_ext. intros s2. destruct (str_in pid visited); [reflexivity|].
  apply bind_ext; intros s3 _ _. apply bind_ext; intros s4 s4' _.
  apply bind_ext; intros s5 _ _. apply bind_ext; intros s6 _ _.
  apply bind_ext; intros s7 o _. apply bind_ext_m.
  destruct (o_jump o) as [target|]; [|reflexivity].
  apply bind_ext_m. apply IH.
Qed.

(* the unknown-passage site is never reached: the result is the same whatever is put there *)
Lemma goto_rec_g_indep : story_jumps_defined st -> names_plain st ->
  forall u1 u2 fuel spec visited s, name_defined spec ->
  goto_rec_g u1 fuel spec visited s = goto_rec_g u2 fuel spec visited s.
Proof.
  intros Hst Hn u1 u2. induction fuel as [|f IH]; intros spec visited s Hd; [reflexivity|].
  cbn [goto_rec_g]. apply bind_ext. intros s1 [pid args] Hp. simpl.
  unfold lift_res in Hp. inversion Hp; subst.
  destruct (get_passage st pid) as [p|] eqn:Ep.
  2:{ exfalso. eapply Hd; eauto. }
  apply with_scope_ext. intros s2. destruct (str_in pid visited); [reflexivity|].
  apply bind_ext; intros s3 _ _. apply bind_ext; intros s4 s4' _.
  apply bind_ext; intros s5 _ _. apply bind_ext; intros s6 _ _.
  apply bind_ext; intros s7 o Er. apply bind_ext_m.
  destruct (o_jump o) as [target|] eqn:Ej; [|reflexivity].
  apply bind_ext_m. apply IH. apply from_jump_name_defined; auto.
  eapply render_passage_jump; eauto.
Qed.

Lemma wf_never_unknown_passage_lemma : story_jumps_defined st -> names_plain st ->
  forall unknown fuel spec visited s, name_defined spec ->
  goto_rec_g unknown fuel spec visited s = goto_rec orc ctxkeys st fuel spec visited s.
Proof.
  intros Hst Hn unknown fuel spec visited s Hd. rewrite goto_rec_is_g.
  apply goto_rec_g_indep; auto.
Qed.

(* a spec that is just a defined passage name *)
Lemma plain_name_defined : names_plain st -> forall pid, has_key pid ps = true -> name_defined pid.
Proof.
  intros Hn pid Hk. apply from_jump_name_defined; auto. exists pid, ""%string. split; auto.
Qed.

End Nav.

(* ---- the validator's acceptance and the hypothesis above ---- *)

(* `-> @join` is accepted by the compiler's validator (it skips the reserved target for jumps as it
   does for choices) although "@join" is not a passage: the engine then stops with ValueError
   "Cannot navigate to unknown passage: '@join'".  Witness story and a trivial oracle. *)
Local Open Scope string_scope.
Definition join_jump_story : story :=
  mkStory "Start" [("Start", mkPassage "Start" [] [TText "hi"; TJump "@join" ""] [] [] [] [])] [] [].

Definition null_orc : pyorc :=
  mkOrc (fun _ _ => Exc NameError) (fun e _ => Ok e) (fun _ _ => Exc ValueError) (fun _ _ => Ok ([], [])).

Lemma join_jump_unknown :
  snd (goto null_orc [] join_jump_story "Start" (mkNS (empty_core []) [] [])) = Exc ValueError.
Proof. vm_compute. reflexivity. Qed.
