(* C17, legacy `<<...>>` block headers versus `@...:` block headers: the whole-input theorem

     legacy_and_at_forms_compile_identically_lemma :
       forall pp is_call ls, admissible ls = true ->
       parse_real pp is_call (map to_at_form ls) = parse_real pp is_call ls
     legacy_and_at_forms_mixed : the same for any ls' with Forall2 R ls ls' (any subset of the headers rewritten).

   How it is proved.  Two inputs related line by line by Rx are run side by side through every loop of the parser
   model; the parser states stay EQUAL, only the line lists differ:
     prepass_sim      strip_comments_outside_python keeps the lists related (its own state is the same on both:
                      no test it makes can tell the two forms apart; the bracket count of a multi-line ~ statement
                      is the same, SurfaceFormsBase.Rx_scan)
     py_sim, emx_sim, join_sim
                      the three places where lines are taken verbatim (Python block, continuation lines of a ~
                      statement, block of a `-> @join` choice) give the same result when no legacy header is among
                      the lines they consume (safe_until, eme_safe); since fix F17n the third needs no condition
     cond_step_sim, loop_collect_sim, lbody_step_sim, blocks_sim
                      extract_conditional_block / extract_loop_block, mutually recursive with fuel, on any pair of
                      related lists (a loop re-parses a dedented copy of its body: Rx_dedent)
     main_body_sim, main_step_sim, parse_loop_sim
                      the main loop
   The side condition `admissible` is computed by checker functions (`*_chk`) that follow the control flow of these
   loops on the ORIGINAL input, calling the real step functions to know where to go next, and test at each visited
   line that a legacy header is read as a header.  parse_loop_chk_mono: the check made with the oracle that accepts
   every ~ statement is good for every oracle.  Props/C17b.v quotes the statements. *)
From Coq Require Import String Ascii List Bool Arith ZArith Lia.
From Bardic Require Import PyStr Value Compiled Lex ParseBase ParseLine ParseMain ParseBlocks.
From Bardic Require Import LexProofs ParseProofs SurfaceProofs ParseBlocksInst ParseAllProofs.
From Bardic Require Import SurfaceFormsBase.
Import ListNotations.
Local Open Scope string_scope.
Local Open Scope nat_scope.

Notation spcop := strip_comments_outside_python.

(* ------------------------------------------------------------------------------------------- *)
(* tests on lines whose indentation is not known                                                *)
(* ------------------------------------------------------------------------------------------- *)

Lemma sw_line : forall ind X a p, all_space ind = true -> is_space a = false ->
  startswith X (String a "") = false -> startswith (ind ++ X) (String a p) = false.
Proof.
  intros [|s ind] X a p Hi Ha HX.
  - cbn [append]. destruct X as [|x X]; [reflexivity|]. simpl in HX |- *.
    destruct (ascii_eqb x a); [destruct X; simpl in HX; discriminate HX|reflexivity].
  - simpl in Hi. apply andb_prop in Hi. destruct Hi as [Hs _]. simpl.
    destruct (ascii_eqb s a) eqn:E; [|reflexivity]. unfold ascii_eqb in E. apply Ascii.eqb_eq in E. subst s. congruence.
Qed.

Lemma sw_nil : forall s, startswith s "" = true.
Proof. destruct s; reflexivity. Qed.

(* evaluate a test on a concrete header text *)
Ltac hp_refl := cbn; rewrite ?sw_nil; cbn; reflexivity.

Definition closer_std (c : option string) : Prop := c = None \/ c = Some "@endpy" \/ c = Some ">>".

Lemma prepass_sim : forall ls ls', Forall2 Rx ls ls' -> forall closer ins skip, closer_std closer ->
  Forall2 Rx (spcop ls closer ins skip) (spcop ls' closer ins skip).
Proof.
  intros ls ls' F. induction F as [|l l' r r' H F IH]; intros closer ins skip Hc; [constructor|].
  cbn [strip_comments_outside_python]. destruct skip as [|k]; [|constructor; [exact H|apply IH; exact Hc]].
  destruct H as [<-|(ind & B & B' & t & t' & Hi & Ht & Ht' & HP & -> & ->)].
  - (* the same line *)
    set (bare := if ParseLine.nonempty (snd (strip_inline_comment l)) then _ else l).
    destruct closer as [c|].
    + destruct (String.eqb (strip bare) c); constructor; try apply Rx_refl; apply IH; [left; reflexivity|exact Hc].
    + destruct (ins || startswith l ":: " || startswith (strip bare) "@start ");
        [|constructor; [apply Rx_refl|apply IH; left; reflexivity]].
      destruct (startswith (strip bare) "@py"); [constructor; [apply Rx_refl|apply IH; right; left; reflexivity]|].
      destruct (startswith (strip bare) "<<py"); [constructor; [apply Rx_refl|apply IH; right; right; reflexivity]|].
      destruct (startswith (strip bare) "~ "); [|constructor; [apply Rx_refl|apply IH; left; reflexivity]].
      rewrite !eme_skip_eq. unfold eme_skip. rewrite (Rx_eme_count _ _ F).
      constructor; [apply Rx_refl|apply IH; left; reflexivity].
  - (* a header in its two forms *)
    destruct (hp_strip _ _ HP) as [Hs [Hs' [Hn Hn']]].
    rewrite (changed_nc ind B B' t Hi Ht HP).
    rewrite (changed_nc' ind B B' t' Hi Ht' HP).
    cbn [snd ParseLine.nonempty].
    rewrite (strip_mid ind B t Hi Ht Hs Hn), (strip_mid ind B' t' Hi Ht' Hs' Hn').
    assert (HR : Rx (ind ++ B ++ t) (ind ++ B' ++ t')).
    { right. exists ind, B, B', t, t'. repeat split; assumption. }
    assert (Hh : startswith (ind ++ B ++ t) ":: " = false /\ startswith (ind ++ B' ++ t') ":: " = false).
    { split; apply sw_line; try assumption; try reflexivity; destruct HP; reflexivity. }
    destruct Hh as [Hh Hh']. rewrite Hh, Hh'.
    destruct closer as [c|].
    + assert (Ec : String.eqb B c = false /\ String.eqb B' c = false).
      { destruct Hc as [Hc|[Hc|Hc]]; [discriminate| |]; injection Hc as ->; destruct HP; split; reflexivity. }
      destruct Ec as [Ec Ec']. rewrite Ec, Ec'. constructor; [exact HR|apply IH; exact Hc].
    + assert (E1 : startswith B "@start " = false /\ startswith B' "@start " = false) by (destruct HP; split; reflexivity).
      assert (E2 : startswith B "@py" = false /\ startswith B' "@py" = false) by (destruct HP; split; reflexivity).
      assert (E3 : startswith B "<<py" = false /\ startswith B' "<<py" = false) by (destruct HP; split; reflexivity).
      assert (E4 : startswith B "~ " = false /\ startswith B' "~ " = false) by (destruct HP; split; reflexivity).
      destruct E1 as [E1 E1']. destruct E2 as [E2 E2']. destruct E3 as [E3 E3']. destruct E4 as [E4 E4'].
      rewrite E1, E1', E2, E2', E3, E3', E4, E4', !orb_false_r.
      destruct ins; cbn [orb]; (constructor; [|apply IH; left; reflexivity]); [apply Rx_rstrip|]; exact HR.
Qed.

(* ------------------------------------------------------------------------------------------- *)
(* Python blocks                                                                                *)
(* ------------------------------------------------------------------------------------------- *)

(* no legacy header between here and the line that closes the Python block *)
Fixpoint safe_until (c : string) (r : list string) : bool :=
  match r with
  | [] => true
  | x :: r' => if String.eqb (strip x) c then true else negb (is_leg x) && safe_until c r'
  end.

Definition py_chk (lines : list string) (i : nat) : bool :=
  match nth_error lines i with
  | None => true
  | Some line =>
      let s := strip line in
      if startswith s "<<py" then safe_until ">>" (skipn (S i) lines)
      else if startswith s "@py" then
        (if String.eqb s "@py:" then safe_until "@endpy" (skipn (S i) lines) else true)
      else true
  end.

Lemma changed_strip_neq : forall l l' c, Rx l l' -> l <> l' -> (c = "@endpy" \/ c = ">>") ->
  String.eqb (strip l) c = false /\ String.eqb (strip l') c = false.
Proof.
  intros l l' c H Hne Hc. destruct (Rx_strip _ _ H) as [E|[HP _]]; [congruence|].
  destruct Hc as [-> | ->]; destruct HP; split; reflexivity.
Qed.

Lemma string_dec_eq : forall a b : string, {a = b} + {a <> b}.
Proof. exact string_dec. Qed.

Lemma py_new_go_sim : forall fx opener start r r', Forall2 Rx r r' -> safe_until "@endpy" r = true ->
  forall code k, py_new_go fx opener start r' code k = py_new_go fx opener start r code k.
Proof.
  intros fx opener start r r' F. induction F as [|x x' r r' H F IH]; intros Hs code k; [reflexivity|].
  cbn [py_new_go]. cbn [safe_until] in Hs.
  destruct (string_dec_eq x x') as [<-|Hne].
  - destruct (String.eqb (strip x) "@endpy"); [reflexivity|].
    apply andb_prop in Hs. destruct Hs as [_ Hs]. apply IH. exact Hs.
  - destruct (changed_strip_neq x x' "@endpy" H Hne (or_introl eq_refl)) as [E1 E2].
    rewrite E1 in Hs. apply andb_prop in Hs. destruct Hs as [Hl _].
    apply negb_true_iff in Hl. elim Hne. apply Rx_changed; assumption.
Qed.

Lemma py_old_go_sim : forall opener start r r', Forall2 Rx r r' -> safe_until ">>" r = true ->
  forall base code k, py_old_go opener start r' base code k = py_old_go opener start r base code k.
Proof.
  intros opener start r r' F. induction F as [|x x' r r' H F IH]; intros Hs base code k; [reflexivity|].
  cbn [py_old_go]. cbn [safe_until] in Hs.
  destruct (string_dec_eq x x') as [<-|Hne].
  - destruct (String.eqb (strip x) ">>"); [reflexivity|].
    apply andb_prop in Hs. destruct Hs as [_ Hs]. apply IH. exact Hs.
  - destruct (changed_strip_neq x x' ">>" H Hne (or_intror eq_refl)) as [E1 E2].
    rewrite E1 in Hs. apply andb_prop in Hs. destruct Hs as [Hl _].
    apply negb_true_iff in Hl. elim Hne. apply Rx_changed; assumption.
Qed.

Lemma nth_default_error : forall i (ls : list string) l, nth_error ls i = Some l -> nth i ls EmptyString = l.
Proof. induction i as [|i IH]; intros [|x ls] l H; simpl in *; try discriminate; [congruence|apply IH; exact H]. Qed.

Lemma py_sim : forall fx L L' i, Forall2 Rx L L' -> py_chk L i = true ->
  extract_python_block_v fx L' i = extract_python_block_v fx L i.
Proof.
  intros fx L L' i F Hc. unfold extract_python_block_v, py_chk in *.
  pose proof (Forall2_Rx_nth i _ _ F) as Hn.
  destruct (nth_error L i) as [l|] eqn:El; destruct (nth_error L' i) as [l'|] eqn:El'; try contradiction; [|reflexivity].
  destruct (Rx_strip _ _ Hn) as [<-|[HP _]].
  - destruct (startswith (strip l) "<<py").
    + unfold extract_py_old_syntax.
      rewrite (nth_default_error _ _ _ El), (nth_default_error _ _ _ El').
      apply py_old_go_sim; [apply Forall2_Rx_skipn; exact F|exact Hc].
    + destruct (startswith (strip l) "@py"); [|reflexivity].
      unfold extract_py_new_syntax_v. rewrite El, El'.
      destruct (String.eqb (strip l) "@py:"); [|reflexivity]. cbn [negb].
      apply py_new_go_sim; [apply Forall2_Rx_skipn; exact F|exact Hc].
  - assert (E : startswith (strip l) "<<py" = false /\ startswith (strip l') "<<py" = false /\
                startswith (strip l) "@py" = false /\ startswith (strip l') "@py" = false)
      by (destruct HP; repeat split; reflexivity).
    destruct E as [E1 [E2 [E3 E4]]]. rewrite E1, E2, E3, E4. reflexivity.
Qed.

(* ------------------------------------------------------------------------------------------- *)
(* multi-line `~` statements                                                                    *)
(* ------------------------------------------------------------------------------------------- *)

Fixpoint eme_safe (rest : list string) (stack : list ascii) : bool :=
  match rest with
  | [] => true
  | l :: r =>
      match stack with
      | [] => true
      | _ => negb (is_leg l) &&
             match scan_brackets l stack with
             | [] => true
             | st' => eme_safe r st'
             end
      end
  end.

(* no legacy header among the continuation lines of the statement that starts at line i with `code` *)
Definition emx_chk (lines : list string) (i : nat) (code : string) : bool :=
  let s := strip code in
  if negb (endswith s "[" || endswith s "{" || endswith s "(") then true
  else eme_safe (skipn (S i) lines) (initial_stack s []).

Lemma eme_loop_sim : forall r r', Forall2 Rx r r' -> forall st acc n, eme_safe r st = true ->
  eme_loop r' st acc n = eme_loop r st acc n /\
  firstn (eme_count r st) r' = firstn (eme_count r st) r.
Proof.
  intros r r' F. induction F as [|l l' r r' H F IH]; intros st acc n Hs; [split; reflexivity|].
  cbn [eme_loop eme_safe eme_count] in *. destruct st as [|t st]; [split; reflexivity|].
  apply andb_prop in Hs. destruct Hs as [Hl Hs]. apply negb_true_iff in Hl.
  pose proof (Rx_changed _ _ H Hl) as <-.
  destruct (scan_brackets l (t :: st)) as [|t' st'] eqn:E; [split; reflexivity|].
  destruct (IH (t' :: st') (l :: acc) (S n) Hs) as [H1 H2]. split; [exact H1|].
  cbn [firstn]. f_equal. exact H2.
Qed.

Lemma emx_sim : forall L L' i code, Forall2 Rx L L' -> emx_chk L i code = true ->
  extract_multiline_expression L' i code = extract_multiline_expression L i code /\
  firstn (snd (extract_multiline_expression L i code) - 1) (skipn (S i) L') =
  firstn (snd (extract_multiline_expression L i code) - 1) (skipn (S i) L).
Proof.
  intros L L' i code F Hc. unfold extract_multiline_expression, emx_chk in *.
  destruct (negb _); [split; reflexivity|].
  destruct (eme_loop_sim _ _ (Forall2_Rx_skipn (S i) _ _ F) (initial_stack (strip code) []) [code] 0 Hc) as [H1 H2].
  rewrite H1. split; [reflexivity|].
  pose proof (eme_loop_count (skipn (S i) L) (initial_stack (strip code) []) [code] 0) as Hn.
  destruct (eme_loop (skipn (S i) L) (initial_stack (strip code) []) [code] 0) as [acc n].
  cbn [snd] in *. replace (S n - 1) with (eme_count (skipn (S i) L) (initial_stack (strip code) [])) by lia.
  exact H2.
Qed.

(* ------------------------------------------------------------------------------------------- *)
(* the block of a `-> @join` choice                                                             *)
(* ------------------------------------------------------------------------------------------- *)

(* Since fix F17n a legacy block header ends the block exactly as its @ form does (is_join_block_terminator:
   legacy_markers), so the extractor cannot tell the two forms apart: no side condition.  (Before the fix an
   indented legacy header was collected into the block as text while its @ form ended the block, and `admissible`
   had to exclude legacy headers from join blocks: join_safe.) *)
Lemma join_collect_sim : forall ci r r', Forall2 Rx r r' ->
  forall blk k, join_collect ci r' blk k = join_collect ci r blk k.
Proof.
  intros ci r r' F. induction F as [|x x' r r' H F IH]; intros blk k; [reflexivity|].
  cbn [join_collect].
  destruct (Rx_strip _ _ H) as [<-|[HP _]].
  - destruct (is_join_block_terminator x); [reflexivity|].
    destruct (negb (ParseBlocks.nonempty (strip x)) || is_comment_line x); [apply IH|].
    destruct (ws_run x <=? ci); [reflexivity|]. apply IH.
  - assert (E : is_join_block_terminator x = true /\ is_join_block_terminator x' = true).
    { unfold is_join_block_terminator. destruct HP; split; hp_refl. }
    destruct E as [E1 E2]. rewrite E1, E2. reflexivity.
Qed.

Lemma join_sim : forall lf L L' start ci, Forall2 Rx L L' ->
  extract_join_choice_block lf L' start ci = extract_join_choice_block lf L start ci.
Proof.
  intros lf L L' start ci F. unfold extract_join_choice_block.
  rewrite (join_collect_sim ci _ _ (Forall2_Rx_skipn start _ _ F)). reflexivity.
Qed.

(* ------------------------------------------------------------------------------------------- *)
(* the conditional and the loop extractor                                                       *)
(* ------------------------------------------------------------------------------------------- *)

Section Blocks.
Variable fixed : bool.
Variable cap : option nat.
Variable lf : linefns.
Hypothesis Hemx : lf_emx lf = extract_multiline_expression.

Section OpenChk.
Variables rc rl : list string -> nat -> pres (token * nat).
Variables rcchk rlchk : list string -> nat -> bool.

(* one visited line of extract_conditional_block: the Python block / statement / nested block that starts
   here contains no legacy header read as text, and the line itself is not a legacy <<endfor>> (which a
   conditional branch takes for a text line) *)
Definition cond_line_chk (lines : list string) (start i : nat) (line : string) (st : cstate) : bool :=
  let stripped := strip line in
  let cur := has_cur st in
  if startswith stripped "#" then true
  else if is_py_line stripped && cur then py_chk lines i
  else if startswith stripped "@input" && cur then true
  else if startswith stripped "@render" && cur then true
  else if startswith stripped "@hook " && cur then true
  else if startswith stripped "@unhook " && cur then true
  else if startswith stripped "~ " && cur
       then emx_chk lines i (fst (strip_inline_comment (strip (drop 2 stripped))))
  else if is_if_line stripped && negb (i =? start) && cur then rcchk lines i
  else if is_for_line stripped && cur then rlchk lines i
  else negb (String.eqb stripped "<<endfor>>" && cur).

Fixpoint cond_go_chk (lines : list string) (start : nat) (rest : list string) (i skip : nat) (st : cstate)
  : bool :=
  match rest with
  | [] => true
  | line :: rest' =>
      match skip with
      | S k => cond_go_chk lines start rest' (S i) k st
      | O =>
          cond_line_chk lines start i line st &&
          match cond_step fixed lf rc rl lines start i line st with
          | POk (CNext st' (S k)) => cond_go_chk lines start rest' (S i) k st'
          | _ => true
          end
      end
  end.

(* one visited line of the (dedented) body of extract_loop_block *)
Definition body_line_chk (ded : list string) (j : nat) (line : string) : bool :=
  let stripped := strip line in
  if startswith stripped "#" then true
  else if is_py_line stripped then py_chk ded j
  else if startswith stripped "@input" then true
  else if startswith stripped "@render" then true
  else if startswith stripped "@hook " then true
  else if startswith stripped "@unhook " then true
  else if startswith line "~ " then emx_chk ded j (fst (strip_inline_comment (strip (drop 2 line))))
  else if is_for_line stripped then rlchk ded j
  else if is_if_line stripped then rcchk ded j
  else if startswith stripped "->" then true
  else if is_choice_line stripped then true
  else negb (is_leg line).

Fixpoint body_go_chk (ded rest : list string) (j skip : nat) (content : list token) (chs : list choice)
  : bool :=
  match rest with
  | [] => true
  | line :: rest' =>
      match skip with
      | S k => body_go_chk ded rest' (S j) k content chs
      | O =>
          body_line_chk ded j line &&
          match ParseBlocks.body_step fixed lf rc rl ded j line content chs with
          | POk (content', chs', S k) => body_go_chk ded rest' (S j) k content' chs'
          | _ => true
          end
      end
  end.

Definition loop_body_chk (lines : list string) (start : nat) : bool :=
  match loop_collect start (skipn start lines) start false 0%Z [] "" "" with
  | POk (_, _, raw, _, _) =>
      let ded := detect_and_strip_indentation (if fixed then drop_leading_comments raw else raw) in
      body_go_chk ded ded 0 0 [] []
  | _ => true
  end.

Hypothesis Hrc : forall M M' i, Forall2 Rx M M' -> rcchk M i = true -> rc M' i = rc M i.
Hypothesis Hrl : forall M M' i, Forall2 Rx M M' -> rlchk M i = true -> rl M' i = rl M i.

Lemma cond_py_statement_sim : forall L L' i line raw, Forall2 Rx L L' ->
  emx_chk L i (fst (strip_inline_comment (strip raw))) = true ->
  cond_py_statement fixed lf L' i line raw = cond_py_statement fixed lf L i line raw.
Proof.
  intros L L' i line raw F Hc. unfold cond_py_statement, py_statement. rewrite Hemx.
  destruct (emx_sim L L' i _ F Hc) as [H1 H2]. rewrite H1.
  destruct (fixed && (1 <? snd (extract_multiline_expression L i (fst (strip_inline_comment (strip raw)))))); [|reflexivity].
  rewrite H2. reflexivity.
Qed.

Lemma cond_step_sim : forall L L' start i line line' st, Forall2 Rx L L' -> Rx line line' ->
  cond_line_chk L start i line st = true ->
  cond_step fixed lf rc rl L' start i line' st = cond_step fixed lf rc rl L start i line st.
Proof.
  intros L L' start i line line' st F H Hc.
  destruct (Rx_strip _ _ H) as [<-|[HP _]].
  - unfold cond_step, cond_line_chk in *. cbv zeta in *.
    destruct (startswith (strip line) "#"); [reflexivity|].
    destruct (is_py_line (strip line) && has_cur st); [rewrite (py_sim fixed L L' i F Hc); reflexivity|].
    destruct (startswith (strip line) "@input" && has_cur st); [reflexivity|].
    destruct (startswith (strip line) "@render" && has_cur st); [reflexivity|].
    destruct (startswith (strip line) "@hook " && has_cur st); [reflexivity|].
    destruct (startswith (strip line) "@unhook " && has_cur st); [reflexivity|].
    destruct (startswith (strip line) "~ " && has_cur st);
      [rewrite (cond_py_statement_sim L L' i line _ F Hc); reflexivity|].
    destruct (is_if_line (strip line) && negb (i =? start) && has_cur st); [rewrite (Hrc L L' i F Hc); reflexivity|].
    destruct (is_for_line (strip line) && has_cur st); [rewrite (Hrl L L' i F Hc); reflexivity|].
    reflexivity.
  - unfold cond_step, cond_line_chk in *. cbv zeta in *.
    destruct (hp_nc _ _ HP) as [Hf Hf']. rewrite Hf, Hf'. cbn [fst].
    revert Hc.
    destruct HP as [c x body Hne Hn1 Hn2 Hm1 Hm2 Hx | c x body Hne Hn1 Hn2 Hm1 Hm2 Hx | | | m v coll Hne Hn1 Hn2 Hm1 Hm2 | ];
      unfold is_if_line, is_for_line, is_py_line, is_choice_line, legacy_condition.
    + (* if *)
      cbn [append] in Hm1, Hm2.
      cbn -[strip strip_inline_comment flush_cur match_legacy match_colon_tail]. rewrite ?sw_nil.
      rewrite Hm1, Hm2, Hx.
      intros Hc. destruct (i =? start); destruct (has_cur st); cbn in *; try reflexivity.
      rewrite (Hrc L L' i F Hc). reflexivity.
    + (* elif *)
      cbn [append] in Hm1, Hm2.
      cbn -[strip strip_inline_comment flush_cur match_legacy match_colon_tail start_new_branch]. rewrite ?sw_nil.
      rewrite Hm1, Hm2, Hx.
      intros _. reflexivity.
    + (* else *)
      cbn -[flush_cur start_new_branch]. intros _. reflexivity.
    + (* endif *)
      cbn -[flush_cur finalize]. intros _. reflexivity.
    + (* for *)
      cbn -[strip strip_inline_comment flush_cur]. rewrite ?sw_nil.
      intros Hc. destruct (has_cur st); cbn in *; try reflexivity.
      rewrite (Hrl L L' i F Hc). reflexivity.
    + (* endfor *)
      cbn -[flush_cur]. destruct (has_cur st); cbn; [discriminate|reflexivity].
Qed.

Lemma cond_go_sim : forall L L' start, Forall2 Rx L L' ->
  forall rest rest', Forall2 Rx rest rest' -> forall i skip st,
  cond_go_chk L start rest i skip st = true ->
  cond_go fixed lf rc rl L' start rest' i skip st = cond_go fixed lf rc rl L start rest i skip st.
Proof.
  intros L L' start F rest rest' G. induction G as [|line line' rest rest' H G IH]; intros i skip st Hc; [reflexivity|].
  cbn [cond_go cond_go_chk] in *. destruct skip as [|k]; [|apply IH; exact Hc].
  apply andb_prop in Hc. destruct Hc as [Hc1 Hc2].
  rewrite (cond_step_sim L L' start i line line' st F H Hc1).
  destruct (cond_step fixed lf rc rl L start i line st) as [[st' [|k]|brs]|d|e|]; try reflexivity.
  apply IH. exact Hc2.
Qed.

Lemma cond_body_sim : forall L L' start, Forall2 Rx L L' ->
  cond_go_chk L start (skipn start L) start 0 cstate0 = true ->
  cond_body fixed lf rc rl L' start = cond_body fixed lf rc rl L start.
Proof.
  intros L L' start F Hc. unfold cond_body. apply cond_go_sim; [exact F|apply Forall2_Rx_skipn; exact F|exact Hc].
Qed.

(* ---- the loop ---- *)

(* the first pass of extract_loop_block never looks at more than the kind of a header line *)
Definition collect_rel (a b : pres (bool * nat * list string * string * string)) : Prop :=
  match a, b with
  | POk (f, i, raw, v, c), POk (f', i', raw', v', c') => f' = f /\ i' = i /\ Forall2 Rx raw raw' /\ v' = v /\ c' = c
  | PDiag d, PDiag d' => d' = d
  | PInternal e, PInternal e' => e' = e
  | POutOfFuel, POutOfFuel => True
  | _, _ => False
  end.

Lemma loop_collect_sim : forall start rest rest', Forall2 Rx rest rest' ->
  forall i started depth raw raw' vr cl, Forall2 Rx raw raw' ->
  collect_rel (loop_collect start rest i started depth raw vr cl)
              (loop_collect start rest' i started depth raw' vr cl).
Proof.
  intros start rest rest' G. induction G as [|line line' rest rest' H G IH]; intros i started depth raw raw' vr cl Hr.
  - cbn. repeat split; try reflexivity. exact Hr.
  - cbn [loop_collect].
    assert (Happ : Forall2 Rx (raw ++ [line]) (raw' ++ [line'])) by (apply Forall2_Rx_app; [exact Hr|constructor; [exact H|constructor]]).
    destruct (Rx_strip _ _ H) as [<-|[HP _]].
    + destruct (is_for_line (strip line) && (i =? start)).
      * destruct (startswith (strip line) "@for ").
        -- destruct (match_for_colon _) as [[v c]|]; [apply IH; exact Hr|reflexivity].
        -- destruct (match_for_legacy _) as [[v c]|]; [apply IH; exact Hr|reflexivity].
      * destruct (String.eqb (strip line) "@endfor:"); [reflexivity|].
        destruct (started && is_for_line (strip line)); [apply IH; exact Happ|].
        destruct (startswith (strip line) "<<endfor>>" || String.eqb (strip line) "@endfor").
        -- destruct ((depth - 1 =? 0)%Z); [cbn; repeat split; try reflexivity; exact Hr|apply IH; exact Happ].
        -- apply IH. destruct started; assumption.
    + destruct (hp_nc _ _ HP) as [Hf Hf']. rewrite Hf, Hf'. cbn [fst].
      destruct HP as [c x body Hne Hn1 Hn2 Hm1 Hm2 Hx | c x body Hne Hn1 Hn2 Hm1 Hm2 Hx | | | m v coll Hne Hn1 Hn2 Hm1 Hm2 | ];
        unfold is_for_line.
      * destruct started; cbn -[Z.add Z.sub Z.eqb collect_rel]; rewrite ?sw_nil; apply IH; assumption.
      * destruct started; cbn -[Z.add Z.sub Z.eqb collect_rel]; rewrite ?sw_nil; apply IH; assumption.
      * destruct started; cbn -[Z.add Z.sub Z.eqb collect_rel]; apply IH; assumption.
      * destruct started; cbn -[Z.add Z.sub Z.eqb collect_rel]; apply IH; assumption.
      * cbn [append] in Hm1, Hm2.
        destruct started; cbn -[Z.add Z.sub Z.eqb match_for_colon match_for_legacy collect_rel]; rewrite ?sw_nil; rewrite Hm1, Hm2;
        destruct (i =? start); cbn -[Z.add Z.sub Z.eqb collect_rel]; apply IH; assumption.
      * destruct started; cbn -[Z.add Z.sub Z.eqb collect_rel];
        (destruct ((depth - 1 =? 0)%Z); [cbn; repeat split; try reflexivity; exact Hr|apply IH; assumption]).
Qed.

Lemma changed_is_leg : forall ind B B' t, all_space ind = true -> all_space t = true -> hdr_pair B B' ->
  is_leg (ind ++ B ++ t) = true.
Proof.
  intros ind B B' t Hi Ht HP. unfold is_leg. destruct (hp_strip _ _ HP) as [Hs [_ [Hn _]]].
  rewrite (strip_mid ind B t Hi Ht Hs Hn). destruct (hp_leg _ _ HP) as [k Hk]. rewrite Hk. reflexivity.
Qed.

Lemma dlc_sim : forall raw raw', Forall2 Rx raw raw' ->
  Forall2 Rx (drop_leading_comments raw) (drop_leading_comments raw').
Proof.
  intros raw raw' F. induction F as [|l l' r r' H F IH]; [constructor|].
  cbn [drop_leading_comments].
  destruct (Rx_strip _ _ H) as [<-|[HP _]].
  - destruct (startswith (strip l) "#"); [exact IH|].
    destruct (negb (ParseBlocks.nonempty (strip l))); [constructor; [apply Rx_refl|exact IH]|].
    constructor; [apply Rx_refl|exact F].
  - assert (E : startswith (strip l) "#" = false /\ startswith (strip l') "#" = false /\
                ParseBlocks.nonempty (strip l) = true /\ ParseBlocks.nonempty (strip l') = true)
      by (destruct HP; repeat split; reflexivity).
    destruct E as [E1 [E2 [E3 E4]]]. rewrite E1, E2, E3, E4. cbn [negb].
    constructor; assumption.
Qed.

Lemma py_statement_sim : forall D D' j raw, Forall2 Rx D D' ->
  emx_chk D j (fst (strip_inline_comment (strip raw))) = true ->
  py_statement lf D' j raw = py_statement lf D j raw.
Proof.
  intros D D' j raw F Hc. unfold py_statement. rewrite Hemx.
  destruct (emx_sim D D' j _ F Hc) as [H1 _]. exact H1.
Qed.

Lemma lbody_step_sim : forall D D' j line line' content chs, Forall2 Rx D D' -> Rx line line' ->
  body_line_chk D j line = true ->
  ParseBlocks.body_step fixed lf rc rl D' j line' content chs =
  ParseBlocks.body_step fixed lf rc rl D j line content chs.
Proof.
  intros D D' j line line' content chs F H Hc.
  destruct H as [<-|(ind & B & B' & t & t' & Hi & Ht & Ht' & HP & -> & ->)].
  - unfold ParseBlocks.body_step, body_line_chk in *. cbv zeta in *.
    destruct (startswith (strip line) "#"); [reflexivity|].
    destruct (is_py_line (strip line)); [rewrite (py_sim fixed D D' j F Hc); reflexivity|].
    destruct (startswith (strip line) "@input"); [reflexivity|].
    destruct (startswith (strip line) "@render"); [reflexivity|].
    destruct (startswith (strip line) "@hook "); [reflexivity|].
    destruct (startswith (strip line) "@unhook "); [reflexivity|].
    destruct (startswith line "~ "); [rewrite (py_statement_sim D D' j _ F Hc); reflexivity|].
    destruct (is_for_line (strip line)); [rewrite (Hrl D D' j F Hc); reflexivity|].
    destruct (is_if_line (strip line)); [rewrite (Hrc D D' j F Hc); reflexivity|].
    reflexivity.
  - pose proof (changed_is_leg ind B B' t Hi Ht HP) as Hleg.
    unfold ParseBlocks.body_step, body_line_chk in *. cbv zeta in *.
    destruct (hp_strip _ _ HP) as [Hs [Hs' [Hn Hn']]].
    rewrite (strip_mid ind B t Hi Ht Hs Hn) in *. rewrite (strip_mid ind B' t' Hi Ht' Hs' Hn').
    assert (Ht1 : startswith (ind ++ B ++ t) "~ " = false /\ startswith (ind ++ B' ++ t') "~ " = false).
    { split; apply sw_line; try assumption; try reflexivity; destruct HP; reflexivity. }
    destruct Ht1 as [Ht1 Ht2]. rewrite Ht1 in *. rewrite Ht2. rewrite Hleg in Hc. clear Hleg.
    revert Hc. destruct HP; unfold is_if_line, is_for_line, is_py_line, is_choice_line;
      cbn -[content_line_glue]; rewrite ?sw_nil; intros Hc; try discriminate Hc.
    + rewrite (Hrc D D' j F Hc). reflexivity.
    + rewrite (Hrl D D' j F Hc). reflexivity.
Qed.

Lemma lbody_go_sim : forall D D', Forall2 Rx D D' ->
  forall rest rest', Forall2 Rx rest rest' -> forall j skip content chs,
  body_go_chk D rest j skip content chs = true ->
  body_go fixed lf rc rl D' rest' j skip content chs = body_go fixed lf rc rl D rest j skip content chs.
Proof.
  intros D D' F rest rest' G. induction G as [|line line' rest rest' H G IH]; intros j skip content chs Hc; [reflexivity|].
  cbn [body_go body_go_chk] in *. destruct skip as [|k]; [|apply IH; exact Hc].
  apply andb_prop in Hc. destruct Hc as [Hc1 Hc2].
  rewrite (lbody_step_sim D D' j line line' content chs F H Hc1).
  destruct (ParseBlocks.body_step fixed lf rc rl D j line content chs) as [[[c' ch'] [|k]]|d|e|]; try reflexivity.
  apply IH. exact Hc2.
Qed.

Lemma loop_body_sim : forall L L' start, Forall2 Rx L L' -> loop_body_chk L start = true ->
  loop_body fixed lf rc rl L' start = loop_body fixed lf rc rl L start.
Proof.
  intros L L' start F Hc. unfold loop_body, loop_body_chk in *.
  pose proof (loop_collect_sim start _ _ (Forall2_Rx_skipn start _ _ F) start false 0%Z [] [] "" "" (Forall2_nil _)) as Hcol.
  unfold collect_rel in Hcol.
  destruct (loop_collect start (skipn start L) start false 0 [] "" "") as [[[[[f i] raw] v] c]|d|e|];
  destruct (loop_collect start (skipn start L') start false 0 [] "" "") as [[[[[f' i'] raw'] v'] c']|d'|e'|];
  try contradiction; try (subst; reflexivity).
  destruct Hcol as [-> [-> [Hraw [-> ->]]]]. cbn [pbind].
  assert (Hd : Forall2 Rx (detect_and_strip_indentation (if fixed then drop_leading_comments raw else raw))
                          (detect_and_strip_indentation (if fixed then drop_leading_comments raw' else raw'))).
  { apply Rx_dedent. destruct fixed; [apply dlc_sim|]; exact Hraw. }
  rewrite (lbody_go_sim _ _ Hd _ _ Hd 0 0 [] [] Hc). reflexivity.
Qed.
End OpenChk.

(* tying the knot as ParseBlocks does: one unit of fuel per nested extractor call *)
Fixpoint cond_chk_f (n depth : nat) (lines : list string) (start : nat) : bool :=
  match n with
  | O => true
  | S n' =>
      if too_deep cap depth then true
      else cond_go_chk (extract_conditional_block_f fixed cap lf n' (S depth))
                       (extract_loop_block_f fixed cap lf n' (S depth))
                       (cond_chk_f n' (S depth)) (loop_chk_f n' (S depth))
                       lines start (skipn start lines) start 0 cstate0
  end
with loop_chk_f (n depth : nat) (lines : list string) (start : nat) : bool :=
  match n with
  | O => true
  | S n' =>
      if too_deep cap depth then true
      else loop_body_chk (extract_conditional_block_f fixed cap lf n' (S depth))
                         (extract_loop_block_f fixed cap lf n' (S depth))
                         (cond_chk_f n' (S depth)) (loop_chk_f n' (S depth))
                         lines start
  end.

Lemma blocks_sim : forall n depth,
  (forall M M' i, Forall2 Rx M M' -> cond_chk_f n depth M i = true ->
     extract_conditional_block_f fixed cap lf n depth M' i = extract_conditional_block_f fixed cap lf n depth M i) /\
  (forall M M' i, Forall2 Rx M M' -> loop_chk_f n depth M i = true ->
     extract_loop_block_f fixed cap lf n depth M' i = extract_loop_block_f fixed cap lf n depth M i).
Proof.
  induction n as [|n IH]; intros depth; [split; intros; reflexivity|].
  destruct (IH (S depth)) as [IHc IHl].
  split; intros M M' i F Hc; cbn [extract_conditional_block_f extract_loop_block_f cond_chk_f loop_chk_f] in *;
    destruct (too_deep cap depth); try reflexivity.
  - apply (cond_body_sim _ _ _ _ IHc IHl); assumption.
  - apply (loop_body_sim _ _ _ _ IHc IHl); assumption.
Qed.

Definition cond_chk_v (lines : list string) (start : nat) : bool :=
  cond_chk_f (block_fuel lines start) 0 lines start.
Definition loop_chk_v (lines : list string) (start : nat) : bool :=
  loop_chk_f (block_fuel lines start) 0 lines start.

Lemma block_fuel_Rx : forall L L' start, Forall2 Rx L L' -> block_fuel L' start = block_fuel L start.
Proof. intros L L' start F. unfold block_fuel. rewrite (Forall2_Rx_length _ _ F). reflexivity. Qed.

Lemma cond_v_sim : forall L L' start, Forall2 Rx L L' -> cond_chk_v L start = true ->
  extract_conditional_block_v fixed cap lf L' start = extract_conditional_block_v fixed cap lf L start.
Proof.
  intros L L' start F Hc. unfold extract_conditional_block_v. rewrite (block_fuel_Rx _ _ start F).
  apply (proj1 (blocks_sim _ _)); assumption.
Qed.

Lemma loop_v_sim : forall L L' start, Forall2 Rx L L' -> loop_chk_v L start = true ->
  extract_loop_block_v fixed cap lf L' start = extract_loop_block_v fixed cap lf L start.
Proof.
  intros L L' start F Hc. unfold extract_loop_block_v. rewrite (block_fuel_Rx _ _ start F).
  apply (proj2 (blocks_sim _ _)); assumption.
Qed.
End Blocks.

(* ------------------------------------------------------------------------------------------- *)
(* the main loop                                                                                *)
(* ------------------------------------------------------------------------------------------- *)

Definition tabs : string := String (ascii_of_nat 9) EmptyString.

Lemma sw_space_eq : forall ind X Y x y X' Y' a, all_space ind = true ->
  X = String x X' -> Y = String y Y' -> is_space x = false -> is_space y = false -> is_space a = true ->
  startswith (ind ++ Y) (String a "") = startswith (ind ++ X) (String a "").
Proof.
  intros [|s ind] X Y x y X' Y' a Hi -> -> Hx Hy Ha.
  - cbn [append startswith].
    assert (E1 : ascii_eqb x a = false).
    { destruct (ascii_eqb x a) eqn:E; [|reflexivity]. unfold ascii_eqb in E. apply Ascii.eqb_eq in E. congruence. }
    assert (E2 : ascii_eqb y a = false).
    { destruct (ascii_eqb y a) eqn:E; [|reflexivity]. unfold ascii_eqb in E. apply Ascii.eqb_eq in E. congruence. }
    rewrite E1, E2. reflexivity.
  - cbn [append startswith]. rewrite !sw_nil. reflexivity.
Qed.

Section MainLoop.
Variable pp : pyparse.
Variable xs : extractors.
Variables cchk lchk : list string -> nat -> bool.
Hypothesis Hxp : forall L L' i, Forall2 Rx L L' -> py_chk L i = true -> x_python xs L' i = x_python xs L i.
Hypothesis Hxc : forall L L' i, Forall2 Rx L L' -> cchk L i = true -> x_conditional xs L' i = x_conditional xs L i.
Hypothesis Hxl : forall L L' i, Forall2 Rx L L' -> lchk L i = true -> x_loop xs L' i = x_loop xs L i.
Hypothesis Hxj : forall L L' s ci, Forall2 Rx L L' -> x_join xs L' s ci = x_join xs L s ci.

(* one line of a passage body, as the main loop classifies it *)
Definition main_body_chk (lines : list string) (i : nat) (line : string) : bool :=
  let stripped := strip line in
  if startswith stripped "#" then true else
  if startswith stripped "<<py" || startswith stripped "@py" then py_chk lines i else
  if startswith stripped "<<if " || startswith stripped "@if " then cchk lines i else
  if startswith stripped "<<for " || startswith stripped "@for " then lchk lines i else
  if startswith stripped "@render" then true else
  if startswith stripped "@input" then true else
  if startswith stripped "@hook " then true else
  if startswith stripped "@unhook " then true else
  if String.eqb stripped "@join" then true else
  if startswith stripped "->" then true else
  if startswith line "~ " then emx_chk lines i (fst (strip_inline_comment (strip (drop 2 line)))) else
  (* a choice, with or without the block of `-> @join` (fix F17n: a legacy header ends that block as its @ form does) *)
  if startswith line "+ " || startswith line "* " then true else
  (* a text line: a legacy <<elif>> / <<else>> / <<endif>> / <<endfor>> outside its block is text *)
  negb (is_leg line).

Lemma retag_ok_iff : forall A i (m : pres A) a, retag i m = POk a <-> m = POk a.
Proof.
  intros A i m a. split.
  - apply retag_ok_eq.
  - intros ->. reflexivity.
Qed.

Lemma main_body_sim : forall L L' i line line' st cp, Forall2 Rx L L' -> Rx line line' ->
  main_body_chk L i line = true ->
  ParseMain.body_step pp xs L' i line' st cp = ParseMain.body_step pp xs L i line st cp.
Proof.
  intros L L' i line line' st cp F H Hc.
  destruct H as [<-|(ind & B & B' & t & t' & Hi & Ht & Ht' & HP & -> & ->)].
  - unfold ParseMain.body_step, main_body_chk in *. cbv zeta in *.
    destruct (startswith (strip line) "#"); [reflexivity|].
    destruct (startswith (strip line) "<<py" || startswith (strip line) "@py"); [rewrite (Hxp L L' i F Hc); reflexivity|].
    destruct (startswith (strip line) "<<if " || startswith (strip line) "@if "); [rewrite (Hxc L L' i F Hc); reflexivity|].
    destruct (startswith (strip line) "<<for " || startswith (strip line) "@for "); [rewrite (Hxl L L' i F Hc); reflexivity|].
    destruct (startswith (strip line) "@render"); [reflexivity|].
    destruct (startswith (strip line) "@input"); [reflexivity|].
    destruct (startswith (strip line) "@hook "); [reflexivity|].
    destruct (startswith (strip line) "@unhook "); [reflexivity|].
    destruct (String.eqb (strip line) "@join"); [reflexivity|].
    destruct (startswith (strip line) "->"); [reflexivity|].
    destruct (startswith line "~ ").
    { destruct (strip_inline_comment (strip (drop 2 line))) as [code cm]. cbn [fst] in Hc.
      destruct (emx_sim L L' i code F Hc) as [H1 _]. rewrite H1. reflexivity. }
    destruct (startswith line "+ " || startswith line "* "); [|reflexivity].
    destruct (validate_choice_syntax line i); try reflexivity. cbn [pbind].
    destruct (parse_choice_line line) as [[[text target args cond sticky sec tags blk]|]|d|e|]; try reflexivity;
      try (destruct d; reflexivity).
    cbn [retag pbind]. destruct (String.eqb target "@join"); [|reflexivity].
    rewrite (Hxj L L' (S i) (indent_of line) F). reflexivity.
  - pose proof (changed_is_leg ind B B' t Hi Ht HP) as Hleg.
    unfold ParseMain.body_step, main_body_chk in *. cbv zeta in *.
    destruct (hp_strip _ _ HP) as [Hs [Hs' [Hn Hn']]].
    rewrite (strip_mid ind B t Hi Ht Hs Hn) in *. rewrite (strip_mid ind B' t' Hi Ht' Hs' Hn').
    assert (Ht1 : startswith (ind ++ B ++ t) "~ " = false /\ startswith (ind ++ B' ++ t') "~ " = false /\
                  startswith (ind ++ B ++ t) "+ " = false /\ startswith (ind ++ B' ++ t') "+ " = false /\
                  startswith (ind ++ B ++ t) "* " = false /\ startswith (ind ++ B' ++ t') "* " = false).
    { repeat split; apply sw_line; try assumption; try reflexivity; destruct HP; reflexivity. }
    destruct Ht1 as [E1 [E2 [E3 [E4 [E5 E6]]]]]. rewrite E1, E3, E5 in *. rewrite E2, E4, E6. rewrite Hleg in Hc. clear Hleg.
    revert Hc. destruct HP; cbn -[x_conditional x_loop x_python]; rewrite ?sw_nil; intros Hc; try discriminate Hc.
    + rewrite (Hxc L L' i F Hc). reflexivity.
    + rewrite (Hxl L L' i F Hc). reflexivity.
Qed.

(* parse_step without its last step: either the line is consumed before the passage body is looked at
   (imports section, @metadata block, @start, passage header, no passage yet), or body_step is called *)
Definition route (i : nat) (line : string) (st0 : pstate) : pres (pstate * nat) + (pstate * ppassage) :=
  let stripped := strip line in
  let phase1 : pstate + (pstate * nat) :=
    if st_in_imports st0 then
      if negb (ParseLine.nonempty stripped) || startswith stripped "#" then inr (st0, S i)
      else if startswith stripped "import " || startswith stripped "from "
      then inr (set_imports st0 (line :: st_imports st0), S i)
      else inl (set_in_imports st0 false)
    else inl st0 in
  match phase1 with
  | inr r => inl (POk r)
  | inl st1 =>
      if String.eqb stripped "@metadata" then inl (POk (set_in_metadata st1 true, S i)) else
      let phase2 : pstate + (pstate * nat) :=
        if st_in_metadata st1 then
          if negb (ParseLine.nonempty stripped) || startswith stripped "#" then inr (st1, S i)
          else if startswith line " " || startswith line (String (ascii_of_nat 9) EmptyString) then
            match find_char stripped ":" with
            | Some k =>
                inr (set_metadata st1 (set_key (strip (take k stripped)) (strip (drop (S k) stripped))
                                               (st_metadata st1)), S i)
            | None => inl (set_in_metadata st1 false)
            end
          else inl (set_in_metadata st1 false)
        else inl st1 in
      match phase2 with
      | inr r => inl (POk r)
      | inl st =>
          if startswith stripped "@start " then inl (POk (set_start st (strip (drop 7 stripped)), S i)) else
          if startswith line ":: " then
            inl (let (passage_header, _) := strip_inline_comment (strip (drop 3 line)) in
                 let (name_with_params, params_str) := extract_passage_params passage_header in
                 let (passage_name, passage_tags) := parse_tags name_with_params in
                 let* _ := validate_passage_name passage_name i in
                 let* ps := (if ParseLine.nonempty params_str then retag i (parse_passage_params params_str) else POk []) in
                 POk (new_passage st passage_name ps passage_tags i, S i))
          else
          match st_current st with
          | None => inl (POk (st, S i))
          | Some cp => inr (st, cp)
          end
      end
  end.

Lemma parse_step_route : forall L i line st0,
  parse_step pp xs L i line st0 =
  match route i line st0 with
  | inl r => r
  | inr (st, cp) => ParseMain.body_step pp xs L i line st cp
  end.
Proof.
  intros L i line st0. unfold parse_step, route. cbv zeta.
  destruct (st_in_imports st0).
  - destruct (negb (ParseLine.nonempty (strip line)) || startswith (strip line) "#"); [reflexivity|].
    destruct (startswith (strip line) "import " || startswith (strip line) "from "); [reflexivity|].
    destruct (String.eqb (strip line) "@metadata"); [reflexivity|].
    destruct (st_in_metadata (set_in_imports st0 false)).
    + destruct (startswith line " " || startswith line (String (ascii_of_nat 9) EmptyString)).
      * destruct (find_char (strip line) ":"); [reflexivity|].
        destruct (startswith (strip line) "@start "); [reflexivity|].
        destruct (startswith line ":: "); [reflexivity|].
        destruct (st_current (set_in_metadata (set_in_imports st0 false) false)); reflexivity.
      * destruct (startswith (strip line) "@start "); [reflexivity|].
        destruct (startswith line ":: "); [reflexivity|].
        destruct (st_current (set_in_metadata (set_in_imports st0 false) false)); reflexivity.
    + destruct (startswith (strip line) "@start "); [reflexivity|].
      destruct (startswith line ":: "); [reflexivity|].
      destruct (st_current (set_in_imports st0 false)); reflexivity.
  - destruct (String.eqb (strip line) "@metadata"); [reflexivity|].
    destruct (st_in_metadata st0).
    + destruct (negb (ParseLine.nonempty (strip line)) || startswith (strip line) "#"); [reflexivity|].
      destruct (startswith line " " || startswith line (String (ascii_of_nat 9) EmptyString)).
      * destruct (find_char (strip line) ":"); [reflexivity|].
        destruct (startswith (strip line) "@start "); [reflexivity|].
        destruct (startswith line ":: "); [reflexivity|].
        destruct (st_current (set_in_metadata st0 false)); reflexivity.
      * destruct (startswith (strip line) "@start "); [reflexivity|].
        destruct (startswith line ":: "); [reflexivity|].
        destruct (st_current (set_in_metadata st0 false)); reflexivity.
    + destruct (startswith (strip line) "@start "); [reflexivity|].
      destruct (startswith line ":: "); [reflexivity|].
      destruct (st_current st0); reflexivity.
Qed.

(* one iteration of the main loop.  Inside the @metadata block an indented legacy header is not a key (it has
   no colon) while its @ form is one: meta_bad.  Otherwise the line matters only when body_step is reached. *)
Definition meta_bad (line : string) (st0 : pstate) : bool :=
  is_leg line && st_in_metadata st0 &&
  (startswith line " " || startswith line (String (ascii_of_nat 9) EmptyString)).

Definition main_step_chk (lines : list string) (i : nat) (line : string) (st0 : pstate) : bool :=
  negb (meta_bad line st0) &&
  match route i line st0 with
  | inl _ => true
  | inr _ => main_body_chk lines i line
  end.

Lemma route_changed : forall i ind B B' t t' st0, all_space ind = true -> all_space t = true -> all_space t' = true ->
  hdr_pair B B' -> meta_bad (ind ++ B ++ t) st0 = false ->
  route i (ind ++ B' ++ t') st0 = route i (ind ++ B ++ t) st0.
Proof.
  intros i ind B B' t t' st0 Hi Ht Ht' HP Hc.
  pose proof (changed_is_leg ind B B' t Hi Ht HP) as Hleg.
  unfold route, meta_bad in *. cbv zeta in *.
  destruct (hp_strip _ _ HP) as [Hs [Hs' [Hn Hn']]].
  rewrite (strip_mid ind B t Hi Ht Hs Hn). rewrite (strip_mid ind B' t' Hi Ht' Hs' Hn').
  assert (Hh : startswith (ind ++ B ++ t) ":: " = false /\ startswith (ind ++ B' ++ t') ":: " = false).
  { split; apply sw_line; try assumption; try reflexivity; destruct HP; reflexivity. }
  destruct Hh as [Hh Hh']. rewrite Hh, Hh'. rewrite Hleg in Hc. cbn [andb] in Hc.
  assert (Hsp : forall a, is_space a = true ->
            startswith (ind ++ B' ++ t') (String a "") = startswith (ind ++ B ++ t) (String a "")).
  { intros a Ha. destruct B as [|x X]; [congruence|]. destruct B' as [|y Y]; [congruence|].
    apply (sw_space_eq ind (String x X ++ t) (String y Y ++ t') x y (X ++ t) (Y ++ t') a Hi); try reflexivity; try exact Ha.
    - eapply strip_first_nonspace; [reflexivity|exact Hs].
    - eapply strip_first_nonspace; [reflexivity|exact Hs']. }
  rewrite (Hsp " "%char eq_refl). rewrite (Hsp (ascii_of_nat 9) eq_refl).
  assert (EB : ParseLine.nonempty B = true /\ ParseLine.nonempty B' = true /\
               startswith B "#" = false /\ startswith B' "#" = false /\
               startswith B "import " = false /\ startswith B' "import " = false /\
               startswith B "from " = false /\ startswith B' "from " = false /\
               String.eqb B "@metadata" = false /\ String.eqb B' "@metadata" = false /\
               startswith B "@start " = false /\ startswith B' "@start " = false)
    by (destruct HP; repeat split; reflexivity).
  destruct EB as (e1 & e2 & e3 & e4 & e5 & e6 & e7 & e8 & e9 & e10 & e11 & e12).
  rewrite e1, e3, e5, e7, e9, e11. rewrite e2, e4, e6, e8, e10, e12. cbn [negb orb].
  destruct (st_in_imports st0).
  - change (st_in_metadata (set_in_imports st0 false)) with (st_in_metadata st0).
    destruct (st_in_metadata st0); [|reflexivity]. cbn [andb] in Hc. rewrite Hc. reflexivity.
  - destruct (st_in_metadata st0); [|reflexivity]. cbn [andb] in Hc. rewrite Hc. reflexivity.
Qed.

Lemma main_step_sim : forall L L' i line line' st0, Forall2 Rx L L' -> Rx line line' ->
  main_step_chk L i line st0 = true ->
  parse_step pp xs L' i line' st0 = parse_step pp xs L i line st0.
Proof.
  intros L L' i line line' st0 F H Hc. unfold main_step_chk in Hc. apply andb_prop in Hc. destruct Hc as [Hm Hc].
  apply negb_true_iff in Hm. rewrite !parse_step_route.
  assert (Hr : route i line' st0 = route i line st0).
  { destruct H as [<-|(ind & B & B' & t & t' & Hi & Ht & Ht' & HP & -> & ->)]; [reflexivity|].
    apply route_changed; assumption. }
  rewrite Hr. destruct (route i line st0) as [r|[st cp]]; [reflexivity|].
  apply main_body_sim; assumption.
Qed.

Fixpoint parse_loop_chk (fuel : nat) (lines : list string) (n i : nat) (st : pstate) : bool :=
  if n <=? i then true else
  match fuel with
  | 0 => true
  | S f =>
      match nth_error lines i with
      | None => true
      | Some line =>
          main_step_chk lines i line st &&
          match parse_step pp xs lines i line st with
          | POk (st', i') => parse_loop_chk f lines n i' st'
          | _ => true
          end
      end
  end.

Lemma parse_loop_sim : forall L L', Forall2 Rx L L' -> forall fuel n i st,
  parse_loop_chk fuel L n i st = true ->
  parse_loop pp xs fuel L' n i st = parse_loop pp xs fuel L n i st.
Proof.
  intros L L' F. induction fuel as [|f IH]; intros n i st Hc.
  - reflexivity.
  - cbn [parse_loop parse_loop_chk] in *. destruct (n <=? i); [reflexivity|].
    pose proof (Forall2_Rx_nth i _ _ F) as Hn.
    destruct (nth_error L i) as [line|]; destruct (nth_error L' i) as [line'|]; try contradiction; [|reflexivity].
    apply andb_prop in Hc. destruct Hc as [Hc1 Hc2].
    rewrite (main_step_sim L L' i line line' st F Hn Hc1).
    destruct (parse_step pp xs L i line st) as [[st' i']|d|e|]; try reflexivity.
    cbn [pbind]. apply IH. exact Hc2.
Qed.
End MainLoop.

(* ------------------------------------------------------------------------------------------- *)
(* the oracle for Python's parser does not matter to the check                                  *)
(* ------------------------------------------------------------------------------------------- *)

Definition pp_yes : pyparse := mkPyparse (fun _ => true) (fun _ => None) (fun _ => 0).

Lemma body_step_mono : forall pp xs L i line st cp r,
  ParseMain.body_step pp xs L i line st cp = POk r -> ParseMain.body_step pp_yes xs L i line st cp = POk r.
Proof.
  intros pp xs L i line st cp r. unfold ParseMain.body_step. cbv zeta.
  destruct (startswith (strip line) "#"); [exact (fun H => H)|].
  destruct (startswith (strip line) "<<py" || startswith (strip line) "@py"); [exact (fun H => H)|].
  destruct (startswith (strip line) "<<if " || startswith (strip line) "@if "); [exact (fun H => H)|].
  destruct (startswith (strip line) "<<for " || startswith (strip line) "@for "); [exact (fun H => H)|].
  destruct (startswith (strip line) "@render"); [exact (fun H => H)|].
  destruct (startswith (strip line) "@input"); [exact (fun H => H)|].
  destruct (startswith (strip line) "@hook "); [exact (fun H => H)|].
  destruct (startswith (strip line) "@unhook "); [exact (fun H => H)|].
  destruct (String.eqb (strip line) "@join"); [exact (fun H => H)|].
  destruct (startswith (strip line) "->"); [exact (fun H => H)|].
  destruct (startswith line "~ "); [|exact (fun H => H)].
  destruct (strip_inline_comment (strip (drop 2 line))) as [code cm].
  destruct (extract_multiline_expression L i code) as [cc consumed].
  destruct (py_stmt_ok pp cc); [exact (fun H => H)|intros H; discriminate H].
Qed.

Lemma parse_step_mono : forall pp xs L i line st0 r,
  parse_step pp xs L i line st0 = POk r -> parse_step pp_yes xs L i line st0 = POk r.
Proof.
  intros pp xs L i line st0 r. rewrite !parse_step_route.
  destruct (route i line st0) as [x|[st cp]]; [exact (fun H => H)|apply body_step_mono].
Qed.

Lemma parse_loop_chk_mono : forall pp xs cchk lchk fuel L n i st,
  parse_loop_chk pp_yes xs cchk lchk fuel L n i st = true -> parse_loop_chk pp xs cchk lchk fuel L n i st = true.
Proof.
  intros pp xs cchk lchk. induction fuel as [|f IH]; intros L n i st H; [exact H|].
  cbn [parse_loop_chk] in *. destruct (n <=? i); [reflexivity|].
  destruct (nth_error L i) as [line|]; [|reflexivity].
  apply andb_prop in H. destruct H as [H1 H2]. rewrite H1. cbn [andb].
  destruct (parse_step pp xs L i line st) as [[st' i']|d|e|] eqn:E; try reflexivity.
  rewrite (parse_step_mono pp xs L i line st _ E) in H2. apply IH. exact H2.
Qed.

(* ------------------------------------------------------------------------------------------- *)
(* the whole-input theorem                                                                      *)
(* ------------------------------------------------------------------------------------------- *)

Definition real_cchk : list string -> nat -> bool := cond_chk_v true (Some max_block_depth) real_linefns.
Definition real_lchk : list string -> nat -> bool := loop_chk_v true (Some max_block_depth) real_linefns.

(* every legacy header line of the input is read by the compiler as a block header (not as Python code, not as
   text, not as a @metadata key): the compiler's own control flow, run on the input *)
Definition headers_in_header_position (pp : pyparse) (ls : list string) : bool :=
  let L := strip_comments_outside_python ls None false 0 in
  parse_loop_chk pp real_extractors real_cchk real_lchk (S (List.length L)) L (List.length L) 0 init_state.

Definition admissible (ls : list string) : bool :=
  forallb hdr_ok ls && headers_in_header_position pp_yes ls.

Lemma parse_Rx : forall pp is_call ls ls', Forall2 Rx ls ls' -> headers_in_header_position pp ls = true ->
  parse_real pp is_call ls' = parse_real pp is_call ls.
Proof.
  intros pp is_call ls ls' F Hc. unfold parse_real, parse, headers_in_header_position in *. cbv zeta in *.
  pose proof (prepass_sim ls ls' F None false 0 (or_introl eq_refl)) as FL.
  rewrite (Forall2_Rx_length _ _ FL).
  rewrite (parse_loop_sim pp real_extractors real_cchk real_lchk) with (L := spcop ls None false 0).
  - reflexivity.
  - intros L L' i G H. exact (py_sim true L L' i G H).
  - intros L L' i G H. exact (cond_v_sim true (Some max_block_depth) real_linefns eq_refl L L' i G H).
  - intros L L' i G H. exact (loop_v_sim true (Some max_block_depth) real_linefns eq_refl L L' i G H).
  - intros L L' s ci G. exact (join_sim real_linefns L L' s ci G).
  - exact FL.
  - exact Hc.
Qed.

(* any subset of the legacy headers rewritten *)
Theorem legacy_and_at_forms_mixed : forall pp is_call ls ls',
  Forall2 R ls ls' -> admissible ls = true ->
  parse_real pp is_call ls' = parse_real pp is_call ls.
Proof.
  intros pp is_call ls ls' F H. unfold admissible in H. apply andb_prop in H. destruct H as [H1 H2].
  apply parse_Rx; [apply Forall2_R_Rx; assumption|].
  unfold headers_in_header_position in *. apply parse_loop_chk_mono. exact H2.
Qed.

Theorem legacy_and_at_forms_compile_identically_lemma : forall pp is_call ls,
  admissible ls = true ->
  parse_real pp is_call (map to_at_form ls) = parse_real pp is_call ls.
Proof. intros pp is_call ls H. apply legacy_and_at_forms_mixed; [apply Forall2_R_map|exact H]. Qed.
Print Assumptions legacy_and_at_forms_compile_identically_lemma.

(* ------------------------------------------------------------------------------------------- *)
(* hdr_ok is met by the conditions and loop headers of SurfaceProofs.cond_ok / var_ok           *)
(* ------------------------------------------------------------------------------------------- *)

Lemma nc_slash_free : forall s, slash_free s = true -> nc s = true.
Proof. intros s H. unfold nc. rewrite (slash_free_identity s H). rewrite !String.eqb_refl. reflexivity. Qed.

Lemma cond_ok_nonempty : forall c, cond_ok c = true -> ParseLine.nonempty c = true.
Proof. intros c H. destruct (cond_ok_parts c H) as [a [r [-> _]]]. reflexivity. Qed.

Lemma kind_ok_if : forall c, cond_ok c = true -> kind_ok (KIf c) = true.
Proof.
  intros c H. cbn [kind_ok]. pose proof (cond_ok_slash_free c H) as Hf.
  rewrite (cond_ok_nonempty c H).
  rewrite (nc_slash_free ("<<if " ++ c ++ ">>"))
    by (apply (slash_free_app "<<if "); [reflexivity|]; apply slash_free_app; [exact Hf|reflexivity]).
  rewrite (nc_slash_free ("@if " ++ c ++ ":"))
    by (apply (slash_free_app "@if "); [reflexivity|]; apply slash_free_app; [exact Hf|reflexivity]).
  pose proof (match_legacy_cond "<<if" c H) as Hm1. pose proof (match_colon_tail_cond "@if" c H) as Hm2.
  change ("<<if" ++ " " ++ c ++ ">>") with ("<<if " ++ c ++ ">>") in Hm1.
  change ("@if" ++ " " ++ c ++ ":") with ("@if " ++ c ++ ":") in Hm2.
  rewrite Hm1. destruct (match_colon_tail "@if" ("@if " ++ c ++ ":")) as [body|]; [|discriminate Hm2].
  cbn in Hm2. injection Hm2 as ->. rewrite String.eqb_refl. reflexivity.
Qed.

Lemma kind_ok_elif : forall c, cond_ok c = true -> kind_ok (KElif c) = true.
Proof.
  intros c H. cbn [kind_ok]. pose proof (cond_ok_slash_free c H) as Hf.
  rewrite (cond_ok_nonempty c H).
  rewrite (nc_slash_free ("<<elif " ++ c ++ ">>"))
    by (apply (slash_free_app "<<elif "); [reflexivity|]; apply slash_free_app; [exact Hf|reflexivity]).
  rewrite (nc_slash_free ("@elif " ++ c ++ ":"))
    by (apply (slash_free_app "@elif "); [reflexivity|]; apply slash_free_app; [exact Hf|reflexivity]).
  pose proof (match_legacy_cond "<<elif" c H) as Hm1. pose proof (match_colon_tail_cond "@elif" c H) as Hm2.
  change ("<<elif" ++ " " ++ c ++ ">>") with ("<<elif " ++ c ++ ">>") in Hm1.
  change ("@elif" ++ " " ++ c ++ ":") with ("@elif " ++ c ++ ":") in Hm2.
  rewrite Hm1. destruct (match_colon_tail "@elif" ("@elif " ++ c ++ ":")) as [body|]; [|discriminate Hm2].
  cbn in Hm2. injection Hm2 as ->. rewrite String.eqb_refl. reflexivity.
Qed.

Lemma kind_ok_for : forall v coll, var_ok v = true -> cond_ok coll = true ->
  kind_ok (KFor (v ++ " in " ++ coll)) = true.
Proof.
  intros v coll Hv Hc. cbn [kind_ok].
  pose proof (cond_ok_slash_free coll Hc) as Hf. pose proof (var_ok_slash_free v Hv) as Hfv.
  assert (Hm : slash_free (v ++ " in " ++ coll) = true).
  { apply slash_free_app; [exact Hfv|]. apply (slash_free_app " in "); [reflexivity|exact Hf]. }
  assert (Hne : ParseLine.nonempty (v ++ " in " ++ coll) = true).
  { destruct (var_ok_parts v Hv) as [a [r [-> _]]]. reflexivity. }
  rewrite Hne.
  rewrite (nc_slash_free ("<<for " ++ (v ++ " in " ++ coll) ++ ">>"))
    by (apply (slash_free_app "<<for "); [reflexivity|]; apply slash_free_app; [exact Hm|reflexivity]).
  rewrite (nc_slash_free ("@for " ++ (v ++ " in " ++ coll) ++ ":"))
    by (apply (slash_free_app "@for "); [reflexivity|]; apply slash_free_app; [exact Hm|reflexivity]).
  pose proof (match_for_legacy_forms v coll Hv Hc) as Hm1. pose proof (match_for_colon_forms v coll Hv Hc) as Hm2.
  rewrite !LexProofs.app_assoc. rewrite Hm1, Hm2. rewrite !String.eqb_refl. reflexivity.
Qed.

(* a legacy header line with an ordinary condition, at any indentation, with any trailing blanks *)
Lemma hdr_ok_line : forall ind B t k, all_space ind = true -> all_space t = true ->
  leg_kind B = Some k -> strip B = B -> B <> "" -> kind_ok k = true -> hdr_ok (ind ++ B ++ t) = true.
Proof.
  intros ind B t k Hi Ht Hk Hs Hn Hok. unfold hdr_ok. rewrite (strip_mid ind B t Hi Ht Hs Hn), Hk. exact Hok.
Qed.

Lemma mid_app : forall p c, mid (String.length p) (p ++ c ++ ">>") = c.
Proof.
  intros p c. unfold mid. rewrite drop_app_len. rewrite !length_append. cbn [String.length].
  replace (String.length p + (String.length c + 2) - String.length p - 2) with (String.length c) by lia.
  apply take_app_len.
Qed.

Lemma leg_kind_if : forall c, leg_kind ("<<if " ++ c ++ ">>") = Some (KIf c).
Proof.
  intros c. unfold leg_kind. rewrite (startswith_app_self "<<if " (c ++ ">>")).
  replace (endswith ("<<if " ++ c ++ ">>") ">>") with true
    by (symmetry; rewrite <- LexProofs.app_assoc; apply endswith_app_self).
  cbn [andb]. pose proof (mid_app "<<if " c) as E. cbn [String.length] in E. rewrite E. reflexivity.
Qed.

Lemma leg_kind_elif : forall c, leg_kind ("<<elif " ++ c ++ ">>") = Some (KElif c).
Proof.
  intros c. unfold leg_kind.
  replace (startswith ("<<elif " ++ c ++ ">>") "<<if ") with false by reflexivity. cbn [andb].
  rewrite (startswith_app_self "<<elif " (c ++ ">>")).
  replace (endswith ("<<elif " ++ c ++ ">>") ">>") with true
    by (symmetry; rewrite <- LexProofs.app_assoc; apply endswith_app_self).
  cbn [andb]. pose proof (mid_app "<<elif " c) as E. cbn [String.length] in E. rewrite E. reflexivity.
Qed.

Lemma leg_kind_for : forall m, leg_kind ("<<for " ++ m ++ ">>") = Some (KFor m).
Proof.
  intros m. unfold leg_kind.
  replace (startswith ("<<for " ++ m ++ ">>") "<<if ") with false by reflexivity.
  replace (startswith ("<<for " ++ m ++ ">>") "<<elif ") with false by reflexivity. cbn [andb].
  replace (String.eqb ("<<for " ++ m ++ ">>") "<<else>>") with false by reflexivity.
  replace (String.eqb ("<<for " ++ m ++ ">>") "<<endif>>") with false by reflexivity.
  rewrite (startswith_app_self "<<for " (m ++ ">>")).
  replace (endswith ("<<for " ++ m ++ ">>") ">>") with true
    by (symmetry; rewrite <- LexProofs.app_assoc; apply endswith_app_self).
  cbn [andb]. pose proof (mid_app "<<for " m) as E. cbn [String.length] in E. rewrite E. reflexivity.
Qed.

Lemma hdr_ok_if_line : forall ind c t, all_space ind = true -> all_space t = true -> cond_ok c = true ->
  hdr_ok (ind ++ ("<<if " ++ c ++ ">>") ++ t) = true /\ hdr_ok (ind ++ ("<<elif " ++ c ++ ">>") ++ t) = true.
Proof.
  intros ind c t Hi Ht Hc. split.
  - apply (hdr_ok_line ind _ t (KIf c) Hi Ht (leg_kind_if c)); [|discriminate|apply kind_ok_if; exact Hc].
    change ("<<if " ++ c ++ ">>") with (String "<" (("<if " ++ c) ++ ">>")).
    apply strip_closed; [reflexivity|reflexivity|discriminate].
  - apply (hdr_ok_line ind _ t (KElif c) Hi Ht (leg_kind_elif c)); [|discriminate|apply kind_ok_elif; exact Hc].
    change ("<<elif " ++ c ++ ">>") with (String "<" (("<elif " ++ c) ++ ">>")).
    apply strip_closed; [reflexivity|reflexivity|discriminate].
Qed.

Lemma hdr_ok_for_line : forall ind v coll t, all_space ind = true -> all_space t = true ->
  var_ok v = true -> cond_ok coll = true ->
  hdr_ok (ind ++ ("<<for " ++ (v ++ " in " ++ coll) ++ ">>") ++ t) = true.
Proof.
  intros ind v coll t Hi Ht Hv Hc.
  apply (hdr_ok_line ind _ t (KFor (v ++ " in " ++ coll)) Hi Ht (leg_kind_for _)); [|discriminate|apply kind_ok_for; assumption].
  change ("<<for " ++ (v ++ " in " ++ coll) ++ ">>") with (String "<" (("<for " ++ (v ++ " in " ++ coll)) ++ ">>")).
  apply strip_closed; [reflexivity|reflexivity|discriminate].
Qed.

(* lines that are not legacy headers are no concern of hdr_ok, and to_at_form leaves them alone *)
Lemma not_leg_unchanged : forall l, is_leg l = false -> to_at_form l = l /\ hdr_ok l = true.
Proof.
  intros l H. unfold is_leg, to_at_form, hdr_ok in *. destruct (leg_kind (strip l)); [discriminate|split; reflexivity].
Qed.
