(* C17, legacy `<<...>>` block headers versus `@...:` block headers: the line level.

   to_at_form        the executable line transformation: a line whose stripped text is one of
                       <<if C>>  <<elif C>>  <<else>>  <<endif>>  <<for M>>  <<endfor>>
                     becomes the same line with the header in its @ form
                       @if C:    @elif C:    @else:    @endif     @for M:    @endfor
                     (leading indentation kept, trailing blanks dropped); every other line is left alone.
   hdr_ok            (bool) for a legacy header line: the compiler's own readers of the two header forms
                     (ParseBlocks.match_legacy / match_colon_tail, match_for_legacy / match_for_colon) return the same
                     condition / (variable, collection), and strip_inline_comment finds no comment in either form.
   hdr_pair, Rx      the relation "same line, or the same header in the two forms" that the simulation proofs of
                     Proofs/SurfaceForms.v work with, and its closure properties (rstrip, dedent, bracket scan).
   R                 l' = l or l' = to_at_form l: what the statements are about; R and hdr_ok give Rx. *)
From Coq Require Import String Ascii List Bool Arith ZArith Lia.
From Bardic Require Import PyStr Value Compiled Lex ParseBase ParseLine ParseMain ParseBlocks.
From Bardic Require Import LexProofs ParseProofs SurfaceProofs.
Import ListNotations.
Local Open Scope string_scope.
Local Open Scope nat_scope.

(* ------------------------------------------------------------------------------------------- *)
(* the transformation                                                                           *)
(* ------------------------------------------------------------------------------------------- *)

(* B[k : len(B) - 2] *)
Definition mid (k : nat) (B : string) : string := take (String.length B - k - 2) (drop k B).

Inductive hkind :=
| KIf (c : string) | KElif (c : string) | KElse | KEndif | KFor (m : string) | KEndfor.

(* the legacy block headers, read off the stripped line *)
Definition leg_kind (B : string) : option hkind :=
  if startswith B "<<if " && endswith B ">>" then Some (KIf (mid 5 B))
  else if startswith B "<<elif " && endswith B ">>" then Some (KElif (mid 7 B))
  else if String.eqb B "<<else>>" then Some KElse
  else if String.eqb B "<<endif>>" then Some KEndif
  else if startswith B "<<for " && endswith B ">>" then Some (KFor (mid 6 B))
  else if String.eqb B "<<endfor>>" then Some KEndfor
  else None.

Definition at_of (k : hkind) : string :=
  match k with
  | KIf c => "@if " ++ c ++ ":"
  | KElif c => "@elif " ++ c ++ ":"
  | KElse => "@else:"
  | KEndif => "@endif"
  | KFor m => "@for " ++ m ++ ":"
  | KEndfor => "@endfor"
  end.

Definition is_leg (l : string) : bool :=
  match leg_kind (strip l) with Some _ => true | None => false end.

Definition to_at_form (l : string) : string :=
  match leg_kind (strip l) with
  | Some k => take (ws_run l) l ++ at_of k
  | None => l
  end.

(* the scanner finds no comment in s and returns it unchanged: s contains no `//` *)
Definition nc (s : string) : bool :=
  let (k, m) := strip_inline_comment s in String.eqb k s && String.eqb m "".

(* the compiler's own readers of the two header forms give the same condition / loop header, and neither
   form carries a comment *)
Definition kind_ok (k : hkind) : bool :=
  match k with
  | KIf c =>
      ParseLine.nonempty c && nc ("<<if " ++ c ++ ">>") && nc ("@if " ++ c ++ ":") &&
      match match_legacy "<<if" ("<<if " ++ c ++ ">>"), match_colon_tail "@if" ("@if " ++ c ++ ":") with
      | Some x, Some body => String.eqb (strip body) x
      | _, _ => false
      end
  | KElif c =>
      ParseLine.nonempty c && nc ("<<elif " ++ c ++ ">>") && nc ("@elif " ++ c ++ ":") &&
      match match_legacy "<<elif" ("<<elif " ++ c ++ ">>"), match_colon_tail "@elif" ("@elif " ++ c ++ ":") with
      | Some x, Some body => String.eqb (strip body) x
      | _, _ => false
      end
  | KFor m =>
      ParseLine.nonempty m && nc ("<<for " ++ m ++ ">>") && nc ("@for " ++ m ++ ":") &&
      match match_for_legacy ("<<for " ++ m ++ ">>"), match_for_colon ("@for " ++ m ++ ":") with
      | Some (v, c), Some (v', c') => String.eqb v' v && String.eqb c' c
      | _, _ => false
      end
  | _ => true
  end.

Definition hdr_ok (l : string) : bool :=
  match leg_kind (strip l) with Some k => kind_ok k | None => true end.

(* ------------------------------------------------------------------------------------------- *)
(* header pairs                                                                                 *)
(* ------------------------------------------------------------------------------------------- *)

Inductive hdr_pair : string -> string -> Prop :=
| HP_if : forall c x body, c <> "" ->
    nc ("<<if " ++ c ++ ">>") = true -> nc ("@if " ++ c ++ ":") = true ->
    match_legacy "<<if" ("<<if " ++ c ++ ">>") = Some x ->
    match_colon_tail "@if" ("@if " ++ c ++ ":") = Some body -> strip body = x ->
    hdr_pair ("<<if " ++ c ++ ">>") ("@if " ++ c ++ ":")
| HP_elif : forall c x body, c <> "" ->
    nc ("<<elif " ++ c ++ ">>") = true -> nc ("@elif " ++ c ++ ":") = true ->
    match_legacy "<<elif" ("<<elif " ++ c ++ ">>") = Some x ->
    match_colon_tail "@elif" ("@elif " ++ c ++ ":") = Some body -> strip body = x ->
    hdr_pair ("<<elif " ++ c ++ ">>") ("@elif " ++ c ++ ":")
| HP_else : hdr_pair "<<else>>" "@else:"
| HP_endif : hdr_pair "<<endif>>" "@endif"
| HP_for : forall m v coll, m <> "" ->
    nc ("<<for " ++ m ++ ">>") = true -> nc ("@for " ++ m ++ ":") = true ->
    match_for_legacy ("<<for " ++ m ++ ">>") = Some (v, coll) ->
    match_for_colon ("@for " ++ m ++ ":") = Some (v, coll) ->
    hdr_pair ("<<for " ++ m ++ ">>") ("@for " ++ m ++ ":")
| HP_endfor : hdr_pair "<<endfor>>" "@endfor".

Definition Rx (l l' : string) : Prop :=
  l = l' \/
  exists ind B B' t t', all_space ind = true /\ all_space t = true /\ all_space t' = true /\
    hdr_pair B B' /\ l = ind ++ B ++ t /\ l' = ind ++ B' ++ t'.

(* what the statements are about: each line kept, or replaced by its @ form *)
Definition R (l l' : string) : Prop := l' = l \/ l' = to_at_form l.

(* ------------------------------------------------------------------------------------------- *)
(* string facts                                                                                 *)
(* ------------------------------------------------------------------------------------------- *)

Lemma startswith_split : forall p s, startswith s p = true -> s = p ++ drop (String.length p) s.
Proof.
  induction p as [|a p IH]; intros s H; [reflexivity|].
  destruct s as [|b s]; [discriminate|]. simpl in H. apply andb_prop in H. destruct H as [H1 H2].
  unfold ascii_eqb in H1. apply Ascii.eqb_eq in H1. subst b. simpl. f_equal. apply IH. exact H2.
Qed.

Lemma take_drop_id : forall n s, take n s ++ drop n s = s.
Proof. induction n as [|n IH]; intros [|a s]; simpl; try reflexivity. f_equal. apply IH. Qed.

Lemma length_drop : forall n s, String.length (drop n s) = String.length s - n.
Proof. induction n as [|n IH]; intros [|a s]; simpl; try lia. apply IH. Qed.

Lemma endswith_split : forall s q, endswith s q = true ->
  s = take (String.length s - String.length q) s ++ q.
Proof.
  intros s q H. unfold endswith in H. apply andb_prop in H. destruct H as [_ H].
  apply String.eqb_eq in H.
  pose proof (take_drop_id (String.length s - String.length q) s) as E. rewrite H in E. symmetry. exact E.
Qed.

Lemma rstrip_split : forall s, exists t, all_space t = true /\ s = rstrip s ++ t.
Proof.
  induction s as [|a r [t [Ht E]]].
  - exists "". split; reflexivity.
  - rewrite rstrip_cons. destruct (rstrip r) as [|b r'] eqn:Er.
    + destruct (is_space a) eqn:Ea.
      * exists (String a r). split; [|reflexivity]. simpl. rewrite Ea. simpl in E. rewrite E. exact Ht.
      * exists t. split; [exact Ht|]. simpl. f_equal. exact E.
    + exists t. split; [exact Ht|]. simpl. f_equal. exact E.
Qed.

Lemma length_app_s : forall a b, String.length (a ++ b) = String.length a + String.length b.
Proof. induction a as [|x a IH]; intros b; simpl; [reflexivity|]. rewrite IH. reflexivity. Qed.

Lemma ws_run_app : forall w s, all_space w = true -> ws_run (w ++ s) = String.length w + ws_run s.
Proof.
  intros w s H. unfold ws_run. rewrite (lstrip_app_ws w s H), length_app_s.
  pose proof (length_lstrip_le s). lia.
Qed.

Lemma ws_run_head : forall a r, is_space a = false -> ws_run (String a r) = 0.
Proof. intros a r H. unfold ws_run. cbn [lstrip]. rewrite H. lia. Qed.

(* every line is indentation ++ stripped text ++ trailing blanks *)
Lemma line_split : forall l, exists t, all_space t = true /\
  all_space (take (ws_run l) l) = true /\ l = take (ws_run l) l ++ strip l ++ t.
Proof.
  intros l. destruct (lstrip_split l) as [w [Hw E]].
  destruct (rstrip_split (lstrip l)) as [t [Ht E2]].
  assert (Hrun : ws_run l = String.length w).
  { unfold ws_run. rewrite E at 1. rewrite length_app_s. lia. }
  assert (Htake : take (ws_run l) l = w).
  { rewrite Hrun. rewrite E at 1. apply take_app_len. }
  exists t. split; [exact Ht|]. rewrite Htake. split; [exact Hw|].
  unfold strip. rewrite <- E2. exact E.
Qed.

Lemma strip_first_nonspace : forall B a r, B = String a r -> strip B = B -> is_space a = false.
Proof. intros B a r E H. eapply strip_fixed_head; eauto. Qed.

Lemma strip_fixed_rstrip : forall B, strip B = B -> rstrip B = B.
Proof.
  intros [|a r] H; [reflexivity|].
  pose proof (strip_first_nonspace _ a r eq_refl H) as Ha.
  unfold strip in H. cbn [lstrip] in H. rewrite Ha in H. exact H.
Qed.

Lemma strip_mid : forall ind B t, all_space ind = true -> all_space t = true -> strip B = B -> B <> "" ->
  strip (ind ++ B ++ t) = B.
Proof.
  intros ind B t Hi Ht Hs Hn. destruct B as [|a r]; [congruence|].
  pose proof (strip_first_nonspace _ a r eq_refl Hs) as Ha.
  unfold strip. rewrite (lstrip_app_ws ind _ Hi). cbn [append lstrip]. rewrite Ha.
  change (String a (r ++ t)) with (String a r ++ t). rewrite (rstrip_app_ws _ t Ht).
  apply strip_fixed_rstrip. exact Hs.
Qed.

Lemma ws_run_mid : forall ind B t, all_space ind = true -> strip B = B -> B <> "" ->
  ws_run (ind ++ B ++ t) = String.length ind.
Proof.
  intros ind B t Hi Hs Hn. destruct B as [|a r]; [congruence|].
  pose proof (strip_first_nonspace _ a r eq_refl Hs) as Ha.
  rewrite (ws_run_app ind _ Hi). cbn [append]. rewrite (ws_run_head a _ Ha). lia.
Qed.

(* ------------------------------------------------------------------------------------------- *)
(* header pairs: shape                                                                          *)
(* ------------------------------------------------------------------------------------------- *)

Lemma strip_closed : forall a body e, is_space a = false -> rstrip e = e -> e <> "" ->
  strip (String a (body ++ e)) = String a (body ++ e).
Proof.
  intros a body e Ha He Hn. exact (strip_header "" a body e eq_refl Ha He Hn).
Qed.

Lemma hp_strip : forall B B', hdr_pair B B' -> strip B = B /\ strip B' = B' /\ B <> "" /\ B' <> "".
Proof.
  intros B B' H. destruct H.
  - repeat split; try discriminate.
    + change ("<<if " ++ c ++ ">>") with (String "<" (("<if " ++ c) ++ ">>")).
      apply strip_closed; [reflexivity|reflexivity|discriminate].
    + change ("@if " ++ c ++ ":") with (String "@" (("if " ++ c) ++ ":")).
      apply strip_closed; [reflexivity|reflexivity|discriminate].
  - repeat split; try discriminate.
    + change ("<<elif " ++ c ++ ">>") with (String "<" (("<elif " ++ c) ++ ">>")).
      apply strip_closed; [reflexivity|reflexivity|discriminate].
    + change ("@elif " ++ c ++ ":") with (String "@" (("elif " ++ c) ++ ":")).
      apply strip_closed; [reflexivity|reflexivity|discriminate].
  - repeat split; try discriminate; reflexivity.
  - repeat split; try discriminate; reflexivity.
  - repeat split; try discriminate.
    + change ("<<for " ++ m ++ ">>") with (String "<" (("<for " ++ m) ++ ">>")).
      apply strip_closed; [reflexivity|reflexivity|discriminate].
    + change ("@for " ++ m ++ ":") with (String "@" (("for " ++ m) ++ ":")).
      apply strip_closed; [reflexivity|reflexivity|discriminate].
  - repeat split; try discriminate; reflexivity.
Qed.

Lemma nc_spec : forall s, nc s = true -> strip_inline_comment s = (s, "").
Proof.
  intros s H. unfold nc in H. destruct (strip_inline_comment s) as [k m].
  apply andb_prop in H. destruct H as [H1 H2]. apply String.eqb_eq in H1. apply String.eqb_eq in H2. subst. reflexivity.
Qed.

Lemma hp_nc : forall B B', hdr_pair B B' ->
  strip_inline_comment B = (B, "") /\ strip_inline_comment B' = (B', "").
Proof. intros B B' H. destruct H; split; try reflexivity; apply nc_spec; assumption. Qed.

Lemma all_space_clean_end : forall w, all_space w = true -> clean_end w = true.
Proof.
  induction w as [|a w IH]; intros H; [reflexivity|]. simpl in H. apply andb_prop in H. destruct H as [Ha Hw].
  destruct w as [|b w]; [|rewrite clean_end_cons; apply IH; exact Hw].
  unfold clean_end. cbn [last_char]. rewrite (space_not_slash a Ha). reflexivity.
Qed.

Lemma all_space_not_starts_slash : forall w, all_space w = true -> starts_slash w = false.
Proof.
  intros [|a w] H; [reflexivity|]. simpl in H. apply andb_prop in H. destruct H as [Ha _].
  pose proof (space_not_slash a Ha) as Hs. apply orb_false_elim in Hs. exact (proj1 Hs).
Qed.

Lemma sic_mid : forall ind B t, all_space ind = true -> all_space t = true ->
  strip_inline_comment B = (B, "") ->
  strip_inline_comment (ind ++ B ++ t) = (ind ++ B ++ t, "").
Proof.
  intros ind B t Hi Ht HB.
  assert (H1 : strip_inline_comment (B ++ t) = (B ++ t, "")).
  { rewrite sic_app.
    - rewrite HB, (sic_all_space t Ht). reflexivity.
    - unfold no_comment. rewrite HB. reflexivity.
    - unfold boundary_ok. rewrite (all_space_not_starts_slash t Ht). apply orb_true_r. }
  rewrite sic_app.
  - rewrite H1, (sic_all_space ind Hi). reflexivity.
  - unfold no_comment. rewrite (sic_all_space ind Hi). reflexivity.
  - unfold boundary_ok. rewrite (all_space_clean_end ind Hi). reflexivity.
Qed.

(* ------------------------------------------------------------------------------------------- *)
(* leg_kind / to_at_form versus hdr_pair                                                        *)
(* ------------------------------------------------------------------------------------------- *)

Lemma drop_drop : forall a b s, drop a (drop b s) = drop (b + a) s.
Proof. induction b as [|b IH]; intros [|c s]; simpl; try reflexivity; try (destruct a; reflexivity). apply IH. Qed.

Lemma prefix_suffix_mid : forall p B, startswith B p = true -> endswith B ">>" = true ->
  mid (String.length p) B <> "" -> B = p ++ mid (String.length p) B ++ ">>".
Proof.
  intros p B Hp He Hn. pose proof (startswith_split p B Hp) as E1.
  remember (String.length p) as k eqn:Ek. remember (drop k B) as X eqn:EX.
  assert (HlB : String.length B = k + String.length X).
  { rewrite E1 at 1. rewrite length_append. rewrite Ek. reflexivity. }
  unfold mid in *. rewrite <- EX in *.
  assert (Hlen : 1 <= String.length B - k - 2).
  { destruct (String.length B - k - 2) eqn:E; [simpl in Hn; congruence|lia]. }
  unfold endswith in He. apply andb_prop in He. destruct He as [_ He]. apply String.eqb_eq in He.
  cbn [String.length] in He.
  replace (String.length B - 2) with (k + (String.length X - 2)) in He by lia.
  assert (He2 : drop (String.length X - 2) X = ">>").
  { rewrite <- He. rewrite E1. rewrite Ek. rewrite drop_app_length. reflexivity. }
  replace (String.length B - k - 2) with (String.length X - 2) by lia.
  rewrite E1 at 1. f_equal.
  transitivity (take (String.length X - 2) X ++ drop (String.length X - 2) X); [symmetry; apply take_drop_id|rewrite He2; reflexivity].
Qed.

Lemma nonempty_neq : forall c, ParseLine.nonempty c = true -> c <> "".
Proof. intros [|a c] H; [discriminate|discriminate]. Qed.

Lemma leg_pair : forall B k, leg_kind B = Some k -> kind_ok k = true -> hdr_pair B (at_of k).
Proof.
  intros B k H Hk. unfold leg_kind in H.
  destruct (startswith B "<<if " && endswith B ">>") eqn:E1.
  { injection H as <-. apply andb_prop in E1. destruct E1 as [Ea Eb]. cbn [kind_ok at_of] in Hk |- *.
    apply andb_prop in Hk. destruct Hk as [Hk H4]. apply andb_prop in Hk. destruct Hk as [Hk H3].
    apply andb_prop in Hk. destruct Hk as [H1 H2]. apply nonempty_neq in H1.
    rewrite (prefix_suffix_mid "<<if " B Ea Eb H1) at 1. cbn [String.length].
    destruct (match_legacy "<<if" ("<<if " ++ mid 5 B ++ ">>")) as [x|] eqn:Em1; [|discriminate].
    destruct (match_colon_tail "@if" ("@if " ++ mid 5 B ++ ":")) as [body|] eqn:Em2; [|discriminate].
    apply String.eqb_eq in H4. eapply HP_if; eassumption. }
  destruct (startswith B "<<elif " && endswith B ">>") eqn:E2.
  { injection H as <-. apply andb_prop in E2. destruct E2 as [Ea Eb]. cbn [kind_ok at_of] in Hk |- *.
    apply andb_prop in Hk. destruct Hk as [Hk H4]. apply andb_prop in Hk. destruct Hk as [Hk H3].
    apply andb_prop in Hk. destruct Hk as [H1 H2]. apply nonempty_neq in H1.
    rewrite (prefix_suffix_mid "<<elif " B Ea Eb H1) at 1. cbn [String.length].
    destruct (match_legacy "<<elif" ("<<elif " ++ mid 7 B ++ ">>")) as [x|] eqn:Em1; [|discriminate].
    destruct (match_colon_tail "@elif" ("@elif " ++ mid 7 B ++ ":")) as [body|] eqn:Em2; [|discriminate].
    apply String.eqb_eq in H4. eapply HP_elif; eassumption. }
  destruct (String.eqb B "<<else>>") eqn:E3.
  { injection H as <-. apply String.eqb_eq in E3. subst B. constructor. }
  destruct (String.eqb B "<<endif>>") eqn:E4.
  { injection H as <-. apply String.eqb_eq in E4. subst B. constructor. }
  destruct (startswith B "<<for " && endswith B ">>") eqn:E5.
  { injection H as <-. apply andb_prop in E5. destruct E5 as [Ea Eb]. cbn [kind_ok at_of] in Hk |- *.
    apply andb_prop in Hk. destruct Hk as [Hk H4]. apply andb_prop in Hk. destruct Hk as [Hk H3].
    apply andb_prop in Hk. destruct Hk as [H1 H2]. apply nonempty_neq in H1.
    rewrite (prefix_suffix_mid "<<for " B Ea Eb H1) at 1. cbn [String.length].
    destruct (match_for_legacy ("<<for " ++ mid 6 B ++ ">>")) as [[v c]|] eqn:Em1; [|discriminate].
    destruct (match_for_colon ("@for " ++ mid 6 B ++ ":")) as [[v' c']|] eqn:Em2; [|discriminate].
    apply andb_prop in H4. destruct H4 as [Hv Hc]. apply String.eqb_eq in Hv. apply String.eqb_eq in Hc. subst v' c'.
    eapply HP_for; eassumption. }
  destruct (String.eqb B "<<endfor>>") eqn:E6; [|discriminate].
  injection H as <-. apply String.eqb_eq in E6. subst B. constructor.
Qed.

Lemma hp_leg : forall B B', hdr_pair B B' -> exists k, leg_kind B = Some k.
Proof.
  intros B B' H. destruct H; unfold leg_kind.
  - rewrite (startswith_app_self "<<if " (c ++ ">>")).
    replace ("<<if " ++ c ++ ">>") with (("<<if " ++ c) ++ ">>") by (rewrite LexProofs.app_assoc; reflexivity).
    rewrite endswith_app_self. eexists. reflexivity.
  - replace (startswith ("<<elif " ++ c ++ ">>") "<<if ") with false by reflexivity. cbn [andb].
    rewrite (startswith_app_self "<<elif " (c ++ ">>")).
    replace ("<<elif " ++ c ++ ">>") with (("<<elif " ++ c) ++ ">>") by (rewrite LexProofs.app_assoc; reflexivity).
    rewrite endswith_app_self. eexists. reflexivity.
  - eexists. reflexivity.
  - eexists. reflexivity.
  - replace (startswith ("<<for " ++ m ++ ">>") "<<if ") with false by reflexivity.
    replace (startswith ("<<for " ++ m ++ ">>") "<<elif ") with false by reflexivity.
    cbn [andb].
    replace (String.eqb ("<<for " ++ m ++ ">>") "<<else>>") with false by reflexivity.
    replace (String.eqb ("<<for " ++ m ++ ">>") "<<endif>>") with false by reflexivity.
    rewrite (startswith_app_self "<<for " (m ++ ">>")).
    replace ("<<for " ++ m ++ ">>") with (("<<for " ++ m) ++ ">>") by (rewrite !LexProofs.app_assoc; reflexivity).
    rewrite endswith_app_self. eexists. reflexivity.
  - eexists. reflexivity.
Qed.

Lemma Rx_refl : forall l, Rx l l.
Proof. intros l. left. reflexivity. Qed.

Lemma Rx_changed : forall l l', Rx l l' -> is_leg l = false -> l = l'.
Proof.
  intros l l' [E|(ind & B & B' & t & t' & Hi & Ht & Ht' & HP & -> & ->)] H; [exact E|].
  exfalso. unfold is_leg in H. destruct (hp_strip _ _ HP) as [Hs [_ [Hn _]]].
  rewrite (strip_mid ind B t Hi Ht Hs Hn) in H. destruct (hp_leg _ _ HP) as [k Hk]. rewrite Hk in H. discriminate.
Qed.

Lemma to_at_form_Rx : forall l, hdr_ok l = true -> Rx l (to_at_form l).
Proof.
  intros l H. unfold hdr_ok in H. unfold to_at_form.
  destruct (leg_kind (strip l)) as [k|] eqn:Ek; [|left; reflexivity].
  right. destruct (line_split l) as [t [Ht [Hi E]]].
  exists (take (ws_run l) l), (strip l), (at_of k), t, "".
  repeat split; try assumption.
  - apply leg_pair; assumption.
  - rewrite LexProofs.app_nil_r. reflexivity.
Qed.

Lemma R_Rx : forall l l', hdr_ok l = true -> R l l' -> Rx l l'.
Proof. intros l l' H [->| ->]; [apply Rx_refl|apply to_at_form_Rx; exact H]. Qed.

Lemma Forall2_R_Rx : forall ls ls', forallb hdr_ok ls = true -> Forall2 R ls ls' -> Forall2 Rx ls ls'.
Proof.
  intros ls ls' H F. induction F as [|l l' r r' HR F IH]; [constructor|].
  simpl in H. apply andb_prop in H. destruct H as [H1 H2]. constructor; [apply R_Rx; assumption|apply IH; exact H2].
Qed.

Lemma Forall2_R_map : forall ls, Forall2 R ls (map to_at_form ls).
Proof. induction ls as [|l r IH]; simpl; constructor; [right; reflexivity|exact IH]. Qed.

Lemma Forall2_R_map_sel : forall (sel : string -> bool) ls,
  Forall2 R ls (map (fun l => if sel l then to_at_form l else l) ls).
Proof.
  intros sel. induction ls as [|l r IH]; simpl; constructor; [|exact IH].
  destruct (sel l); [right|left]; reflexivity.
Qed.

Lemma Forall2_Rx_refl : forall ls, Forall2 Rx ls ls.
Proof. induction ls; constructor; [apply Rx_refl|assumption]. Qed.

Lemma Forall2_Rx_length : forall ls ls', Forall2 Rx ls ls' -> List.length ls' = List.length ls.
Proof. intros ls ls' F. induction F; simpl; congruence. Qed.

Lemma Forall2_Rx_skipn : forall n ls ls', Forall2 Rx ls ls' -> Forall2 Rx (skipn n ls) (skipn n ls').
Proof.
  induction n as [|n IH]; intros ls ls' F; [exact F|]. destruct F; simpl; [constructor|apply IH; assumption].
Qed.

Lemma Forall2_Rx_nth : forall i ls ls', Forall2 Rx ls ls' ->
  match nth_error ls i, nth_error ls' i with
  | Some l, Some l' => Rx l l'
  | None, None => True
  | _, _ => False
  end.
Proof.
  induction i as [|i IH]; intros ls ls' F; destruct F; simpl; auto. apply IH. assumption.
Qed.

Lemma Forall2_Rx_app : forall a a' b b', Forall2 Rx a a' -> Forall2 Rx b b' -> Forall2 Rx (a ++ b) (a' ++ b').
Proof. intros a a' b b' F G. induction F; simpl; [exact G|constructor; assumption]. Qed.

(* ------------------------------------------------------------------------------------------- *)
(* closure of Rx under what the compiler does to lines                                          *)
(* ------------------------------------------------------------------------------------------- *)

Lemma changed_nc : forall ind B B' t, all_space ind = true -> all_space t = true -> hdr_pair B B' ->
  strip_inline_comment (ind ++ B ++ t) = (ind ++ B ++ t, "").
Proof. intros ind B B' t Hi Ht HP. apply sic_mid; try assumption. exact (proj1 (hp_nc _ _ HP)). Qed.

Lemma changed_nc' : forall ind B B' t, all_space ind = true -> all_space t = true -> hdr_pair B B' ->
  strip_inline_comment (ind ++ B' ++ t) = (ind ++ B' ++ t, "").
Proof. intros ind B B' t Hi Ht HP. apply sic_mid; try assumption. exact (proj2 (hp_nc _ _ HP)). Qed.

Lemma rstrip_mid : forall ind B t, all_space t = true -> strip B = B -> B <> "" ->
  rstrip (ind ++ B ++ t) = ind ++ B.
Proof.
  intros ind B t Ht Hs Hn. rewrite <- LexProofs.app_assoc. rewrite (rstrip_app_ws _ t Ht).
  apply rstrip_app_fixed; [apply strip_fixed_rstrip; exact Hs|exact Hn].
Qed.

Lemma Rx_rstrip : forall l l', Rx l l' -> Rx (rstrip l) (rstrip l').
Proof.
  intros l l' [->|(ind & B & B' & t & t' & Hi & Ht & Ht' & HP & -> & ->)]; [apply Rx_refl|].
  destruct (hp_strip _ _ HP) as [Hs [Hs' [Hn Hn']]].
  rewrite (rstrip_mid ind B t Ht Hs Hn), (rstrip_mid ind B' t' Ht' Hs' Hn').
  right. exists ind, B, B', "", "". repeat split; try assumption; rewrite LexProofs.app_nil_r; reflexivity.
Qed.

Lemma blank_mid : forall ind B t, all_space ind = true -> strip B = B -> B <> "" -> is_blank (ind ++ B ++ t) = false.
Proof.
  intros ind B t Hi Hs Hn. rewrite (is_blank_app ind _ Hi). destruct B as [|a r]; [congruence|].
  pose proof (strip_first_nonspace _ a r eq_refl Hs) as Ha. unfold is_blank. cbn [append all_space]. rewrite Ha. reflexivity.
Qed.

Lemma indent_of_ws_run : forall l, indent_of l = ws_run l.
Proof. reflexivity. Qed.

Lemma Rx_blank : forall l l', Rx l l' -> is_blank l' = is_blank l.
Proof.
  intros l l' [->|(ind & B & B' & t & t' & Hi & Ht & Ht' & HP & -> & ->)]; [reflexivity|].
  destruct (hp_strip _ _ HP) as [Hs [Hs' [Hn Hn']]].
  rewrite (blank_mid ind B t Hi Hs Hn), (blank_mid ind B' t' Hi Hs' Hn'). reflexivity.
Qed.

Lemma Rx_indent : forall l l', Rx l l' -> indent_of l' = indent_of l.
Proof.
  intros l l' [->|(ind & B & B' & t & t' & Hi & Ht & Ht' & HP & -> & ->)]; [reflexivity|].
  destruct (hp_strip _ _ HP) as [Hs [Hs' [Hn Hn']]].
  change (ws_run (ind ++ B' ++ t') = ws_run (ind ++ B ++ t)).
  rewrite (ws_run_mid ind B t Hi Hs Hn), (ws_run_mid ind B' t' Hi Hs' Hn'). reflexivity.
Qed.

Lemma drop_app_le : forall n a b, n <= String.length a -> drop n (a ++ b) = drop n a ++ b.
Proof.
  induction n as [|n IH]; intros a b H; [reflexivity|]. destruct a as [|x a]; [simpl in H; lia|].
  simpl. apply IH. simpl in H. lia.
Qed.

Lemma all_space_drop : forall n w, all_space w = true -> all_space (drop n w) = true.
Proof.
  induction n as [|n IH]; intros w H; [exact H|]. destruct w as [|a w]; [reflexivity|].
  simpl in H. apply andb_prop in H. simpl. apply IH. tauto.
Qed.

Lemma Rx_dedent_line : forall base l l', Rx l l' -> Rx (dedent_line base l) (dedent_line base l').
Proof.
  intros base l l' H. pose proof (Rx_blank _ _ H) as Hb. pose proof (Rx_indent _ _ H) as Hind.
  unfold dedent_line. rewrite Hb, Hind.
  destruct (is_blank l) eqn:Eb; [exact H|]. destruct (base <=? indent_of l) eqn:El; [|exact H].
  destruct H as [->|(ind & B & B' & t & t' & Hi & Ht & Ht' & HP & -> & ->)]; [apply Rx_refl|].
  destruct (hp_strip _ _ HP) as [Hs [Hs' [Hn Hn']]].
  change (indent_of (ind ++ B ++ t)) with (ws_run (ind ++ B ++ t)) in El.
  rewrite (ws_run_mid ind B t Hi Hs Hn) in El. apply Nat.leb_le in El.
  rewrite !drop_app_le by exact El.
  right. exists (drop base ind), B, B', t, t'. repeat split; try assumption. apply all_space_drop. exact Hi.
Qed.

Lemma Rx_base_indent : forall ls ls', Forall2 Rx ls ls' -> base_indent ls' = base_indent ls.
Proof.
  intros ls ls' F. induction F as [|l l' r r' H F IH]; [reflexivity|].
  simpl. rewrite (Rx_blank _ _ H), (Rx_indent _ _ H), IH. reflexivity.
Qed.

Lemma Forall2_Rx_map : forall f, (forall l l', Rx l l' -> Rx (f l) (f l')) ->
  forall ls ls', Forall2 Rx ls ls' -> Forall2 Rx (map f ls) (map f ls').
Proof. intros f Hf ls ls' F. induction F; simpl; constructor; auto. Qed.

Lemma Rx_dedent : forall ls ls', Forall2 Rx ls ls' ->
  Forall2 Rx (detect_and_strip_indentation ls) (detect_and_strip_indentation ls').
Proof.
  intros ls ls' F. unfold detect_and_strip_indentation. rewrite (Rx_base_indent _ _ F).
  destruct (base_indent ls) as [b|]; [|exact F]. apply Forall2_Rx_map; [|exact F].
  intros l l'. apply Rx_dedent_line.
Qed.

(* strip of either side of a changed pair *)
Lemma Rx_strip : forall l l', Rx l l' ->
  l = l' \/ (hdr_pair (strip l) (strip l') /\ ws_run l' = ws_run l /\
             take (ws_run l) l' = take (ws_run l) l /\ all_space (take (ws_run l) l) = true).
Proof.
  intros l l' [->|(ind & B & B' & t & t' & Hi & Ht & Ht' & HP & -> & ->)]; [left; reflexivity|]. right.
  destruct (hp_strip _ _ HP) as [Hs [Hs' [Hn Hn']]].
  rewrite (strip_mid ind B t Hi Ht Hs Hn), (strip_mid ind B' t' Hi Ht' Hs' Hn').
  rewrite (ws_run_mid ind B t Hi Hs Hn), (ws_run_mid ind B' t' Hi Hs' Hn').
  rewrite !take_app_len. repeat split; assumption.
Qed.

(* ------------------------------------------------------------------------------------------- *)
(* brackets: the scanner of extract_multiline_expression cannot tell the two forms apart       *)
(* ------------------------------------------------------------------------------------------- *)

Fixpoint nobr (s : string) : bool :=
  match s with
  | EmptyString => true
  | String c r => negb (is_opener c) && match closer_of c with None => true | Some _ => false end && nobr r
  end.

Lemma sb_skip : forall p s st, nobr p = true -> scan_brackets (p ++ s) st = scan_brackets s st.
Proof.
  induction p as [|c p IH]; intros s st H; [reflexivity|].
  simpl in H. apply andb_prop in H. destruct H as [H Hp]. apply andb_prop in H. destruct H as [H1 H2].
  apply negb_true_iff in H1. cbn [append scan_brackets]. rewrite H1.
  destruct (closer_of c); [discriminate|]. apply IH. exact Hp.
Qed.

Lemma sb_nobr : forall q st, nobr q = true -> scan_brackets q st = st.
Proof. intros q st H. rewrite <- (LexProofs.app_nil_r q). rewrite (sb_skip q "" st H). reflexivity. Qed.

Lemma sb_tail : forall m q st, nobr q = true -> scan_brackets (m ++ q) st = scan_brackets m st.
Proof.
  induction m as [|c m IH]; intros q st H; [simpl; apply sb_nobr; exact H|].
  cbn [append scan_brackets]. destruct (is_opener c); [apply IH; exact H|].
  destruct (closer_of c) as [o|]; [|apply IH; exact H].
  destruct st as [|t st']; [reflexivity|]. destruct (ch t o); [apply IH; exact H|reflexivity].
Qed.

Lemma space_nobr : forall c, is_space c = true ->
  is_opener c = false /\ closer_of c = None.
Proof.
  intros c H. destruct c as [b0 b1 b2 b3 b4 b5 b6 b7].
  destruct b0, b1, b2, b3, b4, b5, b6, b7; vm_compute in H; try discriminate; split; reflexivity.
Qed.

Lemma all_space_nobr : forall w, all_space w = true -> nobr w = true.
Proof.
  induction w as [|a w IH]; intros H; [reflexivity|]. simpl in H. apply andb_prop in H. destruct H as [Ha Hw].
  destruct (space_nobr a Ha) as [H1 H2]. simpl. rewrite H1, H2, (IH Hw). reflexivity.
Qed.

Lemma nobr_app : forall a b, nobr a = true -> nobr b = true -> nobr (a ++ b) = true.
Proof.
  induction a as [|x a IH]; intros b Ha Hb; [exact Hb|]. simpl in Ha |- *.
  apply andb_prop in Ha. destruct Ha as [H Ha]. rewrite H. simpl. apply IH; assumption.
Qed.

Lemma hp_mid : forall B B', hdr_pair B B' -> exists p p' m q q',
  B = p ++ m ++ q /\ B' = p' ++ m ++ q' /\ nobr p = true /\ nobr p' = true /\ nobr q = true /\ nobr q' = true.
Proof.
  intros B B' H. destruct H.
  - exists "<<if ", "@if ", c, ">>", ":". repeat split; reflexivity.
  - exists "<<elif ", "@elif ", c, ">>", ":". repeat split; reflexivity.
  - exists "<<else>>", "@else:", "", "", "". repeat split; reflexivity.
  - exists "<<endif>>", "@endif", "", "", "". repeat split; reflexivity.
  - exists "<<for ", "@for ", m, ">>", ":". repeat split; reflexivity.
  - exists "<<endfor>>", "@endfor", "", "", "". repeat split; reflexivity.
Qed.

Lemma Rx_scan : forall l l' st, Rx l l' -> scan_brackets l' st = scan_brackets l st.
Proof.
  intros l l' st [->|(ind & B & B' & t & t' & Hi & Ht & Ht' & HP & -> & ->)]; [reflexivity|].
  destruct (hp_mid _ _ HP) as (p & p' & m & q & q' & -> & -> & Hp & Hp' & Hq & Hq').
  rewrite !(sb_skip ind) by (apply all_space_nobr; assumption).
  rewrite !LexProofs.app_assoc. rewrite (sb_skip p) by exact Hp. rewrite (sb_skip p') by exact Hp'.
  rewrite (sb_tail m (q ++ t)) by (apply nobr_app; [exact Hq|apply all_space_nobr; exact Ht]).
  rewrite (sb_tail m (q' ++ t')) by (apply nobr_app; [exact Hq'|apply all_space_nobr; exact Ht']).
  reflexivity.
Qed.

Lemma Rx_eme_count : forall r r', Forall2 Rx r r' -> forall st, eme_count r' st = eme_count r st.
Proof.
  intros r r' F. induction F as [|l l' r r' H F IH]; intros st; [reflexivity|].
  cbn [eme_count]. destruct st as [|t st]; [reflexivity|]. rewrite (Rx_scan l l' _ H).
  destruct (scan_brackets l (t :: st)); [reflexivity|]. rewrite IH. reflexivity.
Qed.
